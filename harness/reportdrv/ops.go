package main

import (
	"bufio"
	"encoding/json"
	"fmt"
	"reflect"
	"sync/atomic"

	"google.golang.org/protobuf/proto"

	"github.com/bufbuild/protocompile/experimental/report"
	"github.com/bufbuild/protocompile/experimental/source"
)

type opStep struct {
	Op    string          `json:"op"`
	Arg   json.RawMessage `json:"arg"`
	After []aDiag         `json:"after"`
}
type opsCase struct {
	Kind  string   `json:"kind"`
	Files []aFile  `json:"files"`
	Ops   []opStep `json:"ops"`
}

// filesOf collects the file objects the report's annotations point into.
func filesOf(r *report.Report) map[string]*source.File {
	out := map[string]*source.File{}
	for i := range r.Diagnostics {
		sn := rfield(reflect.ValueOf(&r.Diagnostics[i]).Elem(), "snippets")
		for k := 0; k < sn.Len(); k++ {
			span := rfield(sn.Index(k), "Span").Interface().(source.Span)
			if span.File != nil {
				out[span.File.Path()] = span.File
			}
		}
	}
	return out
}

// runOps replays MCReportOps behaviours: each operation is performed on the real report and the
// projection is compared with the specification's state after EVERY step.
func runOps(in *bufio.Scanner, sk *sink) {
	var n, steps atomic.Int64
	pump(in, func(raw []byte) {
		if kindOf(raw) != "ops" {
			harnessFail("ops: unexpected case kind")
		}
		var c opsCase
		if err := json.Unmarshal(raw, &c); err != nil {
			harnessFail("bad ops case: " + err.Error())
		}
		n.Add(1)
		defer func() {
			if r := recover(); r != nil {
				sk.report("ops:panic", fmt.Sprint(r), raw)
			}
		}()
		fs := newFileSet(c.Files)
		r := &report.Report{}
		for i, st := range c.Ops {
			steps.Add(1)
			cls := ""
			switch st.Op {
			case "push":
				var ds []aDiag
				if err := json.Unmarshal(st.Arg, &ds); err != nil || len(ds) != 1 {
					harnessFail("ops: bad push argument")
				}
				pushDiag(r, ds[0], fs)
				r.Stage = 0
				cls = "ops:build"
			case "permute":
				var p []int
				if err := json.Unmarshal(st.Arg, &p); err != nil || len(p) != len(r.Diagnostics) {
					harnessFail("ops: bad permutation")
				}
				nd := make([]report.Diagnostic, len(p))
				for k, src := range p {
					nd[k] = r.Diagnostics[src-1]
				}
				r.Diagnostics = nd
				cls = "ops:build"
			case "canonicalize", "canonicalize-keep":
				r.KeepDuplicates = st.Op == "canonicalize-keep"
				r.Canonicalize()
				cls = "ops:canon"
			case "roundtrip":
				b, err := proto.Marshal(r.ToProto())
				if err != nil {
					sk.report("ops:roundtrip:marshal", err.Error(), raw)
					return
				}
				r2 := &report.Report{}
				if err := r2.AppendFromProto(func(m proto.Message) error { return proto.Unmarshal(b, m) }); err != nil {
					sk.report("ops:roundtrip:rejected", fmt.Sprintf("step %d: %v", i, err), raw)
					return
				}
				r = r2
				// Spans compare by file identity: later pushes must point into the decoded
				// files (the specification identifies a file with its path).
				for path, f := range filesOf(r) {
					fs[path] = f
				}
				cls = "ops:roundtrip"
			default:
				harnessFail("ops: unknown operation " + st.Op)
			}
			want := make([]cDiag, len(st.After))
			for k, d := range st.After {
				want[k] = concreteDiag(d, fs)
			}
			// decoded files are new objects: compare by content (projection does)
			if f := diffReport(projectReport(r), want, true); f != "" {
				if cls == "ops:build" {
					harnessFail(fmt.Sprintf("ops: step %d (%s) of the harness itself went wrong: %s", i, st.Op, f))
				}
				sk.report(cls+":"+firstWord(f), fmt.Sprintf("after step %d (%s): %s", i, st.Op, f), raw)
				return
			}
		}
	})
	stats(map[string]any{"cases": n.Load(), "steps": steps.Load(), "classes": sk.perClass})
}
