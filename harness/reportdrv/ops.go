package main

import "bufio"

func runOps(in *bufio.Scanner, sk *sink) {
	harnessFail("ops mode not implemented yet")
}
