package main

import (
	"bufio"
	"context"
	"encoding/json"
	"flag"
	"fmt"
	"hash/fnv"
	"runtime"
	"sort"
	"strconv"
	"strings"
	"sync"
	"sync/atomic"
	"time"

	"github.com/bufbuild/protocompile/experimental/incremental"
	"github.com/bufbuild/protocompile/experimental/incremental/queries"
	"github.com/bufbuild/protocompile/experimental/ir"
	"github.com/bufbuild/protocompile/experimental/report"
	"github.com/bufbuild/protocompile/experimental/source"
)

type wsFile struct {
	Name    string   `json:"name"`
	Imports []string `json:"imports"`
	Missing bool     `json:"missing"`
	Kind    string   `json:"kind"`
}
type wsExpect struct {
	File string `json:"file"`
	Kind string `json:"kind"`
}
type wsCase struct {
	Kind    string     `json:"kind"`
	Files   []wsFile   `json:"files"`
	Rev     bool       `json:"rev"`
	Cyclic  bool       `json:"cyclic"`
	Self    bool       `json:"selfimport"`
	Tainted []string   `json:"tainted"`
	Expect  []wsExpect `json:"expect"`
}

// renderFile turns the abstract file into .proto text.
func renderFile(f wsFile) string {
	var sb strings.Builder
	sb.WriteString("syntax = \"proto3\";\npackage p;\n")
	imps := append([]string(nil), f.Imports...)
	sort.Strings(imps)
	for _, i := range imps {
		fmt.Fprintf(&sb, "import \"%s.proto\";\n", i)
	}
	if f.Missing {
		fmt.Fprintf(&sb, "import \"missing_%s.proto\";\n", f.Name)
	}
	fmt.Fprintf(&sb, "message M_%s {\n", f.Name)
	for n, i := range imps {
		fmt.Fprintf(&sb, "  M_%s f_%s = %d;\n", i, i, n+1)
	}
	sb.WriteString("}\n")
	switch f.Kind {
	case "ok":
	case "unknown":
		fmt.Fprintf(&sb, "message U_%s { Nope_%s x = 1; }\n", f.Name, f.Name)
	case "dup":
		fmt.Fprintf(&sb, "message D_%s {}\nmessage D_%s {}\n", f.Name, f.Name)
	case "syntax":
		fmt.Fprintf(&sb, "message S_%s { int32 x 1; }\n", f.Name)
	case "shared":
		sb.WriteString("message Shared {}\n")
	default:
		harnessFail("unknown file kind " + f.Kind)
	}
	return sb.String()
}

// jitterOpener delays Open calls by a seed-determined pseudo-random amount: a legitimate
// (slow I/O) way to perturb the schedule through the public API.  Pointer receiver: comparable.
type jitterOpener struct {
	inner source.Opener
	seed  uint64
	calls atomic.Uint64
	maxUS int
}

func (j *jitterOpener) Open(path string) (*source.File, error) {
	if j.maxUS > 0 {
		h := fnv.New64a()
		fmt.Fprintf(h, "%d/%s/%d", j.seed, path, j.calls.Add(1))
		us := int(h.Sum64() % uint64(j.maxUS+1))
		switch {
		case us%3 == 0:
			runtime.Gosched()
		default:
			time.Sleep(time.Duration(us) * time.Microsecond)
		}
	}
	return j.inner.Open(path)
}

type runResult struct {
	fp     string // rendering + projection
	render string
	n      int
	err    string
	diags  []cDiag
}

func compileOnce(c *wsCase, texts map[string]string, order []string, par int, seed uint64, jitterUS int, timeout time.Duration) runResult {
	done := make(chan runResult, 1)
	go func() {
		var res runResult
		defer func() {
			if r := recover(); r != nil {
				res.err = "panic: " + firstLine(fmt.Sprint(r))
			}
			done <- res
		}()
		m := source.NewMap(nil)
		for p, t := range texts {
			m.Add(p, t)
		}
		op := &jitterOpener{inner: &source.Openers{m, source.WKTs()}, seed: seed, maxUS: jitterUS}
		exec := incremental.New(incremental.WithParallelism(int64(par)))
		ctx, cancel := context.WithTimeout(context.Background(), timeout)
		defer cancel()
		_, rep, err := incremental.Run(ctx, exec, queries.Link{
			Opener: op, Session: new(ir.Session), Workspace: source.NewWorkspace(order...),
		})
		if err != nil {
			res.err = "run error: " + firstLine(err.Error())
			return
		}
		res.diags = projectReport(rep)
		res.n = len(res.diags)
		res.render, _ = renderReport(rep)
		b, _ := json.Marshal(res.diags)
		res.fp = res.render + "\x00" + string(b)
	}()
	select {
	case r := <-done:
		return r
	case <-time.After(timeout + 10*time.Second):
		return runResult{err: "hang: Run did not return after its context expired"}
	}
}

func firstLine(s string) string {
	if i := strings.IndexByte(s, '\n'); i >= 0 {
		return s[:i]
	}
	return s
}

// observedKinds extracts the (file, defect) pairs the spec talks about from a report.
func observedKinds(ds []cDiag, c *wsCase) map[wsExpect]int {
	out := map[wsExpect]int{}
	for _, d := range ds {
		pf := ""
		line := ""
		for _, a := range d.Anns {
			if a.Primary {
				pf = strings.TrimSuffix(a.Path, ".proto")
				ls := strings.LastIndexByte(a.Text[:a.Start], '\n') + 1
				le := strings.IndexByte(a.Text[a.Start:], '\n')
				if le < 0 {
					le = len(a.Text)
				} else {
					le += a.Start
				}
				line = a.Text[ls:le]
				break
			}
		}
		switch {
		case strings.Contains(d.Msg, "`Shared`"):
			out[wsExpect{"*", "shared"}]++
		case strings.Contains(d.Msg, "Nope_"+pf) && pf != "":
			out[wsExpect{pf, "unknown"}]++
		case strings.Contains(d.Msg, "`D_"+pf+"`") && pf != "":
			out[wsExpect{pf, "dup"}]++
		case strings.Contains(d.Msg, "imported file does not exist"):
			out[wsExpect{pf, "missing"}]++
		case strings.Contains(line, "message S_"+pf+" ") && pf != "":
			out[wsExpect{pf, "syntax"}]++
		}
	}
	return out
}

func firstDiff(a, b string) string {
	la, lb := strings.Split(a, "\n"), strings.Split(b, "\n")
	for i := 0; i < len(la) || i < len(lb); i++ {
		var x, y string
		if i < len(la) {
			x = la[i]
		}
		if i < len(lb) {
			y = lb[i]
		}
		if x != y {
			return fmt.Sprintf("line %d: %q vs %q", i+1, x, y)
		}
	}
	return "(projection differs, rendering equal)"
}

func runWS(in *bufio.Scanner, sk *sink, args []string) {
	fl := flag.NewFlagSet("ws", flag.ExitOnError)
	parsS := fl.String("pars", "1,2,3,4,5,6,7,8,9,10,11,12,13,14,15,16", "parallelism values")
	reps := fl.Int("reps", 2, "repetitions per parallelism")
	workers := fl.Int("workers", 8, "cases compiled concurrently")
	seed := fl.Uint64("seed", 1, "perturbation seed")
	jitter := fl.Int("jitter", 200, "max Open() delay in microseconds (odd repetitions only)")
	timeoutS := fl.Int("timeout", 30, "per-compile timeout, seconds")
	_ = fl.Parse(args)
	var pars []int
	for _, p := range strings.Split(*parsS, ",") {
		n, err := strconv.Atoi(strings.TrimSpace(p))
		if err != nil || n < 1 {
			harnessFail("bad -pars")
		}
		pars = append(pars, n)
	}
	type job struct {
		raw []byte
		c   wsCase
		no  int
	}
	jobs := make(chan job, 64)
	var mu sync.Mutex
	var nCases, nRuns, nCyclic, nDiffCases, nDiags int64
	var wg sync.WaitGroup
	for w := 0; w < *workers; w++ {
		wg.Add(1)
		go func() {
			defer wg.Done()
			for j := range jobs {
				c := &j.c
				texts := map[string]string{}
				var order []string
				for _, f := range c.Files {
					texts[f.Name+".proto"] = renderFile(f)
					order = append(order, f.Name+".proto")
				}
				if c.Rev {
					for a, b := 0, len(order)-1; a < b; a, b = a+1, b-1 {
						order[a], order[b] = order[b], order[a]
					}
				}
				feature := "acyclic"
				if c.Cyclic {
					feature = "cyclic-import-graph"
				}
				var base runResult
				var diffs []string
				type runErr struct{ kind, msg string }
				var errs []runErr
				runs := 0
				for pi, par := range pars {
					for rep := 0; rep < *reps; rep++ {
						jit := 0
						if rep%2 == 1 {
							jit = *jitter
						}
						s := *seed*1000003 + uint64(j.no)*7919 + uint64(par)*131 + uint64(rep)
						res := compileOnce(c, texts, order, par, s, jit, time.Duration(*timeoutS)*time.Second)
						runs++
						if res.err != "" {
							kind := "error"
							switch {
							case strings.HasPrefix(res.err, "hang"):
								kind = "hang"
							case strings.HasPrefix(res.err, "panic"):
								kind = "panic"
							}
							errs = append(errs, runErr{kind, fmt.Sprintf("par=%d rep=%d %s", par, rep, res.err)})
							continue
						}
						if pi == 0 && rep == 0 {
							base = res
							continue
						}
						if base.fp == "" {
							base = res
							continue
						}
						if res.fp != base.fp && len(diffs) < 4 {
							diffs = append(diffs, fmt.Sprintf("par=%d rep=%d (%d diagnostics) differs from par=%d rep=0 (%d diagnostics): %s",
								par, rep, res.n, pars[0], base.n, firstDiff(base.render, res.render)))
						} else if res.fp != base.fp {
							diffs = append(diffs, "")
						}
					}
				}
				mu.Lock()
				nCases++
				nRuns += int64(runs)
				nDiags += int64(base.n)
				if c.Cyclic {
					nCyclic++
				}
				for _, e := range errs {
					cls := "schedule:" + e.kind + ":"
					sk.report(cls+feature, e.msg, j.raw)
				}
				if len(diffs) > 0 {
					nDiffCases++
					sk.report("schedule:"+feature, fmt.Sprintf("%d of %d runs differ; %s", len(diffs), runs, strings.Join(nonEmpty(diffs), " ;; ")), j.raw)
				}
				// the workspace is invalid in the way the spec says (acyclic only): renderer sanity
				if !c.Cyclic && base.fp != "" {
					obs := observedKinds(base.diags, c)
					for _, e := range c.Expect {
						if obs[e] == 0 {
							sk.report("expectation:missing-diagnostic:"+e.Kind, fmt.Sprintf("expected a %q diagnostic for file %s; report has %d diagnostics", e.Kind, e.File, base.n), j.raw)
						}
						delete(obs, e)
					}
					for e := range obs {
						sk.report("expectation:unexpected-diagnostic:"+e.Kind, fmt.Sprintf("unexpected %q diagnostic for file %s", e.Kind, e.File), j.raw)
					}
				}
				mu.Unlock()
			}
		}()
	}
	no := 0
	for in.Scan() {
		raw := append([]byte(nil), in.Bytes()...)
		if kindOf(raw) != "ws" {
			harnessFail("ws: unexpected case kind")
		}
		var c wsCase
		if err := json.Unmarshal(raw, &c); err != nil {
			harnessFail("bad ws case: " + err.Error())
		}
		no++
		jobs <- job{raw: raw, c: c, no: no}
	}
	close(jobs)
	wg.Wait()
	stats(map[string]any{"cases": nCases, "compiles": nRuns, "cyclic_cases": nCyclic, "cases_with_differences": nDiffCases,
		"diagnostics_in_baselines": nDiags, "pars": pars, "reps": *reps, "classes": sk.perClass})
}

func nonEmpty(ss []string) []string {
	var out []string
	for _, s := range ss {
		if s != "" {
			out = append(out, s)
		}
	}
	return out
}

var _ = report.Error
