package main

import (
	"bufio"
	"context"
	"encoding/json"
	"flag"
	"fmt"
	"hash/fnv"
	"runtime"
	"sort"
	"strconv"
	"strings"
	"sync"
	"sync/atomic"
	"time"

	"github.com/bufbuild/protocompile/experimental/incremental"
	"github.com/bufbuild/protocompile/experimental/incremental/queries"
	"github.com/bufbuild/protocompile/experimental/ir"
	"github.com/bufbuild/protocompile/experimental/report"
	"github.com/bufbuild/protocompile/experimental/source"
)

type wsFile struct {
	Name    string   `json:"name"`
	Imports []string `json:"imports"`
	Missing bool     `json:"missing"`
	Kind    string   `json:"kind"`
	InWs    bool     `json:"inws"`
}
type wsExpect struct {
	File string `json:"file"`
	Kind string `json:"kind"`
}
type wsCase struct {
	Kind      string     `json:"kind"`
	Files     []wsFile   `json:"files"`
	Rev       bool       `json:"rev"`
	Cyclic    bool       `json:"cyclic"`
	Self      bool       `json:"selfimport"`
	Tainted   []string   `json:"tainted"`
	Compiled  []string   `json:"compiled"`
	Expect    []wsExpect `json:"expect"`
	Unsettled []string   `json:"unsettled"`
	Pinned    bool       `json:"pinned"`
}

// Paths are longer than five characters on purpose: short strings are stored inline by the
// compiler's intern table, longer ones get ids in first-come order.
func pathOf(name string) string { return "file_" + name + ".proto" }

const extBasePath = "extension_base.proto"

// Every generated file imports one private, valid helper file.  The executor opens a file's
// imports from that file's own IR query, so holding back the helper is how the schedule half
// delays exactly one file's lowering (opening the file itself happens in its importer).
func depPathOf(name string) string { return "helper_" + name + ".proto" }
func depText(name string) string {
	return "syntax = \"proto2\";\npackage p;\nmessage Helper_" + name + " {}\n"
}

// renderFile turns the abstract file into .proto text (proto2, one package).
func renderFile(f wsFile) string {
	var sb strings.Builder
	sb.WriteString("syntax = \"proto2\";\npackage p;\n")
	imps := append([]string(nil), f.Imports...)
	sort.Strings(imps)
	for _, i := range imps {
		fmt.Fprintf(&sb, "import \"%s\";\n", pathOf(i))
	}
	if f.Missing {
		fmt.Fprintf(&sb, "import \"missing_%s.proto\";\n", f.Name)
	}
	if f.Kind == "extclash" {
		fmt.Fprintf(&sb, "import \"%s\";\n", extBasePath)
	}
	fmt.Fprintf(&sb, "import \"%s\";\n", depPathOf(f.Name))
	fmt.Fprintf(&sb, "message M_%s {\n", f.Name)
	fmt.Fprintf(&sb, "  optional Helper_%s helper = 15;\n", f.Name)
	for n, i := range imps {
		fmt.Fprintf(&sb, "  optional M_%s f_%s = %d;\n", i, i, n+1)
	}
	sb.WriteString("}\n")
	switch f.Kind {
	case "ok":
	case "unknown":
		fmt.Fprintf(&sb, "message U_%s { optional Nope_%s x = 1; }\n", f.Name, f.Name)
	case "dup":
		fmt.Fprintf(&sb, "message D_%s {}\nmessage D_%s {}\n", f.Name, f.Name)
	case "syntax":
		fmt.Fprintf(&sb, "message S_%s { optional int32 x 1; }\n", f.Name)
	case "shared":
		sb.WriteString("message Shared {}\n")
	case "extclash":
		fmt.Fprintf(&sb, "extend ExtBase { optional int32 ext_%s = 100; }\n", f.Name)
	default:
		harnessFail("unknown file kind " + f.Kind)
	}
	return sb.String()
}

const extBaseText = "syntax = \"proto2\";\npackage p;\nmessage ExtBase { extensions 100 to max; }\n"

// schedOpener perturbs the schedule through the public API only:
//   - jitter: seed-determined small delays / yields in Open;
//   - hold:   opening one chosen path blocks until the IR queries of a given set of other files
//     have completed (observed through Executor.Keys), i.e. that file is lowered LAST among the
//     files that do not depend on it.
//
// Pointer receiver: comparable, as Opener implementations must be.
type schedOpener struct {
	inner source.Opener
	seed  uint64
	calls atomic.Uint64
	maxUS int

	hold      string   // path whose opening is held back ("" = none)
	waitFor   []string // paths whose IR query must have completed first
	exec      *incremental.Executor
	holdLimit time.Duration
	timedOut  atomic.Bool
}

func irDone(exec *incremental.Executor, keys []string, path string) bool {
	needle := `path:"` + path + `"` // only the IR query's key has a lowercase "path" field
	for _, k := range keys {
		if strings.Contains(k, needle) {
			return true
		}
	}
	return false
}

func (j *schedOpener) Open(path string) (*source.File, error) {
	if j.maxUS > 0 {
		h := fnv.New64a()
		fmt.Fprintf(h, "%d/%s/%d", j.seed, path, j.calls.Add(1))
		us := int(h.Sum64() % uint64(j.maxUS+1))
		if us%3 == 0 {
			runtime.Gosched()
		} else {
			time.Sleep(time.Duration(us) * time.Microsecond)
		}
	}
	if path == j.hold && len(j.waitFor) > 0 {
		deadline := time.Now().Add(j.holdLimit)
		for {
			keys := j.exec.Keys()
			all := true
			for _, w := range j.waitFor {
				if !irDone(j.exec, keys, w) {
					all = false
					break
				}
			}
			if all {
				break
			}
			if time.Now().After(deadline) {
				j.timedOut.Store(true)
				break
			}
			time.Sleep(100 * time.Microsecond)
		}
	}
	return j.inner.Open(path)
}

type runResult struct {
	fp     string // rendering + projection
	render string
	n      int
	err    string
	diags  []cDiag
	heldTO bool
}

type variant struct {
	par     int
	jitter  int
	hold    string   // path held back
	waitFor []string // until these are lowered
	warm    string   // path compiled (IR query) by an earlier Run on the same executor/session
	label   string
}

func compileOnce(texts map[string]string, order []string, v variant, seed uint64, timeout time.Duration) runResult {
	done := make(chan runResult, 1)
	go func() {
		var res runResult
		defer func() {
			if r := recover(); r != nil {
				res.err = "panic: " + firstLine(fmt.Sprint(r))
			}
			done <- res
		}()
		m := source.NewMap(nil)
		for p, t := range texts {
			m.Add(p, t)
		}
		exec := incremental.New(incremental.WithParallelism(int64(v.par)))
		op := &schedOpener{inner: &source.Openers{m, source.WKTs()}, seed: seed, maxUS: v.jitter,
			hold: v.hold, waitFor: v.waitFor, exec: exec, holdLimit: 250 * time.Millisecond}
		session := new(ir.Session)
		ctx, cancel := context.WithTimeout(context.Background(), timeout)
		defer cancel()
		if v.warm != "" {
			// warm cache: an earlier Run on the same executor and session compiled one file
			if _, _, err := incremental.Run(ctx, exec, queries.IR{Opener: op, Session: session, Path: v.warm}); err != nil {
				res.err = "run error (warm-up): " + firstLine(err.Error())
				return
			}
		}
		_, rep, err := incremental.Run(ctx, exec, queries.Link{
			Opener: op, Session: session, Workspace: source.NewWorkspace(order...),
		})
		if err != nil {
			res.err = "run error: " + firstLine(err.Error())
			return
		}
		res.heldTO = op.timedOut.Load()
		res.diags = projectReport(rep)
		res.n = len(res.diags)
		res.render, _ = renderReport(rep)
		b, _ := json.Marshal(res.diags)
		res.fp = res.render + "\x00" + string(b)
	}()
	select {
	case r := <-done:
		return r
	case <-time.After(timeout + 10*time.Second):
		return runResult{err: "hang: Run did not return after its context expired"}
	}
}

func firstLine(s string) string {
	if i := strings.IndexByte(s, '\n'); i >= 0 {
		return s[:i]
	}
	return s
}

// observedKinds extracts the (file, defect) pairs the spec talks about from a report.
func observedKinds(ds []cDiag) map[wsExpect]int {
	out := map[wsExpect]int{}
	for _, d := range ds {
		pf := ""
		line := ""
		for _, a := range d.Anns {
			if a.Primary {
				pf = strings.TrimSuffix(strings.TrimPrefix(a.Path, "file_"), ".proto")
				ls := strings.LastIndexByte(a.Text[:a.Start], '\n') + 1
				le := strings.IndexByte(a.Text[a.Start:], '\n')
				if le < 0 {
					le = len(a.Text)
				} else {
					le += a.Start
				}
				line = a.Text[ls:le]
				break
			}
		}
		switch {
		case strings.Contains(d.Msg, "`Shared`"):
			out[wsExpect{"*", "shared"}]++
		case strings.Contains(line, "extend ExtBase") || strings.Contains(d.Msg, "ExtBase"):
			out[wsExpect{"*", "extclash"}]++
		case strings.Contains(d.Msg, "Nope_"+pf) && pf != "":
			out[wsExpect{pf, "unknown"}]++
		case strings.Contains(d.Msg, "`D_"+pf+"`") && pf != "":
			out[wsExpect{pf, "dup"}]++
		case strings.Contains(d.Msg, "imported file does not exist"):
			out[wsExpect{pf, "missing"}]++
		case strings.Contains(line, "message S_"+pf+" ") && pf != "":
			out[wsExpect{pf, "syntax"}]++
		}
	}
	return out
}

func firstDiff(a, b string) string {
	la, lb := strings.Split(a, "\n"), strings.Split(b, "\n")
	for i := 0; i < len(la) || i < len(lb); i++ {
		var x, y string
		if i < len(la) {
			x = la[i]
		}
		if i < len(lb) {
			y = lb[i]
		}
		if x != y {
			return fmt.Sprintf("line %d: %q vs %q", i+1, x, y)
		}
	}
	return "(projection differs, rendering equal)"
}

// holdPlan: when `held` is opened last, which files' IR queries can have completed before?  Those
// reachable from the workspace without going through `held` that do not themselves depend on it.
func holdPlan(c *wsCase, held string) []string {
	imports := map[string][]string{}
	inws := []string{}
	for _, f := range c.Files {
		imports[f.Name] = f.Imports
		if f.Kind == "extclash" {
			imports[f.Name] = append(append([]string(nil), f.Imports...), "@extbase")
		}
		if f.InWs {
			inws = append(inws, f.Name)
		}
	}
	// reachable from the workspace avoiding `held`
	reach := map[string]bool{}
	var walk func(n string)
	walk = func(n string) {
		if n == held || reach[n] {
			return
		}
		reach[n] = true
		for _, i := range imports[n] {
			walk(i)
		}
	}
	for _, w := range inws {
		walk(w)
	}
	// depends on held (transitively)?
	memo := map[string]int{}
	var dep func(n string) bool
	dep = func(n string) bool {
		if n == held {
			return true
		}
		if v, ok := memo[n]; ok {
			return v == 1
		}
		memo[n] = 0
		for _, i := range imports[n] {
			if dep(i) {
				memo[n] = 1
				return true
			}
		}
		return false
	}
	var out []string
	for n := range reach {
		if !dep(n) {
			if n == "@extbase" {
				out = append(out, extBasePath)
			} else {
				out = append(out, pathOf(n))
			}
		}
	}
	sort.Strings(out)
	return out
}

func runWS(in *bufio.Scanner, sk *sink, args []string) {
	fl := flag.NewFlagSet("ws", flag.ExitOnError)
	parsS := fl.String("pars", "1,2,3,4,5,6,7,8,9,10,11,12,13,14,15,16", "parallelism values")
	reps := fl.Int("reps", 2, "plain repetitions per parallelism (odd ones with Opener jitter)")
	holdParsS := fl.String("holdpars", "4,16", "parallelism values for the hold-one-file-back variants")
	workers := fl.Int("workers", 8, "cases compiled concurrently")
	seed := fl.Uint64("seed", 1, "perturbation seed")
	jitter := fl.Int("jitter", 200, "max Open() delay in microseconds (odd repetitions only)")
	timeoutS := fl.Int("timeout", 30, "per-compile timeout, seconds")
	_ = fl.Parse(args)
	parseList := func(s string) []int {
		var out []int
		for _, p := range strings.Split(s, ",") {
			if strings.TrimSpace(p) == "" {
				continue
			}
			n, err := strconv.Atoi(strings.TrimSpace(p))
			if err != nil || n < 1 {
				harnessFail("bad parallelism list " + s)
			}
			out = append(out, n)
		}
		return out
	}
	pars, holdPars := parseList(*parsS), parseList(*holdParsS)
	type job struct {
		raw []byte
		c   wsCase
		no  int
	}
	jobs := make(chan job, 64)
	var mu sync.Mutex
	var nCases, nRuns, nCyclic, nDiffCases, nDiags, nHoldRuns, nHoldTimeouts, nWarmRuns, nPinned int64
	var wg sync.WaitGroup
	for w := 0; w < *workers; w++ {
		wg.Add(1)
		go func() {
			defer wg.Done()
			for j := range jobs {
				c := &j.c
				texts := map[string]string{}
				var order []string
				hasExt := false
				for _, f := range c.Files {
					texts[pathOf(f.Name)] = renderFile(f)
					texts[depPathOf(f.Name)] = depText(f.Name)
					if f.InWs {
						order = append(order, pathOf(f.Name))
					}
					hasExt = hasExt || f.Kind == "extclash"
				}
				if hasExt {
					texts[extBasePath] = extBaseText
				}
				if len(order) == 0 {
					harnessFail("ws case without workspace files")
				}
				if c.Rev {
					for a, b := 0, len(order)-1; a < b; a, b = a+1, b-1 {
						order[a], order[b] = order[b], order[a]
					}
				}
				feature := "acyclic"
				if c.Cyclic {
					feature = "cyclic-import-graph"
				}
				// the variants: plain runs at every parallelism; for acyclic graphs additionally
				// "file X is lowered last" at the hold parallelisms and "file X was compiled by an
				// earlier Run" (warm cache)
				var variants []variant
				for _, par := range pars {
					for rep := 0; rep < *reps; rep++ {
						jit := 0
						if rep%2 == 1 {
							jit = *jitter
						}
						variants = append(variants, variant{par: par, jitter: jit, label: fmt.Sprintf("par=%d rep=%d", par, rep)})
					}
				}
				if !c.Cyclic {
					compiled := append([]string(nil), c.Compiled...)
					sort.Strings(compiled)
					for _, x := range compiled {
						wait := holdPlan(c, x)
						if len(wait) > 0 {
							for _, par := range holdPars {
								variants = append(variants, variant{par: par, hold: depPathOf(x), waitFor: wait,
									label: fmt.Sprintf("par=%d %s-lowered-last", par, pathOf(x))})
							}
						}
						variants = append(variants, variant{par: 1, warm: pathOf(x), label: "par=1 warm:" + pathOf(x)})
						variants = append(variants, variant{par: 4, warm: pathOf(x), label: "par=4 warm:" + pathOf(x)})
					}
				}
				var base runResult
				baseLabel := ""
				var diffs []string
				diffKinds := map[string]bool{}
				type runErr struct{ kind, msg string }
				var errs []runErr
				runs, holdRuns, holdTO, warmRuns := 0, 0, 0, 0
				for vi, v := range variants {
					s := *seed*1000003 + uint64(j.no)*7919 + uint64(vi)*131
					res := compileOnce(texts, order, v, s, time.Duration(*timeoutS)*time.Second)
					runs++
					if v.hold != "" {
						holdRuns++
						if res.heldTO {
							holdTO++
						}
					}
					if v.warm != "" {
						warmRuns++
					}
					if res.err != "" {
						kind := "error"
						switch {
						case strings.HasPrefix(res.err, "hang"):
							kind = "hang"
						case strings.HasPrefix(res.err, "panic"):
							kind = "panic"
						}
						errs = append(errs, runErr{kind, v.label + " " + res.err})
						continue
					}
					if base.fp == "" {
						base, baseLabel = res, v.label
						continue
					}
					if res.fp != base.fp {
						k := "schedule:" + feature
						if v.warm != "" {
							k = "schedule:warm-cache:" + feature
						}
						diffKinds[k] = true
						if len(diffs) < 4 {
							diffs = append(diffs, fmt.Sprintf("[%s] (%d diagnostics) differs from [%s] (%d diagnostics): %s",
								v.label, res.n, baseLabel, base.n, firstDiff(base.render, res.render)))
						} else {
							diffs = append(diffs, "")
						}
					}
				}
				mu.Lock()
				nCases++
				nRuns += int64(runs)
				nHoldRuns += int64(holdRuns)
				nHoldTimeouts += int64(holdTO)
				nWarmRuns += int64(warmRuns)
				nDiags += int64(base.n)
				if c.Cyclic {
					nCyclic++
				}
				if c.Pinned {
					nPinned++
				}
				for _, e := range errs {
					sk.report("schedule:"+e.kind+":"+feature, e.msg, j.raw)
				}
				if len(diffs) > 0 {
					nDiffCases++
					kinds := make([]string, 0, len(diffKinds))
					for k := range diffKinds {
						kinds = append(kinds, k)
					}
					sort.Strings(kinds)
					for _, k := range kinds {
						sk.report(k, fmt.Sprintf("%d of %d runs differ; %s", len(diffs), runs, strings.Join(nonEmpty(diffs), " ;; ")), j.raw)
					}
				}
				// the workspace is invalid in the way the spec says (acyclic only): renderer sanity
				if !c.Cyclic && base.fp != "" {
					unsettled := map[string]bool{}
					for _, k := range c.Unsettled {
						unsettled[k] = true
					}
					obs := observedKinds(base.diags)
					for _, e := range c.Expect {
						if obs[e] == 0 {
							sk.report("expectation:missing-diagnostic:"+e.Kind, fmt.Sprintf("expected a %q diagnostic for file %s; report has %d diagnostics", e.Kind, e.File, base.n), j.raw)
						}
						delete(obs, e)
					}
					for e := range obs {
						if unsettled[e.Kind] {
							continue
						}
						sk.report("expectation:unexpected-diagnostic:"+e.Kind, fmt.Sprintf("unexpected %q diagnostic for file %s", e.Kind, e.File), j.raw)
					}
				}
				mu.Unlock()
			}
		}()
	}
	no := 0
	for in.Scan() {
		raw := append([]byte(nil), in.Bytes()...)
		if kindOf(raw) != "ws" {
			harnessFail("ws: unexpected case kind")
		}
		var c wsCase
		if err := json.Unmarshal(raw, &c); err != nil {
			harnessFail("bad ws case: " + err.Error())
		}
		no++
		jobs <- job{raw: raw, c: c, no: no}
	}
	close(jobs)
	wg.Wait()
	stats(map[string]any{"cases": nCases, "compiles": nRuns, "cyclic_cases": nCyclic, "cases_with_differences": nDiffCases,
		"diagnostics_in_baselines": nDiags, "pars": pars, "reps": *reps, "hold_runs": nHoldRuns, "hold_timeouts": nHoldTimeouts,
		"warm_runs": nWarmRuns, "imported_only_clash_cases": nPinned, "classes": sk.perClass})
}

func nonEmpty(ss []string) []string {
	var out []string
	for _, s := range ss {
		if s != "" {
			out = append(out, s)
		}
	}
	return out
}

var _ = report.Error
