// Driver for C36 / C37 (engines/report.py).
//
//	reportdrv rt     < cases   C37: TLC-exported reports (MCReportRT)  -> ToProto / AppendFromProto
//	reportdrv canon  < cases   C36: TLC-exported lists + permutations (MCReportCanon) -> Canonicalize
//	reportdrv ops    < cases   C36/C37: TLC-exported operation sequences (MCReportOps), step by step
//	reportdrv ws     < cases   C36: TLC-exported invalid workspaces (MCDiagWorkspace) -> the real
//	                           experimental compiler at parallelism 1..N, repeated
//
// Every mode reads one JSON case per line and writes one JSON object per disagreement
// ({"class","detail","case"}); statistics go to stderr as "STATS {json}".
//
// Reports are built through the PUBLIC constructors only.  The fields of report.Diagnostic are
// unexported and there are no accessors for annotations / edits, so the projection used for
// comparison reads them with reflect+unsafe (read-only); a missing field is a harness failure
// (exit 2), never a verdict.
package main

import (
	"bufio"
	"encoding/json"
	"fmt"
	"os"
	"reflect"
	"runtime"
	"sort"
	"strings"
	"sync"
	"unsafe"

	"github.com/bufbuild/protocompile/experimental/report"
	"github.com/bufbuild/protocompile/experimental/source"
)

// ---------------------------------------------------------------------------------------------
// abstract (spec-side) shapes

type aFile struct {
	Path string   `json:"path"`
	Text []string `json:"text"`
}
type aEdit struct {
	Start   int    `json:"start"`
	End     int    `json:"end"`
	Replace string `json:"replace"`
}
type aAnn struct {
	Path    string  `json:"path"`
	Start   int     `json:"start"`
	End     int     `json:"end"`
	Msg     string  `json:"msg"`
	Primary bool    `json:"primary"`
	Pb      bool    `json:"pb"`
	Edits   []aEdit `json:"edits"`
}
type aDiag struct {
	Level  string   `json:"level"`
	Msg    string   `json:"msg"`
	Tag    string   `json:"tag"`
	InFile string   `json:"inFile"`
	Stage  int      `json:"stage"`
	Anns   []aAnn   `json:"anns"`
	Notes  []string `json:"notes"`
	Help   []string `json:"help"`
	Debug  []string `json:"debug"`
}

// concrete (code-side) projection of a diagnostic
type cEdit struct {
	Start, End int
	Replace    string
}
type cAnn struct {
	Path, Text string // the file the span points into
	Start, End int
	Msg        string
	Primary    bool
	Pb         bool
	Edits      []cEdit
}
type cDiag struct {
	Level              int
	Msg, Tag, InFile   string
	Stage              int
	Anns               []cAnn
	Notes, Help, Debug []string
}

// ---------------------------------------------------------------------------------------------
// concretisation of the spec's tokens

var byteClass = map[string]string{"a": "a", "b": "b", "c": "c", "N": "\n", "x": "\xff", "s": " "}

// Tokens that take part in comparisons (Report!KeyStrings) are used verbatim, so that the
// spec's Rank is Go's string order; the others stand for "interesting" texts.
var textToken = map[string]string{
	"am": "annotation msg",
	"au": "ann ü€",
	"mu": "m ü€\U0001F600 multi-byte",
	"ml": "m first line\nsecond line",
	"x1": "text one",
	"x2": "second\ntext: ü %d %s",
	"r":  "repl",
	"ru": "répl\n",
}

func tok(s string) string {
	if c, ok := textToken[s]; ok {
		return c
	}
	return s
}
func toks(ss []string) []string {
	out := make([]string, len(ss))
	for i, s := range ss {
		out[i] = tok(s)
	}
	return out
}

func fileText(classes []string) string {
	var sb strings.Builder
	for _, c := range classes {
		s, ok := byteClass[c]
		if !ok {
			harnessFail("unknown byte class " + c)
		}
		sb.WriteString(s)
	}
	return sb.String()
}

var levelNames = []string{"", "ice", "error", "warning", "remark"}

func levelOf(name string) report.Level {
	switch name {
	case "ice":
		return report.ICE
	case "error":
		return report.Error
	case "warning":
		return report.Warning
	case "remark":
		return report.Remark
	}
	harnessFail("unknown level " + name)
	return 0
}

// fileSet maps paths to one *source.File each (spans compare by file identity).
type fileSet map[string]*source.File

func newFileSet(files []aFile) fileSet {
	fs := fileSet{}
	for _, f := range files {
		fs[f.Path] = source.NewFile(f.Path, fileText(f.Text))
	}
	return fs
}

// concreteDiag is what the spec's record means in concrete terms (the expectation).
func concreteDiag(d aDiag, fs fileSet) cDiag {
	out := cDiag{Level: int(levelOf(d.Level)), Msg: tok(d.Msg), Tag: d.Tag, InFile: d.InFile, Stage: d.Stage,
		Notes: toks(d.Notes), Help: toks(d.Help), Debug: toks(d.Debug)}
	for _, a := range d.Anns {
		f, ok := fs[a.Path]
		if !ok {
			harnessFail("case uses unknown file " + a.Path)
		}
		ca := cAnn{Path: a.Path, Text: f.Text(), Start: a.Start, End: a.End, Msg: tok(a.Msg), Primary: a.Primary, Pb: a.Pb}
		for _, e := range a.Edits {
			ca.Edits = append(ca.Edits, cEdit{e.Start, e.End, tok(e.Replace)})
		}
		out.Anns = append(out.Anns, ca)
	}
	return out
}

// pushDiag adds d to r through the public constructors only.
func pushDiag(r *report.Report, d aDiag, fs fileSet) {
	r.Stage = d.Stage
	diag := r.Levelf(levelOf(d.Level), "%s", tok(d.Msg))
	var opts []report.DiagnosticOption
	if d.Tag != "" {
		opts = append(opts, report.Tag(d.Tag))
	}
	if d.InFile != "" {
		opts = append(opts, report.InFile(d.InFile))
	}
	for _, a := range d.Anns {
		span := fs[a.Path].Span(a.Start, a.End)
		if len(a.Edits) > 0 {
			edits := make([]report.Edit, len(a.Edits))
			for i, e := range a.Edits {
				edits[i] = report.Edit{Start: e.Start, End: e.End, Replace: tok(e.Replace)}
			}
			opts = append(opts, report.SuggestEdits(span, tok(a.Msg), edits...))
		} else {
			opts = append(opts, report.Snippetf(span, "%s", tok(a.Msg)))
		}
		if a.Pb {
			opts = append(opts, report.PageBreak)
		}
	}
	for _, s := range d.Notes {
		opts = append(opts, report.Notef("%s", tok(s)))
	}
	for _, s := range d.Help {
		opts = append(opts, report.Helpf("%s", tok(s)))
	}
	for _, s := range d.Debug {
		opts = append(opts, report.Debugf("%s", tok(s)))
	}
	diag.Apply(opts...)
}

func buildReport(ds []aDiag, fs fileSet) *report.Report {
	r := &report.Report{}
	for _, d := range ds {
		pushDiag(r, d, fs)
	}
	r.Stage = 0
	return r
}

// ---------------------------------------------------------------------------------------------
// projection of the real report (read-only reflection over unexported fields)

func rfield(v reflect.Value, name string) reflect.Value {
	f := v.FieldByName(name)
	if !f.IsValid() {
		harnessFail("report type " + v.Type().String() + " has no field " + name + " (projection out of date)")
	}
	if !f.CanAddr() {
		harnessFail("field " + name + " not addressable")
	}
	return reflect.NewAt(f.Type(), unsafe.Pointer(f.UnsafeAddr())).Elem()
}

func strs(v reflect.Value) []string {
	var out []string
	for i := 0; i < v.Len(); i++ {
		out = append(out, v.Index(i).String())
	}
	return out
}

func projectDiag(d *report.Diagnostic) cDiag {
	v := reflect.ValueOf(d).Elem()
	out := cDiag{
		Level:  int(rfield(v, "level").Int()),
		Msg:    rfield(v, "message").String(),
		Tag:    rfield(v, "tag").String(),
		InFile: rfield(v, "inFile").String(),
		Stage:  int(rfield(v, "sortOrder").Int()),
		Notes:  strs(rfield(v, "notes")),
		Help:   strs(rfield(v, "help")),
		Debug:  strs(rfield(v, "debug")),
	}
	// cross-check the reflective projection against the public accessors
	if out.Msg != d.Message() || out.Tag != d.Tag() || out.Level != int(d.Level()) {
		harnessFail("reflective projection disagrees with public accessors")
	}
	sn := rfield(v, "snippets")
	for i := 0; i < sn.Len(); i++ {
		s := sn.Index(i)
		span := rfield(s, "Span").Interface().(source.Span)
		a := cAnn{Start: span.Start, End: span.End,
			Msg: rfield(s, "message").String(), Primary: rfield(s, "primary").Bool(), Pb: rfield(s, "pageBreak").Bool()}
		if span.File != nil {
			a.Path, a.Text = span.File.Path(), span.File.Text()
		}
		ed := rfield(s, "edits")
		for j := 0; j < ed.Len(); j++ {
			e := ed.Index(j).Interface().(report.Edit)
			a.Edits = append(a.Edits, cEdit{e.Start, e.End, e.Replace})
		}
		out.Anns = append(out.Anns, a)
	}
	if p := d.Primary(); !p.IsZero() {
		found := false
		for _, a := range out.Anns {
			if a.Primary && a.Start == p.Start && a.End == p.End && a.Path == p.Path() {
				found = true
			}
		}
		if !found {
			harnessFail("reflective projection disagrees with Diagnostic.Primary()")
		}
	}
	return out
}

func projectReport(r *report.Report) []cDiag {
	out := make([]cDiag, len(r.Diagnostics))
	for i := range r.Diagnostics {
		out[i] = projectDiag(&r.Diagnostics[i])
	}
	return out
}

func eqStrs(a, b []string) bool {
	if len(a) != len(b) {
		return false
	}
	for i := range a {
		if a[i] != b[i] {
			return false
		}
	}
	return true
}

// diffDiag names the first field in which two diagnostics differ ("" if none).
func diffDiag(got, want cDiag, withStage bool) string {
	switch {
	case got.Level != want.Level:
		return "level"
	case got.Msg != want.Msg:
		return "message"
	case got.Tag != want.Tag:
		return "tag"
	case got.InFile != want.InFile:
		return "in-file"
	case withStage && got.Stage != want.Stage:
		return "stage"
	case !eqStrs(got.Notes, want.Notes):
		return "notes"
	case !eqStrs(got.Help, want.Help):
		return "help"
	case !eqStrs(got.Debug, want.Debug):
		return "debug"
	case len(got.Anns) != len(want.Anns):
		return "annotation-count"
	}
	for i := range got.Anns {
		g, w := got.Anns[i], want.Anns[i]
		switch {
		case g.Path != w.Path:
			return "annotation-file-path"
		case g.Text != w.Text:
			return "annotation-file-text"
		case g.Start != w.Start || g.End != w.End:
			return "annotation-span"
		case g.Msg != w.Msg:
			return "annotation-message"
		case g.Primary != w.Primary:
			return "annotation-primary"
		case g.Pb != w.Pb:
			return "annotation-page-break"
		case len(g.Edits) != len(w.Edits):
			return "edit-count"
		}
		for j := range g.Edits {
			if g.Edits[j] != w.Edits[j] {
				return "edit"
			}
		}
	}
	return ""
}

func diffReport(got, want []cDiag, withStage bool) string {
	if len(got) != len(want) {
		return fmt.Sprintf("diagnostic-count got %d want %d", len(got), len(want))
	}
	for i := range got {
		if f := diffDiag(got[i], want[i], withStage); f != "" {
			return fmt.Sprintf("%s (diagnostic %d)", f, i)
		}
	}
	return ""
}

func renderReport(r *report.Report) (s string, ok bool) {
	defer func() {
		if recover() != nil {
			s, ok = "", false
		}
	}()
	s, _, _ = report.Renderer{ShowRemarks: true, ShowDebug: true}.RenderString(r)
	return s, true
}

// ---------------------------------------------------------------------------------------------
// output

type mismatch struct {
	Class  string          `json:"class"`
	Detail string          `json:"detail"`
	Case   json.RawMessage `json:"case,omitempty"`
}

type sink struct {
	mu       sync.Mutex
	enc      *json.Encoder
	perClass map[string]int
	keepCase int
}

func newSink(w *bufio.Writer) *sink {
	return &sink{enc: json.NewEncoder(w), perClass: map[string]int{}, keepCase: 25}
}

// report one disagreement; the full case is attached only to the first few of each class
func (s *sink) report(class, detail string, raw []byte) {
	s.mu.Lock()
	defer s.mu.Unlock()
	s.perClass[class]++
	m := mismatch{Class: class, Detail: detail}
	if s.perClass[class] <= s.keepCase {
		m.Case = json.RawMessage(append([]byte(nil), raw...))
	}
	_ = s.enc.Encode(m)
}

// pump feeds every input line to fn on a pool of goroutines (cases are independent).
func pump(in *bufio.Scanner, fn func(raw []byte)) {
	workers := runtime.GOMAXPROCS(0)
	if workers > 8 {
		workers = 8
	}
	ch := make(chan []byte, 256)
	var wg sync.WaitGroup
	for w := 0; w < workers; w++ {
		wg.Add(1)
		go func() {
			defer wg.Done()
			for raw := range ch {
				fn(raw)
			}
		}()
	}
	for in.Scan() {
		ch <- append([]byte(nil), in.Bytes()...)
	}
	close(ch)
	wg.Wait()
}

func harnessFail(msg string) {
	fmt.Fprintln(os.Stderr, "HARNESS-FAILURE: "+msg)
	os.Exit(2)
}

func stats(kv map[string]any) {
	keys := make([]string, 0, len(kv))
	for k := range kv {
		keys = append(keys, k)
	}
	sort.Strings(keys)
	b, _ := json.Marshal(kv)
	fmt.Fprintln(os.Stderr, "STATS "+string(b))
}

// checkMeta verifies that the spec's KeyStrings are strictly ascending in Go's string order and
// that the level names map to the documented numeric order.
func checkMeta(raw []byte) {
	var m struct {
		Keystrings []string `json:"keystrings"`
		Levels     []string `json:"levels"`
	}
	if err := json.Unmarshal(raw, &m); err != nil {
		harnessFail("bad meta case: " + err.Error())
	}
	for i := 1; i < len(m.Keystrings); i++ {
		if !(tok(m.Keystrings[i-1]) < tok(m.Keystrings[i])) {
			harnessFail("Report!KeyStrings is not ascending at " + m.Keystrings[i])
		}
	}
	for i := 1; i < len(m.Levels); i++ {
		if !(levelOf(m.Levels[i-1]) < levelOf(m.Levels[i])) {
			harnessFail("Report!Levels is not in the numeric order of report.Level")
		}
	}
}

func kindOf(raw []byte) string {
	var k struct {
		Kind string `json:"kind"`
	}
	if err := json.Unmarshal(raw, &k); err != nil {
		harnessFail("bad case line: " + err.Error())
	}
	return k.Kind
}

func main() {
	if len(os.Args) < 2 {
		harnessFail("usage: reportdrv rt|canon|ops|ws [flags] < cases")
	}
	in := bufio.NewScanner(os.Stdin)
	in.Buffer(make([]byte, 1<<20), 1<<28)
	out := bufio.NewWriterSize(os.Stdout, 1<<20)
	defer out.Flush()
	sk := newSink(out)
	switch os.Args[1] {
	case "rt":
		runRT(in, sk)
	case "canon":
		runCanon(in, sk)
	case "ops":
		runOps(in, sk)
	case "ws":
		runWS(in, sk, os.Args[2:])
	default:
		harnessFail("unknown mode " + os.Args[1])
	}
	out.Flush()
}
