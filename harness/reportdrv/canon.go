package main

import (
	"bufio"
	"encoding/json"
	"fmt"
	"sync/atomic"

	"github.com/bufbuild/protocompile/experimental/report"
)

type canonCase struct {
	Kind        string  `json:"kind"`
	Files       []aFile `json:"files"`
	List        []aDiag `json:"list"`
	Perms       [][]int `json:"perms"`
	Tie         bool    `json:"tie"`
	SplitDup    bool    `json:"splitdup"`
	ExpectKeep  []aDiag `json:"expect_keep"`
	ExpectDedup []aDiag `json:"expect_dedup"`
}

// the six documented sort keys of a projected diagnostic
type docKey struct {
	Path       string
	Stage      int
	Start, End int
	Tag, Msg   string
}

func keyOf(d cDiag) docKey {
	k := docKey{Stage: d.Stage, Tag: d.Tag, Msg: d.Msg}
	for _, a := range d.Anns {
		if a.Primary {
			k.Path, k.Start, k.End = a.Path, a.Start, a.End
			break
		}
	}
	return k
}

func describe(ds []cDiag) string {
	s := ""
	for i, d := range ds {
		if i > 0 {
			s += " | "
		}
		k := keyOf(d)
		s += fmt.Sprintf("%s@%d[%d:%d] tag=%q msg=%q lvl=%d in=%q n%d h%d d%d a%d", k.Path, k.Stage, k.Start, k.End,
			k.Tag, k.Msg, d.Level, d.InFile, len(d.Notes), len(d.Help), len(d.Debug), len(d.Anns))
		for _, a := range d.Anns {
			s += fmt.Sprintf(" {%s[%d:%d] %q pb=%v edits=%v}", a.Path, a.Start, a.End, a.Msg, a.Pb, a.Edits)
		}
		s += fmt.Sprintf(" notes=%q help=%q debug=%q", d.Notes, d.Help, d.Debug)
	}
	return s
}

type canonResult struct {
	diags  []cDiag
	render string
	rok    bool
}

// canonicalize builds the permuted list through the constructors and canonicalizes it twice.
func canonicalize(list []aDiag, perm []int, fs fileSet, keep bool, render bool) (first, second canonResult) {
	permuted := make([]aDiag, len(perm))
	for i, p := range perm {
		permuted[i] = list[p-1]
	}
	r := buildReport(permuted, fs)
	r.KeepDuplicates = keep
	r.Canonicalize()
	first.diags = projectReport(r)
	if render {
		first.render, first.rok = renderReport(r)
	}
	r.Canonicalize()
	second.diags = projectReport(r)
	if render {
		second.render, second.rok = renderReport(r)
	}
	return
}

func sameResult(a, b canonResult) bool {
	if diffReport(a.diags, b.diags, true) != "" {
		return false
	}
	if a.rok && b.rok && a.render != b.render {
		return false
	}
	return true
}

func runCanon(in *bufio.Scanner, sk *sink) {
	var n, calls, ties atomic.Int64
	_ = report.Error
	pump(in, func(raw []byte) {
		switch kindOf(raw) {
		case "meta":
			checkMeta(raw)
			return
		case "canon":
		default:
			harnessFail("canon: unexpected case kind")
		}
		var c canonCase
		if err := json.Unmarshal(raw, &c); err != nil {
			harnessFail("bad canon case: " + err.Error())
		}
		n.Add(1)
		if c.Tie {
			ties.Add(1)
		}
		func() {
			defer func() {
				if r := recover(); r != nil {
					sk.report("panic:canonicalize", fmt.Sprint(r), raw)
				}
			}()
			fs := newFileSet(c.Files)
			feature := "no-tie"
			if c.Tie {
				feature = "full-key-tie"
			}
			for _, keep := range []bool{true, false} {
				expA := c.ExpectDedup
				if keep {
					expA = c.ExpectKeep
				}
				want := make([]cDiag, len(expA))
				for i, d := range expA {
					want[i] = concreteDiag(d, fs)
				}
				var base canonResult
				reportedOrder, reportedIdem, reportedDoc := false, false, false
				for pi, perm := range c.Perms {
					if len(perm) != len(c.List) {
						harnessFail("permutation of wrong length")
					}
					calls.Add(1)
					first, second := canonicalize(c.List, perm, fs, keep, pi == 0 || pi == len(c.Perms)-1)
					// C36: canonicalizing twice changes nothing
					if !reportedIdem && !sameResult(first, second) {
						reportedIdem = true
						sk.report("canon:not-idempotent:"+feature,
							fmt.Sprintf("keep=%v perm=%v once: %s  twice: %s", keep, perm, describe(first.diags), describe(second.diags)), raw)
					}
					// C36: same result for every input order
					if pi == 0 {
						base = first
					} else if !reportedOrder && !sameResult(base, first) {
						reportedOrder = true
						sk.report("canon:order-dependent:"+feature,
							fmt.Sprintf("keep=%v perm %v gives %s ; perm %v gives %s", keep, c.Perms[0], describe(base.diags), perm, describe(first.diags)), raw)
					}
					// documented contract: the sequence of documented keys is determined even
					// with ties; without ties (and without split duplicates) the whole result is
					if reportedDoc {
						continue
					}
					got := first.diags
					if len(got) != len(want) {
						reportedDoc = true
						cls := "canon-doc:dedup"
						if c.SplitDup {
							cls = "canon-doc:dedup:split-by-other-tag"
						}
						sk.report(cls, fmt.Sprintf("keep=%v perm=%v got %d diagnostics want %d: %s", keep, perm, len(got), len(want), describe(got)), raw)
						continue
					}
					for i := range got {
						if keyOf(got[i]) != keyOf(want[i]) {
							reportedDoc = true
							sk.report("canon-doc:order", fmt.Sprintf("keep=%v perm=%v position %d: got %s want %s", keep, perm, i, describe(got), describe(want)), raw)
							break
						}
					}
					if !reportedDoc && !c.Tie {
						if f := diffReport(got, want, true); f != "" {
							reportedDoc = true
							sk.report("canon-doc:content", fmt.Sprintf("keep=%v perm=%v %s", keep, perm, f), raw)
						}
					}
				}
			}
		}()
	})
	stats(map[string]any{"cases": n.Load(), "canonicalize_calls": calls.Load(), "tie_cases": ties.Load(), "classes": sk.perClass})
}
