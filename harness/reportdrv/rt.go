package main

import (
	"bufio"
	"encoding/json"
	"fmt"
	"regexp"
	"strconv"
	"sync/atomic"

	"google.golang.org/protobuf/proto"

	"github.com/bufbuild/protocompile/experimental/report"
	compilerpb "github.com/bufbuild/protocompile/internal/gen/buf/compiler/v1alpha1"
)

// expected protobuf form, as Report!Encode prints it
type pEdit = aEdit
type pAnn struct {
	Message   string  `json:"message"`
	Primary   bool    `json:"primary"`
	PageBreak bool    `json:"page_break"`
	File      int     `json:"file"`
	Start     int     `json:"start"`
	End       int     `json:"end"`
	Edits     []pEdit `json:"edits"`
}
type pDiag struct {
	Message     string   `json:"message"`
	Tag         string   `json:"tag"`
	Level       string   `json:"level"`
	InFile      string   `json:"in_file"`
	Notes       []string `json:"notes"`
	Help        []string `json:"help"`
	Debug       []string `json:"debug"`
	Annotations []pAnn   `json:"annotations"`
}
type pReport struct {
	Files       []aFile `json:"files"`
	Diagnostics []pDiag `json:"diagnostics"`
}

type rtCase struct {
	Kind   string  `json:"kind"`
	Files  []aFile `json:"files"`
	Diags  []aDiag `json:"diags"`
	Proto  pReport `json:"proto"`
	Expect []aDiag `json:"expect"`
}

// expectedPB builds the message the spec expects, directly (not through ToProto).
func expectedPB(p pReport) *compilerpb.Report {
	out := &compilerpb.Report{}
	for _, f := range p.Files {
		out.Files = append(out.Files, &compilerpb.Report_File{Path: f.Path, Text: []byte(fileText(f.Text))})
	}
	for _, d := range p.Diagnostics {
		pd := &compilerpb.Diagnostic{
			Message: tok(d.Message), Tag: d.Tag, Level: compilerpb.Diagnostic_Level(levelOf(d.Level)),
			InFile: d.InFile, Notes: toks(d.Notes), Help: toks(d.Help), Debug: toks(d.Debug),
		}
		for _, a := range d.Annotations {
			pa := &compilerpb.Diagnostic_Annotation{
				Message: tok(a.Message), Primary: a.Primary, PageBreak: a.PageBreak,
				File: uint32(a.File), Start: uint32(a.Start), End: uint32(a.End),
			}
			for _, e := range a.Edits {
				pa.Edits = append(pa.Edits, &compilerpb.Diagnostic_Edit{Start: uint32(e.Start), End: uint32(e.End), Replace: tok(e.Replace)})
			}
			pd.Annotations = append(pd.Annotations, pa)
		}
		out.Diagnostics = append(out.Diagnostics, pd)
	}
	return out
}

// diffPB compares the real encoding with the expected one, semantically: file indices are
// resolved (the order of the file table is not part of the contract).
func diffPB(got, want *compilerpb.Report) string {
	seen := map[string]bool{}
	wantText := map[string]string{}
	for _, f := range want.Files {
		wantText[f.Path] = string(f.Text)
	}
	for _, f := range got.Files {
		if seen[f.Path] {
			return "file-duplicated"
		}
		seen[f.Path] = true
		t, ok := wantText[f.Path]
		if !ok {
			return "file-unexpected"
		}
		if t != string(f.Text) {
			return "file-text"
		}
	}
	if len(got.Files) != len(want.Files) {
		return "file-count"
	}
	if len(got.Diagnostics) != len(want.Diagnostics) {
		return "diagnostic-count"
	}
	for i, g := range got.Diagnostics {
		w := want.Diagnostics[i]
		switch {
		case g.Message != w.Message:
			return "message"
		case g.Tag != w.Tag:
			return "tag"
		case g.Level != w.Level:
			return "level"
		case g.InFile != w.InFile:
			return "in-file"
		case !eqStrs(g.Notes, w.Notes):
			return "notes"
		case !eqStrs(g.Help, w.Help):
			return "help"
		case !eqStrs(g.Debug, w.Debug):
			return "debug"
		case len(g.Annotations) != len(w.Annotations):
			return "annotation-count"
		}
		for j, ga := range g.Annotations {
			wa := w.Annotations[j]
			if int(ga.File) >= len(got.Files) {
				return "annotation-file-index"
			}
			switch {
			case got.Files[ga.File].Path != want.Files[wa.File].Path:
				return "annotation-file-path"
			case ga.Start != wa.Start || ga.End != wa.End:
				return "annotation-span"
			case ga.Message != wa.Message:
				return "annotation-message"
			case ga.Primary != wa.Primary:
				return "annotation-primary"
			case ga.PageBreak != wa.PageBreak:
				return "annotation-page-break"
			case len(ga.Edits) != len(wa.Edits):
				return "edit-count"
			}
			for k, ge := range ga.Edits {
				we := wa.Edits[k]
				if ge.Start != we.Start || ge.End != we.End || ge.Replace != we.Replace {
					return "edit"
				}
			}
		}
	}
	return ""
}

var reAnnIdx = regexp.MustCompile(`diagnostic\[(\d+)\]\.annotation\[(\d+)\]`)
var reLevel = regexp.MustCompile(`Diagnostic\.level: (\d+)`)

// rejectClass classifies an AppendFromProto error by what the rejected element is in the case
// (abstract features), not by the individual input.
func rejectClass(err error, msg *compilerpb.Report) string {
	s := err.Error()
	if m := reAnnIdx.FindStringSubmatch(s); m != nil {
		i, _ := strconv.Atoi(m[1])
		j, _ := strconv.Atoi(m[2])
		if i < len(msg.Diagnostics) && j < len(msg.Diagnostics[i].Annotations) {
			a := msg.Diagnostics[i].Annotations[j]
			if int(a.File) < len(msg.Files) {
				n := uint32(len(msg.Files[a.File].Text))
				switch {
				case a.Start <= a.End && a.End <= n && a.Start == n && n == 0:
					return "span-in-empty-file"
				case a.Start <= a.End && a.End <= n && a.Start == n:
					return "zero-width-span-at-eof"
				case a.Start <= a.End && a.End <= n:
					return "span-inside-file"
				default:
					return "span-outside-encoded-text"
				}
			}
		}
		return "annotation"
	}
	if m := reLevel.FindStringSubmatch(s); m != nil {
		n, _ := strconv.Atoi(m[1])
		if n >= 1 && n < len(levelNames) {
			return "level-" + levelNames[n]
		}
		return "level-unknown"
	}
	return "other"
}

func decode(msg *compilerpb.Report) (*report.Report, []byte, error) {
	b, err := proto.Marshal(msg)
	if err != nil {
		return nil, nil, fmt.Errorf("marshal: %w", err)
	}
	r := &report.Report{}
	err = r.AppendFromProto(func(m proto.Message) error { return proto.Unmarshal(b, m) })
	return r, b, err
}

func runRT(in *bufio.Scanner, sk *sink) {
	var n, checks atomic.Int64
	pump(in, func(raw []byte) {
		switch kindOf(raw) {
		case "meta":
			checkMeta(raw)
			return
		case "rt":
		default:
			harnessFail("rt: unexpected case kind")
		}
		var c rtCase
		if err := json.Unmarshal(raw, &c); err != nil {
			harnessFail("bad rt case: " + err.Error())
		}
		n.Add(1)
		func() {
			defer func() {
				if r := recover(); r != nil {
					sk.report("panic", fmt.Sprint(r), raw)
				}
			}()
			fs := newFileSet(c.Files)
			want := make([]cDiag, len(c.Expect))
			for i, d := range c.Expect {
				want[i] = concreteDiag(d, fs)
			}
			// 0. the report built through the constructors is the report the case describes
			r := buildReport(c.Diags, fs)
			pre := projectReport(r)
			input := make([]cDiag, len(c.Diags))
			for i, d := range c.Diags {
				input[i] = concreteDiag(d, fs)
			}
			if f := diffReport(pre, input, true); f != "" {
				sk.report("build:"+f, "constructors produced a different report than the case describes", raw)
				return
			}
			wantPB := expectedPB(c.Proto)

			// (a) ToProto against the expected form
			checks.Add(1)
			gotPB, ok := r.ToProto().(*compilerpb.Report)
			if !ok {
				harnessFail("ToProto did not return *compilerpb.Report")
			}
			badEncoding := diffPB(gotPB, wantPB)
			if badEncoding != "" {
				sk.report("encode:"+badEncoding, "ToProto differs from the documented form in "+badEncoding, raw)
			}

			// (b) AppendFromProto of the expected form (independent of ToProto)
			checks.Add(1)
			if dec, _, err := decode(wantPB); err != nil {
				sk.report("decode:rejected:"+rejectClass(err, wantPB), err.Error(), raw)
			} else if f := diffReport(projectReport(dec), want, false); f != "" {
				sk.report("decode:field:"+firstWord(f), f, raw)
			}

			// (c) the whole chain on the real encoding
			checks.Add(1)
			dec, _, err := decode(gotPB)
			if err != nil {
				if badEncoding != "" { // a consequence of the encoding defect already classified above
					sk.report("roundtrip:after-bad-encoding:"+badEncoding, err.Error(), raw)
				} else {
					sk.report("roundtrip:rejected:"+rejectClass(err, gotPB), err.Error(), raw)
				}
				return
			}
			got := projectReport(dec)
			if f := diffReport(got, want, false); f != "" {
				if badEncoding != "" {
					sk.report("roundtrip:after-bad-encoding:"+badEncoding, f, raw)
				} else {
					sk.report("roundtrip:field:"+firstWord(f), f, raw)
				}
				return
			}
			// same rendering before and after (guards the projection itself)
			if before, ok1 := renderReport(r); ok1 {
				if after, ok2 := renderReport(dec); ok2 && before != after {
					sk.report("roundtrip:render", "projection equal but rendering differs", raw)
				}
			}
		}()
	})
	stats(map[string]any{"cases": n.Load(), "checks": checks.Load(), "classes": sk.perClass})
}

func firstWord(s string) string {
	for i, c := range s {
		if c == ' ' {
			return s[:i]
		}
	}
	return s
}
