// Driver for C28 (experimental parser is total) and C29 (lexer tokens tile the input).
//
// Reads cases (ndjson, produced by TLC from spec/MCLexInput.tla / spec/MCLexMutant.tla) on stdin,
// concretises each into bytes, runs the real experimental lexer / parser and records what the public
// API shows at call return as ndjson traces:
//
//	-lex   FILE   token-stream traces for spec/TokenTileTrace.tla     (C29)
//	-parse FILE   parse-call traces for spec/ExpParseCallTrace.tla    (C28)
//
// The driver takes no verdicts: it only projects real state into events. TLC decides.
package main

import (
	"bufio"
	"crypto/sha1"
	"encoding/hex"
	"encoding/json"
	"flag"
	"fmt"
	"os"
	"strings"
	"sync"
	"sync/atomic"
	"time"
	"unicode/utf8"

	"github.com/bufbuild/protocompile/experimental/parser"
	"github.com/bufbuild/protocompile/experimental/report"
	"github.com/bufbuild/protocompile/experimental/source"
	"github.com/bufbuild/protocompile/experimental/token"
	"github.com/bufbuild/protocompile/experimental/token/keyword"
	compilerpb "github.com/bufbuild/protocompile/internal/gen/buf/compiler/v1alpha1"
)

// ---------------------------------------------------------------------------------------------
// cases

type tcase struct {
	ID   int      `json:"id"`
	Kind string   `json:"kind"` // exh | mut | raw
	Syms []string `json:"syms,omitempty"`
	File int      `json:"file,omitempty"`
	Op   string   `json:"op,omitempty"`
	Pos  int      `json:"pos,omitempty"`
	Arg  int      `json:"arg,omitempty"`
	Hex  string   `json:"hex,omitempty"`
	// expectations computed by the specification (-1 / nil = not given)
	Len  *int  `json:"len,omitempty"`
	UTF8 *bool `json:"utf8,omitempty"`
	NulP *bool `json:"nulp,omitempty"`
}

// concretisation of the class alphabet of MCLexInput.tla
var concrete = map[string]string{
	"dq": "\"", "sq": "'", "bs": "\\", "sl": "/", "st": "*",
	"lp": "(", "rp": ")", "lb": "[", "rb": "]", "lc": "{", "rc": "}", "lt": "<", "gt": ">",
	"sc": ";", "eq": "=", "d0": "0", "d1": "1", "X": "X", "E": "E", "p": "p", "d8": "8", "x": "x", "e": "e", "b": "b", "dot": ".", "a": "a",
	"mi": "-", "pl": "+", "us": "_", "co": ",", "cl": ":", "qm": "?", "am": "&", "pi": "|", "ex": "!",
	"lf": "\n", "tab": "\t", "sp": " ", "cr": "\r", "nul": "\x00", "inv": "\x80", "u2": "\u00e9",
	"u3": "\u20ac", "bom": "\ufeff", "hash": "#", "n": "n", "u": "u",
}

type baseFile struct {
	Path string
	Text string
	Toks [][2]int // leaf token offsets of the unmutated file (real lexer)
}

var bases []*baseFile

func fatal(format string, a ...any) {
	fmt.Fprintf(os.Stderr, "HARNESS-ERROR: "+format+"\n", a...)
	os.Exit(2)
}

func loadBases(list string) {
	if list == "" {
		return
	}
	raw, err := os.ReadFile(list)
	if err != nil {
		fatal("%v", err)
	}
	var paths []string
	if err := json.Unmarshal(raw, &paths); err != nil {
		fatal("file list: %v", err)
	}
	for _, p := range paths {
		b, err := os.ReadFile(p)
		if err != nil {
			fatal("%v", err)
		}
		bf := &baseFile{Path: p, Text: string(b)}
		func() {
			defer func() { _ = recover() }()
			r := &report.Report{}
			st := parser.VerifLexer().Lex(source.NewFile("base.proto", bf.Text), r)
			for tok := range st.All() {
				if tok.IsSynthetic() {
					continue
				}
				sp := tok.LeafSpan()
				bf.Toks = append(bf.Toks, [2]int{sp.Start, sp.End})
			}
		}()
		bases = append(bases, bf)
	}
}

var openers = []string{"{", "(", "["}
var closers = []string{"}", ")", "]"}

func concretise(c *tcase) string {
	switch c.Kind {
	case "exh":
		var sb strings.Builder
		for _, s := range c.Syms {
			if w, isTok := strings.CutPrefix(s, "t:"); isTok && w != "" {
				switch w {
				case "STR":
					w = `"s"`
				case "PROTO3":
					w = `"proto3"`
				case "PROTO2":
					w = `"proto2"`
				case "E2023":
					w = `"2023"`
				}
				sb.WriteString(w) // token symbol: the word followed by one space
				sb.WriteByte(' ')
				continue
			}
			v, ok := concrete[s]
			if !ok {
				fatal("unknown symbol %q", s)
			}
			sb.WriteString(v)
		}
		return sb.String()
	case "raw":
		b, err := hex.DecodeString(c.Hex)
		if err != nil {
			fatal("bad hex in case %d", c.ID)
		}
		return string(b)
	case "mut":
		if c.File < 1 || c.File > len(bases) {
			fatal("case %d: file index %d out of range", c.ID, c.File)
		}
		bf := bases[c.File-1]
		t := bf.Text
		tok := func(i int) (int, int) {
			if i < 1 || i > len(bf.Toks) {
				fatal("case %d: token index %d out of range (file %d has %d)", c.ID, i, c.File, len(bf.Toks))
			}
			return bf.Toks[i-1][0], bf.Toks[i-1][1]
		}
		ins := func(p int, s string) string {
			if p < 0 || p > len(t) {
				fatal("case %d: position %d out of range", c.ID, p)
			}
			return t[:p] + s + t[p:]
		}
		switch c.Op {
		case "deltok":
			s, e := tok(c.Pos)
			return t[:s] + t[e:]
		case "duptok":
			s, e := tok(c.Pos)
			return t[:e] + t[s:e] + t[e:]
		case "swaptok":
			s1, e1 := tok(c.Pos)
			s2, e2 := tok(c.Pos + 1)
			return t[:s1] + t[s2:e2] + t[e1:s2] + t[s1:e1] + t[e2:]
		case "trunc":
			if c.Pos < 0 || c.Pos > len(t) {
				fatal("case %d: position out of range", c.ID)
			}
			return t[:c.Pos]
		case "nul":
			return ins(c.Pos, "\x00")
		case "inv":
			return ins(c.Pos, "\x80")
		case "dquote":
			return ins(c.Pos, "\"")
		case "squote":
			return ins(c.Pos, "'")
		case "bslash":
			return ins(c.Pos, "\\")
		case "blockc":
			return ins(c.Pos, "/*")
		case "cr":
			return ins(c.Pos, "\r")
		case "crlfall":
			return strings.ReplaceAll(t, "\n", "\r\n")
		case "closer":
			return ins(c.Pos, closers[c.Arg%3])
		case "nestopen":
			return ins(c.Pos, strings.Repeat(openers[c.Pos%3], c.Arg))
		case "nestpair":
			return ins(c.Pos, strings.Repeat(openers[c.Pos%3], c.Arg)+strings.Repeat(closers[c.Pos%3], c.Arg))
		}
		fatal("case %d: unknown op %q", c.ID, c.Op)
	}
	fatal("case %d: unknown kind %q", c.ID, c.Kind)
	return ""
}

// ---------------------------------------------------------------------------------------------
// trace events

type ev map[string]any

type sink struct {
	w    *bufio.Writer
	f    *os.File
	seen map[[20]byte]struct{}
	n    int // traces written
	dup  int // traces suppressed as duplicates
	evs  int
}

func newSink(path string) *sink {
	if path == "" {
		return nil
	}
	f, err := os.Create(path)
	if err != nil {
		fatal("%v", err)
	}
	return &sink{w: bufio.NewWriterSize(f, 1<<20), f: f, seen: map[[20]byte]struct{}{}}
}

// write emits one trace: head (carries the case id; excluded from the duplicate key) + body events.
func (s *sink) write(head ev, key string, body []ev, dedupe bool) {
	var lines [][]byte
	h := sha1.New()
	h.Write([]byte(key))
	for _, e := range body {
		b, err := json.Marshal(e)
		if err != nil {
			fatal("%v", err)
		}
		lines = append(lines, b)
		h.Write(b)
		h.Write([]byte{'\n'})
	}
	if dedupe {
		var k [20]byte
		copy(k[:], h.Sum(nil))
		if _, ok := s.seen[k]; ok {
			s.dup++
			return
		}
		s.seen[k] = struct{}{}
	}
	hb, _ := json.Marshal(head)
	s.w.Write(hb)
	s.w.WriteByte('\n')
	for _, b := range lines {
		s.w.Write(b)
		s.w.WriteByte('\n')
	}
	s.n++
	s.evs += 1 + len(lines)
}

func (s *sink) close() {
	if s != nil {
		s.w.Flush()
		s.f.Close()
	}
}

// ---------------------------------------------------------------------------------------------
// projections of real state

// iceSite extracts the innermost protocompile frame below the panic from an ICE's stack trace
// (used for classification only, never for a verdict).
func iceSite(d *report.Diagnostic) string {
	const mod = "github.com/bufbuild/protocompile/"
	for _, line := range d.Debug() {
		if !strings.HasPrefix(line, mod) {
			continue
		}
		s := strings.TrimPrefix(line, mod)
		if i := strings.LastIndex(s, "("); i > 0 {
			s = s[:i]
		}
		if strings.HasPrefix(s, "experimental/report.") || strings.HasPrefix(s, "internal/zzverif") {
			continue
		}
		return s
	}
	return "unknown"
}

// diagEvents projects a report into Diag events: level, every annotation span, every suggested edit as
// an absolute span plus whether it lies within its annotation.
func diagEvents(r *report.Report, from int) []ev {
	var out []ev
	var pb *compilerpb.Report
	func() {
		defer func() {
			if x := recover(); x != nil {
				pb = nil
			}
		}()
		pb, _ = r.ToProto().(*compilerpb.Report)
	}()
	for i := from; i < len(r.Diagnostics); i++ {
		d := &r.Diagnostics[i]
		spans := [][]int{}
		edits := [][]int{} // [annotationStart, annotationEnd, editStart, editEnd] (edit offsets relative)
		if pb != nil && i < len(pb.Diagnostics) {
			for _, a := range pb.Diagnostics[i].Annotations {
				spans = append(spans, []int{int(int32(a.Start)), int(int32(a.End))})
				for _, e := range a.Edits {
					edits = append(edits, []int{int(int32(a.Start)), int(int32(a.End)), int(int32(e.Start)), int(int32(e.End))})
				}
			}
		} else {
			p := d.Primary()
			if !p.IsZero() {
				spans = append(spans, []int{p.Start, p.End})
			}
		}
		e := ev{"e": "Diag", "lvl": int(d.Level()), "spans": spans, "edits": edits}
		if d.Level() == report.ICE {
			e["site"] = iceSite(d)
			e["msg"] = d.Message()
		}
		out = append(out, e)
	}
	return out
}

func bracketOf(tok token.Token, text string) string {
	if tok.Kind() != token.Keyword {
		return ""
	}
	switch text {
	case "(", ")", "[", "]", "{", "}":
		return text
	}
	return ""
}

func fusedName(k keyword.Keyword) string {
	switch k {
	case keyword.Parens:
		return "()"
	case keyword.Brackets:
		return "[]"
	case keyword.Braces:
		return "{}"
	}
	return ""
}

// walkIDs returns the natural token ids in the order a recursive cursor walk visits them.
func walkIDs(st *token.Stream, limit int) (ids []int, ok bool) {
	defer func() {
		if r := recover(); r != nil {
			ok = false
		}
	}()
	var rec func(c *token.Cursor, depth int)
	rec = func(c *token.Cursor, depth int) {
		for {
			if len(ids) > limit {
				return
			}
			t := c.NextSkippable()
			if t.IsZero() {
				return
			}
			if t.IsLeaf() {
				ids = append(ids, int(t.ID()))
				continue
			}
			s, e := t.StartEnd()
			ids = append(ids, int(s.ID()))
			rec(t.Children(), depth+1)
			ids = append(ids, int(e.ID()))
		}
	}
	rec(st.Cursor(), 0)
	return ids, true
}

// lexTrace runs one lexer configuration and returns the body of the trace.
func lexTrace(text string, cfg string, withBytes bool) (body []ev) {
	r := &report.Report{}
	file := source.NewFile("t.proto", text)
	var st *token.Stream
	panicked := ""
	func() {
		defer func() {
			if x := recover(); x != nil {
				panicked = fmt.Sprint(x)
			}
		}()
		lx := *parser.VerifLexer()
		if cfg == "nl" {
			lx.EmitNewline = func(before, after token.Token) bool {
				if before.IsZero() {
					return false
				}
				switch before.LeafSpan().Text() {
				case "{", "(", "[", ",":
					return false
				}
				return true
			}
		}
		st = lx.Lex(file, r)
	}()
	body = append(body, diagEvents(r, 0)...)
	if panicked != "" {
		body = append(body, ev{"e": "Panic", "msg": panicked})
		return body
	}
	n := 0
	var cat strings.Builder
	for tok := range st.All() {
		if tok.IsSynthetic() {
			continue
		}
		n++
		sp := tok.LeafSpan()
		own := tok.Text() // the text the token itself reports
		same := sp.Start >= 0 && sp.Start <= sp.End && sp.End <= len(text) && own == text[sp.Start:sp.End]
		role, mate, fk := "leaf", 0, ""
		if !tok.IsLeaf() {
			s, e := tok.StartEnd()
			fk = fusedName(tok.Keyword())
			if s.ID() == tok.ID() {
				role, mate = "open", int(e.ID())
			} else {
				role, mate = "close", int(s.ID())
			}
		}
		e := ev{"e": "Emit", "id": int(tok.ID()), "s": sp.Start, "t": sp.End, "k": tok.Kind().String(),
			"role": role, "mate": mate, "br": bracketOf(tok, own), "fk": fk,
			// txt: the token's own Text() is exactly the input slice at its leaf offsets
			"txt": same}
		if withBytes {
			bs := make([]int, 0, len(own))
			for i := 0; i < len(own); i++ {
				bs = append(bs, int(own[i]))
			}
			e["text"] = bs
		}
		cat.WriteString(own)
		body = append(body, e)
	}
	ids, ok := walkIDs(st, n+8)
	seq := ok && len(ids) == n
	if seq {
		for i, id := range ids {
			if id != i+1 {
				seq = false
				break
			}
		}
	}
	body = append(body, ev{"e": "End", "n": n, "cat": cat.String() == text, "walk": seq})
	return body
}

func parseTrace(text string) (body []ev) {
	r := &report.Report{}
	file := source.NewFile("t.proto", text)
	panicked := ""
	var ok, hasFile bool
	func() {
		defer func() {
			if x := recover(); x != nil {
				panicked = fmt.Sprint(x)
			}
		}()
		f, k := parser.Parse("t.proto", file, r)
		ok, hasFile = k, f != nil
	}()
	body = append(body, diagEvents(r, 0)...)
	if panicked != "" {
		body = append(body, ev{"e": "Panic", "msg": panicked})
		return body
	}
	body = append(body, ev{"e": "Return", "ok": ok, "file": hasFile})
	return body
}

// ---------------------------------------------------------------------------------------------

type slot struct {
	id      atomic.Int64
	started atomic.Int64
}

type job struct {
	c    tcase
	text string
}

type result struct {
	lexHeads  []ev
	lexKeys   []string
	lexBodies [][]ev
	parseHead ev
	parseKey  string
	parseBody []ev
}

func main() {
	files := flag.String("files", "", "JSON list of base files for mutation cases")
	lexOut := flag.String("lex", "", "write token-stream traces here")
	parseOut := flag.String("parse", "", "write parse-call traces here")
	describe := flag.Bool("describe", false, "print per base file: bytes and leaf token lengths")
	dedupe := flag.Bool("dedupe", true, "suppress traces identical to one already written")
	bytesMax := flag.Int("bytes-max", 8, "inputs up to this length carry their bytes in the trace")
	hexdump := flag.Bool("hexdump", false, "print the concrete bytes of each case instead of running it")
	hang := flag.Duration("hang", 60*time.Second, "per-case watchdog")
	workers := flag.Int("workers", 4, "cases run concurrently")
	flag.Parse()
	loadBases(*files)

	if *describe {
		enc := json.NewEncoder(os.Stdout)
		for i, b := range bases {
			lens := make([]int, len(b.Toks))
			for j, t := range b.Toks {
				lens[j] = t[1] - t[0]
			}
			_ = enc.Encode(map[string]any{"idx": i + 1, "path": b.Path, "bytes": len(b.Text), "toklens": lens,
				"utf8": utf8.ValidString(b.Text), "lfs": strings.Count(b.Text, "\n")})
		}
		return
	}

	lex, parse := newSink(*lexOut), newSink(*parseOut)
	slots := make([]slot, *workers)
	go func() {
		for {
			time.Sleep(time.Second)
			for w := range slots {
				if id := slots[w].id.Load(); id != 0 && time.Since(time.Unix(0, slots[w].started.Load())) > *hang {
					fmt.Fprintf(os.Stderr, "HANG case=%d\n", id)
					os.Exit(3)
				}
			}
		}
	}()

	jobs := make(chan job, 256)
	results := make(chan result, 256)
	var wg sync.WaitGroup
	for w := 0; w < *workers; w++ {
		wg.Add(1)
		go func(sl *slot) {
			defer wg.Done()
			for j := range jobs {
				c, text := j.c, j.text
				valid := utf8.ValidString(text)
				nulp := (len(text) >= 1 && text[0] == 0) || (len(text) >= 2 && text[1] == 0)
				sl.started.Store(time.Now().UnixNano())
				sl.id.Store(int64(c.ID))
				withBytes := len(text) <= *bytesMax
				feat := fmt.Sprintf("%d/%v/%v", len(text), valid, nulp)
				var res result
				if lex != nil {
					for _, cfg := range []string{"std", "nl"} {
						head := ev{"e": "Begin", "id": c.ID, "cfg": cfg, "len": len(text), "utf8": valid, "nulp": nulp, "hasbytes": withBytes}
						bs := []int{}
						if withBytes {
							for i := 0; i < len(text); i++ {
								bs = append(bs, int(text[i]))
							}
						}
						head["bytes"] = bs
						// the duplicate key leaves the configuration out: an "nl" run whose observation is
						// identical to the "std" run of the same input adds nothing
						key := feat
						if withBytes {
							key += text
						}
						res.lexHeads = append(res.lexHeads, head)
						res.lexKeys = append(res.lexKeys, key)
						res.lexBodies = append(res.lexBodies, lexTrace(text, cfg, withBytes))
					}
				}
				if parse != nil {
					res.parseHead = ev{"e": "Call", "id": c.ID, "len": len(text)}
					res.parseKey = fmt.Sprint(len(text))
					res.parseBody = parseTrace(text)
				}
				sl.id.Store(0)
				results <- res
			}
		}(&slots[w])
	}
	done := make(chan struct{})
	go func() {
		for res := range results {
			for k := range res.lexHeads {
				lex.write(res.lexHeads[k], res.lexKeys[k], res.lexBodies[k], *dedupe)
			}
			if res.parseHead != nil {
				parse.write(res.parseHead, res.parseKey, res.parseBody, *dedupe)
			}
		}
		close(done)
	}()

	in := bufio.NewScanner(os.Stdin)
	in.Buffer(make([]byte, 1<<20), 1<<28)
	ncases := 0
	for in.Scan() {
		if len(in.Bytes()) == 0 {
			continue
		}
		var c tcase
		if err := json.Unmarshal(in.Bytes(), &c); err != nil {
			fatal("bad case: %v", err)
		}
		ncases++
		text := concretise(&c)
		if *hexdump {
			shown := text
			if len(shown) > 200 {
				shown = shown[:200] + "..."
			}
			b, _ := json.Marshal(map[string]any{"id": c.ID, "hex": hex.EncodeToString([]byte(text)), "text": fmt.Sprintf("%q", shown)})
			fmt.Println(string(b))
			continue
		}
		valid := utf8.ValidString(text)
		nulp := (len(text) >= 1 && text[0] == 0) || (len(text) >= 2 && text[1] == 0)
		// the specification's expectations about the concrete input must agree with the concretisation
		if c.Len != nil && *c.Len != len(text) {
			fatal("case %d: spec says %d bytes, concretisation has %d", c.ID, *c.Len, len(text))
		}
		if c.UTF8 != nil && *c.UTF8 != valid {
			fatal("case %d: spec says utf8=%v, concretisation disagrees", c.ID, *c.UTF8)
		}
		if c.NulP != nil && *c.NulP != nulp {
			fatal("case %d: spec says nulp=%v, concretisation disagrees", c.ID, *c.NulP)
		}
		if c.Kind == "mut" && c.Arg >= 1000 {
			fmt.Fprintf(os.Stderr, "DEEP case=%d\n", c.ID)
		}
		jobs <- job{c, text}
	}
	close(jobs)
	wg.Wait()
	close(results)
	<-done
	lex.close()
	parse.close()
	st := map[string]any{"cases": ncases}
	if lex != nil {
		st["lex_traces"], st["lex_dups"], st["lex_events"] = lex.n, lex.dup, lex.evs
	}
	if parse != nil {
		st["parse_traces"], st["parse_dups"], st["parse_events"] = parse.n, parse.dup, parse.evs
	}
	b, _ := json.Marshal(st)
	fmt.Fprintf(os.Stderr, "STATS %s\n", b)
}
