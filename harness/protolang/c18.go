package main

import (
	"encoding/json"
	"errors"
	"fmt"

	"google.golang.org/protobuf/reflect/protoreflect"
	"google.golang.org/protobuf/reflect/protoregistry"

	"github.com/bufbuild/protocompile/internal/zzverif/common/ws"
	"github.com/bufbuild/protocompile/linker"
)

type c18query struct {
	Q       string `json:"q"` // name | extnum | path
	Name    string `json:"name"`
	Kind    string `json:"kind"`
	Num     int    `json:"num"`
	Target  string `json:"target"`
	DefFile string `json:"deffile"`
	Rel     string `json:"rel"`
	Found   bool   `json:"found"`
}

type c18root struct {
	Visible []int    `json:"visible"`
	Rel     []string `json:"rel"`
}

type c18elem struct {
	Name string `json:"name"`
	Kind string `json:"kind"`
	File int    `json:"file"`
}

type c18ext struct {
	Extendee string `json:"extendee"`
	Num      int    `json:"num"`
	Target   string `json:"target"`
	File     int    `json:"file"`
}

type c18case struct {
	Ws    ws.Workspace `json:"ws"`
	Fqns  [][]string   `json:"fqns"`
	Valid bool         `json:"valid"`
	Elems []c18elem    `json:"elems"`
	Exts  []c18ext     `json:"exts"`
	Bogus []string     `json:"bogus"`
	Roots []c18root    `json:"roots"`
}

// queries derives the query list of one root: expected found <=> defining file in the spec's
// Visible(root).
func (cs *c18case) queries(ri int) []c18query {
	root := &cs.Roots[ri]
	vis := map[int]bool{}
	for _, g := range root.Visible {
		vis[g] = true
	}
	var out []c18query
	for _, e := range cs.Elems {
		out = append(out, c18query{Q: "name", Name: e.Name, Kind: e.Kind, Target: e.Name, DefFile: cs.Ws[e.File-1].Path, Rel: root.Rel[e.File-1], Found: vis[e.File]})
	}
	for _, x := range cs.Exts {
		out = append(out, c18query{Q: "extnum", Name: x.Extendee, Kind: "ext", Num: x.Num, Target: x.Target, DefFile: cs.Ws[x.File-1].Path, Rel: root.Rel[x.File-1], Found: vis[x.File]})
	}
	for g := range cs.Ws {
		out = append(out, c18query{Q: "path", Name: cs.Ws[g].Path, Kind: "file", Target: cs.Ws[g].Path, DefFile: cs.Ws[g].Path, Rel: root.Rel[g], Found: vis[g+1]})
	}
	for _, b := range cs.Bogus {
		out = append(out, c18query{Q: "name", Name: b, Kind: "bogus", Rel: "self", Found: false})
	}
	return out
}

type c18 struct {
	corrupt int
	n       int64
}

func (c *c18) run(line []byte, st *stats, out func(mismatch)) {
	var cs c18case
	harness := func(format string, a ...any) {
		st.mu.Lock()
		if len(st.Harness) < 20 {
			st.Harness = append(st.Harness, fmt.Sprintf(format, a...))
		}
		st.mu.Unlock()
	}
	if err := json.Unmarshal(line, &cs); err != nil {
		harness("bad case: %v", err)
		return
	}
	if !cs.Valid {
		harness("spec exported an invalid workspace")
		return
	}
	if err := fqnCheck(cs.Ws, cs.Fqns); err != nil {
		harness("fqn: %v", err)
		return
	}
	rd, res := ws.Compile(cs.Ws, nil)
	if err := ws.CrossCheck(cs.Ws, rd); err != nil {
		harness("crosscheck: %v", err)
		return
	}
	graph := map[string]any{}
	for i := range cs.Ws {
		graph[cs.Ws[i].Path] = cs.Ws[i].Imports
	}
	if !res.OK() {
		var ms []string
		for _, e := range res.Errors {
			ms = append(ms, e.String())
		}
		out(mismatch{Class: "visible:valid-workspace-rejected", Case: map[string]any{"imports": graph, "src": rd.Src, "replay": json.RawMessage(line)},
			Detail: fmt.Sprintf("%v %v %s", res.Err, ms, res.Panic)})
		return
	}
	feats := map[string]bool{}
	evals := 0
	var sample any
	// the same expectations are checked against two ways of producing the linked files:
	//   ""          protocompile.Compiler (dependencies = exactly the imports)
	//   "superset:" linker.Link bottom-up, dependencies = every file linked so far
	check := func(tag string, res *ws.Result) {
		for ri := range cs.Roots {
			root := cs.Ws[ri].Path
			queries := cs.queries(ri)
			shape := map[string]int{}
			for _, q := range queries {
				if q.Q == "path" {
					shape[q.Rel]++
				}
			}
			sh := "root-shape"
			for _, k := range sortedKeys(shape) {
				sh += fmt.Sprintf("/%s*%d", k, shape[k])
			}
			feats[sh] = shape["public-reexport"]+shape["transitive-hidden"] > 0
			lf := res.File(root)
			if lf == nil {
				harness("no compiled file for %s", root)
				return
			}
			r := linker.ResolverFromFile(lf)
			for qi := range queries {
				q := queries[qi]
				c.n++
				if c.corrupt > 0 && int(c.n)%c.corrupt == 0 {
					q.Found = !q.Found
				}
				evals++
				brief := map[string]any{"root": root, "query": q, "imports": graph}
				report := func(class, detail string) {
					b := map[string]any{"root": root, "query": q, "imports": graph, "src": rd.Src, "replay": json.RawMessage(line)}
					out(mismatch{Class: class, Case: b, Detail: detail})
				}
				dir := "hidden-but-found"
				if q.Found {
					dir = "visible-but-missing"
				}
				verdict := func(api string, found bool, err error, gotName, gotFile string) {
					if err != nil && !errors.Is(err, protoregistry.NotFound) && q.Found {
						report("visible:"+tag+api+":error", fmt.Sprintf("%s(%s): %v", api, q.Name, err))
						return
					}
					if found != q.Found {
						report("visible:"+tag+api+":"+dir+":"+q.Rel, fmt.Sprintf("%s(%s %d): found=%v, spec says %v (defined in %s, relation %s)", api, q.Name, q.Num, found, q.Found, q.DefFile, q.Rel))
						return
					}
					if found && (gotName != q.Target || gotFile != q.DefFile) {
						report("visible:"+tag+api+":wrong-element", fmt.Sprintf("%s(%s %d) returned %s from %s, want %s from %s", api, q.Name, q.Num, gotName, gotFile, q.Target, q.DefFile))
					}
				}
				func() {
					defer func() {
						if p := recover(); p != nil {
							report("visible:"+tag+"panic", fmt.Sprint(p))
						}
					}()
					switch q.Q {
					case "name":
						d, err := r.FindDescriptorByName(protoreflect.FullName(q.Name))
						if err == nil && d != nil {
							verdict("FindDescriptorByName", true, nil, string(d.FullName()), d.ParentFile().Path())
						} else {
							verdict("FindDescriptorByName", false, err, "", "")
						}
						// typed lookups: found exactly when visible AND of the right kind
						mt, err := r.FindMessageByName(protoreflect.FullName(q.Name))
						wantMsg := q.Found && q.Kind == "message"
						if (err == nil) != wantMsg {
							report("visible:"+tag+"FindMessageByName:"+dir+":"+q.Rel, fmt.Sprintf("FindMessageByName(%s) err=%v, spec: kind %s visible=%v", q.Name, err, q.Kind, q.Found))
						} else if err == nil && string(mt.Descriptor().FullName()) != q.Target {
							report("visible:"+tag+"FindMessageByName:wrong-element", fmt.Sprintf("got %s", mt.Descriptor().FullName()))
						}
						if !wantMsg && err != nil && !q.Found && !errors.Is(err, protoregistry.NotFound) {
							report("visible:"+tag+"FindMessageByName:error-kind", fmt.Sprintf("FindMessageByName(%s): invisible element gives %v, want NotFound", q.Name, err))
						}
						xt, err := r.FindExtensionByName(protoreflect.FullName(q.Name))
						wantExt := q.Found && q.Kind == "ext"
						if (err == nil) != wantExt {
							report("visible:"+tag+"FindExtensionByName:"+dir+":"+q.Rel, fmt.Sprintf("FindExtensionByName(%s) err=%v, spec: kind %s visible=%v", q.Name, err, q.Kind, q.Found))
						} else if err == nil && string(xt.TypeDescriptor().FullName()) != q.Target {
							report("visible:"+tag+"FindExtensionByName:wrong-element", fmt.Sprintf("got %s", xt.TypeDescriptor().FullName()))
						}
						if !wantExt && err != nil && !q.Found && !errors.Is(err, protoregistry.NotFound) {
							report("visible:"+tag+"FindExtensionByName:error-kind", fmt.Sprintf("FindExtensionByName(%s): invisible element gives %v, want NotFound", q.Name, err))
						}
					case "extnum":
						xt, err := r.FindExtensionByNumber(protoreflect.FullName(q.Name), protoreflect.FieldNumber(q.Num))
						if err == nil && xt != nil {
							verdict("FindExtensionByNumber", true, nil, string(xt.TypeDescriptor().FullName()), xt.TypeDescriptor().ParentFile().Path())
						} else {
							verdict("FindExtensionByNumber", false, err, "", "")
						}
					case "path":
						fd, err := r.FindFileByPath(q.Name)
						if err == nil && fd != nil {
							verdict("FindFileByPath", true, nil, fd.Path(), fd.Path())
						} else {
							verdict("FindFileByPath", false, err, "", "")
						}
					default:
						harness("unknown query kind %q", q.Q)
					}
				}()
				f := fmt.Sprintf("%s/%s/%s/%v", q.Q, q.Kind, q.Rel, q.Found)
				nontrivial := q.Rel != "self" && q.Rel != "unrelated"
				feats[f] = nontrivial
				if sample == nil && q.Rel == "public-reexport" && q.Q == "extnum" {
					sample = brief
				}
			}
		}
	}
	check("", res)
	res2 := ws.LinkSuperset(cs.Ws, rd.Src)
	if !res2.OK() {
		var ms []string
		for _, e := range res2.Errors {
			ms = append(ms, e.String())
		}
		out(mismatch{Class: "visible:superset:valid-workspace-rejected", Case: map[string]any{"imports": graph, "src": rd.Src, "replay": json.RawMessage(line)},
			Detail: fmt.Sprintf("%v %v %s", res2.Err, ms, res2.Panic)})
	} else {
		check("superset:", res2)
	}
	st.mu.Lock()
	st.Cases++
	st.Evals += evals
	st.Compiles++
	for f, nt := range feats {
		st.feature(f, nt)
	}
	if sample != nil && len(st.Samples) < 3 {
		st.Samples = append(st.Samples, sample)
	}
	st.mu.Unlock()
}
