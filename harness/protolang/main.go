// Driver for the ProtoLang-based checks C15 (name resolution), C18 (resolver visibility) and
// C19 (unused imports). Reads TLC-exported cases (one JSON object per line) on stdin, renders each
// workspace, runs the real stable compiler / linker, compares with the expectations computed by
// spec/ProtoLang.tla, and writes one JSON line per disagreement to stdout and a STATS JSON object
// to stderr.
package main

import (
	"bufio"
	"encoding/json"
	"flag"
	"fmt"
	"os"
	"runtime"
	"sort"
	"strings"
	"sync"

	"github.com/bufbuild/protocompile/internal/zzverif/common/ws"
)

type mismatch struct {
	Class  string `json:"class"`
	Case   any    `json:"case"`
	Detail string `json:"detail"`
}

type stats struct {
	mu        sync.Mutex
	Cases     int            `json:"cases"`
	Evals     int            `json:"evaluations"`
	Compiles  int            `json:"compiles"`
	Outcomes  map[string]int `json:"outcomes"`
	Tolerated map[string]int `json:"tolerated"`
	Features  map[string]int `json:"-"`
	Nontriv   int            `json:"distinct_nontrivial"`
	Distinct  int            `json:"distinct_features"`
	Harness   []string       `json:"harness_errors"`
	Samples   []any          `json:"samples"`
}

func (s *stats) feature(f string, nontrivial bool) {
	if !nontrivial {
		f = "trivial|" + f
	}
	s.Features[f]++
}

func (s *stats) finish() {
	for f := range s.Features {
		s.Distinct++
		if !strings.HasPrefix(f, "trivial|") {
			s.Nontriv++
		}
	}
}

type checker interface {
	// run processes one case line; it reports through out() and st (lock st.mu for updates)
	run(line []byte, st *stats, out func(mismatch))
}

func main() {
	mode := flag.String("mode", "c15", "c15 | c18 | c19")
	jobs := flag.Int("j", runtime.GOMAXPROCS(0), "parallel workers")
	corrupt := flag.Int("corrupt", 0, "self-test: corrupt the expectation of every n-th evaluation (0 = off)")
	crossEvery := flag.Int("crosscheck", 1, "run the renderer cross-check on every n-th compiled workspace")
	flag.Parse()

	var ck checker
	switch *mode {
	case "c15":
		ck = &c15{corrupt: *corrupt, crossEvery: *crossEvery}
	case "c18":
		ck = &c18{corrupt: *corrupt}
	case "c19":
		ck = &c19{corrupt: *corrupt}
	default:
		fmt.Fprintln(os.Stderr, "unknown mode", *mode)
		os.Exit(2)
	}

	st := &stats{Outcomes: map[string]int{}, Tolerated: map[string]int{}, Features: map[string]int{}}
	outw := bufio.NewWriterSize(os.Stdout, 1<<20)
	var outMu sync.Mutex
	enc := json.NewEncoder(outw)
	perClass := map[string]int{}
	out := func(m mismatch) {
		outMu.Lock()
		defer outMu.Unlock()
		perClass[m.Class]++
		if perClass[m.Class] <= 50 { // enough examples per class; counts are kept below
			_ = enc.Encode(m)
		}
	}

	lines := make(chan []byte, 256)
	var wg sync.WaitGroup
	for i := 0; i < *jobs; i++ {
		wg.Add(1)
		go func() {
			defer wg.Done()
			for l := range lines {
				ck.run(l, st, out)
			}
		}()
	}
	in := bufio.NewReaderSize(os.Stdin, 1<<20)
	for {
		l, err := in.ReadBytes('\n')
		if len(strings.TrimSpace(string(l))) > 0 {
			lines <- l
		}
		if err != nil {
			break
		}
	}
	close(lines)
	wg.Wait()
	outw.Flush()
	st.finish()
	type final struct {
		*stats
		PerClass map[string]int `json:"mismatch_classes"`
	}
	b, _ := json.Marshal(final{st, perClass})
	fmt.Fprintf(os.Stderr, "STATS %s\n", b)
	if len(st.Harness) > 0 {
		os.Exit(3)
	}
}

func sortedKeys(m map[string]int) []string {
	var k []string
	for x := range m {
		k = append(k, x)
	}
	sort.Strings(k)
	return k
}

// fqnCheck verifies that the Go FQN function agrees with the spec's exported names.
func fqnCheck(w ws.Workspace, fqns [][]string) error {
	if len(fqns) != len(w) {
		return fmt.Errorf("fqns for %d files, workspace has %d", len(fqns), len(w))
	}
	for i := range w {
		if len(fqns[i]) != len(w[i].Decls) {
			return fmt.Errorf("file %d: %d fqns for %d decls", i+1, len(fqns[i]), len(w[i].Decls))
		}
		for d := range w[i].Decls {
			if got := w[i].FQN(d + 1); got != fqns[i][d] {
				return fmt.Errorf("file %d decl %d: harness FQN %q, spec FQN %q", i+1, d+1, got, fqns[i][d])
			}
		}
	}
	return nil
}
