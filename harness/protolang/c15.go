package main

import (
	"encoding/json"
	"fmt"
	"regexp"
	"sort"
	"strings"

	"google.golang.org/protobuf/types/descriptorpb"

	"github.com/bufbuild/protocompile/internal/zzverif/common/ws"
	"github.com/bufbuild/protocompile/linker"
	"github.com/bufbuild/protocompile/protoutil"
)

type c15probe struct {
	Sp  ws.Spelling `json:"sp"`
	Exp ws.Expect   `json:"exp"`
}

type c15case struct {
	Ws       ws.Workspace `json:"ws"`
	Site     ws.Site      `json:"site"`
	SiteKind string       `json:"sitekind"`
	Fqns     [][]string   `json:"fqns"`
	Refs     [][]ws.Ref   `json:"refs"`
	Probes   []c15probe   `json:"probes"`
}

type c15 struct {
	corrupt    int
	crossEvery int
	n          int64
}

// goOutcome is what the real compiler did at the probed site, in the spec's vocabulary.
type goOutcome struct {
	Class string // ok | notfound | sentinel | wrongkind | other
	Name  string // resolved name / sentinel name / name in the wrong-kind message
	Kind  string // kind word of a wrong-kind message
	Msg   string
}

var (
	reResolvedTo = regexp.MustCompile(`; resolved to (\S+) which is not defined`)
	reUnknown    = regexp.MustCompile(`unknown (type|extendee type|request type|response type|extension) (\S+)$`)
	reWrongType  = regexp.MustCompile(`invalid type: (\S+) is (an? [a-z ]+), not a message or enum`)
	reWrongExt   = regexp.MustCompile(`extendee is invalid: (\S+) is (an? [a-z ]+), not a message`)
	reWrongReq   = regexp.MustCompile(`invalid (?:request|response) type: (\S+) is (an? [a-z ]+), not a message`)
	reWrongOpt   = regexp.MustCompile(`invalid extension: (\S+) is (an? [a-z ]+), not an extension`)
	reWrongOpt2  = regexp.MustCompile(`invalid extension: (\S+) is a field but not an extension`)
)

var kindWord = map[string]string{
	"a message": "message", "a field": "field", "an extension": "ext", "a oneof": "oneof", "an enum": "enum",
	"an enum value": "value", "a service": "service", "a method": "method", "a file": "file",
}

func classifyError(msg string) goOutcome {
	if m := reResolvedTo.FindStringSubmatch(msg); m != nil {
		return goOutcome{Class: "sentinel", Name: m[1], Msg: msg}
	}
	for _, re := range []*regexp.Regexp{reWrongType, reWrongExt, reWrongReq, reWrongOpt} {
		if m := re.FindStringSubmatch(msg); m != nil {
			return goOutcome{Class: "wrongkind", Name: m[1], Kind: kindWord[m[2]], Msg: msg}
		}
	}
	if m := reWrongOpt2.FindStringSubmatch(msg); m != nil {
		return goOutcome{Class: "wrongkind", Name: m[1], Kind: "field", Msg: msg}
	}
	if reUnknown.MatchString(msg) {
		return goOutcome{Class: "notfound", Msg: msg}
	}
	return goOutcome{Class: "other", Msg: msg}
}

func fdProto(f linker.File) *descriptorpb.FileDescriptorProto {
	if r, ok := f.(linker.Result); ok {
		return r.FileDescriptorProto()
	}
	return protoutil.ProtoFromFileDescriptor(f)
}

// declNum finds the number of the extension with the given full name in the workspace.
func declNum(w ws.Workspace, fqn string) (int, bool) {
	for i := range w {
		for d := range w[i].Decls {
			if w[i].Decls[d].Kind == "ext" && w[i].FQN(d+1) == fqn {
				return w[i].Decls[d].Num, true
			}
		}
	}
	return 0, false
}

func hasInt(xs []int, x int) bool {
	for _, y := range xs {
		if y == x {
			return true
		}
	}
	return false
}

func featureOf(e *ws.Expect) (string, bool) {
	r := append([]string{}, e.Rules...)
	sort.Strings(r)
	f := e.Outcome + "/" + e.Kind + "|" + strings.Join(r, ",")
	nontrivial := false
	for _, x := range r {
		if strings.HasPrefix(x, "L-") && x != "L-root-miss" && x != "L-abs-miss" {
			nontrivial = true
		}
	}
	return f, nontrivial
}

func (c *c15) run(line []byte, st *stats, out func(mismatch)) {
	var cs c15case
	if err := json.Unmarshal(line, &cs); err != nil {
		st.mu.Lock()
		st.Harness = append(st.Harness, "bad case: "+err.Error())
		st.mu.Unlock()
		return
	}
	harness := func(format string, a ...any) {
		st.mu.Lock()
		if len(st.Harness) < 20 {
			st.Harness = append(st.Harness, fmt.Sprintf(format, a...))
		}
		st.mu.Unlock()
	}
	if err := fqnCheck(cs.Ws, cs.Fqns); err != nil {
		harness("fqn: %v", err)
		return
	}
	local := map[string]int{}
	tol := map[string]int{}
	feats := map[string]bool{}
	var sample any
	evals := 0
	for pi := range cs.Probes {
		p := &cs.Probes[pi]
		exp := p.Exp
		evals++
		c.n++ // racy counter is fine: only used to spread the self-test corruption / cross-check
		if c.corrupt > 0 && int(c.n)%c.corrupt == 0 {
			// self-test of the binding: a corrupted expectation must be reported
			if exp.Outcome == "ok" {
				exp.Outcome, exp.FQN, exp.Kind = "notfound", "", "null"
			} else {
				exp.Outcome, exp.FQN, exp.Kind = "ok", "zz.corrupt", "message"
			}
		}
		w := cs.Ws.Clone()
		*w[cs.Site.File-1].Slot(cs.Site.Decl, cs.Site.Slot) = p.Sp
		rd, res := ws.Compile(w, nil)
		brief := map[string]any{"sitekind": cs.SiteKind, "site": cs.Site.String(), "spelling": p.Sp.String(),
			"expect": map[string]any{"outcome": exp.Outcome, "fqn": exp.FQN, "kind": exp.Kind, "guess": exp.Guess},
			"src":    rd.Src,
			"replay": c15case{Ws: cs.Ws, Site: cs.Site, SiteKind: cs.SiteKind, Fqns: cs.Fqns, Refs: cs.Refs, Probes: []c15probe{*p}}}
		report := func(class, detail string) {
			out(mismatch{Class: class, Case: brief, Detail: detail})
		}
		if c.crossEvery > 0 && int(c.n)%c.crossEvery == 0 {
			if err := ws.CrossCheck(w, rd); err != nil {
				harness("crosscheck: %v", err)
				continue
			}
		}
		f, nontrivial := featureOf(&exp)
		feats[f] = nontrivial
		local[exp.Outcome]++
		if res.Panic != "" {
			report("panic:"+cs.SiteKind, res.Panic)
			continue
		}
		span, okSpan := rd.Spans[cs.Site]
		if !okSpan {
			harness("no span for probe site %v", cs.Site)
			continue
		}
		if exp.Outcome == "ok" {
			if !res.OK() {
				var ms []string
				for _, e := range res.Errors {
					ms = append(ms, e.String())
				}
				report("resolve:rejects-valid:"+cs.SiteKind, fmt.Sprintf("expected %s -> %s (%s); compiler: %v %v", p.Sp, exp.FQN, exp.Kind, res.Err, ms))
				continue
			}
			// every file projects; the probed site and all other references carry the expected names
			bad := false
			for fi := range w {
				if w[fi].Builtin {
					continue
				}
				lf := res.File(w[fi].Path)
				if lf == nil {
					harness("no result for %s", w[fi].Path)
					bad = true
					break
				}
				pr, err := ws.Project(w, fi+1, fdProto(lf))
				if err != nil {
					harness("project: %v\n%s", err, rd.Src[w[fi].Path])
					bad = true
					break
				}
				check := func(site ws.Site, e *ws.Expect, probe bool) {
					cls := "resolve:wrong-target:" + cs.SiteKind
					if !probe {
						cls = "resolve:other-ref:" + cs.SiteKind
					}
					if ws.IsOptSlot(site.Slot) {
						num, ok := declNum(w, e.FQN)
						if !ok {
							harness("expected option extension %s is not an ext of the case", e.FQN)
							return
						}
						if !hasInt(pr.OptNums[site.Decl], num) {
							report(cls, fmt.Sprintf("option (%s) expected to be %s = field %d; options carry fields %v", site, e.FQN, num, pr.OptNums[site.Decl]))
						}
						return
					}
					if got := pr.Target[site]; got != e.FQN {
						report(cls, fmt.Sprintf("site %s: compiled descriptor says %q, spec says %q", site, got, e.FQN))
					}
				}
				if fi+1 == cs.Site.File {
					check(cs.Site, &exp, true)
				}
				for ri := range cs.Refs[fi] {
					r := &cs.Refs[fi][ri]
					check(ws.Site{File: fi + 1, Decl: r.Decl, Slot: r.Slot}, &r.Exp, false)
				}
			}
			_ = bad
			if sample == nil && nontrivial {
				sample = brief
			}
			continue
		}
		// expected failure
		if res.OK() {
			got := ""
			if lf := res.File(w[cs.Site.File-1].Path); lf != nil {
				if pr, err := ws.Project(w, cs.Site.File, fdProto(lf)); err == nil {
					got = pr.Target[cs.Site]
				}
			}
			report("resolve:accepts-invalid:"+cs.SiteKind+":"+exp.Outcome, fmt.Sprintf("spec: %s fails (%s %s); compiler accepted it and resolved to %q", p.Sp, exp.Outcome, exp.FQN, got))
			continue
		}
		// exactly one error, at the probe
		var at []ws.Diag
		var elsewhere []string
		for _, e := range res.Errors {
			if e.File == w[cs.Site.File-1].Path && e.Line == span.Line && e.Col >= span.Col-1 && e.Col < span.EndCol {
				// (an option name is reported at its opening parenthesis)
				at = append(at, e)
			} else {
				elsewhere = append(elsewhere, e.String())
			}
		}
		if len(elsewhere) > 0 {
			report("resolve:unexpected-error:"+cs.SiteKind, fmt.Sprintf("errors away from the probe: %v", elsewhere))
			continue
		}
		if len(at) != 1 {
			report("resolve:error-count:"+cs.SiteKind, fmt.Sprintf("%d errors at the probe, err=%v", len(at), res.Err))
			continue
		}
		g := classifyError(at[0].Msg)
		okClass := false
		optSite := ws.IsOptSlot(cs.Site.Slot)
		switch exp.Outcome {
		case "notfound":
			okClass = g.Class == "notfound"
		case "stuck":
			okClass = g.Class == "sentinel" && g.Name == exp.FQN
		case "wrongkind":
			if exp.Kind == "package" {
				okClass = g.Class == "sentinel" && g.Name == exp.FQN
			} else {
				okClass = g.Class == "wrongkind" && g.Kind == exp.Kind && (optSite || g.Name == exp.FQN)
			}
		}
		if !okClass && exp.Guess != "" && g.Name == exp.Guess &&
			((g.Class == "wrongkind" && g.Kind == exp.GuessKind) || (g.Class == "sentinel" && exp.GuessKind == "package")) {
			// protoc: "not defined" / "is not a type"; the Go linker names the innermost non-type it
			// skipped instead. Same verdict (rejected), finer wording: tolerated, counted.
			okClass = true
			tol["bestguess-wording"]++
		}
		if !okClass {
			report(fmt.Sprintf("failclass:%s:%s/%s->%s", cs.SiteKind, exp.Outcome, exp.Kind, g.Class),
				fmt.Sprintf("spec: %s %s %s (guess %s); compiler: %s", exp.Outcome, exp.FQN, exp.Kind, exp.Guess, at[0].Msg))
		}
	}
	st.mu.Lock()
	st.Cases++
	st.Evals += evals
	st.Compiles += evals
	for k, v := range local {
		st.Outcomes[k] += v
	}
	for k, v := range tol {
		st.Tolerated[k] += v
	}
	for f, nt := range feats {
		st.feature(f, nt)
	}
	if sample != nil && len(st.Samples) < 3 {
		st.Samples = append(st.Samples, sample)
	}
	st.mu.Unlock()
}
