package main

import (
	"bytes"
	"encoding/json"
	"fmt"
	"sort"
	"strings"

	"google.golang.org/protobuf/proto"
	"google.golang.org/protobuf/types/descriptorpb"

	"github.com/bufbuild/protocompile/internal/zzverif/common/ws"
)

type c19verdict struct {
	Path    string `json:"path"`
	Kind    string `json:"kind"`
	Verdict string `json:"verdict"` // U-public-never | U-must-warn | U-must-keep | U-either
}

type c19case struct {
	Ws       ws.Workspace   `json:"ws"`
	Fqns     [][]string     `json:"fqns"`
	Refs     [][]ws.Ref     `json:"refs"`
	Slots    []any          `json:"slots"`
	Uses     []string       `json:"uses"`
	Desc     string         `json:"desc"`
	Valid    bool           `json:"valid"`
	Verdicts []c19verdict   `json:"verdicts"`
	Unused   []string       `json:"unused"`
	Extra    map[string]any `json:"-"`
}

type c19 struct {
	corrupt int
	n       int64
}

// descriptorModuloDeps serialises the compiled main file without its dependency lists.
func descriptorModuloDeps(fd *descriptorpb.FileDescriptorProto) ([]byte, error) {
	c := proto.Clone(fd).(*descriptorpb.FileDescriptorProto)
	c.Dependency, c.PublicDependency, c.WeakDependency = nil, nil, nil
	return proto.MarshalOptions{Deterministic: true}.Marshal(c)
}

func (c *c19) run(line []byte, st *stats, out func(mismatch)) {
	var cs c19case
	harness := func(format string, a ...any) {
		st.mu.Lock()
		if len(st.Harness) < 20 {
			st.Harness = append(st.Harness, fmt.Sprintf(format, a...))
		}
		st.mu.Unlock()
	}
	if err := json.Unmarshal(line, &cs); err != nil {
		harness("bad case: %v", err)
		return
	}
	if err := fqnCheck(cs.Ws, cs.Fqns); err != nil {
		harness("fqn: %v", err)
		return
	}
	if !cs.Valid {
		harness("spec exported an invalid workspace")
		return
	}
	mainPath := cs.Ws[0].Path
	// only main is requested explicitly: warnings may concern main alone
	rd, res := ws.Compile(cs.Ws, []string{mainPath})
	if err := ws.CrossCheck(cs.Ws, rd); err != nil {
		harness("crosscheck: %v", err)
		return
	}
	brief := map[string]any{"imports": cs.Ws[0].Imports, "uses": cs.Uses, "desc": cs.Desc, "verdicts": cs.Verdicts, "src": rd.Src}
	report := func(class, detail string) {
		b := map[string]any{"replay": json.RawMessage(line)}
		for k, v := range brief {
			b[k] = v
		}
		out(mismatch{Class: class, Case: b, Detail: detail})
	}
	compiles := 1
	if res.Panic != "" {
		report("unused:panic", res.Panic)
		return
	}
	if !res.OK() {
		var ms []string
		for _, e := range res.Errors {
			ms = append(ms, e.String())
		}
		report("unused:valid-workspace-rejected", fmt.Sprintf("%v %v", res.Err, ms))
		return
	}
	mainFd := fdProto(res.File(mainPath))
	// the resolved references of main are the ones the verdicts were computed from
	if pr, err := ws.Project(cs.Ws, 1, mainFd); err != nil {
		harness("project: %v", err)
		return
	} else {
		for _, r := range cs.Refs[0] {
			site := ws.Site{File: 1, Decl: r.Decl, Slot: r.Slot}
			if ws.IsOptSlot(r.Slot) {
				num, ok := declNum(cs.Ws, r.Exp.FQN)
				if !ok || !hasInt(pr.OptNums[r.Decl], num) {
					report("unused:reference-differs", fmt.Sprintf("option at %s: expected %s", site, r.Exp.FQN))
				}
			} else if pr.Target[site] != r.Exp.FQN {
				report("unused:reference-differs", fmt.Sprintf("site %s resolved to %q, spec %q", site, pr.Target[site], r.Exp.FQN))
			}
		}
	}
	base, err := descriptorModuloDeps(mainFd)
	if err != nil {
		harness("marshal: %v", err)
		return
	}
	warned := map[string]int{}
	for _, w := range res.Warnings {
		if w.Unused == "" {
			report("unused:other-warning", w.String())
			continue
		}
		if w.File != mainPath {
			report("unused:warning-for-unrequested-file", w.String())
			continue
		}
		warned[w.Unused]++
	}
	imported := map[string]bool{}
	for _, im := range cs.Ws[0].Imports {
		imported[im.Path] = true
	}
	for p, n := range warned {
		if n > 1 {
			report("unused:duplicate-warning", fmt.Sprintf("%s reported %d times", p, n))
		}
		if !imported[p] {
			report("unused:warning-names-non-import", p)
		}
	}
	var feat []string
	tolerated := 0
	for _, v := range cs.Verdicts {
		c.n++
		verdict := v.Verdict
		if c.corrupt > 0 && int(c.n)%c.corrupt == 0 {
			// self-test: flip a definite verdict
			switch verdict {
			case "U-must-warn":
				verdict = "U-must-keep"
			case "U-must-keep", "U-public-never":
				verdict = "U-must-warn"
			}
		}
		isWarned := warned[v.Path] > 0
		feat = append(feat, v.Kind+":"+routeOf(v.Path)+":"+verdict)
		switch verdict {
		case "U-public-never":
			if isWarned {
				report("unused:public-import-reported", v.Path)
			}
			continue
		case "U-options-keep-descriptor":
			// protoc (and the repository's own tests) treat descriptor.proto as used by any file
			// that carries options; the removal criterion is deliberately not applied here.
			if isWarned {
				report("unused:descriptor-reported-despite-options", v.Path)
			}
			tolerated++
			continue
		case "U-must-warn":
			if !isWarned {
				report("unused:missed:"+routeOf(v.Path), fmt.Sprintf("%s: nothing main references is visible through it, no warning", v.Path))
			}
		case "U-must-keep":
			if isWarned {
				report("unused:false-warning:"+routeOf(v.Path), fmt.Sprintf("%s is the only import that makes a referenced element visible, but is reported unused", v.Path))
			}
		}
		// the removal criterion, executed on the real compiler (non-public imports only)
		w2 := cs.Ws.WithoutImport(1, v.Path)
		_, res2 := ws.Compile(w2, []string{mainPath})
		compiles++
		removable := false
		if res2.OK() {
			b2, err := descriptorModuloDeps(fdProto(res2.File(mainPath)))
			if err != nil {
				harness("marshal: %v", err)
				return
			}
			removable = bytes.Equal(base, b2)
		}
		if isWarned && !removable {
			report("unused:warned-but-needed:"+routeOf(v.Path), fmt.Sprintf("%s is reported unused, but without it main no longer compiles to the same descriptors (%v)", v.Path, res2.Err))
		}
		if !isWarned && removable && verdict != "U-either" {
			report("unused:removable-not-warned:"+routeOf(v.Path), fmt.Sprintf("%s can be removed without changing the result, no warning", v.Path))
		}
		// oracle self-consistency against the real compiler
		if verdict == "U-must-warn" && !removable {
			report("unused:oracle-disagrees:must-warn-not-removable", v.Path)
		}
		if verdict == "U-must-keep" && removable {
			report("unused:oracle-disagrees:must-keep-removable", v.Path)
		}
	}
	sort.Strings(feat)
	uses := append([]string{}, cs.Uses...)
	f := strings.Join(feat, ",") + "|" + strings.Join(uses, ",") + "|" + cs.Desc
	nontrivial := false
	for _, v := range cs.Verdicts {
		if v.Verdict != "U-must-warn" || routeOf(v.Path) != "direct" {
			nontrivial = true
		}
	}
	st.mu.Lock()
	st.Cases++
	st.Evals += len(cs.Verdicts)
	st.Compiles += compiles
	for _, v := range cs.Verdicts {
		st.Outcomes[v.Verdict]++
	}
	st.feature(f, nontrivial)
	st.Tolerated["descriptor-kept-by-options"] += tolerated
	if len(st.Samples) < 3 && len(cs.Verdicts) >= 2 && strings.Contains(f, "U-either") {
		st.Samples = append(st.Samples, brief)
	}
	st.mu.Unlock()
}

func routeOf(path string) string {
	switch {
	case strings.HasPrefix(path, "google/"):
		return "descriptor"
	case strings.HasPrefix(path, "d"):
		return "direct"
	case strings.HasPrefix(path, "r"), strings.HasPrefix(path, "s"):
		return "reexport"
	case strings.HasPrefix(path, "c"):
		return "chain"
	}
	return "other"
}
