// Driver for C33 / C34: runs TLC-exported cases (query graph, dependency batches, panicking set,
// parallelism, history of Run / Evict) on the real experimental/incremental executor.
//
//	direction A: after every operation compares what the executor returned with the expectations the
//	             specification's oracle attached to the case (values, cycle errors, panic error, Changed
//	             flags, execute counts, memoised keys, permits), under a watchdog;
//	direction B: records the hook events of every execution as one ndjson trace (header event "case")
//	             for validation against spec/IncExecTrace.tla.
//
// usage: incexec -cases cases.jsonl -out results.jsonl [-trace traces.ndjson] [-seed N] [-reps N] [-watchdog ms]
package main

import (
	"bufio"
	"context"
	"encoding/json"
	"errors"
	"flag"
	"fmt"
	"os"
	"runtime"
	"sort"
	"strings"
	"sync"
	"sync/atomic"
	"time"

	"github.com/bufbuild/protocompile/experimental/incremental"
	"github.com/bufbuild/protocompile/internal/verifhook"
)

// ---------------------------------------------------------------------------------------------
// case format (ToJson of the TLA+ records cfg / exp)

type planOp struct {
	Op    string     `json:"op"`
	Roots [][]string `json:"roots,omitempty"`
	Keys  []string   `json:"keys,omitempty"`
	Conc  bool       `json:"conc,omitempty"`
}
type caseCfg struct {
	Bat  map[string][][]string `json:"bat"`
	Pan  []string              `json:"pan"`
	Par  int                   `json:"par"`
	Plan []planOp              `json:"plan"`
}
type expRes struct {
	Cyc bool `json:"cyc"`
	V   int  `json:"v"`
}
type expRun struct {
	Panic bool     `json:"panic"`
	Res   []expRes `json:"res"`
}
type expOp struct {
	Op      string   `json:"op"`
	Runs    []expRun `json:"runs,omitempty"`
	ExecLo  []string `json:"execLo,omitempty"`
	ExecHi  []string `json:"execHi,omitempty"`
	Lo      []string `json:"lo"`
	Hi      []string `json:"hi"`
	Evicted []string `json:"evicted,omitempty"`
}
type testCase struct {
	ID    int      `json:"id"`
	Order []string `json:"order"` // NodeOrd
	Cfg   caseCfg  `json:"cfg"`
	Exp   []expOp  `json:"exp"`
	// Hold names a forced interleaving: "evict-after-collect" parks a concurrent Evict between its
	// getTask loop and dirty.Lock() until the concurrent Run has returned.
	Hold string `json:"hold,omitempty"`
	// PanicAlways: a panicking query panics even when one of its Resolve calls returned an error (the Run is
	// already cancelled by an earlier panic). Replay only: IncExec's queries return that error instead.
	PanicAlways bool `json:"panic_always,omitempty"`
	// Rendezvous: these queries wait for each other at the start of Execute (before their first Resolve), so
	// that their first requests of a common fresh dependency coincide. Replay only.
	Rendezvous []string `json:"rendezvous,omitempty"`
}

type mismatch struct {
	Class  string `json:"class"`
	Step   int    `json:"step"`
	Detail string `json:"detail"`
}
type caseResult struct {
	ID         int        `json:"id"`
	Rep        int        `json:"rep"`
	Mismatches []mismatch `json:"mismatches"`
	Traced     bool       `json:"traced"`
	Execs      int        `json:"execs"`
	Hang       bool       `json:"hang"`
}

// ---------------------------------------------------------------------------------------------
// the value function F of spec/IncExec.tla

const modM = 65521

func acc0(idx int) int        { return 17 + 31*idx }
func accStep(acc, v int) int  { return (acc*251 + v + 1) % modM }
func finalV(acc, ver int) int { return (acc*7 + ver*13 + 1) % modM }

// ---------------------------------------------------------------------------------------------
// the query world of one case execution

type nodeKey string

func (k nodeKey) String() string { return string(k) }

type world struct {
	tc      *testCase
	idx     map[string]int
	pan     map[string]bool
	mu      sync.Mutex
	ver     map[string]int
	execs   map[string]int            // Execute entries since the key's last eviction
	execRun map[string]map[string]int // run label -> key -> Execute entries
	flags   map[string]map[string][]bool
	arrived map[string]*atomic.Int32
}

type node struct {
	name string
	w    *world
}

type labelKey struct{}

func (n node) Key() any { return nodeKey(n.name) }

func (n node) Execute(t *incremental.Task) (int, error) {
	w := n.w
	label, _ := t.Context().Value(labelKey{}).(string)
	w.mu.Lock()
	w.execs[n.name]++
	if w.execRun[label] == nil {
		w.execRun[label] = map[string]int{}
	}
	w.execRun[label][n.name]++
	w.mu.Unlock()

	w.rendezvous(label, n.name)
	acc := acc0(w.idx[n.name])
	var fatal error
	for _, batch := range w.tc.Cfg.Bat[n.name] {
		qs := make([]incremental.Query[int], len(batch))
		for i, d := range batch {
			qs[i] = node{d, w}
		}
		res, err := incremental.Resolve(t, qs...)
		if err != nil {
			if w.pan[n.name] && w.tc.PanicAlways {
				panic("boom:" + n.name)
			}
			return 0, err
		}
		for i, r := range res {
			acc = accStep(acc, r.Value)
			if fatal == nil && r.Fatal != nil {
				fatal = r.Fatal
			}
			w.sawFlag(label, batch[i], r.Changed, r.Fatal)
		}
	}
	if w.pan[n.name] {
		panic("boom:" + n.name)
	}
	if fatal != nil {
		return 0, fatal
	}
	w.mu.Lock()
	v := w.ver[n.name]
	w.mu.Unlock()
	return finalV(acc, v), nil
}

// rendezvous parks a query of tc.Rendezvous until all of them have arrived in this Run (or 20 ms have passed:
// some of them may be memoised, or parallelism may be too low).
func (w *world) rendezvous(label, name string) {
	n := len(w.tc.Rendezvous)
	if n == 0 {
		return
	}
	member := false
	for _, r := range w.tc.Rendezvous {
		member = member || r == name
	}
	if !member {
		return
	}
	w.mu.Lock()
	if w.arrived == nil {
		w.arrived = map[string]*atomic.Int32{}
	}
	c := w.arrived[label]
	if c == nil {
		c = &atomic.Int32{}
		w.arrived[label] = c
	}
	w.mu.Unlock()
	c.Add(1)
	dl := time.Now().Add(20 * time.Millisecond)
	for int(c.Load()) < n && time.Now().Before(dl) {
		runtime.Gosched()
	}
}

// sawFlag records the Changed flag of a completed, error-free result (C33 quantifies over
// deterministic queries; a result carrying a cycle error may be the pending result object).
func (w *world) sawFlag(label, key string, changed bool, fatal error) {
	if fatal != nil {
		return
	}
	w.mu.Lock()
	if w.flags[label] == nil {
		w.flags[label] = map[string][]bool{}
	}
	w.flags[label][key] = append(w.flags[label][key], changed)
	w.mu.Unlock()
}

// probe queries: used to observe that all permits are free
type probeKey struct {
	Gen, I int
}
type probe struct {
	k       probeKey
	arrived *atomic.Int32
	n       int32
	dl      time.Time
}

func (p probe) Key() any { return p.k }
func (p probe) Execute(*incremental.Task) (bool, error) {
	p.arrived.Add(1)
	for p.arrived.Load() < p.n {
		if time.Now().After(p.dl) {
			return false, nil
		}
		time.Sleep(50 * time.Microsecond)
	}
	return true, nil
}

// ---------------------------------------------------------------------------------------------
// tracing and schedule perturbation

type tracer struct {
	mu     sync.Mutex
	on     bool
	seq    int
	events []map[string]any
}

// the events of experimental/incremental's hooks and of this driver; other hooked packages share the tracer
var myEvents = map[string]bool{"op.begin": true, "run.ret": true, "evict.ret": true, "run.enter": true, "run.exit": true,
	"run.unlock": true, "acquire": true, "release": true, "transfer": true, "stored": true, "join.ok": true, "join.fail": true,
	"start.hit": true, "start.miss": true, "run.load": true, "run.reload": true, "cas.win": true, "cas.lose": true,
	"lacq.reset": true, "exec.begin": true, "exec.ret": true, "close": true, "drop.reset": true, "panic.reset": true,
	"panic.cancel": true, "cycle": true, "wake.done": true, "wake.ctx": true, "wait.reload": true, "evict.collect": true,
	"evict.apply": true}

var myGates = map[string]bool{"acquire": true, "release": true, "join": true, "wait": true, "evict.lock": true, "store": true,
	"start": true, "load": true, "cas": true, "reload": true, "reset": true, "close": true, "cycle": true, "wreload": true,
	"lreset": true, "drop": true}

func (tr *tracer) emit(ev string, kv ...any) {
	if !myEvents[ev] {
		return
	}
	tr.mu.Lock()
	defer tr.mu.Unlock()
	if !tr.on {
		return
	}
	tr.seq++
	m := map[string]any{"seq": tr.seq, "ev": ev}
	for i := 0; i+1 < len(kv); i += 2 {
		if k, ok := kv[i].(string); ok {
			m[k] = kv[i+1]
		}
	}
	tr.events = append(tr.events, m)
}

var (
	gateSeed  uint64
	gateCtr   atomic.Uint64
	gateLevel atomic.Int32 // 0 none, 1 yields, 2 yields + sleeps
	holdMu    sync.Mutex
	holdCh    map[string]chan struct{}
)

func mix(x uint64) uint64 {
	x ^= x >> 33
	x *= 0xff51afd7ed558ccd
	x ^= x >> 33
	x *= 0xc4ceb9fe1a85ec53
	x ^= x >> 33
	return x
}

func gate(name string, _ ...any) {
	if !myGates[name] {
		return
	}
	holdMu.Lock()
	ch := holdCh[name]
	holdMu.Unlock()
	if ch != nil {
		select {
		case <-ch:
		case <-time.After(5 * time.Second):
		}
	}
	lvl := gateLevel.Load()
	if lvl == 0 {
		return
	}
	h := mix(gateSeed ^ gateCtr.Add(1)*0x9e3779b97f4a7c15)
	switch {
	case h%4 == 0:
		runtime.Gosched()
	case lvl >= 2 && h%16 == 1:
		time.Sleep(time.Duration(1+h>>8%200) * time.Microsecond)
	}
}

// ---------------------------------------------------------------------------------------------

type runOutcome struct {
	res []incremental.Result[int]
	err error
	pv  any // a panic that escaped Run
}

func classOf(err error) (string, []string) {
	var cyc *incremental.ErrCycle
	var pan *incremental.ErrPanic
	switch {
	case err == nil:
		return "none", nil
	case errors.As(err, &cyc):
		var path []string
		for _, q := range cyc.Cycle {
			path = append(path, fmt.Sprint(q.Key()))
		}
		return "cycle", path
	case errors.As(err, &pan):
		return "panic", []string{fmt.Sprint(pan.Query.Key())}
	case errors.Is(err, context.Canceled):
		return "cancel", nil
	default:
		return "other:" + err.Error(), nil
	}
}

func toSet(xs []string) map[string]bool {
	m := map[string]bool{}
	for _, x := range xs {
		m[x] = true
	}
	return m
}

func keysOf(m map[string]bool) []string {
	var out []string
	for k, v := range m {
		if v {
			out = append(out, k)
		}
	}
	sort.Strings(out)
	return out
}

// allParkedInExecutor reports whether every goroutine that is not part of the driver's own waiting is
// blocked (not runnable) inside experimental/incremental or the semaphore it uses.
func allParkedInExecutor(dump string) (bool, string) {
	blocks := strings.Split(strings.TrimSpace(dump), "\n\n")
	where := ""
	n := 0
	for _, b := range blocks {
		lines := strings.Split(b, "\n")
		if len(lines) == 0 {
			continue
		}
		head := lines[0]
		inExec := strings.Contains(b, "experimental/incremental.")
		if !inExec {
			continue // driver goroutines, runtime helpers
		}
		n++
		parked := strings.Contains(head, "[select") || strings.Contains(head, "[chan receive") ||
			strings.Contains(head, "[semacquire") || strings.Contains(head, "[sync.")
		if !parked {
			return false, "goroutine not parked: " + head
		}
		for _, l := range lines[1:] {
			if strings.Contains(l, "experimental/incremental.") {
				f := strings.TrimSpace(l)
				if i := strings.Index(f, "("); i > 0 {
					f = f[:i]
				}
				f = f[strings.LastIndex(f, "/")+1:]
				f = strings.TrimPrefix(f, "incremental.")
				if !strings.Contains(where, f) {
					where += f + ";"
				}
				break
			}
		}
	}
	if n == 0 {
		return false, "no goroutine inside the executor"
	}
	return true, where
}

// confirmStuck polls until the operation finishes (false, ""), or all executor goroutines are parked in two
// consecutive dumps half a second apart (true), or two minutes pass with something still runnable (false, why).
func confirmStuck(done chan struct{}) (bool, string, string) {
	seen := 0
	var where, dump string
	for i := 0; i < 240; i++ {
		select {
		case <-done:
			return false, "", ""
		default:
		}
		buf := make([]byte, 1<<20)
		dump = string(buf[:runtime.Stack(buf, true)])
		var ok bool
		ok, where = allParkedInExecutor(dump)
		if ok {
			seen++
			if seen >= 2 {
				select {
				case <-done:
					return false, "", ""
				default:
				}
				return true, where, dump
			}
		} else {
			seen = 0
		}
		time.Sleep(500 * time.Millisecond)
	}
	return false, "still runnable after two minutes: " + where, dump
}

type runner struct {
	lastPanic string
	tr        *tracer
	watchdog  time.Duration
	baseG     int
}

// runCase executes the history once. It returns the mismatches, whether the trace is complete
// (no hang, all goroutines drained) and the events.
func (r *runner) runCase(tc *testCase, rep int) (res caseResult, events []map[string]any) {
	res = caseResult{ID: tc.ID, Rep: rep}
	w := &world{tc: tc, idx: map[string]int{}, pan: toSet(tc.Cfg.Pan), ver: map[string]int{},
		execs: map[string]int{}, execRun: map[string]map[string]int{}, flags: map[string]map[string][]bool{}}
	for i, n := range tc.Order {
		w.idx[n] = i + 1
	}
	exec := incremental.New(incremental.WithParallelism(int64(tc.Cfg.Par)))
	r.tr.mu.Lock()
	r.tr.on, r.tr.seq, r.tr.events = true, 0, nil
	r.tr.mu.Unlock()

	afterPanic := false
	add := func(step int, class, detail string) {
		if afterPanic {
			class = "after-panic:" + class
		}
		res.Mismatches = append(res.Mismatches, mismatch{class, step, detail})
	}
	memoKeys := func() map[string]bool {
		m := map[string]bool{}
		for _, k := range exec.Keys() {
			for _, n := range tc.Order {
				if k == fmt.Sprintf("%#v", nodeKey(n)) {
					m[n] = true
				}
			}
		}
		return m
	}
	probeGen := 0
	hung := false

	for si := 0; si < len(tc.Cfg.Plan) && !hung; si++ {
		op := tc.Cfg.Plan[si]
		e := tc.Exp[si]
		step := si + 1
		verifhook.T("op.begin", "step", step)
		switch op.Op {
		case "run":
			// a following concurrent Evict is started together with the runs
			var concEv *planOp
			if si+1 < len(tc.Cfg.Plan) && tc.Cfg.Plan[si+1].Op == "evict" && tc.Cfg.Plan[si+1].Conc {
				concEv = &tc.Cfg.Plan[si+1]
			}
			outs := make([]runOutcome, len(op.Roots))
			var wg sync.WaitGroup
			start := make(chan struct{})
			var runsDone sync.WaitGroup
			for j, roots := range op.Roots {
				wg.Add(1)
				runsDone.Add(1)
				go func() {
					defer wg.Done()
					defer runsDone.Done()
					defer func() {
						if p := recover(); p != nil {
							outs[j].pv = p
						}
					}()
					qs := make([]incremental.Query[int], len(roots))
					for i, n := range roots {
						qs[i] = node{n, w}
					}
					label := fmt.Sprintf("%d.%d", step, j+1)
					ctx := context.WithValue(context.Background(), labelKey{}, label)
					<-start
					rs, _, err := incremental.Run(ctx, exec, qs...)
					outs[j] = runOutcome{res: rs, err: err}
					verifhook.T("run.ret", "step", step, "j", j+1, "err", err != nil)
				}()
			}
			var holdName string
			var hold chan struct{}
			if concEv != nil {
				if tc.Hold == "evict-after-collect" {
					holdName, hold = "evict.lock", make(chan struct{})
					holdMu.Lock()
					holdCh[holdName] = hold
					holdMu.Unlock()
				}
				wg.Add(1)
				go func() {
					defer wg.Done()
					<-start
					verifhook.T("op.begin", "step", step+1)
					w.evict(exec, concEv.Keys)
				}()
				if hold != nil {
					go func() { runsDone.Wait(); close(hold) }()
				}
			}
			close(start)
			done := make(chan struct{})
			go func() { wg.Wait(); close(done) }()
			select {
			case <-done:
			case <-time.After(r.watchdog):
				// The machine may simply be slow: a hang is reported only when every goroutine inside the
				// executor is seen blocked in two consecutive dumps and the operation still has not finished.
				stuck, where, dump := confirmStuck(done)
				switch {
				case !stuck && where == "":
					// it finished after all
				case !stuck:
					fmt.Fprintf(os.Stderr, "watchdog expired but no reproduced hang (%s) case %d\n%s\n", where, tc.ID, dump)
					os.Exit(2)
				default:
					add(step, "hang", "every executor goroutine parked: "+where)
					res.Hang = true
					hung = true
				}
			}
			if hold != nil {
				holdMu.Lock()
				delete(holdCh, holdName)
				holdMu.Unlock()
			}
			if hung {
				break
			}
			r.checkRun(tc, w, step, op, e, outs, add)
			if concEv != nil {
				si++ // the evict step was performed
				e = tc.Exp[si]
				step++
			}
		case "evict":
			w.evict(exec, op.Keys)
		}
		if hung {
			break
		}
		// quiescence: goroutines of a cancelled run may still be finishing
		r.drain(200 * time.Millisecond)
		// memoised keys are within the oracle's bounds (EvictExact / PanicNotCached / memoisation)
		memo := memoKeys()
		lo, hi := toSet(e.Lo), toSet(e.Hi)
		for k := range lo {
			if !memo[k] {
				add(step, "memo:missing", fmt.Sprintf("%s should be memoised; memoised=%v", k, keysOf(memo)))
			}
		}
		for k := range memo {
			if !hi[k] {
				cls := "memo:extra"
				if w.pan[k] {
					cls = "memo:panicking-query-cached"
				}
				add(step, cls, fmt.Sprintf("%s must not be memoised; memoised=%v allowed=%v", k, keysOf(memo), e.Hi))
			}
		}
		// C34: all permits are free again
		probeGen++
		if !r.permitsFree(exec, tc.Cfg.Par, probeGen) {
			if r.lastPanic != "" {
				add(step, "permits:panic", "probing the permits panicked: "+r.lastPanic)
				r.lastPanic = ""
			} else {
				add(step, "permits", fmt.Sprintf("could not run %d probe queries concurrently after step %d", tc.Cfg.Par, step))
			}
		}
		for _, er := range e.Runs {
			if er.Panic {
				afterPanic = true
			}
		}
	}
	// every key executed at most once since its last eviction, unless it panics (C33 AtMostOnce)
	if len(tc.Cfg.Pan) == 0 {
		for k, n := range w.execs {
			if n > 1 {
				add(len(tc.Cfg.Plan), "exec:more-than-once", fmt.Sprintf("%s executed %d times between evictions", k, n))
			}
		}
	}
	drained := !hung && r.drain(2*time.Second)
	r.tr.mu.Lock()
	r.tr.on = false
	events = r.tr.events
	r.tr.events = nil
	r.tr.mu.Unlock()
	res.Traced = drained
	for _, n := range w.execs {
		res.Execs += n
	}
	if hung {
		// the goroutines of this executor stay parked for ever: they are the new baseline
		r.baseG = runtime.NumGoroutine()
	}
	return res, events
}

func (w *world) evict(exec *incremental.Executor, keys []string) {
	ks := make([]any, len(keys))
	for i, k := range keys {
		ks[i] = nodeKey(k)
	}
	exec.EvictWithCleanup(ks, func() {
		w.mu.Lock()
		for _, k := range keys {
			w.ver[k]++
		}
		w.mu.Unlock()
	})
	verifhook.T("evict.ret")
	// the oracle: the evicted closure re-executes; forget the execute counts of what is no longer memoised
	memo := map[string]bool{}
	for _, k := range exec.Keys() {
		memo[k] = true
	}
	w.mu.Lock()
	for k := range w.execs {
		if !memo[fmt.Sprintf("%#v", nodeKey(k))] {
			delete(w.execs, k)
		}
	}
	w.mu.Unlock()
}

func (r *runner) drain(max time.Duration) bool {
	dl := time.Now().Add(max)
	for runtime.NumGoroutine() > r.baseG {
		if time.Now().After(dl) {
			return false
		}
		time.Sleep(100 * time.Microsecond)
	}
	return true
}

func (r *runner) permitsFree(exec *incremental.Executor, par, gen int) (free bool) {
	defer func() {
		if p := recover(); p != nil { // e.g. "semaphore: released more than held"
			r.lastPanic = fmt.Sprint(p)
			free = false
		}
	}()
	r.tr.mu.Lock()
	was := r.tr.on
	r.tr.on = false // probe runs are not part of the modelled history
	r.tr.mu.Unlock()
	defer func() { r.tr.mu.Lock(); r.tr.on = was; r.tr.mu.Unlock() }()
	for attempt := 0; attempt < 20; attempt++ {
		var arrived atomic.Int32
		qs := make([]incremental.Query[bool], par)
		dl := time.Now().Add(time.Duration(20*(attempt+1)) * time.Millisecond)
		for i := range qs {
			qs[i] = probe{probeKey{gen*100 + attempt, i}, &arrived, int32(par), dl}
		}
		ctx, cancel := context.WithTimeout(context.Background(), time.Second)
		rs, _, err := incremental.Run(ctx, exec, qs...)
		cancel()
		keys := make([]any, par)
		for i := range qs {
			keys[i] = qs[i].Key()
		}
		exec.Evict(keys...)
		if err == nil {
			all := true
			for _, x := range rs {
				all = all && x.Value
			}
			if all {
				return true
			}
		}
	}
	return false
}

func (r *runner) checkRun(tc *testCase, w *world, step int, op planOp, e expOp, outs []runOutcome,
	add func(int, string, string)) {
	succ := func(k string) map[string]bool {
		m := map[string]bool{}
		for _, b := range tc.Cfg.Bat[k] {
			for _, d := range b {
				m[d] = true
			}
		}
		return m
	}
	executed := map[string]int{}
	for j, roots := range op.Roots {
		o := outs[j]
		er := e.Runs[j]
		label := fmt.Sprintf("%d.%d", step, j+1)
		w.mu.Lock()
		for k, n := range w.execRun[label] {
			executed[k] += n
		}
		ranHere := w.execRun[label]
		flags := w.flags[label]
		w.mu.Unlock()
		if o.pv != nil {
			add(step, "panic-escapes-run", fmt.Sprintf("a panic escaped from Run instead of being returned as an error: %v", o.pv))
			continue
		}
		cls, info := classOf(o.err)
		if er.Panic {
			if cls != "panic" {
				add(step, "err:expected-panic", fmt.Sprintf("roots %v reach a panicking query but Run returned err=%v results=%s",
					roots, o.err, showRes(o.res)))
			} else if !w.pan[info[0]] {
				add(step, "err:panic-names-wrong-query", fmt.Sprintf("ErrPanic.Query=%s is not a panicking query", info[0]))
			}
			continue
		}
		if cls != "none" {
			add(step, "err:unexpected", fmt.Sprintf("roots %v: Run returned %v", roots, o.err))
			continue
		}
		if len(o.res) != len(roots) {
			add(step, "results:length", fmt.Sprintf("%d results for %d roots", len(o.res), len(roots)))
			continue
		}
		for i, k := range roots {
			got := o.res[i]
			fc, path := classOf(got.Fatal)
			if er.Res[i].Cyc {
				if fc != "cycle" {
					add(step, "fatal:expected-cycle", fmt.Sprintf("%s depends on a cycle but Fatal=%v value=%d", k, got.Fatal, got.Value))
					continue
				}
				ok := len(path) >= 2 && path[0] == path[len(path)-1]
				for x := 0; ok && x+1 < len(path); x++ {
					ok = succ(path[x])[path[x+1]]
				}
				if !ok {
					add(step, "cycle-path:not-a-cycle", fmt.Sprintf("%s: cycle error names %v, not a closed walk of the query graph", k, path))
				}
				continue
			}
			if fc != "none" {
				add(step, "fatal:unexpected", fmt.Sprintf("%s: Fatal=%v", k, got.Fatal))
				continue
			}
			if got.Value != er.Res[i].V {
				add(step, "value:stale-or-wrong", fmt.Sprintf("%s: value %d, a fresh computation gives %d", k, got.Value, er.Res[i].V))
			}
			// C33 ChangedFlag at the root
			if got.Changed != (ranHere[k] > 0) {
				add(step, "changed:root", fmt.Sprintf("%s: Changed=%v but executed in this run=%v", k, got.Changed, ranHere[k] > 0))
			}
		}
		for k, fl := range flags {
			for _, f := range fl {
				if f != (ranHere[k] > 0) {
					add(step, "changed:dependency", fmt.Sprintf("run %s: a caller saw Changed=%v for %s, executed in this run=%v (all flags %v)",
						label, f, k, ranHere[k] > 0, fl))
					break
				}
			}
		}
	}
	anyPanic := false
	for _, er := range e.Runs {
		anyPanic = anyPanic || er.Panic
	}
	lo, hi := toSet(e.ExecLo), toSet(e.ExecHi)
	for k := range lo {
		if executed[k] == 0 {
			add(step, "exec:not-recomputed", fmt.Sprintf("%s had to execute in this step (executed: %v)", k, executed))
		}
	}
	for k, n := range executed {
		if !hi[k] {
			add(step, "exec:recomputed-memoised", fmt.Sprintf("%s executed although memoised (may execute: %v)", k, e.ExecHi))
		}
		if n > 1 && !anyPanic && !w.pan[k] {
			add(step, "exec:more-than-once", fmt.Sprintf("%s executed %d times in one step", k, n))
		}
	}
}

func showRes(rs []incremental.Result[int]) string {
	var sb strings.Builder
	for _, r := range rs {
		fmt.Fprintf(&sb, "{v=%d fatal=%v changed=%v}", r.Value, r.Fatal != nil, r.Changed)
	}
	return sb.String()
}

func main() {
	casesPath := flag.String("cases", "", "cases jsonl")
	outPath := flag.String("out", "", "results jsonl")
	tracePath := flag.String("trace", "", "ndjson traces out")
	seed := flag.Uint64("seed", 1, "perturbation seed")
	reps := flag.Int("reps", 1, "executions per case")
	wd := flag.Int("watchdog", 3000, "watchdog in ms")
	maxTraces := flag.Int("maxtraces", 1<<30, "record at most this many traces")
	maxHangs := flag.Int("maxhangs", 4, "stop after this many reproduced hangs (each costs a watchdog period and leaks goroutines)")
	flag.Parse()

	in, err := os.Open(*casesPath)
	if err != nil {
		fmt.Fprintln(os.Stderr, err)
		os.Exit(2)
	}
	out, err := os.Create(*outPath)
	if err != nil {
		fmt.Fprintln(os.Stderr, err)
		os.Exit(2)
	}
	defer out.Close()
	ow := bufio.NewWriter(out)
	defer ow.Flush()
	var tw *bufio.Writer
	if *tracePath != "" {
		tf, err := os.Create(*tracePath)
		if err != nil {
			fmt.Fprintln(os.Stderr, err)
			os.Exit(2)
		}
		defer tf.Close()
		tw = bufio.NewWriterSize(tf, 1<<20)
		defer tw.Flush()
	}
	tr := &tracer{}
	if *tracePath != "" {
		// With a tracer installed the hooks serialise the bracketed steps (e.g. the getOrCreateTask / edge-store
		// loop of one Resolve). Runs without -trace leave them unsynchronised, as in the untagged build.
		verifhook.SetTrace(tr.emit)
	}
	verifhook.SetGate(gate)
	holdCh = map[string]chan struct{}{}
	gateSeed = mix(*seed)

	sc := bufio.NewScanner(in)
	sc.Buffer(make([]byte, 1<<20), 1<<28)
	r := &runner{tr: tr, watchdog: time.Duration(*wd) * time.Millisecond, baseG: runtime.NumGoroutine()}
	enc := json.NewEncoder(ow)
	ncase, ntrace, nev, nhang := 0, 0, 0, 0
	for sc.Scan() && nhang < *maxHangs {
		var tc testCase
		if err := json.Unmarshal(sc.Bytes(), &tc); err != nil {
			fmt.Fprintln(os.Stderr, "bad case:", err)
			os.Exit(2)
		}
		if len(tc.Exp) != len(tc.Cfg.Plan) {
			fmt.Fprintln(os.Stderr, "case without expectations", tc.ID)
			os.Exit(2)
		}
		ncase++
		for rep := 0; rep < *reps; rep++ {
			gateLevel.Store(int32((rep + int(*seed)) % 3))
			gateSeed = mix(*seed*1000003 + uint64(tc.ID)*131 + uint64(rep))
			res, events := r.runCase(&tc, rep)
			if tc.PanicAlways || len(tc.Rendezvous) > 0 {
				res.Traced = false // not a behaviour of the model's queries / outside the validated node universe
			}
			_ = enc.Encode(res)
			ow.Flush() // one line per finished execution: if the process dies the engine knows which case was running
			if res.Hang {
				nhang++
			}
			if tw != nil && res.Traced && ntrace < *maxTraces {
				hdr, _ := json.Marshal(map[string]any{"ev": "case", "id": tc.ID, "rep": rep, "cfg": tc.Cfg, "order": tc.Order})
				tw.Write(hdr)
				tw.WriteByte('\n')
				for _, e := range events {
					b, _ := json.Marshal(e)
					tw.Write(b)
					tw.WriteByte('\n')
				}
				ntrace++
				nev += len(events)
			}
		}
	}
	ow.Flush()
	fmt.Fprintf(os.Stderr, "STATS cases=%d traces=%d events=%d\n", ncase, ntrace, nev)
}
