// Driver for C12 and C13 (stable parser: package parser / ast).
//
//	parsepos -mode=units    C13: replays TLC-exported unit sequences (spec/MCSrcPos.tla) into
//	                        ast.FileInfo.SourcePos and parser.Parse and compares every token, comment,
//	                        error and node position with the positions computed by SrcText.tla.
//	parsepos -mode=calls    C12: records one trace per parser.Parse call (spec/ParseCallTrace.tla) for
//	                        inputs exported by spec/MCParseInputs.tla or mutants chosen by spec/Mutate.tla.
//	parsepos -mode=spans    C13: span ordering / reference positions on mutants of real files.
//	parsepos -mode=stat     measures of the base files for spec/Mutate.tla.
package main

import (
	"bufio"
	"flag"
	"fmt"
	"os"
)

func main() {
	mode := flag.String("mode", "", "units | calls | spans | stat")
	testdata := flag.String("testdata", "internal/testdata", "directory with the base .proto files")
	inputsPath := flag.String("inputs", "", "calls: file receiving one line per distinct trace (id, input, multiplicity)")
	workers := flag.Int("workers", 8, "parallel parse workers")
	modes := flag.String("modes", "tolerant,abort", "calls: reporter modes to record per input")
	noRef := flag.Bool("noref", false, "units: skip the cross-check of the driver's reference functions (binding self-test)")
	flag.Parse()
	in := bufio.NewScanner(os.Stdin)
	in.Buffer(make([]byte, 1<<20), 1<<28)
	out := bufio.NewWriterSize(os.Stdout, 1<<20)
	defer out.Flush()
	var err error
	switch *mode {
	case "units":
		err = runUnits(in, out, *noRef)
	case "calls":
		err = runCalls(in, out, *testdata, *inputsPath, *workers, *modes)
	case "spans":
		err = runSpans(in, out, *testdata, *workers)
	case "stat":
		err = runStat(out, *testdata)
	default:
		err = fmt.Errorf("unknown mode %q", *mode)
	}
	out.Flush()
	if err != nil {
		fmt.Fprintln(os.Stderr, "HARNESS-ERROR:", err)
		os.Exit(2)
	}
}
