package main

import (
	"bufio"
	"bytes"
	"encoding/base64"
	"encoding/json"
	"fmt"
	"os"
	"sync"

	"github.com/bufbuild/protocompile/ast"
)

// C13 on real files and their Mutate.tla mutants: every node's span starts no later than it ends, and
// every token / comment / error / node position agrees with the driver's reference position function
// refPos -- which runUnits checks against SrcText.tla on every TLC-exported boundary.

type spanStats struct {
	Cases, Items, Nodes, Errors, Checks, MidCharSkipped, ColUndefinedSkipped, BOMCases, MultiLineNodes int
}

func runSpans(in *bufio.Scanner, out *bufio.Writer, testdata string, workers int) error {
	base, err := loadBase(testdata)
	if err != nil {
		return err
	}
	jobs := make(chan string, 256)
	type res struct {
		ms []mismatch
		st spanStats
		e  error
	}
	results := make(chan res, 256)
	var wg sync.WaitGroup
	for w := 0; w < workers; w++ {
		wg.Add(1)
		go func() {
			defer wg.Done()
			for line := range jobs {
				var c callCase
				if err := json.Unmarshal([]byte(line), &c); err != nil {
					results <- res{e: err}
					continue
				}
				var data []byte
				var err error
				if c.Raw != nil {
					data, err = base64.StdEncoding.DecodeString(*c.Raw)
				} else {
					data, err = applyChain(base, c.File, c.Muts)
				}
				if err != nil {
					results <- res{e: err}
					continue
				}
				ms, st := checkSpans(data, line)
				results <- res{ms: ms, st: st}
			}
		}()
	}
	go func() {
		for in.Scan() {
			if len(in.Bytes()) > 0 {
				jobs <- in.Text()
			}
		}
		close(jobs)
		wg.Wait()
		close(results)
	}()
	enc := json.NewEncoder(out)
	var tot spanStats
	var firstErr error
	for r := range results {
		if r.e != nil {
			if firstErr == nil {
				firstErr = r.e
			}
			continue
		}
		for _, m := range r.ms {
			_ = enc.Encode(m)
		}
		tot.Cases += r.st.Cases
		tot.Items += r.st.Items
		tot.Nodes += r.st.Nodes
		tot.Errors += r.st.Errors
		tot.Checks += r.st.Checks
		tot.MidCharSkipped += r.st.MidCharSkipped
		tot.ColUndefinedSkipped += r.st.ColUndefinedSkipped
		tot.BOMCases += r.st.BOMCases
		tot.MultiLineNodes += r.st.MultiLineNodes
	}
	out.Flush()
	b, _ := json.Marshal(tot)
	fmt.Fprintf(os.Stderr, "STATS %s\n", b)
	return firstErr
}

func checkSpans(data []byte, cse string) (ms []mismatch, st spanStats) {
	st.Cases = 1
	input := data
	if bytes.HasPrefix(data, bomBytes) {
		// the byte order mark is not part of the text: reference positions and the offsets the AST
		// reports are relative to the first byte after it
		st.BOMCases = 1
		data = withoutBOM(data)
	}
	seenClass := map[string]int{}
	report := func(class, detail string) {
		if st.BOMCases == 1 {
			class = "bom:" + class
		}
		seenClass[class]++
		if seenClass[class] > 1 {
			return
		}
		ms = append(ms, mismatch{Class: class, Text: base64.StdEncoding.EncodeToString(data), Units: []string{truncateCase(cse)}, Detail: detail})
	}
	rt := refTable(data)
	check := func(where string, p ast.SourcePos, off int) {
		if off < 0 || off > len(data) {
			report(where+":offset-outside-file", fmt.Sprintf("offset %d of %d", off, len(data)))
			return
		}
		line, col, onB, def := rt[off].line, rt[off].col, rt[off].boundary, rt[off].colDefined
		if !onB {
			st.MidCharSkipped++
			return
		}
		st.Checks++
		if p.Line != line {
			report("line", fmt.Sprintf("%s at offset %d: got %d:%d want %d:%d", where, off, p.Line, p.Col, line, col))
			return
		}
		if !def {
			st.ColUndefinedSkipped++
			return
		}
		if p.Col != col {
			report("col:"+where, fmt.Sprintf("offset %d: got %d:%d want %d:%d", off, p.Line, p.Col, line, col))
		}
	}
	o := doParse(input, false)
	if o.panicked {
		report("parse:panic", o.site+": "+o.panicMsg)
		return
	}
	if o.file == nil {
		report("parse:nil-ast", "")
		return
	}
	for _, e := range o.errs {
		st.Errors++
		check("error-start", e.start, e.start.Offset)
		check("error-end", e.end, e.end.Offset)
		if posLess(e.end, e.start) {
			report("span:error-start-after-end", fmt.Sprintf("%v > %v", e.start, e.end))
		}
	}
	f := o.file
	items := f.Items()
	for it, ok := items.First(); ok; it, ok = items.Next(it) {
		st.Items++
		info := f.ItemInfo(it)
		orphan := false
		if info == nil { // comment lexed just before a lexical error: an item, but attributed to nothing
			orphan = true
			info = f.TokenInfo(ast.Token(it))
		}
		s, e := info.Start(), info.End()
		raw := info.RawText()
		check("item-start", s, s.Offset)
		if orphan {
			// only the start of an unattributed comment is observable
		} else if _, cmt := f.GetItem(it); cmt.IsValid() {
			check("comment-end", e, e.Offset)
		} else if len(raw) > 0 {
			check("item-end", e, s.Offset+len(raw))
		} else {
			check("item-end", e, e.Offset)
		}
		if posLess(e, s) {
			report("span:item-start-after-end", fmt.Sprintf("%q %v > %v", raw, s, e))
		}
	}
	_ = ast.Walk(f, &ast.SimpleVisitor{DoVisitNode: func(n ast.Node) error {
		st.Nodes++
		ni := f.NodeInfo(n)
		s, e := ni.Start(), ni.End()
		if posLess(e, s) {
			report("span:node-start-after-end", fmt.Sprintf("%T %v > %v", n, s, e))
		}
		if e.Line > s.Line {
			st.MultiLineNodes++
		}
		check("node-start", s, s.Offset)
		if raw := ni.RawText(); len(raw) > 0 {
			check("node-end", e, s.Offset+len(raw))
		}
		return nil
	}})
	return
}
