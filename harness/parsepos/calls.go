package main

import (
	"bufio"
	"bytes"
	"crypto/sha1"
	"encoding/base64"
	"encoding/json"
	"fmt"
	"os"
	"sort"
	"strings"
	"sync"
)

// one input case: either a TLC-enumerated text with its SrcLines line table, a Mutate.tla mutant,
// or (replay) raw bytes
type callCase struct {
	Bom    int        `json:"bom,omitempty"`   // text cases: 1 = a byte order mark precedes the text
	Lines  []string   `json:"lines,omitempty"` // token-level cases: the input is these lines joined by LF
	Text   []string   `json:"text,omitempty"`
	NLines int        `json:"nlines,omitempty"`
	Widths []int      `json:"widths,omitempty"`
	File   int        `json:"file,omitempty"`
	Muts   []mutation `json:"muts,omitempty"`
	Raw    *string    `json:"raw,omitempty"` // base64
}

type callResult struct {
	sig    [sha1.Size]byte
	events []string // without id; %d placeholder for id
	input  []byte
	mode   string
	cse    string
	feat   string
}

type callStats struct {
	Inputs, Calls, Distinct, Events                     int
	WithErrors, Panics, DescPanics, DescErrors, Aborted int
	MaxErrorsInOneCall                                  int
}

func recordCall(data []byte, abort bool, specWidths []int) (events []string, feat string, err error) {
	// positions exist relative to the text without a leading byte order mark
	table := refLineTable(withoutBOM(data))
	if specWidths != nil {
		if len(specWidths) != len(table) {
			return nil, "", fmt.Errorf("driver line table disagrees with SrcLines on %q: %v vs %v", data, table, specWidths)
		}
		for i := range table {
			if table[i] != specWidths[i] {
				return nil, "", fmt.Errorf("driver line table disagrees with SrcLines on %q: %v vs %v", data, table, specWidths)
			}
		}
	}
	mode := "tolerant"
	if abort {
		mode = "abort"
	}
	lines := map[int]bool{}
	var body []string
	addErrs := func(errs []reported) {
		for _, e := range errs {
			lines[e.start.Line] = true
			lines[e.end.Line] = true
			body = append(body, fmt.Sprintf(`{"ev":"ReportError","id":%%d,"line":%d,"col":%d,"eline":%d,"ecol":%d}`,
				e.start.Line, e.start.Col, e.end.Line, e.end.Col))
		}
	}
	o := doParse(data, abort)
	addErrs(o.errs)
	feats := []string{mode}
	if bytes.HasPrefix(data, bomBytes) {
		feats = append(feats, "bom")
	}
	if len(o.errs) > 0 {
		feats = append(feats, "errors")
	}
	if o.panicked {
		body = append(body, `{"ev":"Panic","id":%d,"site":`+jsonStr(o.site)+`,"msg":`+jsonStr(o.panicMsg)+`}`)
		feats = append(feats, "panic")
	} else {
		body = append(body, fmt.Sprintf(`{"ev":"Return","id":%%d,"ast":%v,"err":%v}`, o.file != nil, o.err != nil))
		if o.file != nil {
			c := doConvert(o.file)
			addErrs(c.errs)
			if len(c.errs) > 0 {
				feats = append(feats, "desc-errors")
			}
			if c.panicked {
				body = append(body, `{"ev":"ToDescriptor","id":%d,"panicked":true,"site":`+jsonStr(c.site)+`,"msg":`+jsonStr(c.panicMsg)+`}`)
				feats = append(feats, "desc-panic")
			} else {
				body = append(body, `{"ev":"ToDescriptor","id":%d,"panicked":false}`)
			}
		}
	}
	var ls []int
	for l := range lines {
		if l >= 1 && l <= len(table) {
			ls = append(ls, l)
		}
	}
	sort.Ints(ls)
	var lw []string
	for _, l := range ls {
		lw = append(lw, fmt.Sprintf("[%d,%d]", l, table[l-1]))
	}
	call := fmt.Sprintf(`{"ev":"Call","id":%%d,"mode":"%s","nlines":%d,"lw":[%s]}`, mode, len(table), strings.Join(lw, ","))
	events = append([]string{call}, body...)
	events = append(events, `{"ev":"Reset","id":%d}`)
	return events, strings.Join(feats, "+"), nil
}

func jsonStr(s string) string {
	b, _ := json.Marshal(s)
	// the event lines are used as fmt formats for the id
	return strings.ReplaceAll(string(b), "%", "%%")
}

func runCalls(in *bufio.Scanner, out *bufio.Writer, testdata, inputsPath string, workers int, modes string) error {
	var aborts []bool
	if strings.Contains(modes, "tolerant") {
		aborts = append(aborts, false)
	}
	if strings.Contains(modes, "abort") {
		aborts = append(aborts, true)
	}
	var base []baseFile
	type job struct {
		line string
	}
	jobs := make(chan job, 1024)
	results := make(chan []callResult, 1024)
	var firstErr error
	var errMu sync.Mutex
	setErr := func(e error) {
		errMu.Lock()
		if firstErr == nil {
			firstErr = e
		}
		errMu.Unlock()
	}
	var baseOnce sync.Once
	getBase := func() []baseFile {
		baseOnce.Do(func() {
			b, err := loadBase(testdata)
			if err != nil {
				setErr(err)
			}
			base = b
		})
		return base
	}
	var wg sync.WaitGroup
	for w := 0; w < workers; w++ {
		wg.Add(1)
		go func() {
			defer wg.Done()
			for j := range jobs {
				var c callCase
				if err := json.Unmarshal([]byte(j.line), &c); err != nil {
					setErr(fmt.Errorf("bad case: %v", err))
					continue
				}
				var data []byte
				var specWidths []int
				var err error
				switch {
				case c.Raw != nil:
					data, err = base64.StdEncoding.DecodeString(*c.Raw)
				case c.File > 0:
					data, err = applyChain(getBase(), c.File, c.Muts)
				case c.Lines != nil:
					data = []byte(strings.Join(c.Lines, "\n"))
					specWidths = c.Widths
				default:
					data, err = concretise(c.Text)
					if err == nil && bytes.HasPrefix(data, bomBytes) {
						err = fmt.Errorf("text case starts with a BOM of its own")
					}
					if c.Bom == 1 {
						data = withBOM(data)
					}
					specWidths = c.Widths
					if specWidths == nil {
						specWidths = []int{}
					}
				}
				if err != nil {
					setErr(err)
					continue
				}
				var rs []callResult
				for _, abort := range aborts {
					evs, feat, err := recordCall(data, abort, specWidths)
					if err != nil {
						setErr(err)
						break
					}
					mode := "tolerant"
					if abort {
						mode = "abort"
					}
					rs = append(rs, callResult{sig: sha1.Sum([]byte(strings.Join(evs, "\n"))), events: evs, input: data, mode: mode, cse: j.line, feat: feat})
				}
				results <- rs
			}
		}()
	}
	go func() {
		for in.Scan() {
			if len(in.Bytes()) == 0 {
				continue
			}
			jobs <- job{line: in.Text()}
		}
		close(jobs)
		wg.Wait()
		close(results)
	}()

	var inputs *bufio.Writer
	if inputsPath != "" {
		fh, err := os.Create(inputsPath)
		if err != nil {
			return err
		}
		defer fh.Close()
		inputs = bufio.NewWriterSize(fh, 1<<20)
		defer inputs.Flush()
	}
	type entry struct {
		id, count int
	}
	seen := map[[sha1.Size]byte]*entry{}
	var order []*entry
	feats := map[string]int{}
	var st callStats
	for rs := range results {
		st.Inputs++
		for _, r := range rs {
			st.Calls++
			feats[r.feat]++
			if strings.Contains(r.feat, "errors") {
				st.WithErrors++
			}
			if strings.Contains(r.feat, "+panic") {
				st.Panics++
			}
			if strings.Contains(r.feat, "desc-panic") {
				st.DescPanics++
			}
			if strings.Contains(r.feat, "desc-errors") {
				st.DescErrors++
			}
			if n := len(r.events) - 4; n > st.MaxErrorsInOneCall {
				st.MaxErrorsInOneCall = n
			}
			if e, ok := seen[r.sig]; ok {
				e.count++
				continue
			}
			e := &entry{id: len(order) + 1, count: 1}
			seen[r.sig] = e
			order = append(order, e)
			st.Distinct++
			for _, ev := range r.events {
				fmt.Fprintf(out, ev, e.id)
				out.WriteByte('\n')
				st.Events++
			}
			if inputs != nil {
				rec := map[string]any{"id": e.id, "mode": r.mode, "len": len(r.input), "feat": r.feat,
					"case": json.RawMessage(truncateCase(r.cse))}
				if len(r.input) <= 512 { // longer inputs are mutants: the case regenerates them
					rec["input"] = base64.StdEncoding.EncodeToString(r.input)
					rec["quoted"] = fmt.Sprintf("%q", r.input)
				}
				b, _ := json.Marshal(rec)
				inputs.Write(b)
				inputs.WriteByte('\n')
			}
		}
	}
	if inputs != nil {
		for _, e := range order {
			fmt.Fprintf(inputs, `{"id":%d,"count":%d}`+"\n", e.id, e.count)
		}
	}
	out.Flush()
	b, _ := json.Marshal(map[string]any{"stats": st, "features": feats})
	fmt.Fprintf(os.Stderr, "STATS %s\n", b)
	errMu.Lock()
	defer errMu.Unlock()
	return firstErr
}

func truncateCase(s string) string {
	if len(s) > 2000 {
		return `"(long case omitted)"`
	}
	return s
}
