package main

import (
	"bufio"
	"bytes"
	"encoding/json"
	"fmt"
	"os"
	"path/filepath"
	"sort"
	"strings"
)

// concretisation of spec/Mutate.tla

type mutation struct {
	Op  string `json:"op"`
	Pos int    `json:"pos"`
	N   int    `json:"n"`
}

type baseFile struct {
	Name  string `json:"name"`
	Toks  int    `json:"toks"`
	Bytes int    `json:"bytes"`
	data  []byte
}

func loadBase(dir string) ([]baseFile, error) {
	names, err := filepath.Glob(filepath.Join(dir, "*.proto"))
	if err != nil {
		return nil, err
	}
	sort.Strings(names)
	var out []baseFile
	for _, n := range names {
		b, err := os.ReadFile(n)
		if err != nil {
			return nil, err
		}
		out = append(out, baseFile{Name: filepath.Base(n), Toks: len(pieces(b)), Bytes: len(b), data: b})
	}
	if len(out) == 0 {
		return nil, fmt.Errorf("no base files in %s", dir)
	}
	return out, nil
}

func runStat(out *bufio.Writer, dir string) error {
	files, err := loadBase(dir)
	if err != nil {
		return err
	}
	return json.NewEncoder(out).Encode(files)
}

type span struct{ lo, hi int }

func isWord(b byte) bool {
	return b == '_' || (b >= '0' && b <= '9') || (b >= 'a' && b <= 'z') || (b >= 'A' && b <= 'Z')
}

// pieces is the driver's own scanner (NOT the parser under test): words, quoted strings, comments,
// single other characters; white space separates.
func pieces(b []byte) []span {
	var ps []span
	for i := 0; i < len(b); {
		c := b[i]
		switch {
		case c == ' ' || c == '\t' || c == '\n' || c == '\r' || c == '\f' || c == '\v':
			i++
		case isWord(c):
			j := i
			for j < len(b) && isWord(b[j]) {
				j++
			}
			ps = append(ps, span{i, j})
			i = j
		case c == '"' || c == '\'':
			j := i + 1
			for j < len(b) && b[j] != c && b[j] != '\n' {
				if b[j] == '\\' && j+1 < len(b) {
					j++
				}
				j++
			}
			if j < len(b) && b[j] == c {
				j++
			}
			ps = append(ps, span{i, j})
			i = j
		case c == '/' && i+1 < len(b) && b[i+1] == '/':
			j := i
			for j < len(b) && b[j] != '\n' {
				j++
			}
			ps = append(ps, span{i, j})
			i = j
		case c == '/' && i+1 < len(b) && b[i+1] == '*':
			j := bytes.Index(b[i+2:], []byte("*/"))
			if j < 0 {
				j = len(b)
			} else {
				j = i + 2 + j + 2
			}
			ps = append(ps, span{i, j})
			i = j
		default:
			ps = append(ps, span{i, i + 1})
			i++
		}
	}
	return ps
}

var openers = []string{"message M { ", "{ ", "[ ", "( "}

// apply one mutation; first=true: the position is exact (the spec chose it within the measures of
// the base file); otherwise it is an ordinal reduced modulo the current size.
func applyMutation(b []byte, m mutation, first bool) ([]byte, error) {
	splice := func(at int, ins string) []byte {
		out := make([]byte, 0, len(b)+len(ins))
		out = append(out, b[:at]...)
		out = append(out, ins...)
		return append(out, b[at:]...)
	}
	switch m.Op {
	case "deltok", "duptok", "swaptok", "nest":
		ps := pieces(b)
		n := len(ps)
		if m.Op == "swaptok" {
			n--
		}
		if n <= 0 {
			return b, nil
		}
		p := m.Pos
		if p < 1 || p > n {
			if first {
				return nil, fmt.Errorf("%s position %d outside 1..%d", m.Op, p, n)
			}
			p = (p-1)%n + 1
		}
		s := ps[p-1]
		switch m.Op {
		case "deltok":
			return append(append([]byte{}, b[:s.lo]...), b[s.hi:]...), nil
		case "duptok":
			return splice(s.hi, " "+string(b[s.lo:s.hi])), nil
		case "swaptok":
			t := ps[p]
			var out []byte
			out = append(out, b[:s.lo]...)
			out = append(out, b[t.lo:t.hi]...)
			out = append(out, b[s.hi:t.lo]...)
			out = append(out, b[s.lo:s.hi]...)
			return append(out, b[t.hi:]...), nil
		default: // nest
			return splice(s.lo, strings.Repeat(openers[p%4], m.N)), nil
		}
	case "bom":
		return splice(0, string(bomBytes)), nil
	case "truncate", "insnul", "insbad", "insustr", "insubc":
		k := m.Pos
		if k < 0 || k > len(b) {
			if first {
				return nil, fmt.Errorf("%s position %d outside 0..%d", m.Op, k, len(b))
			}
			k = k % (len(b) + 1)
		}
		switch m.Op {
		case "truncate":
			return append([]byte{}, b[:k]...), nil
		case "insnul":
			return splice(k, "\x00"), nil
		case "insbad":
			return splice(k, "\x80"), nil
		case "insustr":
			return splice(k, "\"x"), nil
		default:
			return splice(k, "/*"), nil
		}
	}
	return nil, fmt.Errorf("unknown mutation %q", m.Op)
}

func applyChain(base []baseFile, file int, muts []mutation) ([]byte, error) {
	if file < 1 || file > len(base) {
		return nil, fmt.Errorf("file index %d out of range", file)
	}
	b := base[file-1].data
	for i, m := range muts {
		var err error
		b, err = applyMutation(b, m, i == 0)
		if err != nil {
			return nil, err
		}
	}
	return b, nil
}
