package main

import (
	"bytes"
	"fmt"
	"runtime"
	"strings"
	"unicode/utf8"

	"github.com/bufbuild/protocompile/ast"
	"github.com/bufbuild/protocompile/parser"
	"github.com/bufbuild/protocompile/reporter"
)

// concretisation of the specifications' symbols
var symbols = map[string]string{
	"S": " ", "T": "\t", "N": "\n", "R": "\r", "Q": "\"", "B": "\\",
	"2": "é", "3": "€", "4": "\U0001F600", "Z": "\x00", "X": "\x80",
}

// The UTF-8 byte order mark.  It is not part of the text: reference tables are computed on the
// input without a leading BOM, and offsets reported by the AST are compared relative to the first
// byte after it (MCSrcPos.tla / MCParseInputs.tla state this; for mutants it is the driver's rule).
var bomBytes = []byte{0xEF, 0xBB, 0xBF}

func withBOM(text []byte) []byte {
	return append(append([]byte{}, bomBytes...), text...)
}

func withoutBOM(input []byte) []byte {
	return bytes.TrimPrefix(input, bomBytes)
}

func concretise(syms []string) ([]byte, error) {
	var sb strings.Builder
	for _, s := range syms {
		if c, ok := symbols[s]; ok {
			sb.WriteString(c)
			continue
		}
		if len(s) == 1 && s[0] > 0x20 && s[0] < 0x7f && !(s[0] >= 'A' && s[0] <= 'Z') {
			sb.WriteString(s)
			continue
		}
		return nil, fmt.Errorf("unknown symbol %q", s)
	}
	return []byte(sb.String()), nil
}

// refLineTable is the driver's own line table (C12, inputs too large for TLC): widths in Col8
// columns of every line.  It is checked against SrcLines!LineTable on every TLC-exported input.
func refLineTable(data []byte) []int {
	widths := []int{}
	col := 0
	for i := 0; i < len(data); {
		r, sz := utf8.DecodeRune(data[i:])
		switch {
		case r == '\n':
			widths = append(widths, col)
			col = 0
		case r == '\t':
			col += 8 - col%8
		default: // any character, and (size 1) an invalid byte
			col++
		}
		i += sz
	}
	return append(widths, col)
}

// refTable is the driver's own position function (C13 "spans" mode, real files), tabulated for every
// byte offset 0..len(data): line and Col8 column of an offset that lies on a character boundary;
// boundary=false for a mid-character offset, colDefined=false when an invalid byte precedes it on its
// line.  Checked against SrcText on every boundary of every TLC-exported unit case (runUnits).
type refEntry struct {
	line, col            int
	boundary, colDefined bool
}

func refTable(data []byte) []refEntry {
	tab := make([]refEntry, len(data)+1)
	line, c := 1, 0
	def := true
	i := 0
	for i < len(data) {
		tab[i] = refEntry{line, c + 1, true, def}
		r, sz := utf8.DecodeRune(data[i:])
		for j := 1; j < sz; j++ {
			tab[i+j] = refEntry{line, c + 1, false, def}
		}
		switch {
		case r == '\n':
			line++
			c = 0
			def = true
		case r == '\t':
			c += 8 - c%8
		default:
			if r == utf8.RuneError && sz == 1 {
				def = false
			}
			c++
		}
		i += sz
	}
	tab[len(data)] = refEntry{line, c + 1, true, def}
	return tab
}

type reported struct {
	start, end ast.SourcePos
	msg        string
}

type parseOutcome struct {
	file     *ast.FileNode
	err      error
	errs     []reported
	panicked bool
	panicMsg string
	site     string
}

// panicSite names the innermost non-runtime function of the panicking stack.
func panicSite(skip int) string {
	pcs := make([]uintptr, 64)
	n := runtime.Callers(skip, pcs)
	frames := runtime.CallersFrames(pcs[:n])
	for {
		f, more := frames.Next()
		if !strings.HasPrefix(f.Function, "runtime.") && !strings.Contains(f.Function, "zzverif") && f.Function != "" {
			fn := f.Function
			if i := strings.LastIndex(fn, "/"); i >= 0 {
				fn = fn[i+1:]
			}
			return fn
		}
		if !more {
			return "?"
		}
	}
}

// doParse calls parser.Parse with a reporter that records every error; abort=true makes the reporter
// return the error (the parse is asked to stop), otherwise it returns nil (error tolerant).
func doParse(data []byte, abort bool) (o parseOutcome) {
	rep := reporter.NewReporter(func(e reporter.ErrorWithPos) error {
		o.errs = append(o.errs, reported{start: e.Start(), end: e.End(), msg: e.Unwrap().Error()})
		if abort {
			return e
		}
		return nil
	}, nil)
	defer func() {
		if r := recover(); r != nil {
			o.panicked = true
			o.panicMsg = fmt.Sprint(r)
			o.site = panicSite(3)
		}
	}()
	o.file, o.err = parser.Parse("t.proto", strings.NewReader(string(data)), reporter.NewHandler(rep))
	return o
}

type convOutcome struct {
	errs     []reported
	err      error
	resNil   bool
	panicked bool
	panicMsg string
	site     string
}

func doConvert(file *ast.FileNode) (o convOutcome) {
	rep := reporter.NewReporter(func(e reporter.ErrorWithPos) error {
		o.errs = append(o.errs, reported{start: e.Start(), end: e.End(), msg: e.Unwrap().Error()})
		return nil
	}, nil)
	defer func() {
		if r := recover(); r != nil {
			o.panicked = true
			o.panicMsg = fmt.Sprint(r)
			o.site = panicSite(3)
		}
	}()
	res, err := parser.ResultFromAST(file, true, reporter.NewHandler(rep))
	o.err = err
	o.resNil = res == nil || res.FileDescriptorProto() == nil
	return o
}
