package main

import (
	"bufio"
	"encoding/json"
	"fmt"
	"os"
	"sort"
	"strings"

	"github.com/bufbuild/protocompile/ast"
)

// one MCSrcPos case
type unitCase struct {
	Shape  string              `json:"shape"`
	Bom    int                 `json:"bom"` // 1: the file starts with a byte order mark (not part of text / bnd)
	Text   []string            `json:"text"`
	NLines int                 `json:"nlines"`
	Unit   [][]json.RawMessage `json:"unit"` // <<name, start boundary, toklen, starts, comment, error>>
	Bnd    [][4]int            `json:"bnd"`  // per boundary <<byte offset, line, col, col defined>>
}

type unitRec struct {
	name                         string
	k, toklen                    int
	starts, isComment, isErrUnit bool
}

type mismatch struct {
	Idx    int      `json:"idx"` // 0-based line number of the case in the input
	Class  string   `json:"class"`
	Text   string   `json:"text"`
	Units  []string `json:"units,omitempty"`
	Detail string   `json:"detail"`
}

type unitStats struct {
	Cases, Checks, DirectChecks, ItemsMatched, ExpectedStarts, MissingStarts int
	ErrorsChecked, NodesChecked, MidCharSkipped, ColUndefinedSkipped         int
	CasesWithLexError, CasesWithNodes, EmptyASTs, OrphanComments, NonTrivial int
	ModelMismatches                                                          int
	CasesWithBOM                                                             int
}

func runUnits(in *bufio.Scanner, out *bufio.Writer, noRef bool) error {
	enc := json.NewEncoder(out)
	var st unitStats
	modelExample := ""
	idx := -1
	for in.Scan() {
		idx++
		var c unitCase
		if err := json.Unmarshal(in.Bytes(), &c); err != nil {
			return fmt.Errorf("bad case: %v", err)
		}
		st.Cases++
		data, err := concretise(c.Text)
		if err != nil {
			return err
		}
		units := make([]unitRec, len(c.Unit))
		names := make([]string, len(c.Unit))
		for i, u := range c.Unit {
			if len(u) != 6 {
				return fmt.Errorf("bad unit tuple")
			}
			var r unitRec
			var a, b, d int
			if json.Unmarshal(u[0], &r.name) != nil || json.Unmarshal(u[1], &r.k) != nil ||
				json.Unmarshal(u[2], &r.toklen) != nil || json.Unmarshal(u[3], &a) != nil ||
				json.Unmarshal(u[4], &b) != nil || json.Unmarshal(u[5], &d) != nil {
				return fmt.Errorf("bad unit tuple %s", string(in.Bytes()))
			}
			r.starts, r.isComment, r.isErrUnit = a == 1, b == 1, d == 1
			units[i] = r
			names[i] = r.name
		}
		// sanity of the concretisation against the spec's byte offsets, and of the driver's own
		// reference functions against the spec (they are used on real files, where TLC cannot go)
		if len(c.Bnd) != len(c.Text)+1 || c.Bnd[len(c.Bnd)-1][0] != len(data) {
			return fmt.Errorf("concretisation disagrees with spec offsets: %q", data)
		}
		byOff := make(map[int][4]int, len(c.Bnd))
		rt := refTable(data)
		nb := 0
		for _, e := range rt {
			if e.boundary {
				nb++
			}
		}
		if !noRef && nb != len(c.Bnd) {
			return fmt.Errorf("driver refTable disagrees with SrcText on %q: %d boundaries vs %d", data, nb, len(c.Bnd))
		}
		for _, b := range c.Bnd {
			byOff[b[0]] = b
			e := rt[b[0]]
			if !noRef && (!e.boundary || e.line != b[1] || e.col != b[2] || e.colDefined != (b[3] == 1)) {
				return fmt.Errorf("driver refTable disagrees with SrcText on %q at %d: %+v vs %v", data, b[0], e, b)
			}
		}
		if lt := refLineTable(data); !noRef && len(lt) != c.NLines {
			return fmt.Errorf("driver refLineTable disagrees with SrcText on %q: %d lines vs %d", data, len(lt), c.NLines)
		}
		report := func(class, detail string) {
			_ = enc.Encode(mismatch{Idx: idx, Class: class, Text: string(data), Units: names, Detail: detail})
		}
		// position mismatches are collected per case and classified by failure mode at its end
		type posMiss struct {
			where, detail string
			off           int
		}
		var lineMiss, colMiss []posMiss
		var lineGood []int
		// compare one real position with the table; where names the observation point
		check := func(where string, p ast.SourcePos) {
			want, ok := byOff[p.Offset]
			if !ok {
				st.MidCharSkipped++
				return
			}
			st.Checks++
			if p.Line != want[1] {
				lineMiss = append(lineMiss, posMiss{where, fmt.Sprintf("%s at offset %d: got %d:%d want %d:%d", where, p.Offset, p.Line, p.Col, want[1], want[2]), p.Offset})
				return
			}
			lineGood = append(lineGood, p.Offset)
			if want[3] == 0 {
				st.ColUndefinedSkipped++
				return
			}
			if p.Col != want[2] {
				colMiss = append(colMiss, posMiss{where, fmt.Sprintf("%s at offset %d: got %d:%d want %d:%d", where, p.Offset, p.Line, p.Col, want[1], want[2]), p.Offset})
			}
		}
		// exclusive end: (line, col) reported for the position after the character that ends at endOff
		checkEnd := func(where string, p ast.SourcePos, endOff int) {
			want, ok := byOff[endOff]
			if !ok {
				st.MidCharSkipped++
				return
			}
			st.Checks++
			if p.Line != want[1] {
				lineMiss = append(lineMiss, posMiss{where, fmt.Sprintf("%s, end offset %d: got %d:%d want %d:%d", where, endOff, p.Line, p.Col, want[1], want[2]), endOff})
				return
			}
			lineGood = append(lineGood, endOff)
			if want[3] == 0 {
				st.ColUndefinedSkipped++
				return
			}
			if p.Col != want[2] {
				colMiss = append(colMiss, posMiss{where, fmt.Sprintf("%s, end offset %d: got %d:%d want %d:%d", where, endOff, p.Line, p.Col, want[1], want[2]), endOff})
			}
		}
		// classification by failure mode: a wrong line is blamed on the unit that holds the first LF
		// between the last right and the first wrong position (the LF the line table lost or invented); a wrong column on
		// the observation point and the kinds of wide / multi-byte characters before it on its line
		flush := func(prefix string) {
			if len(lineMiss) > 0 {
				first := lineMiss[0]
				for _, m := range lineMiss {
					if m.off < first.off {
						first = m
					}
				}
				lastGood := 0
				for _, g := range lineGood {
					if g < first.off && g > lastGood {
						lastGood = g
					}
				}
				blame := "none"
				for i := lastGood; i < first.off; i++ {
					if data[i] == '\n' {
						for _, u := range units {
							if c.Bnd[u.k][0] <= i {
								blame = u.name
							}
						}
						break
					}
				}
				report(prefix+"line:newline-in-"+blame, fmt.Sprintf("%d wrong lines; first: %s", len(lineMiss), first.detail))
			}
			seen := map[string]bool{}
			for _, m := range colMiss {
				var fs []string
				for i := m.off - 1; i >= 0 && data[i] != '\n'; i-- {
					var f string
					switch {
					case data[i] == '\t':
						f = "tab"
					case data[i] == '\r':
						f = "cr"
					case data[i] == 0:
						f = "nul"
					case data[i] >= 0x80:
						f = "multibyte"
					}
					if f != "" && !strings.Contains(strings.Join(fs, "+"), f) {
						fs = append(fs, f)
					}
				}
				sort.Strings(fs)
				feat := ""
				if len(fs) > 0 {
					feat = "+" + strings.Join(fs, "+")
				}
				cls := prefix + "col:" + m.where + feat
				if !seen[cls] {
					seen[cls] = true
					report(cls, m.detail)
				}
			}
			lineMiss, colMiss, lineGood = nil, nil, nil
		}

		// (A) position computation alone: a FileInfo whose line table is filled in as AddLine documents
		func() {
			defer func() {
				if r := recover(); r != nil {
					report("direct:panic", fmt.Sprint(r))
				}
			}()
			fi := ast.NewFileInfo("t.proto", data)
			for i, b := range data {
				if b == '\n' {
					fi.AddLine(i + 1)
				}
			}
			for _, b := range c.Bnd {
				st.DirectChecks++
				check("sourcepos", fi.SourcePos(b[0]))
			}
		}()
		flush("direct:")

		// (B) the lexer's line table: parse, then every token, comment, error and node
		input := data
		if c.Bom == 1 {
			input = withBOM(data)
			st.CasesWithBOM++
		}
		o := doParse(input, false)
		if o.panicked {
			report("parse:panic", o.site+": "+o.panicMsg)
			continue
		}
		if o.file == nil {
			report("parse:nil-ast", "")
			continue
		}
		if len(o.errs) > 0 {
			st.CasesWithLexError++
		}
		for _, e := range o.errs {
			st.ErrorsChecked++
			check("error-start", e.start)
			check("error-end", e.end)
			if posLess(e.end, e.start) {
				report("span:error-start-after-end", fmt.Sprintf("%v > %v", e.start, e.end))
			}
		}
		f := o.file
		itemAt := map[int]ast.Item{}
		nItems := 0
		items := f.Items()
		for it, ok := items.First(); ok; it, ok = items.Next(it) {
			nItems++
			info := f.ItemInfo(it)
			orphan := false
			if info == nil {
				// a comment that was lexed just before a lexical error is an item but is never
				// attributed to a token; its span is still available as a plain item span
				st.OrphanComments++
				orphan = true
				info = f.TokenInfo(ast.Token(it))
			}
			s, e := info.Start(), info.End()
			raw := info.RawText()
			if len(raw) > 0 {
				itemAt[s.Offset] = it
			}
			check("item-start", s)
			if orphan {
				// TokenInfo on a comment item is only a way to reach its start; its End() is not
				// specified for an item that may end in a multi-byte character
			} else if _, cmt := f.GetItem(it); cmt.IsValid() {
				// Comment.End() reports the position OF the last byte
				check("comment-end", e)
			} else if len(raw) > 0 {
				// NodeInfo.End() is documented exclusive: the position after the last character
				checkEnd("item-end", e, s.Offset+len(raw))
			} else {
				check("item-end", e)
			}
			if posLess(e, s) {
				report("span:item-start-after-end", fmt.Sprintf("%q %v > %v", raw, s, e))
			}
		}
		emptyAST := nItems <= 1 && len(data) > 0
		if emptyAST {
			st.EmptyASTs++
		}
		for _, u := range units {
			if !u.starts {
				continue
			}
			st.ExpectedStarts++
			it, ok := itemAt[c.Bnd[u.k][0]]
			if !ok {
				st.MissingStarts++
				continue
			}
			st.ItemsMatched++
			info := f.ItemInfo(it)
			if info == nil {
				info = f.TokenInfo(ast.Token(it))
			}
			// does the real token cover what the spec says the unit's token covers?  (only for
			// units that cannot fuse with what follows)
			// (a model check, so only meaningful while the real positions of this case agree with
			// the spec: a defect that shifts offsets also confuses RawText and the comment test)
			if u.name != "id" && u.name != "kwmsg" && len(lineMiss)+len(colMiss) == 0 {
				wantLen := c.Bnd[u.k+u.toklen][0] - c.Bnd[u.k][0]
				if len(info.RawText()) != wantLen {
					st.ModelMismatches++
					if modelExample == "" {
						modelExample = fmt.Sprintf("unit %s in %q (bom=%d) lexed as %q", u.name, data, c.Bom, info.RawText())
					}
				}
				_, cmt := f.GetItem(it)
				if cmt.IsValid() != u.isComment && f.ItemInfo(it) != nil {
					st.ModelMismatches++
					if modelExample == "" {
						modelExample = fmt.Sprintf("unit %s in %q (bom=%d) comment=%v", u.name, data, c.Bom, cmt.IsValid())
					}
				}
			}
		}
		nodes := 0
		_ = ast.Walk(f, &ast.SimpleVisitor{DoVisitNode: func(n ast.Node) error {
			nodes++
			st.NodesChecked++
			ni := f.NodeInfo(n)
			s, e := ni.Start(), ni.End()
			if posLess(e, s) {
				report("span:node-start-after-end", fmt.Sprintf("%T %v > %v", n, s, e))
			}
			check("node-start", s)
			if raw := ni.RawText(); len(raw) > 0 {
				checkEnd("node-end", e, s.Offset+len(raw))
			}
			return nil
		}})
		if c.Bom == 1 {
			flush("bom:")
		} else {
			flush("")
		}
		if nodes > 2 {
			st.CasesWithNodes++
		}
		if nodes > 2 || len(o.errs) > 0 {
			st.NonTrivial++
		}
	}
	out.Flush()
	b, _ := json.Marshal(st)
	if modelExample != "" {
		fmt.Fprintf(os.Stderr, "MODEL-MISMATCH %s\n", modelExample)
	}
	fmt.Fprintf(os.Stderr, "STATS %s\n", b)
	return in.Err()
}

// posLess: a strictly before b in (line, col) order, or by offset
func posLess(a, b ast.SourcePos) bool {
	if a.Line != b.Line {
		return a.Line < b.Line
	}
	if a.Col != b.Col {
		return a.Col < b.Col
	}
	return false
}
