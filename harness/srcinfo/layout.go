package main

import (
	"bufio"
	"encoding/json"
	"fmt"
	"regexp"
	"strconv"
	"strings"

	"github.com/bufbuild/protocompile/internal/zzverif/common/featgen"
)

// skeleton is the once-per-skeleton export of spec/MCLayout.tla (SkelCase).
type skeleton struct {
	ID       string     `json:"skeleton"`
	Syntax   string     `json:"syntax"`
	Features []string   `json:"features"`
	Toks     []string   `json:"toks"`
	Gaps     [][]string `json:"gaps"` // item codes of the default gaps 0..n
	Classes  []string   `json:"classes"`
}

// layoutCase is one exported layout of spec/MCLayout.tla: the items of the replaced gaps and the
// sizes of the whole file; with Full = TRUE also the complete item sequence and concatenation.
type layoutCase struct {
	Skel   string          `json:"skel"`
	Layout json.RawMessage `json:"layout"`
	Cls    []string        `json:"cls"`
	Repl   []replGap       `json:"repl"`
	NBytes int             `json:"nbytes"`
	NLines int             `json:"nlines"`
	NCom   int             `json:"ncom"`
	Items  []string        `json:"items"`
	Src    *string         `json:"src"`
	Sane   *bool           `json:"sane"`

	sk *skeleton
}

type replGap struct {
	Gap   int
	Codes []string
}

func (r *replGap) UnmarshalJSON(b []byte) error {
	var raw []json.RawMessage
	if err := json.Unmarshal(b, &raw); err != nil || len(raw) != 2 {
		return fmt.Errorf("bad repl entry %s", b)
	}
	if err := json.Unmarshal(raw[0], &r.Gap); err != nil {
		return err
	}
	return json.Unmarshal(raw[1], &r.Codes)
}

func (c *layoutCase) key() string {
	return c.Skel + " layout=" + string(c.Layout)
}

// assemble builds the item codes of the whole file: gap 0, token 1, gap 1, ..., token n, gap n.
func (c *layoutCase) assemble() []string {
	sk := c.sk
	repl := map[int][]string{}
	for _, r := range c.Repl {
		repl[r.Gap] = r.Codes
	}
	var out []string
	for g := 0; g <= len(sk.Toks); g++ {
		if r, ok := repl[g]; ok {
			out = append(out, r...)
		} else {
			out = append(out, sk.Gaps[g]...)
		}
		if g < len(sk.Toks) {
			out = append(out, "="+sk.Toks[g])
		}
	}
	return out
}

// item is one concretised Layout item.
type item struct {
	Kind string // "TOK", a white-space kind, a comment kind, "BOM"
	Num  int    // comment number
	Text string
}

func (it item) isComment() bool {
	switch it.Kind {
	case "LC", "BC", "BCM", "BCE", "DOC":
		return true
	}
	return false
}
func (it item) isToken() bool { return it.Kind == "TOK" }
func (it item) isSpace() bool { return !it.isComment() && !it.isToken() && it.Kind != "BOM" }

var placeholder = regexp.MustCompile(`<U\+([0-9A-F]{4,6})>`)

// concretise replaces the <U+XXXX> placeholders of the specification's texts by the characters.
func concretise(s string) string {
	if !strings.Contains(s, "<U+") {
		return s
	}
	return placeholder.ReplaceAllStringFunc(s, func(m string) string {
		v, _ := strconv.ParseInt(m[3:len(m)-1], 16, 32)
		return string(rune(v))
	})
}

// the renderer's text of every trivia class (spec: Layout!Text; the two are compared through `src`
// and `nbytes` on every case)
func triviaText(kind string, n int) (string, error) {
	switch kind {
	case "SP":
		return " ", nil
	case "TAB":
		return "\t", nil
	case "LF":
		return "\n", nil
	case "CRLF":
		return "\r\n", nil
	case "CR":
		return "\r", nil
	case "FF":
		return "\f", nil
	case "VT":
		return "\v", nil
	case "BOM":
		return "\xEF\xBB\xBF", nil
	case "LC":
		return fmt.Sprintf("// c%d", n), nil
	case "BC":
		return fmt.Sprintf("/* c%d */", n), nil
	case "BCM":
		return fmt.Sprintf("/* c%d é€\U0001F600 */", n), nil
	case "BCE":
		return "/**/", nil
	case "DOC":
		return fmt.Sprintf("/** d%d\n   * more\n   */", n), nil
	}
	return "", fmt.Errorf("unknown item kind %q", kind)
}

func decodeItems(codes []string) ([]item, error) {
	out := make([]item, 0, len(codes))
	for _, c := range codes {
		if strings.HasPrefix(c, "=") {
			out = append(out, item{Kind: "TOK", Text: concretise(c[1:])})
			continue
		}
		kind, n := c, 0
		if i := strings.IndexByte(c, ':'); i >= 0 {
			kind = c[:i]
			v, err := strconv.Atoi(c[i+1:])
			if err != nil {
				return nil, fmt.Errorf("bad item code %q", c)
			}
			n = v
		}
		t, err := triviaText(kind, n)
		if err != nil {
			return nil, err
		}
		out = append(out, item{Kind: kind, Num: n, Text: t})
	}
	return out, nil
}

func joinItems(items []item) string {
	var sb strings.Builder
	for _, it := range items {
		sb.WriteString(it.Text)
	}
	return sb.String()
}

// renderLayout returns the items and the source text; harness != "" when the specification's
// sizes / item sequence / concatenation and the driver's assembly and rendering disagree (a
// machinery bug, never a verdict).
func renderLayout(c *layoutCase) (items []item, source string, harness string) {
	if c.sk == nil {
		return nil, "", "no skeleton " + c.Skel + " was exported before this case"
	}
	codes := c.assemble()
	items, err := decodeItems(codes)
	if err != nil {
		return nil, "", err.Error()
	}
	source = joinItems(items)
	if c.Sane != nil && !*c.Sane {
		return items, source, "specification reports the layout as not sane"
	}
	if len(source) != c.NBytes {
		return items, source, fmt.Sprintf("rendered %d bytes, specification says %d", len(source), c.NBytes)
	}
	if strings.Count(source, "\n")+1 != c.NLines {
		return items, source, fmt.Sprintf("rendered %d lines, specification says %d", strings.Count(source, "\n")+1, c.NLines)
	}
	ncom, last := 0, -1
	for _, it := range items {
		if it.isComment() {
			ncom++
			if it.Num <= last {
				return items, source, "comment numbers do not increase"
			}
			last = it.Num
		}
	}
	if ncom != c.NCom {
		return items, source, fmt.Sprintf("%d comments, specification says %d", ncom, c.NCom)
	}
	if c.Items != nil {
		if strings.Join(codes, "\x00") != strings.Join(c.Items, "\x00") {
			return items, source, "assembled item sequence differs from the specification's Items"
		}
		if c.Src == nil || concretise(*c.Src) != source {
			return items, source, "rendered text differs from the specification's concatenation"
		}
	}
	return items, source, ""
}

// caseReader reads the exported lines: skeleton records are remembered, layout cases returned.
type caseReader struct {
	in    *bufio.Scanner
	skels map[string]*skeleton
	n     int // index of the last returned line
	raw   []byte
}

func newCaseReader(in *bufio.Scanner) *caseReader {
	return &caseReader{in: in, skels: map[string]*skeleton{}, n: -1}
}

// next returns the next layout case, or (nil, nil, nil) for a non-layout line (left in r.raw), or io.EOF-like ok=false.
func (r *caseReader) next() (c *layoutCase, other []byte, ok bool, err error) {
	for r.in.Scan() {
		line := r.in.Bytes()
		r.n++
		var probe struct {
			Skeleton *string `json:"skeleton"`
			Skel     *string `json:"skel"`
		}
		if err := json.Unmarshal(line, &probe); err != nil {
			return nil, nil, false, err
		}
		switch {
		case probe.Skeleton != nil:
			var sk skeleton
			if err := json.Unmarshal(line, &sk); err != nil {
				return nil, nil, false, err
			}
			if len(sk.Gaps) != len(sk.Toks)+1 {
				return nil, nil, false, fmt.Errorf("skeleton %s: %d gaps for %d tokens", sk.ID, len(sk.Gaps), len(sk.Toks))
			}
			r.skels[sk.ID] = &sk
		case probe.Skel != nil:
			var c layoutCase
			if err := json.Unmarshal(line, &c); err != nil {
				return nil, nil, false, err
			}
			c.sk = r.skels[c.Skel]
			return &c, nil, true, nil
		default:
			return nil, append([]byte(nil), line...), true, nil
		}
	}
	return nil, nil, false, r.in.Err()
}

func runShow(in *bufio.Scanner, w *bufio.Writer) error {
	r := newCaseReader(in)
	for {
		c, _, ok, err := r.next()
		if err != nil || !ok {
			return err
		}
		if c == nil {
			continue
		}
		_, src, h := renderLayout(c)
		fmt.Fprintf(w, "---- %s %s\n%s\n", c.key(), h, src)
	}
}

// ---------------------------------------------------------------------------------------------
// development: skeletons for spec/LayoutSkel.tla

// extras is a hand-written file with the constructs featgen's files do not contain (parse-only: it
// does not link).
const extras = `syntax = "proto2";
package x.y.z;
import public "a.proto";
import weak 'b.proto';
option java_package = "com." "ver" 'if';
option (x.y.opt).f.(g.h) = -1.5e3;
option (o2) = { a: 1 b: -2, c: [1, 2]; d { e: "s" "t" } f < g: inf > [x.y/z.W] { v: 0x1F } };
option (lits) = { s: "q\"\\\'\x41\101\n\u00e9" '\U0001F600' "é€😀" f1: 1e10 f2: 0777 f3: 1.5E+3 f4: .5e-3 f5: 1. f6: -inf f7: 0X1f f8: 18446744073709551615 f9: 1E-2 };
message M {
  optional .x.y.M m = 1 [default = -0x7f, json_name = 'j', (a.b) = { k: .5 }];
  repeated group G = 2 [deprecated = true] { required bytes b = 1; }
  map<string, .x.y.M> mm = 3;
  oneof o { int32 i = 4; group OG = 5 {} }
  extensions 100 to max, 7, 9 to 11 [(e) = 1];
  reserved 50, 60 to 70; reserved "r1", 'r2';
  enum E { option allow_alias = true; A = 0; B = -1 [(v) = nan]; reserved 5 to max; ; }
  extend M { optional int32 x = 100; }
  ;
}
message OnlySemi { ; }
message OnlySemis { ;; ; }
enum SemiEnum { ; }
message SemiGroup { optional group SG = 1 { ; } }
service SemiSvc { ;; }
service SemiRpcs { rpc SemiRpc (M) returns (M) { ; }; rpc SemiRpc2 (M) returns (M) { ;; } }
service S { option (so) = true; rpc R (stream .x.y.M) returns (M); rpc Q (M) returns (stream M) { option idempotency_level = IDEMPOTENT; }; }
;
`

// extras24 is a second hand-written parse-only file: edition 2024 constructs (import option, export / local
// declarations) and type names that start with a keyword component (`export.a.B`, `local.x.Y`, ...), which
// the grammar re-joins into one identifier through dedicated productions.
const extras24 = `edition = "2024";
package e.f;
import option "o.proto";
import public "p.proto";
import option 'q.proto';
export message EM {
  export.inner.Type ea = 1;
  local.x.Y lb = 2;
  export.a.b.C e2 = 3 [deprecated = true];
  repeated local.pkg.sub.T r = 4;
  optional message.inner.Kw k1 = 5;
  syntax.s.T k2 = 7;
  stream.returns.rpc k3 = 8;
  map<string, export.m.V> k4 = 9;
  local enum LE { export = 0; local = 1 [deprecated = true]; }
  local message LM {}
  oneof o { export.q.R oe = 6; }
  export export = 10;
  local.local.local local = 11;
}
local enum TE { TE_ZERO = 0; }
export enum XE { XE_ZERO = 0; };
extend EM { local.z.W xe = 100; }
service S24 { rpc R (export.i.I) returns (stream local.o.O); }
`

// tail1 is a hand-written file that LINKS (with featgen's helper files) and ends in a declaration closed by
// `;`: only there does a comment at the very end of the file become the trailing comment of a location
// (after a final `}` it belongs to nothing).  Its descriptor shape is SrcInfoShape!LocalShape("t1").
const tail1 = `syntax = "proto3";
package t.one;
import "dep.proto";
message A {
  int32 f = 1;
  dep.pkg.DepMsg d = 2;
}
enum E {
  E_ZERO = 0;
}
option java_package = "com.t";
option deprecated = false;
`

// handWritten maps the ids of the hand-written skeletons to their text.
var handWritten = map[string]string{"x": extras, "e24": extras24, "t1": tail1}

type skelOut struct {
	ID       string     `json:"id"`
	Syntax   string     `json:"syntax"`
	Features []string   `json:"features"`
	Toks     [][3]string `json:"toks"` // text (non-ASCII as <U+XXXX>), class, UTF-8 byte length
	Gaps     [][]string  `json:"gaps"`
	Text     string      `json:"text"`
}

// abstractText writes non-ASCII characters as <U+XXXX> (TLA+ strings cannot hold them).
func abstractText(s string) string {
	var sb strings.Builder
	for _, r := range s {
		if r < 0x80 {
			sb.WriteRune(r)
		} else {
			fmt.Fprintf(&sb, "<U+%04X>", r)
		}
	}
	return sb.String()
}

func wsCodes(ws string) ([]string, error) {
	var out []string
	for i := 0; i < len(ws); i++ {
		switch ws[i] {
		case ' ':
			out = append(out, "SP")
		case '\t':
			out = append(out, "TAB")
		case '\n':
			out = append(out, "LF")
		default:
			return nil, fmt.Errorf("skeleton text has white space %q", ws[i])
		}
	}
	return out, nil
}

func skeletonOf(id, syntax string, features []string, text string) (*skelOut, error) {
	sk := &skelOut{ID: id, Syntax: syntax, Features: features, Text: text}
	sk.Gaps = append(sk.Gaps, []string{})
	for _, p := range scan(text) {
		switch p.Kind {
		case "ws":
			codes, err := wsCodes(p.Text)
			if err != nil {
				return nil, err
			}
			sk.Gaps[len(sk.Gaps)-1] = append(sk.Gaps[len(sk.Gaps)-1], codes...)
		case "c":
			return nil, fmt.Errorf("skeleton text has a comment")
		default:
			sk.Toks = append(sk.Toks, [3]string{abstractText(p.Text), p.Kind, strconv.Itoa(len(p.Text))})
			sk.Gaps = append(sk.Gaps, []string{})
		}
	}
	return sk, nil
}

// skeleton mode: stdin lines {"id":..,"syntax":..,"features":[..]} (featgen) or {"id":"x"} (extras)
func runSkeleton(in *bufio.Scanner, w *bufio.Writer) error {
	enc := json.NewEncoder(w)
	for in.Scan() {
		var req struct {
			ID       string   `json:"id"`
			Syntax   string   `json:"syntax"`
			Features []string `json:"features"`
		}
		if err := json.Unmarshal(in.Bytes(), &req); err != nil {
			return err
		}
		text, hand := handWritten[req.ID]
		if hand && req.Syntax == "" {
			req.Syntax = "none"
		} else if hand {
			// linkable hand-written skeleton: keeps its syntax, no featgen features
		} else if req.Syntax != "" {
			text = featgen.Render(&featgen.Case{Syntax: req.Syntax, Features: req.Features})[featgen.Main]
		} else {
			return fmt.Errorf("no hand-written skeleton %q", req.ID)
		}
		if req.Features == nil {
			req.Features = []string{}
		}
		sk, err := skeletonOf(req.ID, req.Syntax, req.Features, text)
		if err != nil {
			return err
		}
		if err := enc.Encode(sk); err != nil {
			return err
		}
	}
	return nil
}
