package main

import (
	"bufio"
	"encoding/json"
	"sort"
	"strings"

	"google.golang.org/protobuf/reflect/protoreflect"
	"google.golang.org/protobuf/types/descriptorpb"
)

// dumpSchema prints descriptor.proto's schema as the Go protobuf runtime knows it:
// {"message": [[number, type, repeated, name], ...]} with type "scalar" for non-message fields and
// message names relative to google.protobuf.
func dumpSchema(w *bufio.Writer) error {
	out := map[string][][]any{}
	var visit func(md protoreflect.MessageDescriptor)
	rel := func(n protoreflect.FullName) string { return strings.TrimPrefix(string(n), "google.protobuf.") }
	visit = func(md protoreflect.MessageDescriptor) {
		name := rel(md.FullName())
		if _, ok := out[name]; ok {
			return
		}
		rows := [][]any{}
		fds := md.Fields()
		for i := 0; i < fds.Len(); i++ {
			fd := fds.Get(i)
			typ := "scalar"
			if fd.Message() != nil {
				typ = rel(fd.Message().FullName())
			}
			rows = append(rows, []any{int(fd.Number()), typ, fd.IsList(), string(fd.Name())})
		}
		sort.Slice(rows, func(i, j int) bool { return rows[i][0].(int) < rows[j][0].(int) })
		out[name] = rows
		for i := 0; i < fds.Len(); i++ {
			if m := fds.Get(i).Message(); m != nil {
				visit(m)
			}
		}
		for i := 0; i < md.Messages().Len(); i++ {
			visit(md.Messages().Get(i))
		}
	}
	file := (&descriptorpb.FileDescriptorSet{}).ProtoReflect().Descriptor().ParentFile()
	for i := 0; i < file.Messages().Len(); i++ {
		visit(file.Messages().Get(i))
	}
	return json.NewEncoder(w).Encode(out)
}
