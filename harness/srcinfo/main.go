// Driver for C11 (AST reproduces the source exactly) and C23 (source code info is well formed in
// every mode).
//
//	srcinfo c11        Layout cases (spec/MCLayout.tla) on stdin -> mismatches (JSON lines) on stdout
//	srcinfo c23 TRACE  Layout cases or FileFeatures cases (spec/MCSrcInfo.tla) on stdin; records one
//	                   trace per case into TRACE (ndjson, validated by TLC against SrcInfoTrace.tla);
//	                   harness-level mismatches on stdout
//	srcinfo schema     descriptor.proto's schema as descriptorpb knows it (cross-check of SrcInfoPaths!Fields)
//	srcinfo lines      SrcLines cases on stdin; checks the driver's reference line table against them
//	srcinfo skeleton   (development) tokenises featgen files / the extras file into LayoutSkel.tla form
//	srcinfo show       renders the Layout cases on stdin (debugging, replay)
//	srcinfo parse      (development) parses stdin as one file and reports error / round trip
package main

import (
	"bufio"
	"encoding/json"
	"fmt"
	"os"
	"sync"
)

type mismatch struct {
	Class  string `json:"class"`
	N      int    `json:"n"` // 0-based index of the case on stdin
	Key    string `json:"key"`
	Detail string `json:"detail"`
}

type sink struct {
	mu   sync.Mutex
	enc  *json.Encoder
	seen map[string]int
}

func (s *sink) report(n int, key, class, detail string) {
	s.mu.Lock()
	defer s.mu.Unlock()
	s.seen[class]++
	if s.seen[class] > 25 { // enough examples of one class
		return
	}
	if len(detail) > 1500 {
		detail = detail[:1500] + "..."
	}
	_ = s.enc.Encode(mismatch{Class: class, N: n, Key: key, Detail: detail})
}

func main() {
	if len(os.Args) < 2 {
		fmt.Fprintln(os.Stderr, "usage: srcinfo c11|c23|schema|lines|skeleton|show")
		os.Exit(2)
	}
	in := bufio.NewScanner(os.Stdin)
	in.Buffer(make([]byte, 1<<20), 1<<28)
	w := bufio.NewWriterSize(os.Stdout, 1<<20)
	defer w.Flush()
	out := &sink{enc: json.NewEncoder(w), seen: map[string]int{}}
	var err error
	switch os.Args[1] {
	case "c11":
		err = runC11(in, out)
	case "c23":
		if len(os.Args) < 3 {
			fmt.Fprintln(os.Stderr, "usage: srcinfo c23 TRACEFILE")
			os.Exit(2)
		}
		err = runC23(in, out, os.Args[2])
	case "schema":
		err = dumpSchema(w)
	case "lines":
		err = runLines(in, out)
	case "skeleton":
		err = runSkeleton(in, w)
	case "show":
		err = runShow(in, w)
	case "si": // development: compile stdin as main.proto in the four modes, print the commented locations
		err = runSI(w)
	case "parse": // development: parse stdin as one file, print the round trip verdict
		err = runParse(w)
	default:
		err = fmt.Errorf("unknown mode %s", os.Args[1])
	}
	w.Flush()
	if err != nil {
		fmt.Fprintln(os.Stderr, "srcinfo:", err)
		os.Exit(2)
	}
}
