package main

import (
	"bufio"
	"bytes"
	"encoding/json"
	"fmt"
	"io"
	"os"
	"strings"
	"sync"

	"github.com/bufbuild/protocompile/ast"
	"github.com/bufbuild/protocompile/internal/zzverif/common/featgen"
	"github.com/bufbuild/protocompile/parser"
	"github.com/bufbuild/protocompile/reporter"
)

type c11Stats struct {
	Cases, Items, Comments, Tokens, Bytes, RoundTrips, WithBOM, NoFinalNewline, EOFComment, SkeletonChecks int
}

// reported is one token or comment as the AST reports it.
type reportedItem struct {
	comment   bool
	text      string
	leadingWS string
}

// printAST is C11's observation (1): every terminal in AST order -- its leading comments (each with
// its own leading white space), its leading white space, its raw text, its trailing comments.  The
// last terminal is the synthetic EOF token, whose leading trivia is the file's trailing trivia.
func printAST(file *ast.FileNode) (string, []string, error) {
	var sb strings.Builder
	var order []string
	comments := func(cs ast.Comments) {
		for i := 0; i < cs.Len(); i++ {
			c := cs.Index(i)
			sb.WriteString(c.LeadingWhitespace())
			sb.WriteString(c.RawText())
		}
	}
	err := ast.Walk(file, &ast.SimpleVisitor{
		DoVisitTerminalNode: func(tok ast.TerminalNode) error {
			info := file.NodeInfo(tok)
			comments(info.LeadingComments())
			sb.WriteString(info.LeadingWhitespace())
			sb.WriteString(info.RawText())
			comments(info.TrailingComments())
			order = append(order, info.RawText())
			return nil
		},
	})
	return sb.String(), order, err
}

// itemsForward / itemsBackward: C11's observation (2) through FileInfo.Items().
func itemsForward(file *ast.FileNode) []reportedItem {
	var out []reportedItem
	seq := file.Items()
	it, ok := seq.First()
	for ok {
		out = append(out, describe(file, it))
		it, ok = seq.Next(it)
	}
	return out
}

func itemsBackward(file *ast.FileNode) []reportedItem {
	var out []reportedItem
	seq := file.Items()
	it, ok := seq.Last()
	for ok {
		out = append(out, describe(file, it))
		it, ok = seq.Previous(it)
	}
	for i, j := 0, len(out)-1; i < j; i, j = i+1, j-1 {
		out[i], out[j] = out[j], out[i]
	}
	return out
}

func describe(file *ast.FileNode, it ast.Item) reportedItem {
	tok, cmt := file.GetItem(it)
	info := file.ItemInfo(it)
	if info == nil {
		return reportedItem{text: "<invalid item>"}
	}
	r := reportedItem{text: info.RawText(), leadingWS: info.LeadingWhitespace()}
	r.comment = tok == ast.TokenError && cmt.IsValid()
	return r
}

func tokensForward(file *ast.FileNode) []string {
	var out []string
	seq := file.Tokens()
	t, ok := seq.First()
	for ok {
		out = append(out, file.TokenInfo(t).RawText())
		t, ok = seq.Next(t)
	}
	return out
}

// expectedItems derives the expected observable (2) from the specification's items: tokens and
// comments in order, each with the white space that precedes it, and the EOF token.  crInComment
// chooses how a line comment followed by CRLF is cut: the statement does not say whether the CR
// belongs to the comment, both are accepted.
func expectedItems(items []item, crInComment bool) []reportedItem {
	var out []reportedItem
	var ws strings.Builder
	for i, it := range items {
		switch {
		case it.Kind == "BOM":
		case it.isSpace():
			ws.WriteString(it.Text)
		default:
			r := reportedItem{comment: it.isComment(), text: it.Text, leadingWS: ws.String()}
			ws.Reset()
			if crInComment && it.Kind == "LC" && i+1 < len(items) && items[i+1].Kind == "CRLF" {
				r.text += "\r"
			}
			out = append(out, r)
		}
	}
	out = append(out, reportedItem{text: "", leadingWS: ws.String()})
	if crInComment {
		for i := 1; i < len(out); i++ {
			if out[i-1].comment && strings.HasSuffix(out[i-1].text, "\r") && strings.HasPrefix(out[i-1].text, "//") {
				out[i].leadingWS = strings.TrimPrefix(out[i].leadingWS, "\r")
			}
		}
	}
	return out
}

func sameItems(a, b []reportedItem) (int, string) {
	for i := 0; i < len(a) && i < len(b); i++ {
		switch {
		case a[i].comment != b[i].comment:
			return i, "kind"
		case a[i].text != b[i].text:
			return i, "text"
		case a[i].leadingWS != b[i].leadingWS:
			return i, "leading-ws"
		}
	}
	if len(a) != len(b) {
		return min(len(a), len(b)), "count"
	}
	return -1, ""
}

// itemAt names the kind of the specification item that covers byte offset off of the text after
// the byte order mark.
func itemAt(items []item, off int) string {
	pos := 0
	for _, it := range items {
		if it.Kind == "BOM" {
			continue
		}
		if off < pos+len(it.Text) {
			return it.Kind
		}
		pos += len(it.Text)
	}
	return "EOF"
}

func firstDiff(a, b string) int {
	n := min(len(a), len(b))
	for i := 0; i < n; i++ {
		if a[i] != b[i] {
			return i
		}
	}
	return n
}

func excerpt(s string, at int) string {
	lo, hi := max(0, at-20), min(len(s), at+20)
	return fmt.Sprintf("%q", s[lo:hi])
}

func checkC11(n int, c *layoutCase, out *sink, st *c11Stats, skelText map[string]string) {
	items, source, harness := renderLayout(c)
	if harness != "" {
		out.report(n, c.key(), "HARNESS:render", harness)
		return
	}
	if want, ok := skelText[c.Skel]; ok && len(c.Repl) == 0 {
		st.SkeletonChecks++
		if want != source {
			out.report(n, c.key(), "HARNESS:skeleton-stale", "LayoutSkel.tla no longer equals the generator's text for "+c.Skel)
			return
		}
	}
	st.Cases++
	st.Bytes += len(source)
	want := source
	if len(items) > 0 && items[0].Kind == "BOM" {
		want = source[3:]
		st.WithBOM++
	}
	if !strings.HasSuffix(source, "\n") {
		st.NoFinalNewline++
	}
	if len(items) > 0 && items[len(items)-1].isComment() {
		st.EOFComment++
	}
	file, err := parser.Parse("main.proto", bytes.NewReader([]byte(source)), reporter.NewHandler(nil))
	if err != nil || file == nil {
		// the skeleton is a valid file and trivia never changes the token sequence
		out.report(n, c.key(), "accept:valid-layout-rejected", fmt.Sprintf("%v", err))
		return
	}
	// (1) reproduction
	got, order, err := printAST(file)
	if err != nil {
		out.report(n, c.key(), "walk:error", err.Error())
		return
	}
	st.RoundTrips++
	if got != want {
		at := firstDiff(got, want)
		how := "changed"
		if len(got) < len(want) {
			how = "lost"
		} else if len(got) > len(want) {
			how = "duplicated"
		}
		out.report(n, c.key(), "roundtrip:"+how+":"+itemAt(items, at),
			fmt.Sprintf("at byte %d: printed %s, source %s", at, excerpt(got, at), excerpt(want, at)))
	}
	// (2) tokens and comments in order
	fw := itemsForward(file)
	st.Items += len(fw)
	expA, expB := expectedItems(items, false), expectedItems(items, true)
	for _, e := range expA {
		if e.comment {
			st.Comments++
		} else {
			st.Tokens++
		}
	}
	ia, whyA := sameItems(fw, expA)
	if ia >= 0 {
		if ib, whyB := sameItems(fw, expB); ib >= 0 {
			exp := expA
			if ib > ia { // report against the reading of "line comment + CRLF" that agrees longer
				ia, whyA, exp = ib, whyB, expB
			}
			g, w := "<none>", "<none>"
			if ia < len(fw) {
				g = fmt.Sprintf("%+v", fw[ia])
			}
			if ia < len(exp) {
				w = fmt.Sprintf("%+v", exp[ia])
			}
			kind := "token"
			if ia < len(exp) && exp[ia].comment {
				kind = "comment"
			}
			out.report(n, c.key(), "items:"+whyA+":"+kind, fmt.Sprintf("item %d: reported %s, specification %s", ia, g, w))
		}
	}
	if ib, why := sameItems(itemsBackward(file), fw); ib >= 0 {
		out.report(n, c.key(), "items:backward:"+why, fmt.Sprintf("Last/Previous differs from First/Next at %d", ib))
	}
	var wantToks []string
	for _, e := range fw {
		if !e.comment {
			wantToks = append(wantToks, e.text)
		}
	}
	if toks := tokensForward(file); strings.Join(toks, "\x00") != strings.Join(wantToks, "\x00") {
		out.report(n, c.key(), "items:tokens-sequence", fmt.Sprintf("Tokens() gives %d tokens, Items() %d", len(toks), len(wantToks)))
	}
	if strings.Join(order, "\x00") != strings.Join(wantToks, "\x00") {
		out.report(n, c.key(), "walk:terminal-order", fmt.Sprintf("Walk visits %d terminals, Items() has %d tokens", len(order), len(wantToks)))
	}
}

func skeletonTexts(c *layoutCase, cache map[string]string) {
	if _, ok := cache[c.Skel]; ok || c.sk == nil {
		return
	}
	if t, ok := handWritten[c.Skel]; ok {
		cache[c.Skel] = t
		return
	}
	cache[c.Skel] = featgen.Render(&featgen.Case{Syntax: c.sk.Syntax, Features: c.sk.Features})[featgen.Main]
}

func runC11(in *bufio.Scanner, out *sink) error {
	type job struct {
		n int
		c *layoutCase
	}
	workers := 8
	jobs := make(chan job, 256)
	stats := make([]c11Stats, workers)
	var wg sync.WaitGroup
	var skelMu sync.Mutex
	skel := map[string]string{}
	for w := 0; w < workers; w++ {
		wg.Add(1)
		go func(w int) {
			defer wg.Done()
			for j := range jobs {
				func() {
					defer func() {
						if rec := recover(); rec != nil {
							out.report(j.n, j.c.key(), "panic:c11", fmt.Sprint(rec))
						}
					}()
					skelMu.Lock()
					skeletonTexts(j.c, skel)
					local := map[string]string{j.c.Skel: skel[j.c.Skel]}
					skelMu.Unlock()
					checkC11(j.n, j.c, out, &stats[w], local)
				}()
			}
		}(w)
	}
	r := newCaseReader(in)
	var rerr error
	for {
		c, _, ok, err := r.next()
		if err != nil {
			rerr = err
			break
		}
		if !ok {
			break
		}
		if c != nil {
			jobs <- job{r.n, c}
		}
	}
	close(jobs)
	wg.Wait()
	var st c11Stats
	for _, x := range stats {
		st.Cases += x.Cases
		st.Items += x.Items
		st.Comments += x.Comments
		st.Tokens += x.Tokens
		st.Bytes += x.Bytes
		st.RoundTrips += x.RoundTrips
		st.WithBOM += x.WithBOM
		st.NoFinalNewline += x.NoFinalNewline
		st.EOFComment += x.EOFComment
		st.SkeletonChecks += x.SkeletonChecks
	}
	b, _ := json.Marshal(st)
	fmt.Fprintf(os.Stderr, "STATS %s\n", b)
	return rerr
}

func runParse(w *bufio.Writer) error {
	data, err := io.ReadAll(os.Stdin)
	if err != nil {
		return err
	}
	file, err := parser.Parse("main.proto", bytes.NewReader(data), reporter.NewHandler(nil))
	if err != nil {
		fmt.Fprintf(w, "REJECTED: %v\n", err)
		return nil
	}
	got, _, _ := printAST(file)
	fmt.Fprintf(w, "accepted; round trip equal: %v\n", got == string(bytes.TrimPrefix(data, []byte("\xEF\xBB\xBF"))))
	return nil
}
