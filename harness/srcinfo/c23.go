package main

import (
	"bufio"
	"context"
	"encoding/json"
	"fmt"
	"hash/crc32"
	"io"
	"os"
	"sort"
	"strings"

	"google.golang.org/protobuf/reflect/protoreflect"
	"google.golang.org/protobuf/types/descriptorpb"

	"github.com/bufbuild/protocompile"
	"github.com/bufbuild/protocompile/internal/zzverif/common/featgen"
	"github.com/bufbuild/protocompile/protoutil"
)

// the four source-info mode combinations of the statement
var siModes = []struct {
	name string
	mode protocompile.SourceInfoMode
}{
	{"std", protocompile.SourceInfoStandard},
	{"ec", protocompile.SourceInfoStandard | protocompile.SourceInfoExtraComments},
	{"eol", protocompile.SourceInfoStandard | protocompile.SourceInfoExtraOptionLocations},
	{"both", protocompile.SourceInfoStandard | protocompile.SourceInfoExtraComments | protocompile.SourceInfoExtraOptionLocations},
}

// node is the SHAPE of SrcInfoPaths.tla.
type node struct {
	K []int32  `json:"k"`
	C [][]node `json:"c"`
}

var leaf = node{K: []int32{}, C: [][]node{}}

// shapeOf measures the shape of a compiled descriptor by reflection: every repeated field that has
// elements, descending through repeated message fields only (never into options: they are singular).
func shapeOf(m protoreflect.Message) node {
	n := node{K: []int32{}, C: [][]node{}}
	fds := m.Descriptor().Fields()
	var reps []protoreflect.FieldDescriptor
	for i := 0; i < fds.Len(); i++ {
		if fd := fds.Get(i); fd.IsList() {
			reps = append(reps, fd)
		}
	}
	sort.Slice(reps, func(i, j int) bool { return reps[i].Number() < reps[j].Number() })
	for _, fd := range reps {
		l := m.Get(fd).List()
		if l.Len() == 0 {
			continue
		}
		kids := make([]node, l.Len())
		for i := range kids {
			if fd.Message() != nil {
				kids[i] = shapeOf(l.Get(i).Message())
			} else {
				kids[i] = leaf
			}
		}
		n.K = append(n.K, int32(fd.Number()))
		n.C = append(n.C, kids)
	}
	return n
}

// ---------------------------------------------------------------------------------------------
// comments: "each comment is text taken from the source"

// normLines strips comment decoration: per line, surrounding white space and one leading '*';
// empty lines are dropped.  Applied both to a reported comment and to the body of a generator comment
// item, so that only the marker-stripping protoc documents (and nothing else) is forgiven.
func normLines(s string) []string {
	var out []string
	for _, l := range strings.Split(s, "\n") {
		l = strings.TrimSpace(l)
		l = strings.TrimPrefix(l, "*")
		l = strings.TrimSpace(l)
		if l != "" {
			out = append(out, l)
		}
	}
	return out
}

// commentBody removes the comment markers of one comment item.
func commentBody(raw string) string {
	if strings.HasPrefix(raw, "//") {
		return raw[2:]
	}
	if strings.HasPrefix(raw, "/*") && strings.HasSuffix(raw, "*/") && len(raw) >= 4 {
		return raw[2 : len(raw)-2]
	}
	return raw
}

type commentIndex struct {
	bodies   [][]string // normalised lines of the generator's comment items, in file order
	line     []bool     // the item is a `//` comment
	nlAfter  []bool     // the source has a line end directly after the item
	anyEmpty bool
}

func newCommentIndex(raws []string, nlAfter []bool) *commentIndex {
	ci := &commentIndex{nlAfter: nlAfter}
	for _, r := range raws {
		b := normLines(commentBody(r))
		if len(b) == 0 {
			ci.anyEmpty = true
		}
		ci.bodies = append(ci.bodies, b)
		ci.line = append(ci.line, strings.HasPrefix(r, "//"))
	}
	return ci
}

// match finds consecutive comment items lo..hi (1-based) whose stripped bodies concatenate to the
// reported text; ok=false when there is no such run.
func (ci *commentIndex) match(reported string) (lo, hi int, ok bool) {
	want := normLines(reported)
	if len(want) == 0 {
		return 0, 0, ci.anyEmpty
	}
	for s := range ci.bodies {
		k := 0
		for e := s; e < len(ci.bodies); e++ {
			b := ci.bodies[e]
			if k+len(b) > len(want) {
				break
			}
			good := true
			for j := range b {
				if b[j] != want[k+j] {
					good = false
					break
				}
			}
			if !good {
				break
			}
			k += len(b)
			if k == len(want) && len(b) > 0 {
				// white space is otherwise forgiven, but a line end reported after a `//` comment that the
				// source ends without one (comment at the very end of the file) is not text from the source
				if strings.HasSuffix(reported, "\n") && ci.line[e] && !ci.nlAfter[e] {
					return 0, 0, false
				}
				return s + 1, e + 1, true
			}
		}
	}
	return 0, 0, false
}

func hashOf(s string) int { return int(crc32.ChecksumIEEE([]byte(s)) % 1000000007) }

// ---------------------------------------------------------------------------------------------

type ffCase struct {
	featgen.Case
	Shape json.RawMessage `json:"shape"`
}

type c23Stats struct {
	Cases, Compiles, Locations, Comments, CommentsMatched, ExtraOptionLocs, ExtraComments, MultiLineSpans, LayoutCases, FFCases int
}

type tracer struct {
	w   *bufio.Writer
	enc *json.Encoder
	n   int
}

func (t *tracer) ev(v any) {
	_ = t.enc.Encode(v)
	t.n++
}

type locEvent struct {
	E   string  `json:"e"`
	P   []int32 `json:"p"`
	S   []int32 `json:"s"`
	L   []int   `json:"l"`
	T   []int   `json:"t"`
	D   [][]int `json:"d"`
	Bad int     `json:"bad"`
}

func compileMain(texts map[string]string, mode protocompile.SourceInfoMode) (fd *descriptorpb.FileDescriptorProto, err error, panicked string) {
	defer func() {
		if r := recover(); r != nil {
			panicked = fmt.Sprint(r)
		}
	}()
	comp := protocompile.Compiler{
		Resolver: protocompile.WithStandardImports(&protocompile.SourceResolver{
			Accessor: protocompile.SourceAccessorFromMap(texts),
		}),
		SourceInfoMode: mode,
		MaxParallelism: 2,
	}
	fs, err := comp.Compile(context.Background(), featgen.Main)
	if err != nil {
		return nil, err, ""
	}
	return protoutil.ProtoFromFileDescriptor(fs[0]), nil, ""
}

// traceCase compiles one workspace in the four modes and records its trace.
func traceCase(id string, n int, key string, fc *featgen.Case, texts map[string]string, commentRaws []string, nlAfter []bool,
	wantShape []byte, skel string, tr *tracer, out *sink, st *c23Stats) {
	isLayout := skel != ""
	st.Cases++
	main := strings.TrimPrefix(texts[featgen.Main], "\xEF\xBB\xBF")
	ci := newCommentIndex(commentRaws, nlAfter)
	begun := false
	stdLocs, stdComments := 0, 0
	features := fc.Features
	if features == nil {
		features = []string{}
	}
	for _, m := range siModes {
		fd, err, pan := compileMain(texts, m.mode)
		if !begun {
			// the Begin event needs the measured shape, which needs one successful compilation
			sh := leaf
			if fd != nil {
				sh = shapeOf(fd.ProtoReflect())
				if !isLayout {
					if p := featgen.CheckAgainstSpec(fc, fd); p != "" {
						out.report(n, key, "HARNESS:renderer-vs-spec", p)
					}
				}
				if wantShape != nil {
					got, _ := json.Marshal(sh)
					var w node
					_ = json.Unmarshal(wantShape, &w)
					canon, _ := json.Marshal(w)
					if string(got) != string(canon) {
						out.report(n, key, "HARNESS:shape", fmt.Sprintf("measured %s, specification %s", got, wantShape))
					}
				}
			}
			tr.ev(map[string]any{"e": "Begin", "id": id, "skel": skel, "syntax": fc.Syntax, "features": features, "shape": sh,
				"widths": refLineTable([]byte(main)), "ncom": len(commentRaws)})
			begun = true
		}
		if pan != "" {
			tr.ev(map[string]any{"e": "Panic", "m": m.name, "msg": pan})
			continue
		}
		if err != nil {
			tr.ev(map[string]any{"e": "Fail", "m": m.name, "msg": err.Error()})
			continue
		}
		st.Compiles++
		locs := fd.GetSourceCodeInfo().GetLocation()
		// non-vacuity of the mode relations: how much the extended modes add
		ncm := 0
		for _, loc := range locs {
			ncm += len(loc.LeadingDetachedComments)
			if loc.LeadingComments != nil {
				ncm++
			}
			if loc.TrailingComments != nil {
				ncm++
			}
		}
		switch m.name {
		case "std":
			stdLocs, stdComments = len(locs), ncm
		case "ec":
			st.ExtraComments += ncm - stdComments
		case "eol":
			st.ExtraOptionLocs += len(locs) - stdLocs
		}
		tr.ev(map[string]any{"e": "Mode", "m": m.name, "n": len(locs)})
		for _, loc := range locs {
			ev := locEvent{E: "Loc", P: loc.Path, S: loc.Span, L: []int{}, T: []int{}, D: [][]int{}}
			if ev.P == nil {
				ev.P = []int32{}
			}
			if ev.S == nil {
				ev.S = []int32{}
			}
			one := func(s string) []int {
				st.Comments++
				lo, hi, ok := ci.match(s)
				if !ok {
					ev.Bad++
					out.report(n, key, "INFO:comment-unmatched", fmt.Sprintf("mode %s path %v: %q", m.name, loc.Path, s))
				} else {
					st.CommentsMatched++
				}
				return []int{lo, hi, hashOf(s)}
			}
			if loc.LeadingComments != nil {
				ev.L = one(loc.GetLeadingComments())
			}
			if loc.TrailingComments != nil {
				ev.T = one(loc.GetTrailingComments())
			}
			for _, d := range loc.LeadingDetachedComments {
				ev.D = append(ev.D, one(d))
			}
			if len(loc.Span) == 4 {
				st.MultiLineSpans++
			}
			st.Locations++
			tr.ev(ev)
		}
	}
	tr.ev(map[string]any{"e": "End"})
}

func runC23(in *bufio.Scanner, out *sink, tracePath string) error {
	tf, err := os.Create(tracePath)
	if err != nil {
		return err
	}
	defer tf.Close()
	tw := bufio.NewWriterSize(tf, 1<<20)
	defer tw.Flush()
	tr := &tracer{w: tw, enc: json.NewEncoder(tw)}
	tag := "c"
	if len(os.Args) > 3 {
		tag = os.Args[3]
	}
	var st c23Stats
	r := newCaseReader(in)
	for {
		c, other, ok, err := r.next()
		if err != nil {
			return err
		}
		if !ok {
			break
		}
		n := r.n
		id := fmt.Sprintf("%s:%d", tag, n)
		if c != nil {
			if c.sk == nil || c.sk.Syntax == "none" {
				return fmt.Errorf("case %d: skeleton %s is unknown or does not link, it cannot be used for C23", n, c.Skel)
			}
			items, source, harness := renderLayout(c)
			if harness != "" {
				out.report(n, c.key(), "HARNESS:render", harness)
				continue
			}
			fc := &featgen.Case{Syntax: c.sk.Syntax, Features: c.sk.Features}
			texts := featgen.Render(fc)
			texts[featgen.Main] = source
			var raws []string
			var nls []bool
			for i, it := range items {
				if it.isComment() {
					raws = append(raws, it.Text)
					nls = append(nls, i+1 < len(items) && (items[i+1].Kind == "LF" || items[i+1].Kind == "CRLF"))
				}
			}
			st.LayoutCases++
			traceCase(id, n, c.key(), fc, texts, raws, nls, nil, c.Skel, tr, out, &st)
		} else {
			var c ffCase
			if err := json.Unmarshal(other, &c); err != nil {
				return err
			}
			texts := featgen.Render(&c.Case)
			var raws []string
			var nls []bool
			pieces := scan(texts[featgen.Main])
			for i, p := range pieces {
				if p.Kind == "c" {
					raws = append(raws, p.Text)
					nls = append(nls, i+1 < len(pieces) && pieces[i+1].Kind == "ws" &&
						(strings.HasPrefix(pieces[i+1].Text, "\n") || strings.HasPrefix(pieces[i+1].Text, "\r\n")))
				}
			}
			st.FFCases++
			traceCase(id, n, c.Key(), &c.Case, texts, raws, nls, []byte(c.Shape), "", tr, out, &st)
		}
	}
	b, _ := json.Marshal(st)
	fmt.Fprintf(os.Stderr, "STATS %s\nEVENTS %d\n", b, tr.n)
	return nil
}

func runSI(w *bufio.Writer) error {
	data, err := io.ReadAll(os.Stdin)
	if err != nil {
		return err
	}
	texts := featgen.Render(&featgen.Case{Syntax: "proto3"})
	texts[featgen.Main] = string(data)
	for _, m := range siModes {
		fd, err, pan := compileMain(texts, m.mode)
		if err != nil || pan != "" {
			fmt.Fprintf(w, "%s: %v %s\n", m.name, err, pan)
			continue
		}
		for _, loc := range fd.GetSourceCodeInfo().GetLocation() {
			if loc.LeadingComments != nil || loc.TrailingComments != nil || len(loc.LeadingDetachedComments) > 0 {
				fmt.Fprintf(w, "%s %v %v lead=%q trail=%q det=%q\n", m.name, loc.Path, loc.Span, loc.GetLeadingComments(), loc.GetTrailingComments(), loc.LeadingDetachedComments)
			}
		}
	}
	return nil
}
