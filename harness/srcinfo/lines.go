package main

import (
	"bufio"
	"encoding/json"
	"fmt"
	"os"
	"unicode/utf8"
)

// refLineTable is the driver's line table: the width, in Col8 columns (TAB advances to the next
// multiple of eight, every other character is one column), of every line; lines are separated by
// LF.  It is the Go counterpart of SrcLines!LineTable and is checked against it on every text TLC
// enumerates from spec/MCSrcInfoLines.tla (mode "lines").
func refLineTable(data []byte) []int {
	widths := []int{}
	col := 0
	for i := 0; i < len(data); {
		r, sz := utf8.DecodeRune(data[i:])
		switch {
		case r == '\n':
			widths = append(widths, col)
			col = 0
		case r == '\t':
			col += 8 - col%8
		default:
			col++
		}
		i += sz
	}
	return append(widths, col)
}

var lineSymbols = map[string]string{"a": "a", "T": "\t", "N": "\n", "R": "\r", "2": "é", "3": "€", "4": "\U0001F600"}

func runLines(in *bufio.Scanner, out *sink) error {
	n, checked := 0, 0
	for in.Scan() {
		var c struct {
			Text  []string `json:"text"`
			Table []int    `json:"table"`
		}
		if err := json.Unmarshal(in.Bytes(), &c); err != nil {
			return err
		}
		var data []byte
		for _, s := range c.Text {
			t, ok := lineSymbols[s]
			if !ok {
				return fmt.Errorf("unknown symbol %q", s)
			}
			data = append(data, t...)
		}
		got := refLineTable(data)
		if fmt.Sprint(got) != fmt.Sprint(c.Table) {
			out.report(n, fmt.Sprint(c.Text), "HARNESS:line-table", fmt.Sprintf("reference %v, SrcLines %v", got, c.Table))
		}
		checked++
		n++
	}
	fmt.Fprintf(os.Stderr, "STATS {\"LineTables\":%d}\n", checked)
	return in.Err()
}
