package main

// An independent scanner for the lexical structure of .proto text (language definition: white space,
// `//` comments up to but excluding the LF, `/* */` comments, quoted strings with backslash escapes,
// words = identifiers / numbers, one-character punctuation).  It shares nothing with parser/lexer.go
// and is only ever run on text the generators produced (featgen files, Layout skeletons), which use
// no exotic numeric spellings.  Used (1) at development time to tokenise the skeleton files of
// spec/LayoutSkel.tla, (2) to find "the comment items the generator placed" in featgen-rendered text.

type piece struct {
	Kind string // "w" word, "s" string literal, "p" punctuation, "c" comment, "ws" white space
	Text string
	Off  int
}

func isWordStart(c byte) bool {
	return c == '_' || (c >= 'a' && c <= 'z') || (c >= 'A' && c <= 'Z') || (c >= '0' && c <= '9')
}

func isWordChar(c byte) bool { return isWordStart(c) || c == '.' }

func isSpace(c byte) bool {
	return c == ' ' || c == '\t' || c == '\n' || c == '\r' || c == '\f' || c == '\v'
}

// scan splits text into pieces that tile it exactly.
func scan(text string) []piece {
	var out []piece
	i := 0
	n := len(text)
	for i < n {
		c := text[i]
		start := i
		switch {
		case isSpace(c):
			for i < n && isSpace(text[i]) {
				i++
			}
			out = append(out, piece{"ws", text[start:i], start})
		case c == '/' && i+1 < n && text[i+1] == '/':
			for i < n && text[i] != '\n' {
				i++
			}
			out = append(out, piece{"c", text[start:i], start})
		case c == '/' && i+1 < n && text[i+1] == '*':
			i += 2
			for i+1 < n && !(text[i] == '*' && text[i+1] == '/') {
				i++
			}
			i += 2
			if i > n {
				i = n
			}
			out = append(out, piece{"c", text[start:i], start})
		case c == '"' || c == '\'':
			i++
			for i < n && text[i] != c {
				if text[i] == '\\' {
					i++
				}
				i++
			}
			i++
			if i > n {
				i = n
			}
			out = append(out, piece{"s", text[start:i], start})
		case isWordStart(c) || (c == '.' && i+1 < n && text[i+1] >= '0' && text[i+1] <= '9'):
			digit := c == '.' || (c >= '0' && c <= '9')
			hex := c == '0' && i+1 < n && (text[i+1] == 'x' || text[i+1] == 'X')
			i++
			for i < n {
				d := text[i]
				if digit {
					if isWordChar(d) {
						i++
						continue
					}
					// exponent sign of a decimal float
					if (d == '+' || d == '-') && (text[i-1] == 'e' || text[i-1] == 'E') && !hex {
						i++
						continue
					}
					break
				}
				if !isWordStart(d) {
					break
				}
				i++
			}
			out = append(out, piece{"w", text[start:i], start})
		default:
			i++
			out = append(out, piece{"p", text[start:i], start})
		}
	}
	return out
}
