// Driver for C09 / C10 / C24 (and the generator sanity check): FileFeatures cases rendered by
// featgen, metamorphic relations checked on the stable compiler.
//
//	metamorph <mode>      mode: sanity | clone | forms | relink        cases on stdin (JSON lines)
package main

import (
	"bufio"
	"bytes"
	"context"
	"encoding/json"
	"fmt"
	"os"
	"reflect"
	"strings"
	"sync"

	"google.golang.org/protobuf/proto"
	"google.golang.org/protobuf/reflect/protoreflect"
	"google.golang.org/protobuf/types/descriptorpb"

	"github.com/bufbuild/protocompile"
	"github.com/bufbuild/protocompile/ast"
	"github.com/bufbuild/protocompile/internal/zzverif/common/featgen"
	"github.com/bufbuild/protocompile/linker"
	"github.com/bufbuild/protocompile/parser"
	"github.com/bufbuild/protocompile/protoutil"
	"github.com/bufbuild/protocompile/reporter"
)

type tcase struct {
	featgen.Case
	Forms  map[string]string `json:"forms"`  // main/dep/mid/deep -> source|ast|parse|proto
	SIMode string            `json:"simode"` // none|standard|extra
	n      int
}

// render concretises a case: the featgen rendering, plus one local variant that featgen (shared with
// the source-info skeletons) does not have: with both "map" and "jsonname" the map field carries a
// custom json_name, so that the synthetic entry name (derived from the field NAME) and the JSON name
// differ (round-2 seed C10).
func render(c *tcase) map[string]string {
	texts := featgen.Render(&c.Case)
	hasMap, hasJSON := false, false
	for _, f := range c.Features {
		hasMap = hasMap || f == "map"
		hasJSON = hasJSON || f == "jsonname"
	}
	if hasMap && hasJSON {
		texts[featgen.Main] = strings.Replace(texts[featgen.Main], "> m = 6;", "> m = 6 [json_name = \"zapMap\"];", 1)
	}
	return texts
}

type mismatch struct {
	N      int    `json:"n"`
	Class  string `json:"class"`
	Key    string `json:"key"`
	Detail string `json:"detail"`
}

var (
	outMu sync.Mutex
	enc   *json.Encoder
)

func report(c *tcase, class, detail string) {
	outMu.Lock()
	defer outMu.Unlock()
	_ = enc.Encode(mismatch{N: c.n, Class: class, Key: c.Key() + formsKey(c), Detail: detail})
}

func formsKey(c *tcase) string {
	if len(c.Forms) == 0 {
		return ""
	}
	return fmt.Sprintf(" forms=%v/%v/%v/%v si=%s", c.Forms["main"], c.Forms["dep"], c.Forms["mid"], c.Forms["deep"], c.SIMode)
}

func siMode(m string) protocompile.SourceInfoMode {
	switch m {
	case "standard":
		return protocompile.SourceInfoStandard
	case "extra":
		return protocompile.SourceInfoExtraComments | protocompile.SourceInfoExtraOptionLocations
	}
	return protocompile.SourceInfoNone
}

func srcResolver(texts map[string]string) protocompile.Resolver {
	return protocompile.WithStandardImports(&protocompile.SourceResolver{
		Accessor: protocompile.SourceAccessorFromMap(texts),
	})
}

func compile(res protocompile.Resolver, mode protocompile.SourceInfoMode, files ...string) (linker.Files, error) {
	comp := protocompile.Compiler{Resolver: res, SourceInfoMode: mode, MaxParallelism: 4}
	return comp.Compile(context.Background(), files...)
}

func fdpOf(f protoreflect.FileDescriptor) *descriptorpb.FileDescriptorProto {
	return protoutil.ProtoFromFileDescriptor(f)
}

func noSI(fd *descriptorpb.FileDescriptorProto) []byte {
	c := proto.Clone(fd).(*descriptorpb.FileDescriptorProto)
	c.SourceCodeInfo = nil
	return featgen.DetBytes(c)
}

// ---------------------------------------------------------------------------------------------

func sanity(c *tcase) bool {
	texts := render(c)
	fs, err := compile(srcResolver(texts), protocompile.SourceInfoStandard, featgen.Main)
	if err != nil {
		report(c, "HARNESS:does-not-compile", err.Error()+"\n"+texts[featgen.Main])
		return false
	}
	if p := featgen.CheckAgainstSpec(&c.Case, fdpOf(fs[0])); p != "" {
		report(c, "HARNESS:renderer-vs-spec", p)
		return false
	}
	return true
}

// ---------------------------------------------------------------------------------------------
// C24

func msgPointers(m protoreflect.Message, out map[uintptr]string, bytesOut map[uintptr]string, path string) {
	out[reflect.ValueOf(m.Interface()).Pointer()] = path
	m.Range(func(fd protoreflect.FieldDescriptor, v protoreflect.Value) bool {
		p := path + "." + string(fd.Name())
		switch {
		case fd.IsList():
			l := v.List()
			for i := 0; i < l.Len(); i++ {
				if fd.Message() != nil {
					msgPointers(l.Get(i).Message(), out, bytesOut, fmt.Sprintf("%s[%d]", p, i))
				} else if fd.Kind() == protoreflect.BytesKind {
					if b := l.Get(i).Bytes(); len(b) > 0 {
						bytesOut[reflect.ValueOf(b).Pointer()] = p
					}
				}
			}
		case fd.IsMap():
		case fd.Message() != nil:
			msgPointers(v.Message(), out, bytesOut, p)
		case fd.Kind() == protoreflect.BytesKind:
			if b := v.Bytes(); len(b) > 0 {
				bytesOut[reflect.ValueOf(b).Pointer()] = p
			}
		}
		return true
	})
	if u := m.GetUnknown(); len(u) > 0 {
		bytesOut[reflect.ValueOf([]byte(u)).Pointer()] = path + ".<unknown>"
	}
}

type nodeCmp struct {
	c        *tcase
	o, cl    parser.Result
	n, nopts int
}

func (nc *nodeCmp) same(what string, a, b ast.Node) {
	nc.n++
	if a == nil || isNilNode(a) {
		return // nothing recorded for the original either
	}
	if b == nil || isNilNode(b) {
		report(nc.c, "clone:node-missing", what)
		return
	}
	if a != b {
		report(nc.c, "clone:node-differs", what)
	}
}

func isNilNode(n ast.Node) bool {
	if n == nil {
		return true
	}
	v := reflect.ValueOf(n)
	return v.Kind() == reflect.Ptr && v.IsNil()
}

func (nc *nodeCmp) opts(what string, o, c proto.Message) {
	ro, rc := o.ProtoReflect(), c.ProtoReflect()
	if !ro.IsValid() || !rc.IsValid() {
		return
	}
	fd := ro.Descriptor().Fields().ByName("uninterpreted_option")
	if fd == nil {
		return
	}
	lo, lc := ro.Get(fd).List(), rc.Get(fd).List()
	if lo.Len() != lc.Len() {
		report(nc.c, "clone:proto-differs", what+" uninterpreted_option count")
		return
	}
	for i := 0; i < lo.Len(); i++ {
		uo := lo.Get(i).Message().Interface().(*descriptorpb.UninterpretedOption)
		uc := lc.Get(i).Message().Interface().(*descriptorpb.UninterpretedOption)
		nc.nopts++
		nc.same(fmt.Sprintf("%s option[%d]", what, i), nc.o.OptionNode(uo), nc.cl.OptionNode(uc))
		nc.same(fmt.Sprintf("%s option[%d] via Node()", what, i), nc.o.Node(uo), nc.cl.Node(uc))
		for j := range uo.Name {
			nc.same(fmt.Sprintf("%s option[%d].name[%d]", what, i, j), nc.o.OptionNamePartNode(uo.Name[j]), nc.cl.OptionNamePartNode(uc.Name[j]))
		}
	}
}

func (nc *nodeCmp) field(what string, o, c *descriptorpb.FieldDescriptorProto) {
	nc.same(what, nc.o.FieldNode(o), nc.cl.FieldNode(c))
	nc.same(what+" via Node()", nc.o.Node(o), nc.cl.Node(c))
	if o.Options != nil {
		nc.opts(what, o.Options, c.Options)
	}
}

func (nc *nodeCmp) enum(what string, o, c *descriptorpb.EnumDescriptorProto) {
	nc.same(what, nc.o.EnumNode(o), nc.cl.EnumNode(c))
	if o.Options != nil {
		nc.opts(what, o.Options, c.Options)
	}
	for i := range o.Value {
		w := fmt.Sprintf("%s.value[%d]", what, i)
		nc.same(w, nc.o.EnumValueNode(o.Value[i]), nc.cl.EnumValueNode(c.Value[i]))
		if o.Value[i].Options != nil {
			nc.opts(w, o.Value[i].Options, c.Value[i].Options)
		}
	}
	for i := range o.ReservedRange {
		nc.same(fmt.Sprintf("%s.reserved_range[%d]", what, i), nc.o.EnumReservedRangeNode(o.ReservedRange[i]), nc.cl.EnumReservedRangeNode(c.ReservedRange[i]))
	}
}

func (nc *nodeCmp) msg(what string, o, c *descriptorpb.DescriptorProto) {
	nc.same(what, nc.o.MessageNode(o), nc.cl.MessageNode(c))
	nc.same(what+" via Node()", nc.o.Node(o), nc.cl.Node(c))
	if o.Options != nil {
		nc.opts(what, o.Options, c.Options)
	}
	for i := range o.Field {
		nc.field(fmt.Sprintf("%s.field[%d]", what, i), o.Field[i], c.Field[i])
	}
	for i := range o.Extension {
		nc.field(fmt.Sprintf("%s.extension[%d]", what, i), o.Extension[i], c.Extension[i])
	}
	for i := range o.OneofDecl {
		w := fmt.Sprintf("%s.oneof[%d]", what, i)
		nc.same(w, nc.o.OneofNode(o.OneofDecl[i]), nc.cl.OneofNode(c.OneofDecl[i]))
		if o.OneofDecl[i].Options != nil {
			nc.opts(w, o.OneofDecl[i].Options, c.OneofDecl[i].Options)
		}
	}
	for i := range o.ExtensionRange {
		w := fmt.Sprintf("%s.extension_range[%d]", what, i)
		nc.same(w, nc.o.ExtensionRangeNode(o.ExtensionRange[i]), nc.cl.ExtensionRangeNode(c.ExtensionRange[i]))
		nc.same(w+" (statement)", nc.o.ExtensionsNode(o.ExtensionRange[i]), nc.cl.ExtensionsNode(c.ExtensionRange[i]))
		if o.ExtensionRange[i].Options != nil {
			nc.opts(w, o.ExtensionRange[i].Options, c.ExtensionRange[i].Options)
		}
	}
	for i := range o.ReservedRange {
		nc.same(fmt.Sprintf("%s.reserved_range[%d]", what, i), nc.o.MessageReservedRangeNode(o.ReservedRange[i]), nc.cl.MessageReservedRangeNode(c.ReservedRange[i]))
	}
	for i := range o.EnumType {
		nc.enum(fmt.Sprintf("%s.enum[%d]", what, i), o.EnumType[i], c.EnumType[i])
	}
	for i := range o.NestedType {
		nc.msg(fmt.Sprintf("%s.nested[%d]", what, i), o.NestedType[i], c.NestedType[i])
	}
}

// scribble changes every message reachable from m in place
func scribble(m protoreflect.Message) {
	m.Range(func(fd protoreflect.FieldDescriptor, v protoreflect.Value) bool {
		switch {
		case fd.IsList():
			l := v.List()
			for i := 0; i < l.Len(); i++ {
				if fd.Message() != nil {
					scribble(l.Get(i).Message())
				} else if fd.Kind() == protoreflect.StringKind {
					l.Set(i, protoreflect.ValueOfString("SCRIBBLED"))
				} else if fd.Kind() == protoreflect.BytesKind {
					b := l.Get(i).Bytes()
					for j := range b {
						b[j] = 'Z'
					}
				}
			}
			if l.Len() > 0 {
				l.Truncate(l.Len() - 1)
			}
		case fd.IsMap():
		case fd.Message() != nil:
			scribble(v.Message())
		case fd.Kind() == protoreflect.StringKind:
			m.Set(fd, protoreflect.ValueOfString("SCRIBBLED"))
		case fd.Kind() == protoreflect.Int32Kind:
			m.Set(fd, protoreflect.ValueOfInt32(int32(v.Int())+1000))
		case fd.Kind() == protoreflect.BytesKind:
			b := v.Bytes()
			for j := range b {
				b[j] = 'Z'
			}
		}
		return true
	})
}

func cloneCheck(c *tcase) {
	texts := render(c)
	h := reporter.NewHandler(nil)
	fn, err := parser.Parse(featgen.Main, strings.NewReader(texts[featgen.Main]), h)
	if err != nil {
		report(c, "HARNESS:does-not-parse", err.Error())
		return
	}
	orig, err := parser.ResultFromAST(fn, true, h)
	if err != nil {
		report(c, "HARNESS:no-result", err.Error())
		return
	}
	snap := featgen.DetBytes(orig.FileDescriptorProto())
	var cl parser.Result
	func() {
		defer func() {
			if r := recover(); r != nil {
				report(c, "clone:panic", fmt.Sprint(r))
			}
		}()
		cl = parser.Clone(orig)
	}()
	if cl == nil {
		return
	}
	if !proto.Equal(orig.FileDescriptorProto(), cl.FileDescriptorProto()) || !bytes.Equal(snap, featgen.DetBytes(cl.FileDescriptorProto())) {
		report(c, "clone:proto-differs", "clone's descriptor proto is not equal to the original")
		return
	}
	if cl.AST() != orig.AST() {
		report(c, "clone:ast-differs", "clone does not refer to the same AST")
	}
	// no shared mutable state
	po, bo := map[uintptr]string{}, map[uintptr]string{}
	pc, bc := map[uintptr]string{}, map[uintptr]string{}
	msgPointers(orig.FileDescriptorProto().ProtoReflect(), po, bo, "file")
	msgPointers(cl.FileDescriptorProto().ProtoReflect(), pc, bc, "file")
	for p, where := range pc {
		if w2, ok := po[p]; ok {
			report(c, "clone:shared-message", where+" is the same object as original "+w2)
			break
		}
	}
	for p, where := range bc {
		if w2, ok := bo[p]; ok {
			report(c, "clone:shared-bytes", where+" shares its backing array with original "+w2)
			break
		}
	}
	// node lookups
	nc := &nodeCmp{c: c, o: orig, cl: cl}
	of, cf := orig.FileDescriptorProto(), cl.FileDescriptorProto()
	nc.same("file", orig.FileNode(), cl.FileNode())
	nc.same("file via Node()", orig.Node(of), cl.Node(cf))
	if of.Options != nil {
		nc.opts("file", of.Options, cf.Options)
	}
	for i := range of.MessageType {
		nc.msg(fmt.Sprintf("message[%d]", i), of.MessageType[i], cf.MessageType[i])
	}
	for i := range of.EnumType {
		nc.enum(fmt.Sprintf("enum[%d]", i), of.EnumType[i], cf.EnumType[i])
	}
	for i := range of.Extension {
		nc.field(fmt.Sprintf("extension[%d]", i), of.Extension[i], cf.Extension[i])
	}
	for i := range of.Service {
		w := fmt.Sprintf("service[%d]", i)
		nc.same(w, orig.ServiceNode(of.Service[i]), cl.ServiceNode(cf.Service[i]))
		if of.Service[i].Options != nil {
			nc.opts(w, of.Service[i].Options, cf.Service[i].Options)
		}
		for j := range of.Service[i].Method {
			w2 := fmt.Sprintf("%s.method[%d]", w, j)
			nc.same(w2, orig.MethodNode(of.Service[i].Method[j]), cl.MethodNode(cf.Service[i].Method[j]))
			if of.Service[i].Method[j].Options != nil {
				nc.opts(w2, of.Service[i].Method[j].Options, cf.Service[i].Method[j].Options)
			}
		}
	}
	// independence: scribble over the clone, the original must not change; then the other way round
	scribble(cl.FileDescriptorProto().ProtoReflect())
	if !bytes.Equal(snap, featgen.DetBytes(orig.FileDescriptorProto())) {
		report(c, "clone:mutation-leaks-to-original", "original changed after mutating the clone")
		return
	}
	cl2 := parser.Clone(orig)
	scribble(orig.FileDescriptorProto().ProtoReflect())
	if !bytes.Equal(snap, featgen.DetBytes(cl2.FileDescriptorProto())) {
		report(c, "clone:mutation-leaks-to-clone", "clone changed after mutating the original")
	}
	fmt.Fprintf(statsW, "lookups=%d options=%d\n", nc.n, nc.nopts)
}

var statsW = new(bytes.Buffer)

// ---------------------------------------------------------------------------------------------
// C09

type supplied struct {
	form  string
	text  string
	ast   *ast.FileNode
	pr    parser.Result
	fdp   *descriptorpb.FileDescriptorProto
	snap  []byte
	nloc  int
}

func short(path string) string { return strings.TrimSuffix(path, ".proto") }

func formsCheck(c *tcase) {
	texts := render(c)
	mode := siMode(c.SIMode)
	ref, err := compile(srcResolver(texts), mode, featgen.Main)
	if err != nil {
		report(c, "HARNESS:does-not-compile", err.Error())
		return
	}
	refBytes := map[string][]byte{}
	var collect func(f protoreflect.FileDescriptor, into map[string][]byte)
	collect = func(f protoreflect.FileDescriptor, into map[string][]byte) {
		if _, ok := into[f.Path()]; ok {
			return
		}
		into[f.Path()] = noSI(fdpOf(f))
		for i := 0; i < f.Imports().Len(); i++ {
			collect(f.Imports().Get(i).FileDescriptor, into)
		}
	}
	collect(ref[0], refBytes)

	sup := map[string]*supplied{}
	for _, path := range featgen.Files(&c.Case) {
		s := &supplied{form: c.Forms[short(path)], text: texts[path]}
		if s.form == "" {
			s.form = "source"
		}
		if s.form != "source" {
			h := reporter.NewHandler(nil)
			fn, err := parser.Parse(path, strings.NewReader(s.text), h)
			if err != nil {
				report(c, "HARNESS:does-not-parse", err.Error())
				return
			}
			s.ast = fn
			if s.form != "ast" {
				pr, err := parser.ResultFromAST(fn, true, h)
				if err != nil {
					report(c, "HARNESS:no-result", err.Error())
					return
				}
				s.pr = pr
				s.snap = featgen.DetBytes(pr.FileDescriptorProto())
				if s.form == "proto" {
					s.fdp = proto.Clone(pr.FileDescriptorProto()).(*descriptorpb.FileDescriptorProto)
					s.pr = nil
				}
				if s.form == "protosi" {
					// a descriptor proto that carries source code info (the linked output of a compilation
					// with source info); the compiler must neither strip it from nor add to the supplied object
					s.fdp = nil
					s.pr = nil
				}
			}
		}
		sup[path] = s
	}
	var siRef linker.Files
	for path, s := range sup {
		if s.form != "protosi" {
			continue
		}
		if siRef == nil {
			var err error
			siRef, err = compile(srcResolver(texts), protocompile.SourceInfoStandard, featgen.Main)
			if err != nil {
				report(c, "HARNESS:does-not-compile", err.Error())
				return
			}
		}
		var find func(f protoreflect.FileDescriptor) protoreflect.FileDescriptor
		find = func(f protoreflect.FileDescriptor) protoreflect.FileDescriptor {
			if f.Path() == path {
				return f
			}
			for i := 0; i < f.Imports().Len(); i++ {
				if r := find(f.Imports().Get(i).FileDescriptor); r != nil {
					return r
				}
			}
			return nil
		}
		fd := find(siRef[0])
		if fd == nil {
			report(c, "HARNESS:no-such-file", path)
			return
		}
		s.fdp = fdpOf(fd)
		s.snap = featgen.DetBytes(s.fdp)
		s.nloc = len(s.fdp.GetSourceCodeInfo().GetLocation())
	}
	resolver := protocompile.WithStandardImports(protocompile.ResolverFunc(func(path string) (protocompile.SearchResult, error) {
		s, ok := sup[path]
		if !ok {
			return protocompile.SearchResult{}, fmt.Errorf("no such file %s", path)
		}
		switch s.form {
		case "ast":
			return protocompile.SearchResult{AST: s.ast}, nil
		case "parse":
			return protocompile.SearchResult{ParseResult: s.pr}, nil
		case "proto", "protosi":
			return protocompile.SearchResult{Proto: s.fdp}, nil
		}
		return protocompile.SearchResult{Source: strings.NewReader(s.text)}, nil
	}))
	checkSnap := func(when string) {
		for path, s := range sup {
			switch s.form {
			case "parse":
				if !bytes.Equal(s.snap, featgen.DetBytes(s.pr.FileDescriptorProto())) {
					report(c, "forms:input-mutated:parse-result", path+" "+when)
				}
			case "proto", "protosi":
				if !bytes.Equal(s.snap, featgen.DetBytes(s.fdp)) {
					report(c, "forms:input-mutated:"+s.form, path+" "+when)
				}
			}
		}
	}
	cmp := func(fs linker.Files, when string) {
		got := map[string][]byte{}
		collect(fs[0], got)
		for path, want := range refBytes {
			if !bytes.Equal(got[path], want) {
				report(c, "forms:descriptor-differs:"+sup0(sup, path), fmt.Sprintf("%s (%s)", path, when))
			}
		}
	}
	fs, err := compile(resolver, mode, featgen.Main)
	if err != nil {
		report(c, "forms:compile-fails", err.Error())
		return
	}
	cmp(fs, "first compile")
	checkSnap("after first compile")
	// the same supplied objects used by two concurrent compilations
	var wg sync.WaitGroup
	locCount := func(fs linker.Files, path string) int {
		n := -1
		var walk func(f protoreflect.FileDescriptor)
		seen := map[string]bool{}
		walk = func(f protoreflect.FileDescriptor) {
			if seen[f.Path()] {
				return
			}
			seen[f.Path()] = true
			if f.Path() == path {
				n = f.SourceLocations().Len()
			}
			for i := 0; i < f.Imports().Len(); i++ {
				walk(f.Imports().Get(i).FileDescriptor)
			}
		}
		walk(fs[0])
		return n
	}
	// the same supplied objects used by concurrent compilations with DIFFERENT source-info modes
	for rep := 0; rep < 3; rep++ {
		for _, m2 := range []protocompile.SourceInfoMode{protocompile.SourceInfoNone, protocompile.SourceInfoStandard, mode} {
			wg.Add(1)
			go func() {
				defer wg.Done()
				fs2, err := compile(resolver, m2, featgen.Main)
				if err != nil {
					report(c, "forms:compile-fails", "concurrent: "+err.Error())
					return
				}
				cmp(fs2, "concurrent compile")
				for path, s := range sup {
					if s.form != "protosi" {
						continue
					}
					got := locCount(fs2, path)
					want := s.nloc
					if m2 == protocompile.SourceInfoNone {
						want = 0
					}
					if got != want {
						report(c, "forms:source-info-of-supplied-proto", fmt.Sprintf("%s compiled concurrently in mode %d has %d locations, want %d", path, m2, got, want))
					}
				}
			}()
		}
	}
	wg.Wait()
	checkSnap("after concurrent compiles")
}

func sup0(sup map[string]*supplied, path string) string {
	if s, ok := sup[path]; ok {
		return s.form
	}
	return "std"
}

// ---------------------------------------------------------------------------------------------
// C10

func relinkCheck(c *tcase) {
	texts := render(c)
	for _, mode := range []protocompile.SourceInfoMode{protocompile.SourceInfoNone, protocompile.SourceInfoStandard} {
		first, err := compile(srcResolver(texts), mode, featgen.Main)
		if err != nil {
			report(c, "HARNESS:does-not-compile", err.Error())
			return
		}
		outs := map[string]*descriptorpb.FileDescriptorProto{}
		descs := map[string]protoreflect.FileDescriptor{}
		var collect func(f protoreflect.FileDescriptor)
		collect = func(f protoreflect.FileDescriptor) {
			if _, ok := outs[f.Path()]; ok {
				return
			}
			outs[f.Path()] = fdpOf(f)
			descs[f.Path()] = f
			for i := 0; i < f.Imports().Len(); i++ {
				collect(f.Imports().Get(i).FileDescriptor)
			}
		}
		collect(first[0])
		want := map[string][]byte{}
		for p, fd := range outs {
			want[p] = featgen.DetBytes(fd)
		}
		for _, how := range []string{"proto", "desc"} {
			resolver := protocompile.ResolverFunc(func(path string) (protocompile.SearchResult, error) {
				if how == "desc" {
					if d, ok := descs[path]; ok && path != featgen.Main {
						return protocompile.SearchResult{Desc: d}, nil
					}
				}
				fd, ok := outs[path]
				if !ok {
					return protocompile.SearchResult{}, fmt.Errorf("no such file %s", path)
				}
				return protocompile.SearchResult{Proto: proto.Clone(fd).(*descriptorpb.FileDescriptorProto)}, nil
			})
			second, err := compile(resolver, mode, featgen.Main)
			if err != nil {
				report(c, "relink:fails:"+how, fmt.Sprintf("mode=%d: %v", mode, err))
				continue
			}
			got := map[string][]byte{}
			var coll2 func(f protoreflect.FileDescriptor)
			coll2 = func(f protoreflect.FileDescriptor) {
				if _, ok := got[f.Path()]; ok {
					return
				}
				got[f.Path()] = featgen.DetBytes(fdpOf(f))
				for i := 0; i < f.Imports().Len(); i++ {
					coll2(f.Imports().Get(i).FileDescriptor)
				}
			}
			coll2(second[0])
			for p, w := range want {
				if !bytes.Equal(got[p], w) {
					a, b := &descriptorpb.FileDescriptorProto{}, &descriptorpb.FileDescriptorProto{}
					_ = proto.Unmarshal(w, a)
					_ = proto.Unmarshal(got[p], b)
					report(c, "relink:bytes-differ:"+how, fmt.Sprintf("mode=%d file=%s %s", mode, p, firstDiff(a, b)))
				}
			}
		}
	}
}

func firstDiff(a, b proto.Message) string {
	ra, rb := a.ProtoReflect(), b.ProtoReflect()
	res := ""
	ra.Descriptor().Fields()
	for i := 0; i < ra.Descriptor().Fields().Len(); i++ {
		fd := ra.Descriptor().Fields().Get(i)
		va, vb := ra.Get(fd), rb.Get(fd)
		if !va.Equal(vb) || ra.Has(fd) != rb.Has(fd) {
			res += string(fd.Name()) + " "
		}
	}
	if res == "" {
		res = "(same fields; encoding/unknown-field order differs)"
	}
	return "differs in: " + res
}

// ---------------------------------------------------------------------------------------------

func main() {
	mode := os.Args[1]
	in := bufio.NewScanner(os.Stdin)
	in.Buffer(make([]byte, 1<<20), 1<<26)
	w := bufio.NewWriter(os.Stdout)
	defer w.Flush()
	enc = json.NewEncoder(w)
	n := 0
	for in.Scan() {
		var c tcase
		if err := json.Unmarshal(in.Bytes(), &c); err != nil {
			fmt.Fprintln(os.Stderr, "bad case:", err)
			os.Exit(2)
		}
		c.n = n
		n++
		func() {
			defer func() {
				if r := recover(); r != nil {
					report(&c, mode+":panic", fmt.Sprint(r))
				}
			}()
			if !sanity(&c) {
				return
			}
			switch mode {
			case "sanity":
			case "clone":
				cloneCheck(&c)
			case "forms":
				formsCheck(&c)
			case "relink":
				relinkCheck(&c)
			default:
				fmt.Fprintln(os.Stderr, "unknown mode", mode)
				os.Exit(2)
			}
		}()
	}
	w.Flush()
	lookups, opts := 0, 0
	for _, l := range strings.Split(statsW.String(), "\n") {
		var a, b int
		if _, err := fmt.Sscanf(l, "lookups=%d options=%d", &a, &b); err == nil {
			lookups += a
			opts += b
		}
	}
	fmt.Fprintf(os.Stderr, "STATS cases=%d lookups=%d options=%d\n", n, lookups, opts)
}
