// Driver for C04 (descriptor views agree with the Go protobuf runtime).
//
// Reads TLC-exported cases of spec/MCFeatures.tla (JSON lines) on stdin.  For each case it renders the .proto
// source (render.go), compiles it with the stable compiler, builds the Go runtime's view with protodesc.NewFile
// on the compiled FileDescriptorProto (which must succeed), dumps every attribute of every element of BOTH
// descriptor trees, and compares three ways:
//
//	linker view  vs  spec expectation
//	runtime view vs  spec expectation
//	linker view  vs  runtime view            (the property's differential; also for attributes the spec does not model)
//
// A mismatch is printed as one JSON line {class, key, detail}.  class = "<element kind>.<attribute>:<who>" where who is
//
//	linker         linker differs, runtime == spec           (the compiler's view is wrong)
//	runtime        runtime differs, linker == spec           (suspect the spec / protodesc)
//	both           linker == runtime, both differ from spec  (suspect the spec first)
//	all-differ     three different answers
//	linker-vs-runtime   attribute without spec expectation differs between the two views
//
// Classes starting with "HARNESS:" mean the generator / renderer is wrong (engine turns them into exit 2).
package main

import (
	"bufio"
	"context"
	"encoding/json"
	"flag"
	"fmt"
	"os"
	"regexp"
	"runtime"
	"runtime/pprof"
	"sort"
	"strings"
	"sync"
	"sync/atomic"

	"google.golang.org/protobuf/reflect/protodesc"
	"google.golang.org/protobuf/reflect/protoreflect"
	"google.golang.org/protobuf/reflect/protoregistry"
	"google.golang.org/protobuf/types/descriptorpb"

	"github.com/bufbuild/protocompile"
	"github.com/bufbuild/protocompile/linker"
	"github.com/bufbuild/protocompile/protoutil"
	"github.com/bufbuild/protocompile/reporter"
)

// ---------------------------------------------------------------------------------------------
// case schema (ToJson(CaseOf(F)) of MCFeatures.tla)

type fieldSrc struct {
	Type   string `json:"type"`
	Rep    bool   `json:"rep"`
	MapKey string `json:"mapkey"`
	Lab    string `json:"lab"`
	Where  string `json:"where"`
	Scope  string `json:"scope"`
	Tgt    string `json:"tgt"`
	LName  bool   `json:"lname"`
	Packed string `json:"packed"`
	Dflt   bool   `json:"dflt"`
	Ov     string `json:"ov"`
}

type fieldExp struct {
	Kind   string   `json:"kind"`
	Card   string   `json:"card"`
	Pres   bool     `json:"pres"`
	Packed bool     `json:"packed"`
	List   bool     `json:"list"`
	Map    bool     `json:"map"`
	OptKw  bool     `json:"optkw"`
	Oneof  string   `json:"oneof"`
	Ext    bool     `json:"ext"`
	CMsg   string   `json:"cmsg"`
	Parent string   `json:"parent"`
	Msg    string   `json:"msg"`
	Enum   string   `json:"enum"`
	JSON   string   `json:"json"`
	Text   string   `json:"text"`
	HasDef bool     `json:"hasdef"`
	Def    string   `json:"def"`
	UTF8   bool     `json:"utf8"`
	Feat   string   `json:"feat"`
	Skip   []string `json:"skip"`
}

type fieldCase struct {
	Name string   `json:"name"`
	FQN  string   `json:"fqn"`
	Num  int      `json:"num"`
	Src  fieldSrc `json:"src"`
	Exp  fieldExp `json:"exp"`
}

type entryField struct {
	FQN   string `json:"fqn"`
	Num   int    `json:"num"`
	Kind  string `json:"kind"`
	Card  string `json:"card"`
	Pres  bool   `json:"pres"`
	UTF8  bool   `json:"utf8"`
	IsStr bool   `json:"isstr"`
	Feat  string `json:"feat"`
}

type oneofCase struct {
	Name    string   `json:"name"`
	Synth   bool     `json:"synth"`
	Members []string `json:"members"`
}

type msgCase struct {
	FQN      string      `json:"fqn"`
	Ov       string      `json:"ov"`
	Feat     string      `json:"feat"`
	Req      []int       `json:"req"`
	Oneofs   []oneofCase `json:"oneofs"`
	MapEntry bool        `json:"mapentry"`
}

type enumCase struct {
	Name   string `json:"name"`
	FQN    string `json:"fqn"`
	Ov     string `json:"ov"`
	Zero   bool   `json:"zero"`
	Closed bool   `json:"closed"`
	Feat   string `json:"feat"`
}

type tcase struct {
	Syntax  string       `json:"syntax"`
	Breaks  []string     `json:"breaks"` // protoc rules on resolved features this file value breaks (at most one)
	Edition int          `json:"edition"`
	Weight  int          `json:"weight"`
	Fov     string       `json:"fov"`
	FFeat   string       `json:"ffeat"`
	Enums   []enumCase   `json:"enums"`
	Msgs    []msgCase    `json:"msgs"`
	Fields  []fieldCase  `json:"fields"`
	EFields []entryField `json:"efields"`
}

func (c *tcase) key() string {
	var sb strings.Builder
	fmt.Fprintf(&sb, "%s file=%s", c.Syntax, c.Fov)
	if len(c.Breaks) > 0 {
		fmt.Fprintf(&sb, " breaks=%s", strings.Join(c.Breaks, "+"))
	}
	for _, e := range c.Enums {
		z := ""
		if !e.Zero {
			z = "!0"
		}
		fmt.Fprintf(&sb, " %s=%s%s", e.Name, e.Ov, z)
	}
	for _, m := range c.Msgs {
		if m.FQN == "pkg.M" || m.FQN == "pkg.M.N" {
			fmt.Fprintf(&sb, " %s=%s", strings.TrimPrefix(m.FQN, "pkg."), m.Ov)
		}
	}
	for _, f := range c.Fields {
		s := f.Src
		fmt.Fprintf(&sb, " [%s %s", s.Where, s.Type)
		if s.MapKey != "" {
			fmt.Fprintf(&sb, " map<%s>", s.MapKey)
		}
		if s.Rep {
			sb.WriteString(" rep")
		}
		if s.Lab != "none" {
			sb.WriteString(" " + s.Lab)
		}
		if s.Tgt != "" {
			sb.WriteString(" ->" + s.Tgt)
		}
		if s.LName {
			sb.WriteString(" lname")
		}
		if s.Packed != "unset" {
			sb.WriteString(" packed=" + s.Packed)
		}
		if s.Dflt {
			sb.WriteString(" dflt")
		}
		fmt.Fprintf(&sb, " @%s ov=%s]", s.Scope, s.Ov)
	}
	return sb.String()
}

type mismatch struct {
	Class  string `json:"class"`
	Key    string `json:"key"`
	Line   int    `json:"line"` // 0-based line of the case on stdin
	Detail string `json:"detail"`
}

// ---------------------------------------------------------------------------------------------

var featureNames = []string{"field_presence", "enum_type", "repeated_field_encoding", "utf8_validation", "message_encoding", "json_format"}

var featureLetter = map[string]string{
	"EXPLICIT": "E", "IMPLICIT": "I", "LEGACY_REQUIRED": "R", "OPEN": "O", "CLOSED": "C", "PACKED": "P", "EXPANDED": "X",
	"VERIFY": "V", "NONE": "N", "LENGTH_PREFIXED": "L", "DELIMITED": "D", "ALLOW": "A", "LEGACY_BEST_EFFORT": "B",
}
var letterFeature = map[string]map[string]string{}

var featureFields []protoreflect.FieldDescriptor

func init() {
	fsd := (*descriptorpb.FeatureSet)(nil).ProtoReflect().Descriptor()
	for _, n := range featureNames {
		fd := fsd.Fields().ByName(protoreflect.Name(n))
		if fd == nil {
			panic("no feature " + n)
		}
		featureFields = append(featureFields, fd)
		m := map[string]string{}
		vals := fd.Enum().Values()
		for i := 0; i < vals.Len(); i++ {
			if l, ok := featureLetter[string(vals.Get(i).Name())]; ok {
				m[l] = string(vals.Get(i).Name())
			}
		}
		letterFeature[n] = m
	}
}

// attrs is the dump of one descriptor tree: "fqn#attr" -> value
type attrs map[string]string

func (a attrs) set(fqn, attr string, v any) { a[fqn+"#"+attr] = fmt.Sprint(v) }

func fqnOf(d protoreflect.Descriptor) string {
	if d == nil {
		return "<nil>"
	}
	if _, ok := d.(protoreflect.FileDescriptor); ok {
		return "<file>"
	}
	return string(d.FullName())
}

func kindName(k protoreflect.Kind) string { return k.String() }

func cardName(c protoreflect.Cardinality) string { return c.String() }

func resolved(a attrs, fqn string, d protoreflect.Descriptor) {
	for i, f := range featureFields {
		v, err := protoutil.ResolveFeature(d, f)
		if err != nil {
			a.set(fqn, "feat."+featureNames[i], "ERR:"+err.Error())
			continue
		}
		name := string(f.Enum().Values().ByNumber(v.Enum()).Name())
		l, ok := featureLetter[name]
		if !ok {
			l = name
		}
		a.set(fqn, "feat."+featureNames[i], l)
	}
}

func ranges(r protoreflect.FieldRanges) string {
	var sb strings.Builder
	for i := 0; i < r.Len(); i++ {
		x := r.Get(i)
		fmt.Fprintf(&sb, "[%d,%d)", x[0], x[1])
	}
	return sb.String()
}

func enumRanges(r protoreflect.EnumRanges) string {
	var sb strings.Builder
	for i := 0; i < r.Len(); i++ {
		x := r.Get(i)
		fmt.Fprintf(&sb, "[%d,%d]", x[0], x[1])
	}
	return sb.String()
}

func namesOf(n protoreflect.Names) string {
	var s []string
	for i := 0; i < n.Len(); i++ {
		s = append(s, string(n.Get(i)))
	}
	return strings.Join(s, ",")
}

func defaultString(fd protoreflect.FieldDescriptor) string {
	v := fd.Default()
	if !v.IsValid() {
		return "<none>"
	}
	switch x := v.Interface().(type) {
	case []byte:
		return string(x)
	case protoreflect.EnumNumber:
		return fmt.Sprint(int32(x))
	default:
		return fmt.Sprint(x)
	}
}

func dumpField(a attrs, fd protoreflect.FieldDescriptor, runtimeView bool) {
	q := string(fd.FullName())
	a.set(q, "kind.elem", "field")
	a.set(q, "index", fd.Index())
	a.set(q, "syntax", fd.Syntax())
	a.set(q, "parent", fqnOf(fd.Parent()))
	a.set(q, "number", fd.Number())
	a.set(q, "kind", kindName(fd.Kind()))
	a.set(q, "cardinality", cardName(fd.Cardinality()))
	a.set(q, "has_presence", fd.HasPresence())
	a.set(q, "is_packed", fd.IsPacked())
	a.set(q, "is_list", fd.IsList())
	a.set(q, "is_map", fd.IsMap())
	a.set(q, "is_extension", fd.IsExtension())
	a.set(q, "is_weak", fd.IsWeak())
	a.set(q, "has_optional_keyword", fd.HasOptionalKeyword())
	a.set(q, "json_name", fd.JSONName())
	a.set(q, "has_json_name", fd.HasJSONName())
	a.set(q, "text_name", fd.TextName())
	a.set(q, "has_default", fd.HasDefault())
	a.set(q, "default", defaultString(fd))
	if ev := fd.DefaultEnumValue(); ev != nil {
		a.set(q, "default_enum_value", ev.FullName())
	} else {
		a.set(q, "default_enum_value", "<nil>")
	}
	if oo := fd.ContainingOneof(); oo != nil {
		a.set(q, "containing_oneof", oo.Name())
	} else {
		a.set(q, "containing_oneof", "")
	}
	a.set(q, "containing_message", fqnOf(fd.ContainingMessage()))
	if m := fd.Message(); m != nil {
		a.set(q, "message", m.FullName())
	} else {
		a.set(q, "message", "")
	}
	if e := fd.Enum(); e != nil {
		a.set(q, "enum", e.FullName())
	} else {
		a.set(q, "enum", "")
	}
	if k := fd.MapKey(); k != nil {
		a.set(q, "map_key", k.FullName())
	} else {
		a.set(q, "map_key", "")
	}
	if k := fd.MapValue(); k != nil {
		a.set(q, "map_value", k.FullName())
	} else {
		a.set(q, "map_value", "")
	}
	if runtimeView {
		if u, ok := fd.(interface{ EnforceUTF8() bool }); ok {
			a.set(q, "enforce_utf8", u.EnforceUTF8())
		}
	}
	resolved(a, q, fd)
}

func dumpEnum(a attrs, ed protoreflect.EnumDescriptor) {
	q := string(ed.FullName())
	a.set(q, "kind.elem", "enum")
	a.set(q, "index", ed.Index())
	a.set(q, "syntax", ed.Syntax())
	a.set(q, "parent", fqnOf(ed.Parent()))
	a.set(q, "is_closed", ed.IsClosed())
	a.set(q, "reserved_ranges", enumRanges(ed.ReservedRanges()))
	a.set(q, "reserved_names", namesOf(ed.ReservedNames()))
	a.set(q, "values", ed.Values().Len())
	resolved(a, q, ed)
	for i := 0; i < ed.Values().Len(); i++ {
		v := ed.Values().Get(i)
		vq := string(v.FullName())
		a.set(vq, "kind.elem", "value")
		a.set(vq, "index", v.Index())
		a.set(vq, "number", v.Number())
		a.set(vq, "parent", fqnOf(v.Parent()))
		a.set(vq, "syntax", v.Syntax())
		if bn := ed.Values().ByNumber(v.Number()); bn != nil {
			a.set(vq, "by_number", bn.FullName())
		}
		if bn := ed.Values().ByName(v.Name()); bn != nil {
			a.set(vq, "by_name", bn.FullName())
		}
		resolved(a, vq, v)
	}
}

func dumpMessage(a attrs, md protoreflect.MessageDescriptor, runtimeView bool) {
	q := string(md.FullName())
	a.set(q, "kind.elem", "message")
	a.set(q, "index", md.Index())
	a.set(q, "syntax", md.Syntax())
	a.set(q, "parent", fqnOf(md.Parent()))
	a.set(q, "is_map_entry", md.IsMapEntry())
	var req []string
	rn := md.RequiredNumbers()
	for i := 0; i < rn.Len(); i++ {
		req = append(req, fmt.Sprint(rn.Get(i)))
	}
	a.set(q, "required_numbers", "["+strings.Join(req, " ")+"]")
	for i := 0; i < md.Fields().Len(); i++ {
		n := md.Fields().Get(i).Number()
		if rn.Has(n) != contains(req, fmt.Sprint(n)) {
			a.set(q, "required_numbers.has", fmt.Sprintf("Has(%d)=%v inconsistent with list %v", n, rn.Has(n), req))
		}
	}
	a.set(q, "extension_ranges", ranges(md.ExtensionRanges()))
	a.set(q, "reserved_ranges", ranges(md.ReservedRanges()))
	a.set(q, "reserved_names", namesOf(md.ReservedNames()))
	a.set(q, "fields", md.Fields().Len())
	a.set(q, "oneofs", md.Oneofs().Len())
	resolved(a, q, md)
	for i := 0; i < md.Fields().Len(); i++ {
		fd := md.Fields().Get(i)
		dumpField(a, fd, runtimeView)
		fq := string(fd.FullName())
		look := func(attr string, got protoreflect.FieldDescriptor) {
			if got == nil {
				a.set(fq, attr, "<nil>")
			} else {
				a.set(fq, attr, got.FullName())
			}
		}
		look("by_number", md.Fields().ByNumber(fd.Number()))
		look("by_name", md.Fields().ByName(fd.Name()))
		look("by_json_name", md.Fields().ByJSONName(fd.JSONName()))
		look("by_text_name", md.Fields().ByTextName(fd.TextName()))
	}
	for i := 0; i < md.Oneofs().Len(); i++ {
		od := md.Oneofs().Get(i)
		oq := string(od.FullName())
		a.set(oq, "kind.elem", "oneof")
		a.set(oq, "index", od.Index())
		a.set(oq, "syntax", od.Syntax())
		a.set(oq, "parent", fqnOf(od.Parent()))
		a.set(oq, "is_synthetic", od.IsSynthetic())
		var ms []string
		for j := 0; j < od.Fields().Len(); j++ {
			ms = append(ms, string(od.Fields().Get(j).Name()))
		}
		a.set(oq, "members", strings.Join(ms, ","))
		resolved(a, oq, od)
	}
	for i := 0; i < md.Enums().Len(); i++ {
		dumpEnum(a, md.Enums().Get(i))
	}
	for i := 0; i < md.Messages().Len(); i++ {
		dumpMessage(a, md.Messages().Get(i), runtimeView)
	}
	for i := 0; i < md.Extensions().Len(); i++ {
		dumpField(a, md.Extensions().Get(i), runtimeView)
	}
}

func contains(s []string, x string) bool {
	for _, y := range s {
		if y == x {
			return true
		}
	}
	return false
}

func dumpFile(a attrs, fd protoreflect.FileDescriptor, runtimeView bool) attrs {
	clear(a)
	a.set("<file>", "syntax", fd.Syntax())
	a.set("<file>", "package", fd.Package())
	a.set("<file>", "path", fd.Path())
	if e, ok := fd.(interface{ Edition() int32 }); ok {
		a.set("<file>", "edition", e.Edition())
	}
	a.set("<file>", "imports", fd.Imports().Len())
	resolved(a, "<file>", fd)
	for i := 0; i < fd.Enums().Len(); i++ {
		dumpEnum(a, fd.Enums().Get(i))
	}
	for i := 0; i < fd.Messages().Len(); i++ {
		dumpMessage(a, fd.Messages().Get(i), runtimeView)
	}
	for i := 0; i < fd.Extensions().Len(); i++ {
		dumpField(a, fd.Extensions().Get(i), runtimeView)
	}
	return a
}

// ---------------------------------------------------------------------------------------------
// expectation map from the spec

func setFeat(a attrs, fqn, feat string) {
	for i, n := range featureNames {
		if i < len(feat) && feat[i] != '?' {
			a.set(fqn, "feat."+n, string(feat[i]))
		}
	}
}

func syntaxName(s string) string {
	switch s {
	case "proto2":
		return protoreflect.Proto2.String()
	case "proto3":
		return protoreflect.Proto3.String()
	}
	return protoreflect.Editions.String()
}

func expected(a attrs, elems map[string]string, c *tcase) (attrs, map[string]string) {
	// elems: fqn -> element kind, the exact set of messages / enums / fields / oneofs / values the file must contain
	clear(a)
	clear(elems)
	syn := syntaxName(c.Syntax)
	a.set("<file>", "syntax", syn)
	a.set("<file>", "edition", c.Edition)
	a.set("<file>", "package", "pkg")
	setFeat(a, "<file>", c.FFeat)
	for _, e := range c.Enums {
		elems[e.FQN] = "enum"
		a.set(e.FQN, "is_closed", e.Closed)
		a.set(e.FQN, "syntax", syn)
		setFeat(a, e.FQN, e.Feat)
		first := 0
		if !e.Zero {
			first = 1
		}
		scope := e.FQN[:strings.LastIndex(e.FQN, ".")]
		for i, suffix := range []string{"_A", "_B"} {
			vq := scope + "." + e.Name + suffix
			elems[vq] = "value"
			a.set(vq, "number", first+i)
			a.set(vq, "index", i)
			setFeat(a, vq, e.Feat) // a value inherits from its enum (no feature targets enum values)
		}
	}
	for _, m := range c.Msgs {
		elems[m.FQN] = "message"
		a.set(m.FQN, "is_map_entry", m.MapEntry)
		a.set(m.FQN, "syntax", syn)
		var req []string
		for _, n := range m.Req {
			req = append(req, fmt.Sprint(n))
		}
		a.set(m.FQN, "required_numbers", "["+strings.Join(req, " ")+"]")
		a.set(m.FQN, "oneofs", len(m.Oneofs))
		setFeat(a, m.FQN, m.Feat)
		for i, o := range m.Oneofs {
			oq := m.FQN + "." + o.Name
			elems[oq] = "oneof"
			a.set(oq, "index", i)
			a.set(oq, "is_synthetic", o.Synth)
			a.set(oq, "members", strings.Join(o.Members, ","))
			setFeat(a, oq, m.Feat) // a oneof inherits from its message (no feature targets oneofs)
		}
		switch m.FQN {
		case "pkg.X":
			a.set(m.FQN, "extension_ranges", "[100,200)")
		case "pkg.T":
			a.set(m.FQN, "reserved_ranges", "[5,10)[12,13)")
			a.set(m.FQN, "reserved_names", "old")
		}
	}
	for _, f := range c.Fields {
		q := f.FQN
		e := f.Exp
		elems[q] = "field"
		skip := map[string]bool{}
		for _, s := range e.Skip {
			skip[s] = true
		}
		a.set(q, "syntax", syn)
		a.set(q, "number", f.Num)
		a.set(q, "kind", e.Kind)
		a.set(q, "cardinality", e.Card)
		a.set(q, "has_presence", e.Pres)
		a.set(q, "is_packed", e.Packed)
		a.set(q, "is_list", e.List)
		a.set(q, "is_map", e.Map)
		a.set(q, "is_extension", e.Ext)
		if !skip["optkw"] {
			a.set(q, "has_optional_keyword", e.OptKw)
		}
		a.set(q, "containing_oneof", e.Oneof)
		a.set(q, "containing_message", e.CMsg)
		a.set(q, "parent", parentName(e.Parent))
		a.set(q, "message", e.Msg)
		a.set(q, "enum", e.Enum)
		a.set(q, "json_name", e.JSON)
		a.set(q, "text_name", e.Text)
		a.set(q, "has_default", e.HasDef)
		a.set(q, "default", e.Def)
		if e.Kind == "string" && !e.Ext {
			a.set(q, "enforce_utf8", e.UTF8) // pseudo-internal EnforceUTF8() of the runtime's message fields only
		}
		if e.Map {
			a.set(q, "map_key", e.Msg+".key")
			a.set(q, "map_value", e.Msg+".value")
		}
		setFeat(a, q, e.Feat)
	}
	for _, f := range c.EFields {
		q := f.FQN
		elems[q] = "field"
		a.set(q, "number", f.Num)
		a.set(q, "kind", f.Kind)
		a.set(q, "cardinality", f.Card)
		a.set(q, "has_presence", f.Pres)
		a.set(q, "is_packed", false)
		a.set(q, "is_list", false)
		a.set(q, "is_map", false)
		a.set(q, "is_extension", false)
		if f.IsStr {
			a.set(q, "enforce_utf8", f.UTF8)
		}
		setFeat(a, q, f.Feat)
	}
	return a, elems
}

func parentName(p string) string {
	if p == "pkg" {
		return "<file>"
	}
	return p
}

// ---------------------------------------------------------------------------------------------

type outcome struct {
	mm       []mismatch
	checks   int
	harness  bool
	rejected bool // a file value that breaks a protoc rule was (correctly) rejected by the compiler: nothing to compare
	probe    bool // ... was accepted: the property must hold for it
}

var quoted = regexp.MustCompile(`"[^"]*"`)

func compileCase(src string) (linker.File, error) {
	comp := protocompile.Compiler{
		Resolver: protocompile.WithStandardImports(&protocompile.SourceResolver{
			Accessor: protocompile.SourceAccessorFromMap(map[string]string{"c.proto": src}),
		}),
		Reporter:       reporter.NewReporter(nil, nil),
		MaxParallelism: 1,
	}
	fs, err := comp.Compile(context.Background(), "c.proto")
	if err != nil {
		return nil, err
	}
	return fs[0], nil
}

func attrKind(key string, maps ...attrs) (string, string) {
	i := strings.LastIndex(key, "#")
	fqn, attr := key[:i], key[i+1:]
	if fqn == "<file>" {
		return "file", attr
	}
	for _, m := range maps {
		if k, ok := m[fqn+"#kind.elem"]; ok {
			return k, attr
		}
	}
	return "elem", attr
}

// scratch holds one worker's reusable maps (allocation dominated the profile)
type scratch struct {
	l, r, s attrs
	elems   map[string]string
	keys    map[string]bool
	sorted  []string
}

func newScratch() *scratch {
	return &scratch{l: make(attrs, 512), r: make(attrs, 512), s: make(attrs, 512), elems: make(map[string]string, 64),
		keys: make(map[string]bool, 1024)}
}

func checkCase(sc *scratch, c *tcase, corrupt string) (out outcome) {
	key := c.key()
	rep := func(class, detail string) {
		out.mm = append(out.mm, mismatch{Class: class, Key: key, Detail: detail})
		if strings.HasPrefix(class, "HARNESS:") {
			out.harness = true
		}
	}
	src := render(c)
	defer func() {
		if r := recover(); r != nil {
			buf := make([]byte, 4096)
			buf = buf[:runtime.Stack(buf, false)]
			rep("panic", fmt.Sprintf("%v\n%s\n%s", r, buf, src))
		}
	}()
	f, err := compileCase(src)
	if err != nil {
		if len(c.Breaks) > 0 {
			out.rejected = true
			return
		}
		rep("HARNESS:does-not-compile", err.Error()+"\n"+src)
		return
	}
	out.probe = len(c.Breaks) > 0
	fdp := protoutil.ProtoFromFileDescriptor(f)
	rt, err := protodesc.NewFile(fdp, protoregistry.GlobalFiles)
	if err != nil {
		msg := strings.TrimPrefix(err.Error(), "proto:")
		rep("runtime-rejects:"+strings.Join(strings.Fields(quoted.ReplaceAllString(msg, "")), "-"), err.Error()+"\n"+src)
		return
	}
	L := dumpFile(sc.l, f, false)
	R := dumpFile(sc.r, rt, true)
	S, elems := expected(sc.s, sc.elems, c)
	if corrupt != "" {
		// binding self-test: flip one expectation
		for k, v := range S {
			if strings.HasSuffix(k, "#"+corrupt) {
				if v == "true" {
					S[k] = "false"
				} else if v == "false" {
					S[k] = "true"
				} else {
					S[k] = v + "~"
				}
			}
		}
	}
	// generator sanity: the compiled file contains exactly the spec's elements
	for q, k := range elems {
		if L[q+"#kind.elem"] != k {
			rep("HARNESS:renderer-vs-spec", fmt.Sprintf("spec element %s (%s) is %q in the compiled file\n%s", q, k, L[q+"#kind.elem"], src))
			return
		}
	}
	for k2, v := range L {
		if strings.HasSuffix(k2, "#kind.elem") {
			q := strings.TrimSuffix(k2, "#kind.elem")
			if _, ok := elems[q]; !ok {
				rep("HARNESS:renderer-vs-spec", fmt.Sprintf("compiled file has %s %s unknown to the spec\n%s", v, q, src))
				return
			}
		}
	}
	keys := sc.keys
	clear(keys)
	for k := range L {
		keys[k] = true
	}
	for k := range R {
		keys[k] = true
	}
	for k := range S {
		keys[k] = true
	}
	sorted := sc.sorted[:0]
	for k := range keys {
		sorted = append(sorted, k)
	}
	sort.Strings(sorted)
	sc.sorted = sorted
	for _, k := range sorted {
		l, lok := L[k]
		r, rok := R[k]
		s, sok := S[k]
		ek, attr := attrKind(k, L, R)
		name := ek + "." + attr
		det := func() string {
			return fmt.Sprintf("%s: linker=%v runtime=%v spec=%v\n%s", k, show(l, lok), show(r, rok), show(s, sok), src)
		}
		out.checks++
		switch {
		case sok && lok && rok:
			switch {
			case l == s && r == s:
			case l != s && r == s:
				rep(name+":linker", det())
			case l == s && r != s:
				rep(name+":runtime", det())
			case l == r:
				rep(name+":both", det())
			default:
				rep(name+":all-differ", det())
			}
		case sok && lok:
			if l != s {
				rep(name+":linker", det())
			}
		case sok && rok:
			if r != s {
				rep(name+":runtime", det())
			}
		case sok:
			rep("HARNESS:renderer-vs-spec", "expected attribute not observable in either view: "+k+"\n"+src)
		case lok && rok:
			if l != r {
				rep(name+":linker-vs-runtime", det())
			}
		case lok != rok:
			if attr != "enforce_utf8" && attr != "edition" {
				rep(name+":linker-vs-runtime", det())
			}
		}
	}
	return out
}

func show(v string, ok bool) string {
	if !ok {
		return "<absent>"
	}
	return fmt.Sprintf("%q", v)
}

func main() {
	workers := flag.Int("workers", 6, "parallel compilations")
	corrupt := flag.String("corrupt", "", "self-test: flip the spec's expectation for this attribute in every case")
	dump := flag.Bool("dump", false, "print the rendered source of every case to stderr")
	cpuprofile := flag.String("cpuprofile", "", "write a CPU profile")
	flag.Parse()
	if *cpuprofile != "" {
		pf, err := os.Create(*cpuprofile)
		if err == nil {
			_ = pprof.StartCPUProfile(pf)
			defer pprof.StopCPUProfile()
		}
	}

	in := bufio.NewScanner(os.Stdin)
	in.Buffer(make([]byte, 1<<20), 1<<26)
	out := bufio.NewWriter(os.Stdout)
	defer out.Flush()
	enc := json.NewEncoder(out)
	var outMu sync.Mutex

	type job struct {
		n int
		b []byte
	}
	lines := make(chan job, 256)
	var wg sync.WaitGroup
	var ncases, nchecks, nharness, nrejected, nprobe int64
	for w := 0; w < *workers; w++ {
		wg.Add(1)
		go func() {
			defer wg.Done()
			sc := newScratch()
			for j := range lines {
				line := j.b
				var c tcase
				if err := json.Unmarshal(line, &c); err != nil {
					fmt.Fprintln(os.Stderr, "bad case:", err, string(line[:min(len(line), 200)]))
					os.Exit(2)
				}
				if *dump {
					fmt.Fprintf(os.Stderr, "---- %s\n%s\n", c.key(), render(&c))
				}
				o := checkCase(sc, &c, *corrupt)
				atomic.AddInt64(&ncases, 1)
				atomic.AddInt64(&nchecks, int64(o.checks))
				if o.harness {
					atomic.AddInt64(&nharness, 1)
				}
				if o.rejected {
					atomic.AddInt64(&nrejected, 1)
				}
				if o.probe {
					atomic.AddInt64(&nprobe, 1)
				}
				if len(o.mm) > 0 {
					outMu.Lock()
					for _, m := range o.mm {
						m.Line = j.n
						_ = enc.Encode(m)
					}
					outMu.Unlock()
				}
			}
		}()
	}
	for n := 0; in.Scan(); n++ {
		b := append([]byte(nil), in.Bytes()...)
		if len(b) == 0 {
			continue
		}
		lines <- job{n, b}
	}
	close(lines)
	wg.Wait()
	out.Flush()
	fmt.Fprintf(os.Stderr, "STATS cases=%d checks=%d harness=%d rule_breaking_rejected=%d rule_breaking_accepted=%d\n",
		ncases, nchecks, nharness, nrejected, nprobe)
}
