package main

import (
	"fmt"
	"strings"
)

// render concretises a file value of Features.tla as .proto source.  Editions spell features as
// `option features.x = Y;` / `[features.x = Y]`; proto2 / proto3 use labels, [packed = ...], groups, optional.

func featureOpts(ov string) []string {
	var out []string
	for i, n := range featureNames {
		if i < len(ov) && ov[i] != '-' {
			v, ok := letterFeature[n][string(ov[i])]
			if !ok {
				panic("bad override letter " + ov)
			}
			out = append(out, fmt.Sprintf("features.%s = %s", n, v))
		}
	}
	return out
}

func optionStmts(ind, ov string) string {
	var sb strings.Builder
	for _, o := range featureOpts(ov) {
		fmt.Fprintf(&sb, "%soption %s;\n", ind, o)
	}
	return sb.String()
}

func renderEnum(sb *strings.Builder, ind string, e *enumCase) {
	first := 0
	if !e.Zero {
		first = 1
	}
	fmt.Fprintf(sb, "%senum %s {\n%s", ind, e.Name, optionStmts(ind+"  ", e.Ov))
	fmt.Fprintf(sb, "%s  %s_A = %d;\n%s  %s_B = %d;\n%s}\n", ind, e.Name, first, ind, e.Name, first+1, ind)
}

func grpName(k int) string { return "Grp" + string(rune('a'+k)) }

func typeName(c *tcase, f *fieldCase, k int) string {
	s := &f.Src
	switch s.Type {
	case "enumE":
		return ".pkg.E"
	case "enumNE":
		return ".pkg.M.NE"
	case "message":
		if s.Tgt == "T" {
			return ".pkg.T"
		}
		return "." + f.Exp.Parent + "." + grpName(k)
	}
	return s.Type
}

func renderField(sb *strings.Builder, ind string, c *tcase, f *fieldCase, k int) {
	s := &f.Src
	var opts []string
	if s.Packed != "unset" {
		opts = append(opts, "packed = "+s.Packed)
	}
	if s.Dflt {
		switch s.Type {
		case "int32":
			opts = append(opts, "default = 7")
		case "string", "bytes":
			opts = append(opts, `default = "hi"`)
		case "enumE":
			opts = append(opts, "default = E_B")
		case "enumNE":
			opts = append(opts, "default = NE_B")
		}
	}
	opts = append(opts, featureOpts(s.Ov)...)
	optStr := ""
	if len(opts) > 0 {
		optStr = " [" + strings.Join(opts, ", ") + "]"
	}
	label := ""
	switch {
	case s.Rep:
		label = "repeated "
	case s.Lab != "none":
		label = s.Lab + " "
	}
	switch {
	case s.MapKey != "":
		fmt.Fprintf(sb, "%smap<%s, %s> %s = %d%s;\n", ind, s.MapKey, typeName(c, f, k), f.Name, f.Num, optStr)
	case s.Type == "group":
		fmt.Fprintf(sb, "%s%sgroup %s = %d%s {}\n", ind, label, grpName(k), f.Num, optStr)
	default:
		fmt.Fprintf(sb, "%s%s%s %s = %d%s;\n", ind, label, typeName(c, f, k), f.Name, f.Num, optStr)
	}
}

func renderMembers(sb *strings.Builder, ind string, c *tcase, scope string) {
	var oneof []int
	for k := range c.Fields {
		f := &c.Fields[k]
		if f.Src.Scope != scope {
			continue
		}
		if f.Src.Tgt == "G" && f.Src.Type != "group" {
			fmt.Fprintf(sb, "%smessage %s {}\n", ind, grpName(k))
		}
		switch f.Src.Where {
		case "plain":
			renderField(sb, ind, c, f, k)
		case "oneof":
			oneof = append(oneof, k)
		case "ext":
			fmt.Fprintf(sb, "%sextend .%s {\n", ind, f.Exp.CMsg)
			renderField(sb, ind+"  ", c, f, k)
			fmt.Fprintf(sb, "%s}\n", ind)
		}
	}
	if len(oneof) > 0 {
		fmt.Fprintf(sb, "%soneof O {\n", ind)
		for _, k := range oneof {
			renderField(sb, ind+"  ", c, &c.Fields[k], k)
		}
		fmt.Fprintf(sb, "%s}\n", ind)
	}
}

func render(c *tcase) string {
	var sb strings.Builder
	switch c.Syntax {
	case "editions":
		sb.WriteString("edition = \"2023\";\n")
	default:
		fmt.Fprintf(&sb, "syntax = \"%s\";\n", c.Syntax)
	}
	sb.WriteString("package pkg;\n")
	needDesc := false
	for _, f := range c.Fields {
		if f.Src.Where == "ext" && c.Syntax == "proto3" {
			needDesc = true
		}
	}
	if needDesc {
		sb.WriteString("import \"google/protobuf/descriptor.proto\";\n")
	}
	sb.WriteString(optionStmts("", c.Fov))
	var mov, nov string
	for _, m := range c.Msgs {
		switch m.FQN {
		case "pkg.M":
			mov = m.Ov
		case "pkg.M.N":
			nov = m.Ov
		}
	}
	renderEnum(&sb, "", &c.Enums[0])
	if c.Syntax == "editions" {
		sb.WriteString("message T {\n  reserved 5 to 9, 12;\n  reserved old;\n}\n")
	} else {
		sb.WriteString("message T {\n  reserved 5 to 9, 12;\n  reserved \"old\";\n}\n")
	}
	if c.Syntax != "proto3" {
		sb.WriteString("message X {\n  extensions 100 to 199;\n}\n")
	}
	sb.WriteString("message M {\n")
	sb.WriteString(optionStmts("  ", mov))
	renderEnum(&sb, "  ", &c.Enums[1])
	sb.WriteString("  message N {\n")
	sb.WriteString(optionStmts("    ", nov))
	renderMembers(&sb, "    ", c, "N")
	sb.WriteString("  }\n")
	renderMembers(&sb, "  ", c, "M")
	sb.WriteString("}\n")
	renderMembers(&sb, "", c, "file")
	return sb.String()
}
