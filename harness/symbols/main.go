// Driver for C16 / C17 (linker.Symbols).  Modes:
//
//	symbols hist              stdin: universe line + history cases (MCSymbolsHist)       -> C17 direction A
//	symbols sched             stdin: universe line + schedule cases (MCSymbolsConc)      -> C16 direction A (gates)
//	symbols variant           stdin: universe line; prints which step order the code has (orig / fixed)
//	symbols run   -out trace  stdin: universe line + partition cases; free-running       -> C16 direction B (+ -race)
//
// Every mode prints one JSON object per disagreement and a final {"summary": ...} line.
package main

import (
	"bufio"
	"flag"
	"fmt"
	"os"
	"strings"
)

func main() {
	if len(os.Args) < 2 {
		fmt.Fprintln(os.Stderr, "usage: symbols hist|sched|run [flags] < cases.jsonl")
		os.Exit(2)
	}
	mode := os.Args[1]
	fs := flag.NewFlagSet(mode, flag.ExitOnError)
	forms := fs.String("forms", "result,desc", "descriptor forms to import")
	traceOut := fs.String("out", "", "run: trace file (ndjson)")
	seed := fs.Int64("seed", 1, "run: perturbation seed")
	rounds := fs.Int("rounds", 1, "run: repetitions of every partition")
	lookups := fs.Int("lookups", 2, "run: concurrent lookup goroutines")
	notrace := fs.Bool("notrace", false, "run: do not record (pure race-detector run)")
	_ = fs.Parse(os.Args[2:])

	in := bufio.NewScanner(os.Stdin)
	in.Buffer(make([]byte, 1<<20), 1<<28)
	if !in.Scan() {
		fmt.Fprintln(os.Stderr, "no universe line")
		os.Exit(2)
	}
	un, err := loadUniverse(in.Bytes())
	if err != nil {
		fmt.Fprintln(os.Stderr, "universe:", err)
		os.Exit(2)
	}
	out := bufio.NewWriterSize(os.Stdout, 1<<20)
	defer out.Flush()
	switch mode {
	case "hist":
		_, err = runHist(un, in, out, strings.Split(*forms, ","))
	case "sched":
		err = runSched(un, in, out, strings.Split(*forms, ","))
	case "variant":
		err = runVariant(un, out)
	case "run":
		err = runFree(un, in, out, strings.Split(*forms, ","), *traceOut, *seed, *rounds, *lookups, *notrace)
	default:
		err = fmt.Errorf("unknown mode %q", mode)
	}
	if err != nil {
		out.Flush()
		fmt.Fprintln(os.Stderr, mode+":", err)
		os.Exit(2)
	}
}
