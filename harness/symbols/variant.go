package main

import (
	"encoding/json"
	"fmt"
	"io"
	"sort"
	"sync"

	"github.com/bufbuild/protocompile/linker"
)

// runVariant imports, sequentially, one file that extends a message of one of its imports and reports
// the critical sections observed: the engine picks the model variant ("fixed" has the read-locked
// extension pre-check "xchk") from what the code does, not from its source text.
func runVariant(un *universe, out io.Writer) error {
	var id string
	ids := make([]string, 0, len(un.files))
	for k := range un.files {
		ids = append(ids, k)
	}
	sort.Strings(ids)
	for _, k := range ids {
		f := un.files[k]
		if f.Usable && len(f.Exts) > 0 && len(f.Deps) > 0 {
			id = k
			break
		}
	}
	if id == "" {
		return fmt.Errorf("no file with an extension in the universe")
	}
	var mu sync.Mutex
	var seq []string
	installHooks(func(string, ...any) {}, func(ev string, kv ...any) {
		mu.Lock()
		seq = append(seq, ev)
		mu.Unlock()
	})
	s := &linker.Symbols{}
	if err := importOnce(s, un, "result", id); err != nil {
		return fmt.Errorf("probe import failed: %w", err)
	}
	variant := "orig"
	for _, e := range seq {
		if e == "xchk" {
			variant = "fixed"
		}
	}
	return json.NewEncoder(out).Encode(map[string]any{"variant": variant, "file": id, "events": seq})
}
