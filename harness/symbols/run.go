// C16, direction B: free-running concurrent use of one linker.Symbols (importing goroutines, one per
// "compilation" of the partition, plus lookup goroutines), meant to run under the race detector.
// With recording on, every critical section emits one event at its linearisation point (hooks of
// package linker); the events, numbered under the tracer's mutex, are written as ndjson for
// SymbolsTrace.tla.  Gates are used only for seed-controlled perturbation (Gosched / short sleeps).
package main

import (
	"bufio"
	"encoding/json"
	"fmt"
	"io"
	"math/rand"
	"os"
	"runtime"
	"sync"
	"sync/atomic"
	"time"

	"google.golang.org/protobuf/reflect/protoreflect"

	"github.com/bufbuild/protocompile/linker"
)

type partCase struct {
	Kind  string     `json:"kind"`
	Parts [][]string `json:"parts"`
	// Pre: that many files at the head of process 1's list are imported before the other goroutines are
	// released (a legal schedule of the model; it sets the table up, e.g. registers a package)
	Pre     int    `json:"pre"`
	Flavour string `json:"flavour"`
	// Collide: computed by the spec (UnionHasCollision): do the files collide when taken together?
	Collide *bool `json:"collide"`
}

type tracer struct {
	mu  sync.Mutex
	w   *bufio.Writer
	enc *json.Encoder
	n   int
}

func (t *tracer) emit(m map[string]any) {
	t.mu.Lock()
	t.n++
	m["seq"] = t.n
	_ = t.enc.Encode(m)
	t.mu.Unlock()
}

var (
	curTracer atomic.Pointer[tracer]
	perturbOn atomic.Bool
	// one generator per participating goroutine (index = process number + 32), touched only by that
	// goroutine: the perturbation must not add synchronisation of its own, or it would hide races
	perturb [64]*rand.Rand
)

func freeGate(name string, kv ...any) {
	if hooksOff.Load() {
		return
	}
	if !perturbOn.Load() {
		return
	}
	p, ok := whoami()
	if !ok || perturb[p+32] == nil {
		return
	}
	x := perturb[p+32].Intn(100)
	switch {
	case x < 35:
		runtime.Gosched()
	case x < 45:
		time.Sleep(time.Duration(1+x%5) * 10 * time.Microsecond)
	}
}

func freeTrace(ev string, kv ...any) {
	if hooksOff.Load() {
		return
	}
	t := curTracer.Load()
	if t == nil {
		return
	}
	p, ok := whoami()
	if !ok {
		return
	}
	e, ok := normalise(p, ev, kv)
	if !ok {
		e = event{P: p, A: "?" + ev, Name: []string{}}
	}
	t.emit(map[string]any{"ev": e.A, "p": e.P, "r": e.R, "f": e.File, "name": e.Name, "tag": e.Tag})
}

func runFree(un *universe, in *bufio.Scanner, out io.Writer, forms []string, traceOut string, seed int64,
	rounds, lookups int, notrace bool) error {
	enc := json.NewEncoder(out)
	var tr *tracer
	if !notrace {
		if traceOut == "" {
			return fmt.Errorf("run: -out required")
		}
		f, err := os.Create(traceOut)
		if err != nil {
			return err
		}
		defer f.Close()
		w := bufio.NewWriterSize(f, 1<<20)
		defer w.Flush()
		tr = &tracer{w: w, enc: json.NewEncoder(w)}
		curTracer.Store(tr)
	}
	perturbOn.Store(true)
	installHooks(freeGate, freeTrace)
	rng := rand.New(rand.NewSource(seed * 7919))
	nruns, nimports, nfailed, nlook := 0, 0, 0, 0
	var cases []partCase
	for in.Scan() {
		var c partCase
		if err := json.Unmarshal(in.Bytes(), &c); err != nil {
			return fmt.Errorf("bad case: %w", err)
		}
		if c.Kind == "parts" {
			cases = append(cases, c)
		}
	}
	if err := in.Err(); err != nil {
		return err
	}
	for round := 0; round < rounds; round++ {
		for _, c := range cases {
			form := forms[rng.Intn(len(forms))]
			s := &linker.Symbols{}
			np := len(c.Parts)
			if tr != nil {
				tr.emit(map[string]any{"ev": "init", "parts": c.Parts, "form": form})
			}
			for i := range perturb {
				perturb[i] = rand.New(rand.NewSource(seed*131 + int64(nruns)*64 + int64(i)))
			}
			var wg, lwg sync.WaitGroup
			var stop atomic.Bool
			results := make([][]resRec, np+1)
			start := make(chan struct{})
			preDone := make(chan struct{})
			for p := 1; p <= np; p++ {
				wg.Add(1)
				go func(p int) {
					defer wg.Done()
					register(p)
					defer unregister()
					if p != 1 || c.Pre == 0 {
						<-start
					}
					for k, id := range c.Parts[p-1] {
						if p == 1 && c.Pre > 0 && k == c.Pre {
							close(preDone)
							<-start
						}
						err := importOnce(s, un, form, id)
						results[p] = append(results[p], resRec{F: id, OK: err == nil})
						if tr != nil {
							tr.emit(map[string]any{"ev": "end", "p": p, "f": id, "ok": err == nil})
						}
					}
				}(p)
			}
			lookCount := make([]int, lookups)
			for l := 0; l < lookups; l++ {
				lwg.Add(1)
				lr := rand.New(rand.NewSource(seed*1000003 + int64(nruns)*31 + int64(l)))
				go func(l int, lr *rand.Rand) {
					defer lwg.Done()
					register(-(l + 1))
					defer unregister()
					<-start
					for i := 0; !stop.Load() || i < 4; i++ {
						if lr.Intn(2) == 0 {
							n := un.names[lr.Intn(len(un.names))]
							_ = s.Lookup(protoreflect.FullName(n))
						} else {
							k := un.extKey[lr.Intn(len(un.extKey))]
							_ = s.LookupExtension(protoreflect.FullName(k.E), protoreflect.FieldNumber(k.T))
						}
						lookCount[l]++
						if i > 400 {
							break
						}
					}
				}(l, lr)
			}
			if c.Pre > 0 && c.Pre < len(c.Parts[0]) {
				<-preDone
			}
			close(start)
			wg.Wait()
			stop.Store(true)
			lwg.Wait()
			nruns++
			somefail := false
			for p := 1; p <= np; p++ {
				for _, r := range results[p] {
					nimports++
					if !r.OK {
						nfailed++
						somefail = true
					}
				}
			}
			for _, n := range lookCount {
				nlook += n
			}
			// the statement of C16 on the real verdicts
			if c.Collide != nil && somefail != *c.Collide {
				cls := "partition:collision-missed"
				if somefail {
					cls = "partition:spurious-failure"
				}
				_ = enc.Encode(disagreement{Class: cls,
					Case:   map[string]any{"parts": c.Parts, "form": form, "flavour": c.Flavour, "results": results[1:]},
					Detail: fmt.Sprintf("some Import failed = %v, files collide when taken together = %v", somefail, *c.Collide)})
			}
			// quiescent: the final table, through the public API
			final := un.project(s)
			if tr != nil {
				syms := [][]any{}
				for n, f := range final.Syms {
					syms = append(syms, []any{splitName(n), f})
				}
				exts := [][]any{}
				for _, k := range un.extKey {
					if f, ok := final.Exts[extStr(k.E, k.T)]; ok {
						exts = append(exts, []any{splitName(k.E), k.T, f})
					}
				}
				tr.emit(map[string]any{"ev": "final", "syms": syms, "exts": exts, "somefail": somefail})
			}
		}
	}
	perturbOn.Store(false)
	_ = enc.Encode(map[string]any{"summary": map[string]int{"runs": nruns, "imports": nimports,
		"failed_imports": nfailed, "lookups": nlook}})
	return nil
}
