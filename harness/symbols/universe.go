// Concretisation of the abstract files of spec/SymbolsUniverse.tla: render .proto sources, compile
// them (each file alone, its imports supplied as the descriptors compiled before, which is the supported
// way to share dependencies between compilations) and project a real linker.Symbols through
// Lookup / LookupExtension.
package main

import (
	"context"
	"encoding/json"
	"fmt"
	"sort"
	"strings"

	"google.golang.org/protobuf/reflect/protodesc"
	"google.golang.org/protobuf/reflect/protoreflect"
	"google.golang.org/protobuf/reflect/protoregistry"

	"github.com/bufbuild/protocompile"
	"github.com/bufbuild/protocompile/linker"
	"github.com/bufbuild/protocompile/walk"
)

type absSym struct {
	N []string `json:"n"`
	K string   `json:"k"`
}
type absExt struct {
	E  []string `json:"e"`
	T  int      `json:"t"`
	Ep []string `json:"ep"`
	D  int      `json:"d"` // message levels the extend block is nested in
}
type absFile struct {
	ID     string   `json:"id"`
	Pkg    []string `json:"pkg"`
	Syms   []absSym `json:"syms"`
	Exts   []absExt `json:"exts"`
	Deps   []string `json:"deps"`
	Pad    int      `json:"pad"` // that many further messages Pad<i>_<id>, declared first, not in Syms
	Usable bool     `json:"usable"`
}

type universe struct {
	files  map[string]*absFile
	order  []string // topological
	src    map[string]string
	result map[string]linker.Result             // form "result"
	desc   map[string]protoreflect.FileDescriptor // form "desc" (protodesc, no AST)
	names  []string                             // every name to probe with Lookup
	extKey []extKey
}

type extKey struct {
	E string
	T int
}

func dotted(n []string) string { return strings.Join(n, ".") }

func pathOf(id string) string { return id + ".proto" }
func idOf(path string) string { return strings.TrimSuffix(path, ".proto") }

func render(f *absFile) string {
	var sb strings.Builder
	sb.WriteString("syntax = \"proto2\";\n")
	if len(f.Pkg) > 0 {
		fmt.Fprintf(&sb, "package %s;\n", dotted(f.Pkg))
	}
	for _, d := range f.Deps {
		fmt.Fprintf(&sb, "import %q;\n", pathOf(d))
	}
	for i := 1; i <= f.Pad; i++ {
		fmt.Fprintf(&sb, "message %s {}\n", padName(f, i))
	}
	syms := append([]absSym(nil), f.Syms...)
	sort.Slice(syms, func(i, j int) bool { return dotted(syms[i].N) < dotted(syms[j].N) })
	for _, s := range syms {
		local := s.N[len(s.N)-1]
		switch s.K {
		case "msg":
			fmt.Fprintf(&sb, "message %s {}\n", local)
		case "xmsg":
			fmt.Fprintf(&sb, "message %s { extensions 1 to 100; }\n", local)
		case "enumval":
			fmt.Fprintf(&sb, "enum E%s_%s { %s = 0; }\n", local, f.ID, local)
		case "enum", "ext", "nest":
			// produced by the enum value / the extension (and the messages it is nested in)
		default:
			panic("unknown symbol kind " + s.K)
		}
	}
	// extend blocks at file level first, then the ones inside nested messages N<i>_<id> { L2 { L3 { ... } } }
	for i, x := range f.Exts {
		if x.D == 0 {
			fmt.Fprintf(&sb, "extend .%s { optional int32 x%d_%s = %d; }\n", dotted(x.E), i+1, f.ID, x.T)
		}
	}
	for i, x := range f.Exts {
		if x.D == 0 {
			continue
		}
		names := []string{fmt.Sprintf("N%d_%s", i+1, f.ID), "L2", "L3"}[:x.D]
		for _, n := range names {
			fmt.Fprintf(&sb, "message %s { ", n)
		}
		fmt.Fprintf(&sb, "extend .%s { optional int32 x%d_%s = %d; }", dotted(x.E), i+1, f.ID, x.T)
		sb.WriteString(strings.Repeat(" }", x.D) + "\n")
	}
	return sb.String()
}

func padName(f *absFile, i int) string { return fmt.Sprintf("Pad%d_%s", i, f.ID) }

func loadUniverse(line []byte) (*universe, error) {
	var u struct {
		Kind  string     `json:"kind"`
		Files []*absFile `json:"files"`
	}
	if err := json.Unmarshal(line, &u); err != nil {
		return nil, err
	}
	if u.Kind != "universe" {
		return nil, fmt.Errorf("first line must be the universe, got kind %q", u.Kind)
	}
	un := &universe{files: map[string]*absFile{}, src: map[string]string{},
		result: map[string]linker.Result{}, desc: map[string]protoreflect.FileDescriptor{}}
	for _, f := range u.Files {
		un.files[f.ID] = f
	}
	// topological order
	state := map[string]int{}
	var visit func(id string) error
	visit = func(id string) error {
		f := un.files[id]
		if f == nil {
			return fmt.Errorf("unknown file %q", id)
		}
		switch state[id] {
		case 1:
			return fmt.Errorf("import cycle at %q", id)
		case 2:
			return nil
		}
		state[id] = 1
		for _, d := range f.Deps {
			if err := visit(d); err != nil {
				return err
			}
		}
		state[id] = 2
		un.order = append(un.order, id)
		return nil
	}
	ids := make([]string, 0, len(un.files))
	for id := range un.files {
		ids = append(ids, id)
	}
	sort.Strings(ids)
	for _, id := range ids {
		if !un.files[id].Usable {
			continue
		}
		if err := visit(id); err != nil {
			return nil, err
		}
	}
	nameSet := map[string]bool{"zz": true, "p.zz": true, "p.q.zz": true}
	extSet := map[extKey]bool{{"p.M", 99}: true, {"zz", 1}: true}
	for _, id := range un.order {
		f := un.files[id]
		if err := un.compile(f); err != nil {
			return nil, fmt.Errorf("file %s: %w\n%s", id, err, un.src[id])
		}
		for i := 1; i <= len(f.Pkg); i++ {
			nameSet[dotted(f.Pkg[:i])] = true
		}
		for _, s := range f.Syms {
			nameSet[dotted(s.N)] = true
		}
		for _, x := range f.Exts {
			extSet[extKey{dotted(x.E), x.T}] = true
			extSet[extKey{dotted(x.E), x.T + 50}] = true
		}
	}
	for n := range nameSet {
		un.names = append(un.names, n)
	}
	sort.Strings(un.names)
	for k := range extSet {
		un.extKey = append(un.extKey, k)
	}
	sort.Slice(un.extKey, func(i, j int) bool {
		if un.extKey[i].E != un.extKey[j].E {
			return un.extKey[i].E < un.extKey[j].E
		}
		return un.extKey[i].T < un.extKey[j].T
	})
	return un, nil
}

// compile f alone; its imports are the already compiled results.
func (un *universe) compile(f *absFile) error {
	src := render(f)
	un.src[f.ID] = src
	path := pathOf(f.ID)
	res := protocompile.ResolverFunc(func(p string) (protocompile.SearchResult, error) {
		if p == path {
			return protocompile.SearchResult{Source: strings.NewReader(src)}, nil
		}
		if r, ok := un.result[idOf(p)]; ok {
			return protocompile.SearchResult{Desc: r}, nil
		}
		return protocompile.SearchResult{}, fmt.Errorf("not found: %s", p)
	})
	c := protocompile.Compiler{Resolver: res}
	files, err := c.Compile(context.Background(), path)
	if err != nil {
		return fmt.Errorf("abstract file does not compile: %w", err)
	}
	r, ok := files[0].(linker.Result)
	if !ok {
		return fmt.Errorf("compile did not return a linker.Result")
	}
	// identity of the imports: must be the very descriptors compiled before
	for i := range r.Imports().Len() {
		imp := r.Imports().Get(i).FileDescriptor
		want := un.result[idOf(imp.Path())]
		if protoreflect.FileDescriptor(want) != imp {
			if lf, ok := imp.(linker.File); !ok || lf != linker.File(want) {
				return fmt.Errorf("import %s of %s is not the shared descriptor instance", imp.Path(), path)
			}
		}
	}
	un.result[f.ID] = r

	// the same file without AST, built by protodesc against the "desc" forms of its imports
	reg := &protoregistry.Files{}
	for _, d := range f.Deps {
		if err := registerRec(reg, un.desc[d]); err != nil {
			return err
		}
	}
	fd, err := protodesc.NewFile(r.FileDescriptorProto(), reg)
	if err != nil {
		return fmt.Errorf("protodesc.NewFile: %w", err)
	}
	for i := range fd.Imports().Len() {
		imp := fd.Imports().Get(i).FileDescriptor
		if imp != un.desc[idOf(imp.Path())] {
			return fmt.Errorf("desc form: import %s of %s is not the shared instance", imp.Path(), path)
		}
	}
	un.desc[f.ID] = fd

	// render -> compile -> project must give back exactly the abstract file
	return un.crossCheck(f, r)
}

func registerRec(reg *protoregistry.Files, fd protoreflect.FileDescriptor) error {
	if _, err := reg.FindFileByPath(fd.Path()); err == nil {
		return nil
	}
	for i := range fd.Imports().Len() {
		if err := registerRec(reg, fd.Imports().Get(i).FileDescriptor); err != nil {
			return err
		}
	}
	return reg.RegisterFile(fd)
}

func (un *universe) crossCheck(f *absFile, fd protoreflect.FileDescriptor) error {
	if string(fd.Package()) != dotted(f.Pkg) {
		return fmt.Errorf("package %q, abstract %q", fd.Package(), dotted(f.Pkg))
	}
	want := map[string]bool{}
	for _, s := range f.Syms {
		want[dotted(s.N)] = true
	}
	for i := 1; i <= f.Pad; i++ {
		want[dotted(append(append([]string(nil), f.Pkg...), padName(f, i)))] = true
	}
	got := map[string]bool{}
	var exts []string
	_ = walk.Descriptors(fd, func(d protoreflect.Descriptor) error {
		got[string(d.FullName())] = true
		if fld, ok := d.(protoreflect.FieldDescriptor); ok && fld.IsExtension() {
			exts = append(exts, fmt.Sprintf("%s#%d@%s", fld.ContainingMessage().FullName(), fld.Number(),
				fld.ContainingMessage().ParentFile().Package()))
		}
		return nil
	})
	if !sameSet(want, got) {
		return fmt.Errorf("symbols of rendered file %v differ from abstract %v", keys(got), keys(want))
	}
	var wexts []string
	for _, x := range f.Exts {
		wexts = append(wexts, fmt.Sprintf("%s#%d@%s", dotted(x.E), x.T, dotted(x.Ep)))
	}
	if strings.Join(exts, ",") != strings.Join(wexts, ",") {
		return fmt.Errorf("extensions of rendered file %v differ from abstract %v", exts, wexts)
	}
	if fd.Imports().Len() != len(f.Deps) {
		return fmt.Errorf("imports differ")
	}
	for i, d := range f.Deps {
		if fd.Imports().Get(i).Path() != pathOf(d) {
			return fmt.Errorf("import %d is %s, abstract %s", i, fd.Imports().Get(i).Path(), d)
		}
	}
	return nil
}

func sameSet(a, b map[string]bool) bool {
	if len(a) != len(b) {
		return false
	}
	for k := range a {
		if !b[k] {
			return false
		}
	}
	return true
}

func keys(m map[string]bool) []string {
	out := make([]string, 0, len(m))
	for k := range m {
		out = append(out, k)
	}
	sort.Strings(out)
	return out
}

func (un *universe) fd(form, id string) protoreflect.FileDescriptor {
	if form == "desc" {
		return un.desc[id]
	}
	return un.result[id]
}

// table is the observable content of a Symbols: which file each name / extension number is
// recorded for.
type table struct {
	Syms map[string]string // dotted name -> file id
	Exts map[string]string // "extendee#tag" -> file id
}

func newTable() *table { return &table{Syms: map[string]string{}, Exts: map[string]string{}} }

func (t *table) clone() *table {
	c := newTable()
	for k, v := range t.Syms {
		c.Syms[k] = v
	}
	for k, v := range t.Exts {
		c.Exts[k] = v
	}
	return c
}

func extStr(e string, t int) string { return fmt.Sprintf("%s#%d", e, t) }

// project the real table over the whole name universe
func (un *universe) project(s *linker.Symbols) *table { return un.projectIn(s, nil) }

// scope: the names worth probing for a case (those of its files and their imports, plus a few names
// nobody declares); nil = the whole universe
type scope struct {
	names  []string
	extKey []extKey
}

func (un *universe) scopeOf(ids []string) *scope {
	seen := map[string]bool{}
	nameSet := map[string]bool{"zz": true, "p.zz": true}
	extSet := map[extKey]bool{{"p.M", 99}: true}
	var visit func(id string)
	visit = func(id string) {
		if seen[id] {
			return
		}
		seen[id] = true
		f := un.files[id]
		for i := 1; i <= len(f.Pkg); i++ {
			nameSet[dotted(f.Pkg[:i])] = true
		}
		for _, sy := range f.Syms {
			nameSet[dotted(sy.N)] = true
		}
		for _, x := range f.Exts {
			extSet[extKey{dotted(x.E), x.T}] = true
			extSet[extKey{dotted(x.E), x.T + 50}] = true
		}
		for _, d := range f.Deps {
			visit(d)
		}
	}
	for _, id := range ids {
		visit(id)
	}
	sc := &scope{}
	for n := range nameSet {
		sc.names = append(sc.names, n)
	}
	sort.Strings(sc.names)
	for k := range extSet {
		sc.extKey = append(sc.extKey, k)
	}
	return sc
}

func (un *universe) projectIn(s *linker.Symbols, sc *scope) *table {
	hooksOff.Store(true)
	defer hooksOff.Store(false)
	t := newTable()
	names, extKeys := un.names, un.extKey
	if sc != nil {
		names, extKeys = sc.names, sc.extKey
	}
	for _, n := range names {
		if sp := s.Lookup(protoreflect.FullName(n)); sp != nil {
			t.Syms[n] = idOf(sp.Start().Filename)
		}
	}
	for _, k := range extKeys {
		if sp := s.LookupExtension(protoreflect.FullName(k.E), protoreflect.FieldNumber(k.T)); sp != nil {
			t.Exts[extStr(k.E, k.T)] = idOf(sp.Start().Filename)
		}
	}
	return t
}

// diff describes how got differs from want ("" if equal)
func (t *table) diff(want *table) string {
	var d []string
	for k, v := range t.Syms {
		if w, ok := want.Syms[k]; !ok {
			d = append(d, fmt.Sprintf("+sym %s(%s)", k, v))
		} else if w != v {
			d = append(d, fmt.Sprintf("sym %s: %s, expected %s", k, v, w))
		}
	}
	for k, w := range want.Syms {
		if _, ok := t.Syms[k]; !ok {
			d = append(d, fmt.Sprintf("-sym %s(%s)", k, w))
		}
	}
	for k, v := range t.Exts {
		if w, ok := want.Exts[k]; !ok {
			d = append(d, fmt.Sprintf("+ext %s(%s)", k, v))
		} else if w != v {
			d = append(d, fmt.Sprintf("ext %s: %s, expected %s", k, v, w))
		}
	}
	for k, w := range want.Exts {
		if _, ok := t.Exts[k]; !ok {
			d = append(d, fmt.Sprintf("-ext %s(%s)", k, w))
		}
	}
	sort.Strings(d)
	return strings.Join(d, "; ")
}

// JSON shape of a table projection exported by the spec
type projJSON struct {
	Syms []struct {
		N []string `json:"n"`
		F string   `json:"f"`
	} `json:"syms"`
	Exts []struct {
		E []string `json:"e"`
		T int      `json:"t"`
		F string   `json:"f"`
	} `json:"exts"`
}

func (p *projJSON) table() *table {
	t := newTable()
	for _, s := range p.Syms {
		t.Syms[dotted(s.N)] = s.F
	}
	for _, x := range p.Exts {
		t.Exts[extStr(dotted(x.E), x.T)] = x.F
	}
	return t
}
