// C17, direction A: replay of import histories exported by MCSymbolsHist into a real linker.Symbols.
// After EVERY step the table is projected through Lookup / LookupExtension over the whole name
// universe and compared with what the property demands.
package main

import (
	"bufio"
	"encoding/json"
	"fmt"
	"io"
	"sort"
	"strings"

	"github.com/bufbuild/protocompile/linker"
	"github.com/bufbuild/protocompile/parser"
	"github.com/bufbuild/protocompile/reporter"
)

type histStep struct {
	F     string     `json:"f"`
	OK    bool       `json:"ok"`
	Tab   projJSON   `json:"tab"`
	Kinds []string   `json:"kinds"`
	Acc   []projJSON `json:"acc"`
	ReOK  bool       `json:"reok"`
}
type histCase struct {
	Kind  string     `json:"kind"`
	Steps []histStep `json:"steps"`
}

type disagreement struct {
	Class  string `json:"class"`
	Case   any    `json:"case"`
	Detail string `json:"detail"`
}

func kindsStr(k []string) string {
	k = append([]string(nil), k...)
	sort.Strings(k)
	return strings.Join(k, "+")
}

// importOnce calls the real Symbols.Import with a fresh handler (a handler latches its first error).
func importOnce(s *linker.Symbols, un *universe, form, id string) error {
	if form == "link" {
		_, err := linkOnce(s, un, id, nil)
		return err
	}
	base, tolerant := strings.CutSuffix(form, tolSuffix)
	if !tolerant {
		return s.Import(un.fd(base, id), reporter.NewHandler(nil))
	}
	// a collecting reporter: every error is accepted (the handler returns nil to the caller, who carries
	// on) and the operation as a whole has failed iff the handler holds an error at the end
	h := reporter.NewHandler(reporter.NewReporter(func(reporter.ErrorWithPos) error { return nil }, nil))
	if err := s.Import(un.fd(base, id), h); err != nil {
		return err
	}
	return h.Error()
}

// tolSuffix marks a form replayed with the tolerant (collecting) reporter
const tolSuffix = "~tolerant"

// linkOnce is the other way a file gets into a shared table: linker.Link of the parsed file against the
// table (what protocompile.Compiler does with Compiler.Symbols).  Every call parses afresh, so the
// descriptor is a new instance each time.
func linkOnce(s *linker.Symbols, un *universe, id string, linked map[string]linker.Result) (linker.Result, error) {
	h := reporter.NewHandler(nil)
	fileAST, err := parser.Parse(pathOf(id), strings.NewReader(un.src[id]), h)
	if err != nil {
		return nil, fmt.Errorf("machinery: parse: %w", err)
	}
	pr, err := parser.ResultFromAST(fileAST, true, h)
	if err != nil {
		return nil, fmt.Errorf("machinery: parse result: %w", err)
	}
	var deps linker.Files
	for _, d := range un.files[id].Deps {
		// an import that was itself linked into this table earlier in the history is that very result
		if r, ok := linked[d]; ok {
			deps = append(deps, r)
		} else {
			deps = append(deps, un.result[d])
		}
	}
	return linker.Link(pr, deps, s, h)
}

func residueClass(un *universe, f string, kinds []string, diff string) string {
	// is the residue only package names of f?
	onlyPkgs := true
	pk := map[string]bool{}
	af := un.files[f]
	for i := 1; i <= len(af.Pkg); i++ {
		pk[dotted(af.Pkg[:i])] = true
	}
	for _, part := range strings.Split(diff, "; ") {
		if !strings.HasPrefix(part, "+sym ") {
			onlyPkgs = false
			break
		}
		name := strings.TrimPrefix(part, "+sym ")
		if i := strings.IndexByte(name, '('); i >= 0 {
			name = name[:i]
		}
		if !pk[name] {
			onlyPkgs = false
			break
		}
	}
	if onlyPkgs {
		return "failed-import-leaves:package-registration"
	}
	return "failed-import-leaves:" + kindsStr(kinds) + "-collision"
}

func runHist(un *universe, in *bufio.Scanner, out io.Writer, forms []string) (int, error) {
	enc := json.NewEncoder(out)
	ncases, nsteps, nfail, nre := 0, 0, 0, 0
	for in.Scan() {
		var c histCase
		if err := json.Unmarshal(in.Bytes(), &c); err != nil {
			return 0, fmt.Errorf("bad case: %w", err)
		}
		if c.Kind != "hist" {
			continue
		}
		ncases++
		ids := make([]string, len(c.Steps))
		for i, st := range c.Steps {
			ids[i] = st.F
		}
		for _, form := range forms {
			if form == "link" && hasRepeat(un, ids) {
				// linking the same source twice makes two descriptors with the same names: not an Import
				// of an already imported file
				continue
			}
			s := &linker.Symbols{}
			linked := map[string]linker.Result{}
			doImport := func(id string) error {
				if form != "link" {
					return importOnce(s, un, form, id)
				}
				r, err := linkOnce(s, un, id, linked)
				if err == nil {
					linked[id] = r
				}
				return err
			}
			report := func(cls string, i int, detail string) {
				if form == "link" {
					cls = "link:" + cls
				}
				if strings.HasSuffix(form, tolSuffix) {
					cls += ":tolerant-reporter"
				}
				_ = enc.Encode(disagreement{Class: cls,
					Case:   map[string]any{"imports": ids, "step": i, "form": form},
					Detail: detail})
			}
		steps:
			for i, st := range c.Steps {
				nsteps++
				before := un.project(s)
				err := doImport(st.F)
				after := un.project(s)
				want := st.Tab.table()
				switch {
				case st.OK && err != nil:
					report("import-fails-unexpectedly", i, fmt.Sprintf("Import(%s) = %v, expected success", st.F, err))
					break steps
				case !st.OK && err == nil:
					report("collision-not-detected:"+kindsStr(st.Kinds), i,
						fmt.Sprintf("Import(%s) = nil, expected a %s collision", st.F, kindsStr(st.Kinds)))
					break steps
				case st.OK:
					if d := after.diff(want); d != "" {
						report("table-mismatch:after-successful-import", i, d)
						break steps
					}
				default: // failed as expected: the table must be unchanged
					nfail++
					matched := -1
					if after.diff(want) == "" {
						matched = 0
					} else {
						for j := range st.Acc {
							if after.diff(st.Acc[j].table()) == "" {
								matched = j + 1
								break
							}
						}
					}
					if matched < 0 {
						d := after.diff(before)
						report(residueClass(un, st.F, st.Kinds, d), i,
							fmt.Sprintf("Import(%s) failed (%v) but the table changed: %s", st.F, err, d))
						// still look at the re-import: it is part of the statement
					}
					nre++
					err2 := doImport(st.F)
					again := un.project(s)
					if (err2 == nil) != st.ReOK {
						report("reimport-succeeds:"+kindsStr(st.Kinds)+"-collision", i,
							fmt.Sprintf("second Import(%s) = %v after the first failed with %v", st.F, err2, err))
						break steps
					}
					if d := again.diff(after); d != "" {
						report("reimport-changes-table", i, d)
						break steps
					}
					if matched != 0 {
						// the rest of the history was computed from the primary table
						break steps
					}
				}
			}
		}
	}
	if err := in.Err(); err != nil {
		return 0, err
	}
	_ = enc.Encode(map[string]any{"summary": map[string]int{"cases": ncases, "steps": nsteps,
		"failed_steps": nfail, "reimports": nre, "forms": len(forms)}})
	return ncases, nil
}

// hasRepeat: a step whose file is an earlier step's file or one of its (transitive) imports
func hasRepeat(un *universe, ids []string) bool {
	seen := map[string]bool{}
	var mark func(id string)
	mark = func(id string) {
		if seen[id] {
			return
		}
		seen[id] = true
		for _, d := range un.files[id].Deps {
			mark(d)
		}
	}
	earlier := map[string]bool{}
	for _, id := range ids {
		if seen[id] {
			return true
		}
		// an earlier linked file reached only through another import would be met as a second descriptor
		// instance of the same file (the driver can substitute linked results for direct imports only)
		var deep func(d string) bool
		deep = func(d string) bool {
			for _, dd := range un.files[d].Deps {
				if earlier[dd] || deep(dd) {
					return true
				}
			}
			return false
		}
		for _, d := range un.files[id].Deps {
			if deep(d) {
				return true
			}
		}
		mark(id)
		earlier[id] = true
	}
	return false
}
