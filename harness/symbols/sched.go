// C16, direction A: replay of schedules exported by MCSymbolsConc.  The gates of package linker park
// every importing goroutine before each critical section; the controller releases exactly one goroutine
// per model step, checks that it was parked at the gate the model names, that the critical section
// observed what the model says, that the completed Imports returned what the model says, and compares
// the table (through Lookup / LookupExtension) with the model's after every step.
package main

import (
	"bufio"
	"encoding/json"
	"fmt"
	"io"
	"sync"
	"sync/atomic"
	"time"

	"github.com/bufbuild/protocompile/linker"
)

type addRec struct {
	Pk [][]string `json:"pk"`
	Sy [][]string `json:"sy"`
	Ex [][]any    `json:"ex"` // [[extendee components], tag]
}
type resRec struct {
	F  string `json:"f"`
	OK bool   `json:"ok"`
}
type schedStep struct {
	P    int      `json:"p"`
	A    string   `json:"a"`
	F    string   `json:"f"`
	Name []string `json:"name"`
	Tag  int      `json:"tag"`
	R    string   `json:"r"`
	Add  addRec   `json:"add"`
	Done []resRec `json:"done"`
}
type schedCase struct {
	Kind     string      `json:"kind"`
	Parts    [][]string  `json:"parts"`
	Prefix   int         `json:"prefix"`
	Steps    []schedStep `json:"steps"`
	Res      [][]resRec  `json:"res"`
	Final    projJSON    `json:"final"`
	SomeFail bool        `json:"somefail"`
	Collide  bool        `json:"collide"`
}

type arrival struct {
	p    int
	exit bool
	gate string // gate name
	key  string // file id or dotted name
	tag  int
}

type schedRun struct {
	free    atomic.Bool // gates pass through (after a nonconformance, to drain)
	arrive  chan arrival
	release []chan struct{}
	mu      sync.Mutex
	events  []event
	results [][]resRec
}

var curRun atomic.Pointer[schedRun]

func schedGate(name string, kv ...any) {
	if hooksOff.Load() {
		return
	}
	r := curRun.Load()
	if r == nil || r.free.Load() {
		return
	}
	p, ok := whoami()
	if !ok || p < 1 {
		return // the controller's own lookups
	}
	m := kvMap(kv)
	a := arrival{p: p, gate: name}
	if f, ok := m["file"].(string); ok {
		a.key = idOf(f)
	}
	if n, ok := m["name"].(string); ok {
		a.key = n
	}
	if t, ok := m["tag"].(int); ok {
		a.tag = t
	}
	r.arrive <- a
	<-r.release[p]
}

func schedTrace(ev string, kv ...any) {
	if hooksOff.Load() {
		return
	}
	r := curRun.Load()
	if r == nil {
		return
	}
	p, ok := whoami()
	if !ok || p < 1 {
		return
	}
	e, ok := normalise(p, ev, kv)
	if !ok {
		e = event{P: p, A: "?" + ev}
	}
	r.mu.Lock()
	r.events = append(r.events, e)
	r.mu.Unlock()
}

const stallTimeout = 5 * time.Second

// wait for process p to park at its next gate or to finish
func (r *schedRun) await() (arrival, bool) {
	select {
	case a := <-r.arrive:
		return a, true
	case <-time.After(stallTimeout):
		return arrival{}, false
	}
}

func gateMatches(st *schedStep, a arrival) bool {
	if a.exit || a.gate != st.A {
		return false
	}
	switch st.A {
	case "already", "commit":
		return a.key == st.F
	case "pkgR", "pkgW":
		return a.key == dotted(st.Name)
	default: // addExt, xchk
		return a.key == dotted(st.Name) && a.tag == st.Tag
	}
}

func runSched(un *universe, in *bufio.Scanner, out io.Writer, forms []string) error {
	enc := json.NewEncoder(out)
	installHooks(schedGate, schedTrace)
	ncases, nsteps, nfail, ncollide := 0, 0, 0, 0
	for in.Scan() {
		var c schedCase
		if err := json.Unmarshal(in.Bytes(), &c); err != nil {
			return fmt.Errorf("bad case: %w", err)
		}
		if c.Kind != "sched" {
			continue
		}
		ncases++
		if c.SomeFail {
			nfail++
		}
		if c.Collide {
			ncollide++
		}
		for _, form := range forms {
			n, err := replaySched(un, &c, form, enc)
			nsteps += n
			if err != nil {
				return err
			}
		}
	}
	if err := in.Err(); err != nil {
		return err
	}
	_ = enc.Encode(map[string]any{"summary": map[string]int{"cases": ncases, "steps": nsteps,
		"with_failure": nfail, "with_collision": ncollide, "forms": len(forms)}})
	return nil
}

func replaySched(un *universe, c *schedCase, form string, enc *json.Encoder) (int, error) {
	np := len(c.Parts)
	r := &schedRun{arrive: make(chan arrival, np+1), release: make([]chan struct{}, np+1),
		results: make([][]resRec, np+1)}
	for p := 1; p <= np; p++ {
		r.release[p] = make(chan struct{}, 1)
	}
	s := &linker.Symbols{}
	curRun.Store(r)
	var wg sync.WaitGroup
	for p := 1; p <= np; p++ {
		wg.Add(1)
		go func(p int) {
			defer wg.Done()
			register(p)
			defer unregister()
			for _, id := range c.Parts[p-1] {
				err := importOnce(s, un, form, id)
				r.mu.Lock()
				r.results[p] = append(r.results[p], resRec{F: id, OK: err == nil})
				r.mu.Unlock()
			}
			r.arrive <- arrival{p: p, exit: true}
		}(p)
	}
	caseInfo := func(i int) map[string]any {
		return map[string]any{"parts": c.Parts, "form": form, "step": i, "schedule": compactSteps(c.Steps, i)}
	}
	bad := false
	report := func(cls string, i int, detail string) {
		bad = true
		_ = enc.Encode(disagreement{Class: cls, Case: caseInfo(i), Detail: detail})
	}
	drain := func(state []arrival) {
		r.free.Store(true)
		for p := 1; p <= np; p++ {
			if !state[p].exit {
				select {
				case r.release[p] <- struct{}{}:
				default:
				}
			}
		}
		done := make(chan struct{})
		go func() { wg.Wait(); close(done) }()
		for {
			select {
			case <-done:
				curRun.Store(nil)
				return
			case <-r.arrive:
			}
		}
	}

	// initial arrivals
	state := make([]arrival, np+1)
	for k := 0; k < np; k++ {
		a, ok := r.await()
		if !ok {
			drain(state)
			return 0, fmt.Errorf("machinery: goroutines did not reach their first gate")
		}
		state[a.p] = a
	}
	want := newTable()
	var allIDs []string
	for _, part := range c.Parts {
		allIDs = append(allIDs, part...)
	}
	sc := un.scopeOf(allIDs)
	nres := make([]int, np+1)
	steps := 0
	for i := range c.Steps {
		st := &c.Steps[i]
		steps++
		a := state[st.P]
		if !gateMatches(st, a) {
			at := "finished"
			if !a.exit {
				at = fmt.Sprintf("gate %s(%s,%d)", a.gate, a.key, a.tag)
			}
			report("sched-nonconformance:"+st.A, i, fmt.Sprintf("model: process %d is before %s(%s%s,%d); goroutine is at %s",
				st.P, st.A, st.F, dotted(st.Name), st.Tag, at))
			break
		}
		r.mu.Lock()
		r.events = r.events[:0]
		r.mu.Unlock()
		r.release[st.P] <- struct{}{}
		na, ok := r.await()
		if !ok {
			report("sched-stall:"+st.A, i, fmt.Sprintf("process %d did not reach a gate or return within %v", st.P, stallTimeout))
			break
		}
		if na.p != st.P {
			report("sched-nonconformance:other-goroutine-moved", i, fmt.Sprintf("process %d moved while %d was released", na.p, st.P))
			break
		}
		state[st.P] = na
		// the critical section observed what the model says
		r.mu.Lock()
		evs := append([]event(nil), r.events...)
		got := append([]resRec(nil), r.results[st.P]...)
		r.mu.Unlock()
		if st.R == "nopkg" {
			// the package is not registered: the real code reads no files map and emits nothing
			if len(evs) != 0 {
				report("sched-step-differs:"+st.A+"-"+st.R, i, fmt.Sprintf("model: package not registered, nothing read; real events: %+v", evs))
				break
			}
		} else if len(evs) != 1 || evs[0].A != st.A || evs[0].R != st.R {
			report("sched-step-differs:"+st.A+"-"+st.R, i, fmt.Sprintf("model: %s observes %q; real events: %+v", st.A, st.R, evs))
			break
		}
		// completed Imports
		newRes := got[nres[st.P]:]
		if len(newRes) != len(st.Done) {
			report("sched-import-result:"+st.A, i, fmt.Sprintf("model completes %+v here, real completed %+v", st.Done, newRes))
			break
		}
		for k := range newRes {
			if newRes[k] != st.Done[k] {
				cls := "import-result-differs"
				if st.Done[k].OK {
					cls = "import-fails-unexpectedly"
				} else {
					cls = "collision-not-detected"
				}
				report(cls, i, fmt.Sprintf("model: Import(%s) ok=%v, real ok=%v", st.Done[k].F, st.Done[k].OK, newRes[k].OK))
			}
		}
		if bad {
			break
		}
		nres[st.P] = len(got)
		// the table after the step
		for _, n := range st.Add.Sy {
			want.Syms[dotted(n)] = st.F
		}
		for _, x := range st.Add.Ex {
			comps, _ := x[0].([]any)
			var e []string
			for _, cpt := range comps {
				e = append(e, cpt.(string))
			}
			tag, _ := x[1].(float64)
			want.Exts[extStr(dotted(e), int(tag))] = st.F
		}
		if d := un.projectIn(s, sc).diff(want); d != "" {
			report("table-mismatch:"+st.A, i, d)
			break
		}
	}
	if !bad {
		for p := 1; p <= np; p++ {
			if !state[p].exit {
				report("sched-nonconformance:not-finished", len(c.Steps), fmt.Sprintf("process %d still at gate %s after the last model step", p, state[p].gate))
			}
		}
	}
	drain(state)
	if bad {
		return steps, nil
	}
	// verdicts: the statement of C16 on the real results
	somefail := false
	for p := 1; p <= np; p++ {
		if len(r.results[p]) != len(c.Res[p-1]) {
			report("sched-import-result:final", len(c.Steps), fmt.Sprintf("process %d: results %+v, model %+v", p, r.results[p], c.Res[p-1]))
			return steps, nil
		}
		for k := range r.results[p] {
			if !r.results[p][k].OK {
				somefail = true
			}
		}
	}
	if somefail != c.Collide {
		cls := "partition:collision-missed"
		if somefail {
			cls = "partition:spurious-failure"
		}
		report(cls, len(c.Steps), fmt.Sprintf("some Import failed = %v, files collide when taken together = %v", somefail, c.Collide))
	}
	if d := un.project(s).diff(c.Final.table()); d != "" {
		report("table-mismatch:final", len(c.Steps), d)
	}
	return steps, nil
}

func compactSteps(st []schedStep, upto int) []string {
	var out []string
	for i := range st {
		if i > upto {
			break
		}
		out = append(out, fmt.Sprintf("%d:%s(%s%s,%d)=%s", st[i].P, st[i].A, st[i].F+" ", dotted(st[i].Name), st[i].Tag, st[i].R))
	}
	return out
}
