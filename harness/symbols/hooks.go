// Installation of the verif hooks of package linker (internal/verifhook.Gate / Trace): goroutines are
// identified by their runtime id, so the hooks in the repository stay one-liners.
package main

import (
	"bytes"
	"runtime"
	"strconv"
	"strings"
	"sync"
	"sync/atomic"

	"github.com/bufbuild/protocompile/internal/verifhook"
)

func goid() int64 {
	var buf [64]byte
	n := runtime.Stack(buf[:], false)
	b := buf[:n]
	b = bytes.TrimPrefix(b, []byte("goroutine "))
	if i := bytes.IndexByte(b, ' '); i > 0 {
		id, _ := strconv.ParseInt(string(b[:i]), 10, 64)
		return id
	}
	return -1
}

// registry of the goroutines that take part in the current case
var (
	regMu sync.RWMutex
	reg   = map[int64]int{} // goroutine id -> process number (1..N importers, negative: lookup goroutines)
)

func register(p int) {
	id := goid()
	regMu.Lock()
	reg[id] = p
	regMu.Unlock()
}

func unregister() {
	id := goid()
	regMu.Lock()
	delete(reg, id)
	regMu.Unlock()
}

func whoami() (int, bool) {
	id := goid()
	regMu.RLock()
	p, ok := reg[id]
	regMu.RUnlock()
	return p, ok
}

// one hook event, normalised to the vocabulary of Symbols.tla
type event struct {
	P    int      // process
	A    string   // pkgR pkgW already commit addExt xchk lookup lookupExt
	R    string   // observed result in the model's words
	File string   // file id, for already / commit
	Name []string // name components, for pkg*, addExt, xchk, lookup*
	Tag  int
}

func splitName(s string) []string {
	if s == "" {
		return []string{}
	}
	return strings.Split(s, ".")
}

func kvMap(kv []any) map[string]any {
	m := map[string]any{}
	for i := 0; i+1 < len(kv); i += 2 {
		if k, ok := kv[i].(string); ok {
			m[k] = kv[i+1]
		}
	}
	return m
}

// normalise a raw hook event; ok=false for events this driver does not know
func normalise(p int, ev string, kv []any) (event, bool) {
	m := kvMap(kv)
	e := event{P: p, Name: []string{}}
	if f, ok := m["file"].(string); ok {
		e.File = idOf(f)
	}
	if n, ok := m["name"].(string); ok {
		e.Name = splitName(n)
	}
	if t, ok := m["tag"].(int); ok {
		e.Tag = t
	}
	b, _ := m["res"].(bool)
	s, _ := m["res"].(string)
	switch ev {
	case "pkgR", "pkgW":
		e.A, e.R = ev, s
	case "already":
		e.A, e.R = ev, map[bool]string{true: "yes", false: "no"}[b]
	case "commit.dup":
		e.A, e.R = "commit", "dup"
	case "commit.fail":
		e.A, e.R = "commit", "fail"
	case "commit.ok":
		e.A, e.R = "commit", "ok"
	case "addExt", "xchk":
		e.A, e.R = ev, map[bool]string{true: "ok", false: "dup"}[b]
	case "lookup", "lookupExt":
		e.A, e.R = ev, map[bool]string{true: "found", false: "nil"}[b]
	default:
		return e, false
	}
	return e, true
}

// hooksOff: set by the controller while it alone is running (projection of the table), so that its own
// Lookup calls do not pay for goroutine identification
var hooksOff atomic.Bool

func installHooks(gate func(name string, kv ...any), trace func(ev string, kv ...any)) {
	verifhook.SetGate(gate)
	verifhook.SetTrace(trace)
}
