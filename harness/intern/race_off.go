//go:build !race

package main

func raceQuiet()   {}
func raceUnquiet() {}

const raceEnabled = false
