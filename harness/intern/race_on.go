//go:build race

package main

import "runtime"

// raceQuiet brackets the harness's own synchronisation (event numbering, the step lock) so
// that the race detector does not count it as happens-before edges between the goroutines
// under test: the detector then judges intern.Table by the synchronisation it does itself.
func raceQuiet()   { runtime.RaceDisable() }
func raceUnquiet() { runtime.RaceEnable() }

const raceEnabled = true
