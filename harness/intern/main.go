// Driver for C38 (internal/intern.Table, syncx.Log, the char6 inline encoding).
//
//	intern char6             stdin: cases exported by MCChar6 (TLC); compares Query / Intern / Value
//	intern sweep  -maxlen N  native sweep of the whole inline domain (round trip + the spec's formula)
//	intern record -out F ... hooked concurrent runs, every atomic step logged   -> InternTrace.tla
//	intern api    -out F ... concurrent runs without hooks, call/return history -> InternTrace.tla
//	intern replay            stdin: schedules exported by MCIntern (TLC), driven through the gates
//
// Disagreements are printed on stdout as one JSON object per line {class, case, detail};
// statistics go to stderr as "STATS {json}".
package main

import (
	"bufio"
	"encoding/json"
	"flag"
	"fmt"
	"os"
)

type mismatch struct {
	Class  string `json:"class"`
	Case   any    `json:"case"`
	Detail string `json:"detail"`
}

var out = bufio.NewWriterSize(os.Stdout, 1<<16)
var enc = json.NewEncoder(out)

func report(class string, c any, detail string) {
	_ = enc.Encode(mismatch{Class: class, Case: c, Detail: detail})
}

func stats(m map[string]any) {
	b, _ := json.Marshal(m)
	fmt.Fprintf(os.Stderr, "STATS %s\n", b)
}

func fatal(a ...any) {
	out.Flush()
	fmt.Fprintln(os.Stderr, append([]any{"harness:"}, a...)...)
	os.Exit(2)
}

func main() {
	if len(os.Args) < 2 {
		fatal("usage: intern char6|sweep|record|api|replay [flags]")
	}
	mode := os.Args[1]
	fs := flag.NewFlagSet(mode, flag.ExitOnError)
	seed := fs.Int64("seed", 1, "seed for workloads and gate perturbation")
	outPath := fs.String("out", "", "trace file (ndjson)")
	batches := fs.Int("batches", 10, "number of independent tables / runs")
	minG := fs.Int("ming", 2, "min goroutines per run")
	maxG := fs.Int("maxg", 16, "max goroutines per run")
	opsPer := fs.Int("ops", 8, "operations per goroutine per run")
	maxlen := fs.Int("maxlen", 5, "sweep: longest string")
	stallMs := fs.Int("stall", 5000, "replay: ms to wait for a released goroutine")
	_ = fs.Parse(os.Args[2:])
	defer out.Flush()
	switch mode {
	case "char6":
		runChar6()
	case "sweep":
		runSweep(*maxlen)
	case "record":
		runRecord(*outPath, *seed, *batches, *minG, *maxG, *opsPer, true)
	case "api":
		runRecord(*outPath, *seed, *batches, *minG, *maxG, *opsPer, false)
	case "replay":
		runReplay(*stallMs)
	default:
		fatal("unknown mode", mode)
	}
}
