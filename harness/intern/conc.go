package main

import (
	"bufio"
	"bytes"
	"encoding/json"
	"fmt"
	"math/rand"
	"os"
	"runtime"
	"sort"
	"strconv"
	"sync"
	"sync/atomic"
	"time"

	"github.com/bufbuild/protocompile/internal/intern"
	"github.com/bufbuild/protocompile/internal/verifhook"
)

// event is one line of the recorded trace; all fields are always present so that the trace
// spec can read them without case distinctions.
type event struct {
	Seq int64  `json:"seq"`
	G   int    `json:"g"`
	Ev  string `json:"ev"`
	Op  string `json:"op"`
	S   []int  `json:"s"`
	ID  int32  `json:"id"`
	OK  bool   `json:"ok"`
	I   int32  `json:"i"`
	X   int32  `json:"x"`
	Res []int  `json:"res"`
}

var seqCtr atomic.Int64

func nextSeq() int64 {
	raceQuiet()
	n := seqCtr.Add(1)
	raceUnquiet()
	return n
}

type worker struct {
	g       int
	evs     []event
	holding bool // holds stepMu since the last gate
	rng     *rand.Rand
	// replay mode
	parkedAt string
	note     chan struct{}
	release  chan struct{}
	cmd      chan *opcmd
}

type opcmd struct {
	op   string
	s    string
	id   int32
	quit bool
}

// goroutine id -> worker.  Written before the workers start, read-only afterwards.
var workers sync.Map

func goid() int64 {
	var buf [64]byte
	b := buf[:runtime.Stack(buf[:], false)]
	b = bytes.TrimPrefix(b, []byte("goroutine "))
	if i := bytes.IndexByte(b, ' '); i > 0 {
		n, _ := strconv.ParseInt(string(b[:i]), 10, 64)
		return n
	}
	return -1
}

func curWorker() *worker {
	raceQuiet()
	v, ok := workers.Load(goid())
	raceUnquiet()
	if !ok {
		return nil
	}
	return v.(*worker)
}

func (w *worker) register() {
	raceQuiet()
	workers.Store(goid(), w)
	raceUnquiet()
}
func (w *worker) unregister() {
	raceQuiet()
	workers.Delete(goid())
	raceUnquiet()
}

func kvEvent(g int, ev string, kv []any) event {
	e := event{G: g, Ev: ev, S: []int{}, Res: []int{}}
	for i := 0; i+1 < len(kv); i += 2 {
		switch kv[i].(string) {
		case "s":
			e.S = toInts(kv[i+1].(string))
		case "loaded":
			e.OK = kv[i+1].(bool)
		case "id":
			e.ID = kv[i+1].(int32)
		case "i":
			e.I = kv[i+1].(int32)
		case "x":
			e.X = kv[i+1].(int32)
		}
	}
	return e
}

// ---------------------------------------------------------------------------------------------
// record mode: every hooked atomic step is bracketed by gate (takes the step lock) and trace
// point (logs, releases it), so the logged order is the order in which the steps took effect.
// Gates in front of spin loops do not take the lock; their trace point (after the loop) logs a
// condition that stays true once it holds (len and cap only grow), so the order is still legal.

var stepMu sync.Mutex

func lockStep() {
	raceQuiet()
	stepMu.Lock()
	raceUnquiet()
}
func unlockStep() {
	raceQuiet()
	stepMu.Unlock()
	raceUnquiet()
}

func isWaitGate(name string) bool {
	return name == "log.capwait" || name == "log.fwait" || name == "log.gwait"
}

func (w *worker) perturb() {
	switch r := w.rng.Intn(16); {
	case r < 6:
		runtime.Gosched()
	case r < 8:
		time.Sleep(time.Duration(1+w.rng.Intn(40)) * time.Microsecond)
	case r == 8:
		for range w.rng.Intn(4) {
			runtime.Gosched()
		}
	}
}

func recGate(name string, _ ...any) {
	w := curWorker()
	if w == nil {
		return
	}
	w.perturb()
	if isWaitGate(name) {
		return
	}
	lockStep()
	w.holding = true
}

func recTrace(ev string, kv ...any) {
	w := curWorker()
	if w == nil {
		return
	}
	w.logLocked(kvEvent(w.g, ev, kv))
}

// logLocked appends e under the step lock (taking it unless the last gate already did) and
// releases the lock.
func (w *worker) logLocked(e event) {
	if !w.holding {
		lockStep()
	}
	e.Seq = nextSeq()
	w.evs = append(w.evs, e)
	w.holding = false
	unlockStep()
}

// the strings the workloads draw from: inline-encodable ones and ones that are not (trailing
// dot, too long, foreign bytes), overlapping between goroutines.
var universe = []string{
	"", "a", "0", "_", "Z9", "abc", "ab.de", "abcde", "zzzzz", "ZZZZZ", "_____", "00000", ".a", "....a", "x_1", "a.b",
	".", "a.", ".....", "abcd.", "abcdef", "aaaaaa", "foo.bar", "foo.Bar.Baz", "a-b", "a b", " ", "\x00", "\xc3\xa9",
	"abcde.", "google.protobuf.FileDescriptorProto", "~", "a/b", "AbCdEf", "......", "0123456789",
}

type runStats struct {
	Batches, Events, Calls, Goroutines, NonInlineInterns, Retries, Reserved0, LosLoaded, Grows, FastWrites, Panics int
}

func (rs *runStats) absorb(evs []event) {
	rs.Events += len(evs)
	for i := range evs {
		switch evs[i].Ev {
		case "call", "acall":
			rs.Calls++
		case "commit":
			rs.NonInlineInterns++
		case "los.read":
			if evs[i].ID == 0 {
				rs.Retries++
			}
		case "q.read":
			if evs[i].ID == 0 {
				rs.Reserved0++
			}
		case "los":
			if evs[i].OK {
				rs.LosLoaded++
			}
		case "log.gcopy":
			rs.Grows++
		case "log.write":
			rs.FastWrites++
		case "panic":
			rs.Panics++
		}
	}
}

// doOp performs one API call on t and returns the result fields.
func doOp(t *intern.Table, c *opcmd, viaBytes bool) (id int32, ok bool, res string) {
	switch c.op {
	case "intern":
		if viaBytes {
			buf := []byte(c.s)
			r := t.InternBytes(buf)
			for i := range buf { // the table must not keep an alias of the caller's buffer
				buf[i] = '#'
			}
			return int32(r), true, ""
		}
		return int32(t.Intern(c.s)), true, ""
	case "query":
		if viaBytes {
			buf := []byte(c.s)
			r, ok := t.QueryBytes(buf)
			for i := range buf {
				buf[i] = '#'
			}
			return int32(r), ok, ""
		}
		r, ok := t.Query(c.s)
		return int32(r), ok, ""
	case "value":
		return c.id, true, string([]byte(t.Value(intern.ID(c.id))))
	}
	panic("bad op " + c.op)
}

func runRecord(outPath string, seed int64, batches, minG, maxG, opsPer int, hooked bool) {
	if outPath == "" {
		fatal("-out required")
	}
	f, err := os.Create(outPath)
	if err != nil {
		fatal(err)
	}
	bw := bufio.NewWriterSize(f, 1<<20)
	jenc := json.NewEncoder(bw)
	if hooked {
		verifhook.Gate = recGate
		verifhook.Trace = recTrace
	}
	callEv, retEv := "call", "ret"
	if !hooked {
		callEv, retEv = "acall", "aret"
	}
	master := rand.New(rand.NewSource(seed*7919 + 17))
	var rs runStats
	for b := range batches {
		nG := minG + master.Intn(maxG-minG+1)
		// a small overlapping pool per batch so that goroutines collide on the same strings
		pool := make([]string, 2+master.Intn(7))
		for i := range pool {
			pool[i] = universe[master.Intn(len(universe))]
		}
		if b%3 == 0 { // force non-inline overlap
			pool[0] = universe[16+master.Intn(len(universe)-16)]
		}
		if b%4 == 1 { // many distinct stored strings: concurrent appends, fast path and growth of the log
			pool = pool[:0]
			for i := range 12 + master.Intn(28) {
				pool = append(pool, fmt.Sprintf("pkg%d.Msg%d.", b, i))
			}
		}
		table := new(intern.Table)
		ws := make([]*worker, nG)
		var wg sync.WaitGroup
		start := make(chan struct{})
		for g := range nG {
			w := &worker{g: g + 1, rng: rand.New(rand.NewSource(seed*1000003 + int64(b)*101 + int64(g)))}
			ws[g] = w
			wg.Add(1)
			go func() {
				defer wg.Done()
				w.register()
				defer w.unregister()
				<-start
				known := []int32{0}
				for range opsPer {
					c := &opcmd{}
					switch r := w.rng.Intn(100); {
					case r < 55:
						c.op, c.s = "intern", pool[w.rng.Intn(len(pool))]
					case r < 80:
						c.op, c.s = "query", pool[w.rng.Intn(len(pool))]
					default:
						c.op, c.id = "value", known[w.rng.Intn(len(known))]
					}
					viaBytes := w.rng.Intn(4) == 0
					ce := event{G: w.g, Ev: callEv, Op: c.op, S: toInts(c.s), ID: c.id, Res: []int{}}
					if hooked {
						w.logLocked(ce)
					} else {
						ce.Seq = nextSeq()
						w.evs = append(w.evs, ce)
					}
					var id int32
					var ok bool
					var res string
					panicked := func() (p bool) {
						defer func() {
							if r := recover(); r != nil {
								p = true
								pe := event{G: w.g, Ev: "panic", Op: c.op, S: toInts(fmt.Sprint(r)), Res: []int{}}
								if hooked {
									w.logLocked(pe)
								} else {
									pe.Seq = nextSeq()
									w.evs = append(w.evs, pe)
								}
							}
						}()
						id, ok, res = doOp(table, c, viaBytes)
						return false
					}()
					if panicked {
						return
					}
					re := event{G: w.g, Ev: retEv, Op: c.op, S: toInts(c.s), ID: id, OK: ok, Res: toInts(res)}
					if c.op == "value" {
						re.S = toInts(res)
					}
					if hooked {
						w.logLocked(re)
					} else {
						re.Seq = nextSeq()
						w.evs = append(w.evs, re)
					}
					if c.op != "value" && ok {
						known = append(known, id)
					}
				}
			}()
		}
		close(start)
		wg.Wait()
		var all []event
		for _, w := range ws {
			all = append(all, w.evs...)
		}
		sort.Slice(all, func(i, j int) bool { return all[i].Seq < all[j].Seq })
		_ = jenc.Encode(event{Seq: nextSeq(), Ev: "reset", S: []int{}, Res: []int{}})
		for i := range all {
			_ = jenc.Encode(&all[i])
		}
		rs.Batches++
		rs.Goroutines += nG
		rs.absorb(all)
	}
	if err := bw.Flush(); err != nil {
		fatal(err)
	}
	f.Close()
	m := map[string]any{"mode": callEv, "race": raceEnabled}
	b, _ := json.Marshal(rs)
	_ = json.Unmarshal(b, &m)
	stats(m)
}

// ---------------------------------------------------------------------------------------------
// replay mode: schedules exported by TLC (MCIntern).  Every worker parks at each gate; the
// controller releases exactly one goroutine per spec step, waits until it parks again (or
// finishes the call) and compares the event it logged with the event the model predicted.

type step struct {
	G  int    `json:"g"`
	Ev string `json:"ev"`
	Op string `json:"op"`
	S  []int  `json:"s"`
	ID int32  `json:"id"`
	OK bool   `json:"loaded"`
	I  int32  `json:"i"`
	X  int32  `json:"x"`
}

type schedule struct {
	Steps []step `json:"steps"`
}

func repGate(name string, _ ...any) {
	w := curWorker()
	if w == nil {
		return
	}
	w.park(name)
}

var draining atomic.Bool

func (w *worker) park(at string) {
	if draining.Load() {
		return
	}
	w.parkedAt = at
	w.note <- struct{}{}
	<-w.release
}

func repTrace(ev string, kv ...any) {
	w := curWorker()
	if w == nil {
		return
	}
	w.evs = append(w.evs, kvEvent(w.g, ev, kv))
}

// gate at which a goroutine must be parked for the model's step ev
func gateFor(ev string) string {
	switch ev {
	case "log.cap":
		return "log.capwait"
	case "log.fdone":
		return "log.fwait"
	case "log.gready":
		return "log.gwait"
	}
	return ev
}

func sameInts(a, b []int) bool {
	if len(a) != len(b) {
		return false
	}
	for i := range a {
		if a[i] != b[i] {
			return false
		}
	}
	return true
}

// matches reports whether the logged event e is the event the model predicted in st.
func matches(st *step, e *event) bool {
	if e.Ev != st.Ev {
		return false
	}
	switch st.Ev {
	case "call":
		return e.Op == st.Op && sameInts(e.S, st.S) && e.ID == st.ID
	case "q.load", "los":
		return sameInts(e.S, st.S) && e.OK == st.OK
	case "q.read", "los.read", "commit":
		return sameInts(e.S, st.S) && e.ID == st.ID
	case "log.cap", "log.gcopy", "log.llen":
		return e.I == st.I && e.X == st.X
	case "ret":
		return e.Op == st.Op && sameInts(e.S, st.S) && e.ID == st.ID && (st.Op != "query" || e.OK == st.OK)
	}
	return e.I == st.I
}

func runReplay(stallMs int) {
	verifhook.Gate = repGate
	verifhook.Trace = repTrace
	in := bufio.NewScanner(os.Stdin)
	in.Buffer(make([]byte, 1<<20), 1<<28)
	nsched, nsteps, nbad := 0, 0, 0
	stall := time.Duration(stallMs) * time.Millisecond
	for in.Scan() {
		var sc schedule
		if err := json.Unmarshal(in.Bytes(), &sc); err != nil {
			fatal("bad schedule:", err)
		}
		nsched++
		nG := 0
		for i := range sc.Steps {
			nG = max(nG, sc.Steps[i].G)
		}
		table := new(intern.Table)
		ws := make([]*worker, nG+1)
		var wg sync.WaitGroup
		for g := 1; g <= nG; g++ {
			w := &worker{g: g, note: make(chan struct{}, 1), release: make(chan struct{}), cmd: make(chan *opcmd)}
			ws[g] = w
			wg.Add(1)
			go func() {
				defer wg.Done()
				w.register()
				defer w.unregister()
				for {
					w.parkedAt = "idle"
					w.note <- struct{}{}
					c := <-w.cmd
					if c.quit {
						return
					}
					w.evs = append(w.evs, event{G: w.g, Ev: "call", Op: c.op, S: toInts(c.s), ID: c.id})
					var id int32
					var ok bool
					var res string
					func() {
						defer func() {
							if r := recover(); r != nil {
								w.evs = append(w.evs, event{G: w.g, Ev: "panic", S: toInts(fmt.Sprint(r))})
							}
						}()
						id, ok, res = doOp(table, c, false)
						w.park("ret")
						e := event{G: w.g, Ev: "ret", Op: c.op, S: toInts(c.s), ID: id, OK: ok}
						if c.op == "value" {
							e.S = toInts(res)
						}
						w.evs = append(w.evs, e)
					}()
				}
			}()
		}
		for g := 1; g <= nG; g++ {
			<-ws[g].note
		}
		fail := func(class string, k int, detail string) {
			nbad++
			report(class, map[string]any{"schedule": nsched, "step": k, "steps": sc.Steps[:min(k+1, len(sc.Steps))]}, detail)
		}
		stalled := false
		for k := range sc.Steps {
			st := &sc.Steps[k]
			w := ws[st.G]
			nsteps++
			seen := len(w.evs)
			wantEvents := 1
			if st.Ev == "call" {
				if w.parkedAt != "idle" {
					fail("replay:wrong-gate", k, fmt.Sprintf("model starts a call of goroutine %d, which is at %q", st.G, w.parkedAt))
					break
				}
				w.cmd <- &opcmd{op: st.Op, s: string(toBytes(st.S)), id: st.ID}
			} else {
				if want := gateFor(st.Ev); w.parkedAt != want {
					fail("replay:wrong-gate:"+st.Ev, k, fmt.Sprintf("model takes step %s of goroutine %d, which is parked at %q", st.Ev, st.G, w.parkedAt))
					break
				}
				if st.Ev == "log.lread" {
					wantEvents = 0 // the slot read is logged with the return
				}
				w.release <- struct{}{}
			}
			select {
			case <-w.note:
			case <-time.After(stall):
				fail("replay:stall:"+st.Ev, k, fmt.Sprintf("goroutine %d did not reach its next gate after step %s (spinning on a condition the model says holds)", st.G, st.Ev))
				stalled = true
			}
			if stalled {
				break
			}
			got := w.evs[seen:]
			if len(got) != wantEvents || (wantEvents == 1 && !matches(st, &got[0])) {
				gj, _ := json.Marshal(got)
				sj, _ := json.Marshal(st)
				fail("replay:event-mismatch:"+st.Ev, k, fmt.Sprintf("model predicts %s, code logged %s", sj, gj))
				break
			}
		}
		if stalled {
			break // a goroutine is stuck inside the table; nothing more can be replayed in this process
		}
		// drain (failed schedules only): let every parked goroutine run freely to the end of its call;
		// gates stop parking, so goroutines spinning on each other make progress together
		draining.Store(true)
		var parked []*worker
		for g := 1; g <= nG; g++ {
			if ws[g].parkedAt != "idle" {
				parked = append(parked, ws[g])
			}
		}
		for _, w := range parked {
			w.release <- struct{}{}
		}
		for _, w := range parked {
			select {
			case <-w.note:
			case <-time.After(stall):
				stalled = true
			}
		}
		draining.Store(false)
		if stalled {
			fail("replay:stall:drain", len(sc.Steps), "a goroutine did not finish its call when left to run freely")
			break
		}
		for g := 1; g <= nG; g++ {
			ws[g].cmd <- &opcmd{quit: true}
		}
		wg.Wait()
	}
	stats(map[string]any{"mode": "replay", "schedules": nsched, "steps": nsteps, "bad": nbad, "race": raceEnabled})
}
