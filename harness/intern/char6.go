package main

import (
	"bufio"
	"encoding/json"
	"fmt"
	"os"
	"runtime"
	"sync"
	"sync/atomic"

	"github.com/bufbuild/protocompile/internal/intern"
)

type c6case struct {
	Bs  []int `json:"bs"`
	Inl bool  `json:"inl"`
	ID  int32 `json:"id"`
}

func toBytes(a []int) []byte {
	b := make([]byte, len(a))
	for i, x := range a {
		b[i] = byte(x)
	}
	return b
}

func toInts(s string) []int {
	a := make([]int, len(s))
	for i := range len(s) {
		a[i] = int(s[i])
	}
	return a
}

// runChar6 compares the real encoding with the expectations computed by Char6.tla, through the
// public API: on an empty table Query(s) = (Encode(s), true) iff s is inline-encodable, and
// Value(Encode(s)) = s on any table.
func runChar6() {
	in := bufio.NewScanner(os.Stdin)
	in.Buffer(make([]byte, 1<<20), 1<<26)
	n, checks, ninl := 0, 0, 0
	for in.Scan() {
		var c c6case
		if err := json.Unmarshal(in.Bytes(), &c); err != nil {
			fatal("bad char6 case:", err)
		}
		n++
		s := string(toBytes(c.Bs))
		func() {
			defer func() {
				if r := recover(); r != nil {
					report("char6:panic", c, fmt.Sprint(r))
				}
			}()
			var t, other intern.Table
			id, ok := t.Query(s)
			checks++
			if ok != c.Inl {
				report("char6:inline-domain", c, fmt.Sprintf("Query(%q) on an empty table says present=%v, spec says inline=%v", s, ok, c.Inl))
				return
			}
			idb, okb := t.QueryBytes([]byte(s))
			if idb != id || okb != ok {
				report("char6:bytes-variant", c, fmt.Sprintf("QueryBytes(%q)=(%d,%v) Query=(%d,%v)", s, idb, okb, id, ok))
			}
			if c.Inl {
				ninl++
				if int32(id) != c.ID {
					report("char6:encode", c, fmt.Sprintf("Query(%q) id=%d, spec Encode=%d", s, int32(id), c.ID))
				}
				if v := other.Value(intern.ID(c.ID)); v != s {
					report("char6:decode", c, fmt.Sprintf("Value(%d)=%q, spec Decode=%q", c.ID, v, s))
				}
				if iid := t.Intern(s); int32(iid) != c.ID {
					report("char6:intern-inline", c, fmt.Sprintf("Intern(%q)=%d, spec %d", s, int32(iid), c.ID))
				}
				return
			}
			if id != 0 {
				report("char6:encode", c, fmt.Sprintf("Query(%q) missing but id=%d", s, int32(id)))
			}
			iid := t.Intern(s)
			if iid <= 0 {
				report("char6:intern-stored", c, fmt.Sprintf("Intern(%q)=%d for a string that is not inline-encodable", s, int32(iid)))
				return
			}
			if v := t.Value(iid); v != s {
				report("char6:intern-value", c, fmt.Sprintf("Value(Intern(%q))=%q", s, v))
			}
			if id2, ok2 := t.Query(s); !ok2 || id2 != iid {
				report("char6:intern-query", c, fmt.Sprintf("Query(%q) after Intern = (%d,%v), Intern gave %d", s, int32(id2), ok2, int32(iid)))
			}
		}()
	}
	stats(map[string]any{"mode": "char6", "cases": n, "checks": checks, "inline": ninl})
}

const alphabet = "0123456789abcdefghijklmnopqrstuvwxyzABCDEFGHIJKLMNOPQRSTUVWXYZ_."

// specEncode is Char6.tla's Encode (sum of sextets times powers of 64, padded with 63, minus
// 2^30) over sextet values, used as a second oracle in the native sweep.
func specEncode(sx []int) int64 {
	if len(sx) == 0 {
		return 0
	}
	var sum, pow int64 = 0, 1
	for k := range 5 {
		d := int64(63)
		if k < len(sx) {
			d = int64(sx[k])
		}
		sum += d * pow
		pow *= 64
	}
	return sum - pow
}

// runSweep: every string over the 64-character alphabet up to maxlen, natively.  Strings that
// do not end in '.' must be inline, round-trip through Value and have the id the spec's formula
// gives; strings ending in '.' and strings containing any other byte must not be inline.
func runSweep(maxlen int) {
	if maxlen > 5 {
		maxlen = 5
	}
	var table intern.Table // stays empty: Query never stores
	var total, inl, bad atomic.Int64
	var mu sync.Mutex
	perClass := map[string]int{}
	rep := func(class string, s []byte, detail string) {
		bad.Add(1)
		mu.Lock()
		defer mu.Unlock()
		perClass[class]++
		if perClass[class] <= 10 {
			report(class, map[string]any{"bs": toInts(string(s))}, detail)
		}
	}
	workers := runtime.GOMAXPROCS(0)
	for L := 0; L <= maxlen; L++ {
		count := int64(1)
		for range L {
			count *= 64
		}
		var wg sync.WaitGroup
		chunk := (count + int64(workers) - 1) / int64(workers)
		for w := range workers {
			lo, hi := int64(w)*chunk, min(int64(w+1)*chunk, count)
			if lo >= hi {
				continue
			}
			wg.Add(1)
			go func() {
				defer wg.Done()
				defer func() {
					if r := recover(); r != nil {
						rep("sweep:panic", nil, fmt.Sprint(r))
					}
				}()
				buf := make([]byte, L)
				sx := make([]int, L)
				var nInl int64
				for n := lo; n < hi; n++ {
					x := n
					for k := range L {
						sx[k] = int(x & 63)
						buf[k] = alphabet[sx[k]]
						x >>= 6
					}
					wantInl := L == 0 || sx[L-1] != 63
					id, ok := table.QueryBytes(buf)
					if ok != wantInl {
						rep("sweep:inline-domain", buf, fmt.Sprintf("Query(%q) present=%v want %v", buf, ok, wantInl))
						continue
					}
					if !ok {
						continue
					}
					nInl++
					if int64(id) != specEncode(sx) {
						rep("sweep:encode", buf, fmt.Sprintf("id(%q)=%d, spec formula %d", buf, int32(id), specEncode(sx)))
					}
					if v := table.Value(id); v != string(buf) {
						rep("sweep:roundtrip", buf, fmt.Sprintf("Value(id(%q))=%q", buf, v))
					}
				}
				total.Add(hi - lo)
				inl.Add(nInl)
			}()
		}
		wg.Wait()
	}
	// bytes outside the alphabet, at every position of every length, must defeat inlining;
	// so must a sixth character.
	foreign := 0
	for L := 1; L <= 5; L++ {
		for p := range L {
			for b := range 256 {
				isAlpha := false
				for i := range len(alphabet) {
					if alphabet[i] == byte(b) {
						isAlpha = true
					}
				}
				if isAlpha {
					continue
				}
				buf := []byte("aaaaa")[:L]
				buf[p] = byte(b)
				foreign++
				if id, ok := table.QueryBytes(buf); ok || id != 0 {
					rep("sweep:inline-domain", buf, fmt.Sprintf("Query(%q)=(%d,%v) with a byte outside the alphabet", buf, int32(id), ok))
				}
			}
		}
	}
	for i := range len(alphabet) {
		buf := []byte("aaaaaa")
		buf[5] = alphabet[i]
		foreign++
		if _, ok := table.QueryBytes(buf); ok {
			rep("sweep:inline-domain", buf, "six characters reported inline")
		}
	}
	stats(map[string]any{"mode": "sweep", "maxlen": maxlen, "strings": total.Load(), "inline": inl.Load(),
		"foreign": foreign, "bad": bad.Load()})
}
