// Command incbatch replays edit histories exported from spec/EditHistory.tla (MCEditHistory.tla)
// against the experimental compiler's query layer (C35).
//
// For every case and every parallelism value it keeps ONE long-lived incremental.Executor +
// ir.Session + opener.  After each edit it updates the in-memory opener with the new content of the
// paths the specification says changed, evicts exactly the File-level query keys of those paths
// (both ReportError variants), runs queries.Link (and queries.FDS) for the requested files and
// compares success, descriptors (deterministic encoding, source info included) and the rendered,
// canonicalised report with what a BRAND-NEW executor + session + opener produces on the same
// files.  The comparison is made after every step that compiles, not only after the last.
//
// stdin: one JSON case per line.  stdout: one JSON object per disagreement
// {"class","detail","case"}.  stderr: a final "STATS {json}" line.  exit 3: harness failure.
package main

import (
	"bufio"
	"bytes"
	"context"
	"crypto/sha256"
	"encoding/hex"
	"encoding/json"
	"flag"
	"fmt"
	"os"
	"sort"
	"strconv"
	"strings"
	"sync"
	"sync/atomic"
	"time"

	"google.golang.org/protobuf/proto"

	"github.com/bufbuild/protocompile/experimental/fdp"
	"github.com/bufbuild/protocompile/experimental/incremental"
	"github.com/bufbuild/protocompile/experimental/incremental/queries"
	"github.com/bufbuild/protocompile/experimental/ir"
	"github.com/bufbuild/protocompile/experimental/report"
	"github.com/bufbuild/protocompile/experimental/source"
)

// ---------------------------------------------------------------------------------------------
// case schema (ToJson of MCEditHistory!Case)

type impV struct {
	F   string `json:"f"`
	Pub bool   `json:"pub"`
}

type fileV struct {
	Present bool              `json:"present"`
	Pkg     string            `json:"pkg"`
	Imports []impV            `json:"imports"`
	Decls   []string          `json:"decls"`
	Refs    map[string]string `json:"refs"`
	Defect  string            `json:"defect"`
	Cmt     bool              `json:"cmt"`
}

type facts struct {
	Exists  []string `json:"exists"`
	Request []string `json:"request"`
	Cyclic  bool     `json:"cyclic"`
	Tainted []string `json:"tainted"`
	Valid   string   `json:"valid"`
	Bad     []string `json:"bad"`
}

type stepV struct {
	facts
	Edit    map[string]any   `json:"edit"`
	Changed []string         `json:"changed"`
	Files   map[string]fileV `json:"files"`
	Run     bool             `json:"run"`
}

type originV struct {
	facts
	Name string           `json:"name"`
	Ws   map[string]fileV `json:"ws"`
	Req  string           `json:"req"`
}

type histCase struct {
	Kind   string           `json:"kind"`
	Origin originV          `json:"origin"`
	Steps  []stepV          `json:"steps"`
	Final  map[string]fileV `json:"final"`
}

func harnessFail(msg string) {
	fmt.Fprintln(os.Stderr, "HARNESS: "+msg)
	os.Exit(3)
}

// ---------------------------------------------------------------------------------------------
// renderer: abstract file -> .proto text (trusted base; the spec's verdict is checked against
// the fresh compile of every step, so a renderer / spec disagreement shows up as expectation:*)

var fileIdx = map[string]int{"a": 1, "b": 2, "c": 3, "d": 4, "e": 5}

// Concrete names are longer than 5 characters on purpose: the session's intern table encodes
// shorter strings inline, so only longer names get history-dependent intern IDs.
var pkgNames = map[string]string{"p": "pkgone", "q": "pkgtwo", "r": "pkgthree"}
var declNames = map[string]string{"A": "Alpha", "B": "Bravo", "E": "Echoes", "S": "Service"}

func pkgName(p string) string {
	if n, ok := pkgNames[p]; ok {
		return n
	}
	harnessFail("unknown package " + p)
	return ""
}

func hostName(id string) string { return "Host" + strings.ToUpper(id) }

func declName(n string) string {
	if c, ok := declNames[n]; ok {
		return c
	}
	if len(n) == 2 && n[0] == 'H' {
		return hostName(n[1:])
	}
	harnessFail("unknown declaration name " + n)
	return ""
}

// refName turns the spec's spelling ".p.A" into the concrete absolute name.
func refName(r string) string {
	parts := strings.Split(r, ".")
	if len(parts) != 3 || parts[0] != "" {
		harnessFail("bad reference spelling " + r)
	}
	return "." + pkgName(parts[1]) + "." + declName(parts[2])
}

func render(id string, f fileV) string {
	var sb strings.Builder
	sb.WriteString("syntax = \"proto2\";\n")
	if f.Cmt {
		sb.WriteString("// edited\n\n")
	}
	fmt.Fprintf(&sb, "package %s;\n", pkgName(f.Pkg))
	for _, i := range f.Imports {
		if i.Pub {
			fmt.Fprintf(&sb, "import public \"%s.proto\";\n", i.F)
		} else {
			fmt.Fprintf(&sb, "import \"%s.proto\";\n", i.F)
		}
	}
	fmt.Fprintf(&sb, "message %s {\n", hostName(id))
	n := 0
	for _, s := range []string{"f1", "f2"} {
		r, ok := f.Refs[s]
		if !ok {
			continue
		}
		n++
		ty := "int32"
		if r != "" {
			ty = refName(r)
		}
		fmt.Fprintf(&sb, "  optional %s field_%s = %d;\n", ty, s, n)
	}
	sb.WriteString("  extensions 1000 to 1999;\n}\n")
	decls := append([]string(nil), f.Decls...)
	sort.Strings(decls)
	for _, d := range decls {
		switch d {
		case "A", "B":
			fmt.Fprintf(&sb, "message %s {\n  optional int32 value = 1;\n  extensions 1000 to 1999;\n}\n", declName(d))
		case "E":
			fmt.Fprintf(&sb, "enum %s {\n  ECHOES_%s_ZERO = 0;\n}\n", declName(d), strings.ToUpper(id))
		case "S":
			h := "." + pkgName(f.Pkg) + "." + hostName(id)
			fmt.Fprintf(&sb, "service %s {\n  rpc Method(%s) returns (%s);\n}\n", declName(d), h, h)
		default:
			harnessFail("unknown declaration " + d)
		}
	}
	if x := f.Refs["x"]; x != "" {
		idx, ok := fileIdx[id]
		if !ok {
			harnessFail("unknown file id " + id)
		}
		fmt.Fprintf(&sb, "extend %s {\n  optional int32 ext_%s = %d;\n}\n", refName(x), id, 1000+idx)
	}
	switch f.Defect {
	case "none", "":
	case "unknown":
		fmt.Fprintf(&sb, "message Unknown_%s { optional Nope_%s x = 1; }\n", id, id)
	case "dup":
		fmt.Fprintf(&sb, "message Double_%s {}\nmessage Double_%s {}\n", id, id)
	case "syntax":
		fmt.Fprintf(&sb, "message Syntax_%s { optional int32 x 1; }\n", id)
	default:
		harnessFail("unknown defect " + f.Defect)
	}
	return sb.String()
}

// ---------------------------------------------------------------------------------------------
// opener: pointer receiver, so query keys compare by identity; content is replaced between runs
// only (never while a Run is in flight)

type memOpener struct {
	mu    sync.RWMutex
	files map[string]*source.File
}

func (o *memOpener) Open(path string) (*source.File, error) {
	o.mu.RLock()
	defer o.mu.RUnlock()
	if f, ok := o.files[path]; ok {
		return f, nil
	}
	return nil, os.ErrNotExist
}

func (o *memOpener) set(path, text string) {
	o.mu.Lock()
	o.files[path] = source.NewFile(path, text)
	o.mu.Unlock()
}

func (o *memOpener) del(path string) {
	o.mu.Lock()
	delete(o.files, path)
	o.mu.Unlock()
}

// ---------------------------------------------------------------------------------------------
// one compile and what is observed of it

type obs struct {
	Err      string            // Run error / panic / hang
	Fatal    string            // Link's fatal error (first line)
	Success  bool              // no run error, no fatal, no diagnostic of level error or worse
	Desc     map[string]string // path -> hex(sha256(deterministic FileDescriptorProto bytes)) or "panic: ..."
	DescLen  map[string]int
	FDS      string // hash of the FDS query's result, "" if the query failed
	Render   string
	ErrFiles map[string]int // file -> number of error-level diagnostics located in it
	NDiag    int
	Executed int // queries memoised by this run (Executor.Keys after - before)
	Reused   int // queries still memoised when the run started (Executor.Keys before)
}

type engine struct {
	exec *incremental.Executor
	sess *ir.Session
	mem  *memOpener
	op   source.Opener
	wss  map[string]source.Workspace
	stat bool // count Executor.Keys() around every Link run
}

// keyStats: count Executor.Keys() around every Link run (incremental.WithTimings is not wired to
// the root task in this version of the executor, so it reports nothing).
var keyStats = true
var dump bool

func newEngine(par int) *engine {
	mem := &memOpener{files: map[string]*source.File{}}
	return &engine{
		exec: incremental.New(incremental.WithParallelism(int64(par))),
		sess: new(ir.Session),
		mem:  mem,
		op:   &source.Openers{mem, source.WKTs()},
		wss:  map[string]source.Workspace{},
	}
}

func (e *engine) workspace(paths []string) source.Workspace {
	k := strings.Join(paths, "\x00")
	if w, ok := e.wss[k]; ok {
		return w
	}
	w := source.NewWorkspace(append([]string(nil), paths...)...)
	e.wss[k] = w
	return w
}

func firstLine(s string) string {
	if i := strings.IndexByte(s, '\n'); i >= 0 {
		return s[:i]
	}
	return s
}

func hash(b []byte) string {
	h := sha256.Sum256(b)
	return hex.EncodeToString(h[:12])
}

var detMarshal = proto.MarshalOptions{Deterministic: true}

func descOf(f *ir.File) (s string, n int) {
	defer func() {
		if r := recover(); r != nil {
			s, n = "panic: "+firstLine(fmt.Sprint(r)), 0
		}
	}()
	d, err := fdp.DescriptorProto(f, fdp.IncludeSourceCodeInfo(true))
	if err != nil {
		return "error: " + firstLine(err.Error()), 0
	}
	b, err := detMarshal.Marshal(d)
	if err != nil {
		return "marshal error: " + firstLine(err.Error()), 0
	}
	return hash(b), len(b)
}

func (e *engine) compile(paths []string, withFDS bool, timeout time.Duration) obs {
	done := make(chan obs, 1)
	go func() {
		var o obs
		defer func() {
			if r := recover(); r != nil {
				o.Err = "panic: " + firstLine(fmt.Sprint(r))
				o.Success = false
			}
			done <- o
		}()
		o.Desc = map[string]string{}
		o.DescLen = map[string]int{}
		o.ErrFiles = map[string]int{}
		ctx, cancel := context.WithTimeout(context.Background(), timeout)
		defer cancel()
		ws := e.workspace(paths)
		before := 0
		if e.stat {
			before = len(e.exec.Keys()) // memoised queries that survived the evictions
		}
		res, rep, err := incremental.Run(ctx, e.exec, queries.Link{
			Opener: e.op, Session: e.sess, Workspace: ws,
		})
		if err != nil {
			o.Err = "run error: " + firstLine(err.Error())
			return
		}
		if e.stat {
			o.Reused = before
			o.Executed = len(e.exec.Keys()) - before
		}
		o.Success = true
		if res[0].Fatal != nil {
			o.Fatal = firstLine(res[0].Fatal.Error())
			o.Success = false
		}
		for i := range rep.Diagnostics {
			d := &rep.Diagnostics[i]
			if d.Level() <= report.Error { // ICE = 1, Error = 2
				o.Success = false
				p := d.File()
				if p == "" {
					p = d.Primary().Path()
				}
				o.ErrFiles[p]++
			}
		}
		o.NDiag = len(rep.Diagnostics)
		o.Render, _, _ = report.Renderer{}.RenderString(rep)
		if res[0].Fatal == nil {
			for _, f := range res[0].Value {
				if f == nil {
					continue
				}
				o.Desc[f.Path()], o.DescLen[f.Path()] = descOf(f)
			}
		}
		if withFDS {
			var opts fdp.Options
			opts.Apply(fdp.IncludeSourceCodeInfo(true))
			func() {
				defer func() {
					if r := recover(); r != nil {
						o.FDS = "panic: " + firstLine(fmt.Sprint(r))
					}
				}()
				fres, frep, ferr := incremental.Run(ctx, e.exec, queries.FDS{
					Opener: e.op, Session: e.sess, Workspace: ws, Options: opts,
				})
				switch {
				case ferr != nil:
					o.FDS = "run error: " + firstLine(ferr.Error())
				case fres[0].Fatal != nil:
					o.FDS = "fatal: " + firstLine(fres[0].Fatal.Error())
				default:
					b, merr := detMarshal.Marshal(fres[0].Value)
					if merr != nil {
						o.FDS = "marshal error: " + firstLine(merr.Error())
					} else {
						o.FDS = hash(b)
					}
					// the FDS run's report contains the Link diagnostics too: it must render
					// like the Link run's report
					r2, _, _ := report.Renderer{}.RenderString(frep)
					if r2 != o.Render {
						o.FDS += " report-differs"
					}
				}
			}()
		}
	}()
	select {
	case o := <-done:
		return o
	case <-time.After(timeout + 10*time.Second):
		return obs{Err: "hang: Run did not return after its context expired"}
	}
}

// ---------------------------------------------------------------------------------------------
// fresh (batch) compiles, memoised per exact input

type freshMemo struct {
	mu   sync.Mutex
	m    map[string]*obs
	hits atomic.Int64
	miss atomic.Int64
}

func inputKey(texts map[string]string, paths []string, par int) string {
	var ks []string
	for p := range texts {
		ks = append(ks, p)
	}
	sort.Strings(ks)
	h := sha256.New()
	fmt.Fprintf(h, "par=%d\x00req=%s\x00", par, strings.Join(paths, ","))
	for _, p := range ks {
		fmt.Fprintf(h, "%s\x00%d\x00%s\x00", p, len(texts[p]), texts[p])
	}
	return hex.EncodeToString(h.Sum(nil))
}

func freshCompile(texts map[string]string, paths []string, par int, withFDS bool, timeout time.Duration) obs {
	e := newEngine(par)
	for p, t := range texts {
		e.mem.set(p, t)
	}
	return e.compile(paths, withFDS, timeout)
}

// ---------------------------------------------------------------------------------------------
// comparison

func diffLines(a, b string) string {
	la, lb := strings.Split(a, "\n"), strings.Split(b, "\n")
	for i := 0; i < len(la) || i < len(lb); i++ {
		var x, y string
		if i < len(la) {
			x = la[i]
		}
		if i < len(lb) {
			y = lb[i]
		}
		if x != y {
			return fmt.Sprintf("line %d: incremental %q vs fresh %q", i+1, x, y)
		}
	}
	return ""
}

// compare returns (what differs, detail); what == "" when the incremental observation equals the
// fresh one under the comparison the step's classification allows.
func compare(inc, fr *obs, cyclic bool, tainted map[string]bool) (string, string) {
	if inc.Err != fr.Err {
		k := "run-error"
		switch {
		case strings.HasPrefix(inc.Err, "hang"):
			k = "hang"
		case strings.HasPrefix(inc.Err, "panic"):
			k = "panic"
		}
		return k, fmt.Sprintf("incremental %q vs fresh %q", inc.Err, fr.Err)
	}
	if inc.Success != fr.Success {
		return "success", fmt.Sprintf("incremental success=%v vs fresh success=%v; incremental report:\n%s\nfresh report:\n%s",
			inc.Success, fr.Success, clip(inc.Render), clip(fr.Render))
	}
	if cyclic {
		// which member of an import cycle reports it (and what follows) depends on the schedule
		// even for a batch compile (C36, class schedule:cyclic-import-graph): only files that do
		// not depend on the cycle are compared
		for p, d := range fr.Desc {
			if tainted[strings.TrimSuffix(p, ".proto")] {
				continue
			}
			if id, ok := inc.Desc[p]; ok && id != d {
				return "descriptor", fmt.Sprintf("%s (not depending on the cycle): incremental %s (%d bytes) vs fresh %s (%d bytes)",
					p, id, inc.DescLen[p], d, fr.DescLen[p])
			}
		}
		return "", ""
	}
	if inc.Fatal != fr.Fatal {
		return "fatal", fmt.Sprintf("incremental %q vs fresh %q", inc.Fatal, fr.Fatal)
	}
	if len(inc.Desc) != len(fr.Desc) {
		return "descriptor-set", fmt.Sprintf("incremental has descriptors for %v, fresh for %v", keys(inc.Desc), keys(fr.Desc))
	}
	for _, p := range keys(fr.Desc) {
		id, ok := inc.Desc[p]
		if !ok {
			return "descriptor-set", fmt.Sprintf("incremental has descriptors for %v, fresh for %v", keys(inc.Desc), keys(fr.Desc))
		}
		if id != fr.Desc[p] {
			return "descriptor", fmt.Sprintf("%s: incremental %s (%d bytes) vs fresh %s (%d bytes)", p, id, inc.DescLen[p], fr.Desc[p], fr.DescLen[p])
		}
	}
	if inc.Render != fr.Render {
		return diagKind(inc.Render, fr.Render), fmt.Sprintf("%d vs %d diagnostics; %s\n--- incremental report:\n%s\n--- fresh report:\n%s", inc.NDiag, fr.NDiag,
			diffLines(inc.Render, fr.Render), clip(inc.Render), clip(fr.Render))
	}
	if inc.FDS != fr.FDS {
		return "fds", fmt.Sprintf("incremental %q vs fresh %q", inc.FDS, fr.FDS)
	}
	return "", ""
}

// diagKind refines the "diagnostics" class by what kind of diagnostic the two reports disagree
// on: the multiset difference of the diagnostics' header lines.
func diagKind(a, b string) string {
	count := map[string]int{}
	for _, l := range strings.Split(a, "\n") {
		if strings.HasPrefix(l, "error: ") || strings.HasPrefix(l, "warning: ") || strings.HasPrefix(l, "remark: ") {
			count[l]++
		}
	}
	for _, l := range strings.Split(b, "\n") {
		if strings.HasPrefix(l, "error: ") || strings.HasPrefix(l, "warning: ") || strings.HasPrefix(l, "remark: ") {
			count[l]--
		}
	}
	n, dup := 0, 0
	for l, c := range count {
		if c != 0 {
			n++
			if strings.Contains(l, "declared multiple times") {
				dup++
			}
		}
	}
	switch {
	case n == 0:
		return "diagnostics:same-headers"
	case dup == n:
		return "diagnostics:duplicate-symbol-set"
	default:
		return "diagnostics"
	}
}

func clip(s string) string {
	if len(s) > 1500 {
		return s[:1500] + "..."
	}
	return s
}

func keys[V any](m map[string]V) []string {
	var ks []string
	for k := range m {
		ks = append(ks, k)
	}
	sort.Strings(ks)
	return ks
}

// ---------------------------------------------------------------------------------------------

type sink struct {
	mu       sync.Mutex
	w        *bufio.Writer
	perClass map[string]int
	max      int
}

func (s *sink) report(class, detail string, raw []byte, step int, par int) {
	s.mu.Lock()
	defer s.mu.Unlock()
	s.perClass[class]++
	if s.perClass[class] > s.max {
		return
	}
	o := map[string]any{"class": class, "detail": detail, "step": step, "par": par, "case": json.RawMessage(raw)}
	b, _ := json.Marshal(o)
	s.w.Write(b)
	s.w.WriteByte('\n')
}

type counters struct {
	cases, steps, compares, cyclicSteps, incCompiles, freshCompiles, skipped atomic.Int64
	executed, reused                                                         atomic.Int64
	validYes, validNo, validUnknown                                          atomic.Int64
	descCompared, diagsSeen                                                  atomic.Int64
	nondet                                                                   atomic.Int64
}

func toSet(xs []string) map[string]bool {
	m := map[string]bool{}
	for _, x := range xs {
		m[x] = true
	}
	return m
}

func opOf(e map[string]any) string {
	if e == nil {
		return "init"
	}
	s, _ := e["op"].(string)
	return s
}

func sameFile(a, b fileV) bool {
	x, _ := json.Marshal(a)
	y, _ := json.Marshal(b)
	return bytes.Equal(x, y)
}

func normalize(f fileV) fileV {
	f.Decls = append([]string(nil), f.Decls...)
	sort.Strings(f.Decls)
	if f.Imports == nil {
		f.Imports = []impV{}
	}
	if f.Decls == nil {
		f.Decls = []string{}
	}
	return f
}

func main() {
	parsS := flag.String("pars", "1,4", "parallelism values")
	workers := flag.Int("workers", 8, "cases replayed concurrently")
	memo := flag.Bool("memo", true, "memoise fresh compiles per exact input")
	reverify := flag.Int("reverify", 8, "re-run every n-th memoised fresh compile and require the same observation (0: never)")
	withFDS := flag.Bool("fds", true, "also run queries.FDS")
	timeoutS := flag.Int("timeout", 60, "per-compile timeout, seconds")
	maxPer := flag.Int("maxper", 25, "disagreements reported per class")
	flag.BoolVar(&keyStats, "keystats", true, "count memoised queries before/after every incremental run")
	flag.BoolVar(&dump, "dump", false, "print every step's files and both reports to stderr (debugging aid)")
	noEvict := flag.Bool("no-evict", false, "SELF-TEST: do not evict (the check must then fire)")
	dropChanged := flag.Bool("drop-changed", false, "SELF-TEST: ignore the last path of every multi-path changed set")
	flag.Parse()
	var pars []int
	for _, p := range strings.Split(*parsS, ",") {
		n, err := strconv.Atoi(strings.TrimSpace(p))
		if err != nil || n < 1 {
			harnessFail("bad -pars")
		}
		pars = append(pars, n)
	}
	sk := &sink{w: bufio.NewWriterSize(os.Stdout, 1<<20), perClass: map[string]int{}, max: *maxPer}
	fm := &freshMemo{m: map[string]*obs{}}
	var ct counters
	timeout := time.Duration(*timeoutS) * time.Second

	fresh := func(texts map[string]string, paths []string, par int, cyclic bool) obs {
		if !*memo {
			ct.freshCompiles.Add(1)
			return freshCompile(texts, paths, par, *withFDS, timeout)
		}
		k := inputKey(texts, paths, par)
		fm.mu.Lock()
		o, ok := fm.m[k]
		fm.mu.Unlock()
		if ok {
			n := fm.hits.Add(1)
			if *reverify > 0 && n%int64(*reverify) == 0 && !cyclic {
				ct.freshCompiles.Add(1)
				again := freshCompile(texts, paths, par, *withFDS, timeout)
				if w, _ := compare(&again, o, false, nil); w != "" {
					ct.nondet.Add(1)
					again.Err = "fresh-nondeterministic: " + again.Err
					return again
				}
			}
			return *o
		}
		fm.miss.Add(1)
		ct.freshCompiles.Add(1)
		r := freshCompile(texts, paths, par, *withFDS, timeout)
		fm.mu.Lock()
		fm.m[k] = &r
		fm.mu.Unlock()
		return r
	}

	type job struct {
		raw []byte
		no  int
	}
	jobs := make(chan job, 64)
	var wg sync.WaitGroup
	for w := 0; w < *workers; w++ {
		wg.Add(1)
		go func() {
			defer wg.Done()
			for j := range jobs {
				var c histCase
				if err := json.Unmarshal(j.raw, &c); err != nil {
					harnessFail("bad case: " + err.Error())
				}
				if c.Kind != "hist" {
					harnessFail("unexpected case kind " + c.Kind)
				}
				ct.cases.Add(1)
				for _, par := range pars {
					replay(&c, j.raw, par, sk, &ct, fresh, *withFDS, timeout, *noEvict, *dropChanged)
				}
			}
		}()
	}
	in := bufio.NewScanner(os.Stdin)
	in.Buffer(make([]byte, 1<<20), 64<<20)
	no := 0
	for in.Scan() {
		raw := append([]byte(nil), in.Bytes()...)
		if len(bytes.TrimSpace(raw)) == 0 {
			continue
		}
		no++
		jobs <- job{raw: raw, no: no}
	}
	close(jobs)
	wg.Wait()
	sk.w.Flush()
	st := map[string]any{
		"cases": ct.cases.Load(), "steps": ct.steps.Load(), "compares": ct.compares.Load(),
		"cyclic_steps": ct.cyclicSteps.Load(), "incremental_compiles": ct.incCompiles.Load(),
		"fresh_compiles": ct.freshCompiles.Load(), "fresh_memo_hits": fm.hits.Load(),
		"steps_without_compile":        ct.skipped.Load(),
		"queries_executed_incremental": ct.executed.Load(), "queries_reused_incremental": ct.reused.Load(),
		"valid_yes": ct.validYes.Load(), "valid_no": ct.validNo.Load(), "valid_unknown": ct.validUnknown.Load(),
		"descriptors_compared": ct.descCompared.Load(), "diagnostics_in_fresh_reports": ct.diagsSeen.Load(),
		"fresh_nondeterministic": ct.nondet.Load(),
		"pars":                   pars, "classes": sk.perClass,
	}
	b, _ := json.Marshal(st)
	fmt.Fprintln(os.Stderr, "STATS "+string(b))
}

// replay runs one history at one parallelism value.
func replay(c *histCase, raw []byte, par int, sk *sink, ct *counters,
	fresh func(map[string]string, []string, int, bool) obs, withFDS bool, timeout time.Duration, noEvict, dropChanged bool) {
	eng := newEngine(par)
	eng.stat = keyStats
	cur := map[string]fileV{}    // the driver's view of the abstract workspace
	texts := map[string]string{} // path -> text of the files that exist
	for id, f := range c.Origin.Ws {
		cur[id] = normalize(f)
		if f.Present {
			t := render(id, f)
			texts[id+".proto"] = t
			eng.mem.set(id+".proto", t)
		}
	}
	prevOp := "init"
	check := func(stepNo int, fc *facts, op string) {
		var paths []string
		for _, id := range fc.Request {
			paths = append(paths, id+".proto")
		}
		sort.Strings(paths)
		inc := eng.compile(paths, withFDS, timeout)
		ct.incCompiles.Add(1)
		ct.executed.Add(int64(inc.Executed))
		ct.reused.Add(int64(inc.Reused))
		fr := fresh(texts, paths, par, fc.Cyclic)
		if strings.HasPrefix(fr.Err, "fresh-nondeterministic") {
			sk.report("fresh-nondeterministic:acyclic", fmt.Sprintf("step %d (%s): two fresh compiles of the same acyclic input differ", stepNo, op), raw, stepNo, par)
			return
		}
		ct.compares.Add(1)
		ct.diagsSeen.Add(int64(fr.NDiag))
		ct.descCompared.Add(int64(len(fr.Desc)))
		feature := "acyclic"
		if fc.Cyclic {
			feature = "cyclic"
			ct.cyclicSteps.Add(1)
		}
		// (1) the specification's classification against the reference (fresh) compile
		switch fc.Valid {
		case "yes":
			ct.validYes.Add(1)
			if fr.Err == "" && !fr.Success {
				sk.report("expectation:valid-but-rejected", fmt.Sprintf("step %d (%s): spec says the workspace is valid; fresh compile reports:\n%s", stepNo, op, clip(fr.Render)), raw, stepNo, par)
			}
		case "no":
			ct.validNo.Add(1)
			if fr.Err == "" && fr.Success {
				sk.report("expectation:invalid-but-accepted", fmt.Sprintf("step %d (%s): spec says the workspace is invalid (bad=%v cyclic=%v); fresh compile succeeds", stepNo, op, fc.Bad, fc.Cyclic), raw, stepNo, par)
			}
		default:
			ct.validUnknown.Add(1)
		}
		if !fc.Cyclic && fr.Err == "" && fr.Fatal == "" {
			for _, id := range fc.Bad {
				if fr.ErrFiles[id+".proto"] == 0 {
					sk.report("expectation:no-error-in-bad-file", fmt.Sprintf("step %d (%s): spec says %s.proto carries an error of its own; fresh report:\n%s", stepNo, op, id, clip(fr.Render)), raw, stepNo, par)
				}
			}
		}
		if strings.HasPrefix(fr.Err, "hang") || strings.HasPrefix(fr.Err, "panic") {
			sk.report("fresh:"+strings.SplitN(fr.Err, ":", 2)[0]+":"+feature, fmt.Sprintf("step %d (%s): %s", stepNo, op, fr.Err), raw, stepNo, par)
		}
		if dump {
			fmt.Fprintf(os.Stderr, "=== par %d step %d (%s) request %v\n", par, stepNo, op, paths)
			for _, p := range keys(texts) {
				fmt.Fprintf(os.Stderr, "--- %s\n%s", p, texts[p])
			}
			fmt.Fprintf(os.Stderr, "--- incremental: success=%v fatal=%q desc=%v fds=%s\n%s\n--- fresh: success=%v fatal=%q desc=%v fds=%s\n%s\n",
				inc.Success, inc.Fatal, inc.Desc, inc.FDS, inc.Render, fr.Success, fr.Fatal, fr.Desc, fr.FDS, fr.Render)
		}
		// (2) the property: incremental == fresh
		what, detail := compare(&inc, &fr, fc.Cyclic, toSet(fc.Tainted))
		if what != "" {
			cls := fmt.Sprintf("stale:%s:%s-then-%s", what, prevOp, op)
			if fc.Cyclic {
				cls = fmt.Sprintf("stale:%s:cyclic:%s-then-%s", what, prevOp, op)
			}
			sk.report(cls, fmt.Sprintf("par=%d step %d of %d (%s after %s): %s", par, stepNo, len(c.Steps), op, prevOp, detail), raw, stepNo, par)
		}
	}
	check(0, &c.Origin.facts, "init")
	for i := range c.Steps {
		st := &c.Steps[i]
		ct.steps.Add(1)
		op := opOf(st.Edit)
		changed := append([]string(nil), st.Changed...)
		sort.Strings(changed)
		if dropChanged && len(changed) > 1 {
			changed = changed[:len(changed)-1]
		}
		// update the opener with the new content of exactly the changed paths
		for _, id := range st.Changed {
			nf, ok := st.Files[id]
			if !ok {
				harnessFail("step without content for changed file " + id)
			}
			cur[id] = normalize(nf)
			p := id + ".proto"
			if nf.Present {
				t := render(id, nf)
				texts[p] = t
				eng.mem.set(p, t)
			} else {
				delete(texts, p)
				eng.mem.del(p)
			}
		}
		// evict exactly the File-level keys of the changed paths
		if !noEvict {
			var ks []any
			for _, id := range changed {
				p := id + ".proto"
				ks = append(ks, queries.File{Opener: eng.op, Path: p, ReportError: false}.Key(),
					queries.File{Opener: eng.op, Path: p, ReportError: true}.Key())
			}
			eng.exec.Evict(ks...)
		}
		// the driver's accumulated view must be the spec's state: existence now, content at the end
		ex := toSet(st.Exists)
		for id, f := range cur {
			if f.Present != ex[id] {
				harnessFail(fmt.Sprintf("existence of %s after step %d differs from the spec's", id, i+1))
			}
		}
		if !st.Run {
			ct.skipped.Add(1)
			prevOp = prevOp + "+" + op
			if strings.Count(prevOp, "+") > 2 {
				prevOp = "…+" + op
			}
			continue
		}
		check(i+1, &st.facts, op)
		prevOp = op
	}
	for id, f := range c.Final {
		if !sameFile(normalize(f), cur[id]) {
			harnessFail(fmt.Sprintf("the changed-path sets of the history do not reproduce the spec's final workspace (file %s)", id))
		}
	}
}
