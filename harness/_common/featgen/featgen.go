// Package featgen renders FileFeatures.tla cases (a syntax plus a set of language features) into a
// small workspace of .proto sources: main.proto (carries the features), dep.proto, mid.proto,
// deep.proto.  It also measures which descriptor element kinds a compiled main.proto contains so
// that every check can confirm the generator produced what the specification says (Kinds / Deps).
package featgen

import (
	"fmt"
	"sort"
	"strings"

	"google.golang.org/protobuf/proto"
	"google.golang.org/protobuf/reflect/protoreflect"
	"google.golang.org/protobuf/types/descriptorpb"
)

// Case is one exported state of MCFileFeatures.
type Case struct {
	Syntax   string   `json:"syntax"`
	Features []string `json:"features"`
	Deps     []string `json:"deps"`
	Kinds    []string `json:"kinds"`
}

func (c *Case) Has(f string) bool {
	for _, x := range c.Features {
		if x == f {
			return true
		}
	}
	return false
}

func (c *Case) Key() string {
	fs := append([]string(nil), c.Features...)
	sort.Strings(fs)
	return c.Syntax + ":" + strings.Join(fs, ",")
}

// Main is the path of the file that carries the features.
const Main = "main.proto"

// Render returns path -> source text for the case.
func Render(c *Case) map[string]string {
	out := map[string]string{}
	has := c.Has
	s := c.Syntax
	lbl := ""
	if s == "proto2" {
		lbl = "optional "
	}
	hdr := func(sb *strings.Builder) {
		switch s {
		case "proto2":
			sb.WriteString("syntax = \"proto2\";\n")
		case "proto3":
			sb.WriteString("syntax = \"proto3\";\n")
		default:
			sb.WriteString("edition = \"2023\";\n")
		}
	}
	pkgPrefix := ""
	var sb strings.Builder
	if has("comments") {
		sb.WriteString("// File header comment (detached).\n\n// Leading comment of the syntax statement.\n")
	}
	hdr(&sb)
	if has("pkg") {
		sb.WriteString("package verif.pkg;\n")
		pkgPrefix = "verif.pkg."
	}
	_ = pkgPrefix
	if has("customopt") {
		sb.WriteString("import \"google/protobuf/descriptor.proto\";\n")
	}
	if has("import") {
		sb.WriteString("import \"dep.proto\";\n")
	}
	if has("public") {
		sb.WriteString("import \"mid.proto\";\n")
	}
	if has("stdopt") {
		sb.WriteString("option java_package = \"com.verif\";\noption deprecated = false;\n")
	}
	if has("customopt") {
		sb.WriteString("option (fopt) = \"file-level\";\n")
	}
	if has("features") {
		sb.WriteString("option features.enum_type = CLOSED;\n")
	}
	sb.WriteString("\n")
	if has("comments") {
		sb.WriteString("// Detached comment before Top.\n\n/* Leading block comment\n * of Top. */\n")
	}
	sb.WriteString("message Top {")
	if has("comments") {
		sb.WriteString(" // trailing comment of Top's opening brace")
	}
	sb.WriteString("\n")
	if has("customopt") {
		sb.WriteString("  option (mopt).sub.leaf = 7;\n  option (mopt).names = \"n1\";\n  option (mopt).names = \"n2\";\n")
	}
	if has("msglit") {
		sb.WriteString("  option (mopt2) = { leaf: 1 names: [\"x\", \"y\"] sub { leaf: 2 sub: { names: \"deep\" } } };\n")
	}
	if has("comments") {
		sb.WriteString("  // Leading comment of id.\n")
	}
	fmt.Fprintf(&sb, "  %sint32 id = 1;", lbl)
	if has("comments") {
		sb.WriteString(" // trailing comment of id")
	}
	sb.WriteString("\n")
	// name, possibly with json_name and options
	var nameOpts []string
	if has("jsonname") {
		nameOpts = append(nameOpts, "json_name = \"NAME\"")
	}
	if has("customopt") {
		nameOpts = append(nameOpts, "(fldopt) = 3")
	}
	if has("srcret") {
		nameOpts = append(nameOpts, "(srcopt) = \"source-only\"")
	}
	if has("stdopt") {
		nameOpts = append(nameOpts, "deprecated = true")
	}
	fmt.Fprintf(&sb, "  %sstring name = 2", lbl)
	if len(nameOpts) > 0 {
		fmt.Fprintf(&sb, " [%s]", strings.Join(nameOpts, ", "))
	}
	sb.WriteString(";\n")
	if has("stdopt") {
		switch s {
		case "proto2":
			sb.WriteString("  repeated int32 nums = 3 [packed = true];\n")
		case "proto3":
			sb.WriteString("  repeated int32 nums = 3 [packed = false];\n")
		default:
			sb.WriteString("  repeated int32 nums = 3 [features.repeated_field_encoding = EXPANDED];\n")
		}
	}
	if has("nested") {
		fmt.Fprintf(&sb, "  message Inner {\n    %sint64 v = 1;\n  }\n  enum Kind {\n    KIND_UNSPECIFIED = 0;\n    KIND_A = 1;\n  }\n", lbl)
		fmt.Fprintf(&sb, "  %sInner inner = 4;\n  %sKind kind = 5;\n", lbl, lbl)
	}
	if has("map") {
		if has("nested") {
			sb.WriteString("  map<string, Inner> m = 6;\n")
		} else {
			sb.WriteString("  map<int32, string> m = 6;\n")
		}
	}
	if has("group") {
		if s == "proto2" {
			sb.WriteString("  optional group Grp = 7 {\n    optional int32 g = 1;\n  }\n")
		} else {
			sb.WriteString("  message GrpMsg {\n    int32 g = 1;\n  }\n  GrpMsg grp = 7 [features.message_encoding = DELIMITED];\n")
		}
	}
	if has("oneof") {
		sb.WriteString("  oneof choice {\n    int32 a = 8;\n    string b = 9;\n  }\n")
	}
	if has("p3opt") {
		sb.WriteString("  optional int32 maybe = 10;\n")
	}
	if has("extrange") {
		sb.WriteString("  extensions 100 to 199;\n")
	}
	if has("reserved") {
		if s == "editions" {
			sb.WriteString("  reserved 50, 60 to 70;\n  reserved old, older;\n")
		} else {
			sb.WriteString("  reserved 50, 60 to 70;\n  reserved \"old\", \"older\";\n")
		}
	}
	if has("default") {
		fmt.Fprintf(&sb, "  %sint32 dflt = 11 [default = 42];\n  %sstring ds = 12 [default = \"a\\tb\\\"q\"];\n  %sbytes db = 13 [default = \"\\001\\xff\\\\z\"];\n  %sdouble dd = 14 [default = 1.5];\n", lbl, lbl, lbl, lbl)
		if has("nested") {
			fmt.Fprintf(&sb, "  %sKind dk = 18 [default = KIND_A];\n", lbl)
		}
		// integer literals as defaults of floating-point fields
		fmt.Fprintf(&sb, "  %sdouble di = 27 [default = 10];\n  %sfloat fi = 28 [default = -3];\n", lbl, lbl)
	}
	if has("required") {
		if s == "proto2" {
			sb.WriteString("  required int32 req = 15;\n")
		} else {
			sb.WriteString("  int32 req = 15 [features.field_presence = LEGACY_REQUIRED];\n")
		}
	}
	if has("features") {
		sb.WriteString("  int32 implicit = 19 [features.field_presence = IMPLICIT];\n")
	}
	if has("jsoncollide") {
		// default JSON names of both fields are "fooBar": a warning in proto2, and it must stay one on re-link
		fmt.Fprintf(&sb, "  %sint32 foo_bar = 21;\n  %sint32 fooBar = 22;\n", lbl, lbl)
	}
	if has("mapfeatures") {
		sb.WriteString("  map<int32, string> mf1 = 23 [features.utf8_validation = NONE];\n  map<string, int64> mf2 = 24 [features.repeated_field_encoding = EXPANDED];\n")
	}
	if has("import") {
		fmt.Fprintf(&sb, "  %sdep.pkg.DepMsg d = 16;\n  %sdep.pkg.DepEnum de = 20;\n", lbl, lbl)
	}
	if has("public") {
		fmt.Fprintf(&sb, "  %sdeep.pkg.DeepMsg dp = 17;\n", lbl)
	}
	sb.WriteString("}\n")
	if has("enum") {
		sb.WriteString("\nenum TopEnum {\n  option allow_alias = true;\n  TE_ZERO = 0;\n  TE_ONE = 1;\n  TE_UNO = 1")
		if has("stdopt") {
			sb.WriteString(" [deprecated = true]")
		}
		sb.WriteString(";\n")
		if has("reserved") {
			if s == "editions" {
				sb.WriteString("  reserved 5 to 9;\n  reserved TE_OLD;\n")
			} else {
				sb.WriteString("  reserved 5 to 9;\n  reserved \"TE_OLD\";\n")
			}
		}
		if has("features") {
			sb.WriteString("  option features.enum_type = OPEN;\n")
		}
		sb.WriteString("}\n")
	}
	if has("extend") {
		fmt.Fprintf(&sb, "\nextend Top {\n  %sint32 ext1 = 100;\n  repeated string ext2 = 101;\n}\n", lbl)
	}
	if has("extgroup") {
		sb.WriteString("\nextend Top {\n  optional group ExtGrp = 150 {\n    optional int32 eg = 1;\n  }\n}\nmessage ExtHolder {\n  extend Top {\n    optional group NestedExtGrp = 151 {\n      optional int32 neg = 1;\n    }\n  }\n}\n")
	}
	if has("service") {
		sb.WriteString("\nmessage Req {}\nmessage Resp {}\n")
		if has("comments") {
			sb.WriteString("// Leading comment of Svc.\n")
		}
		sb.WriteString("service Svc {\n  rpc Unary(Req) returns (Resp);\n  rpc Stream(stream Req) returns (stream Resp) {\n    option deprecated = true;\n  }\n}\n")
	}
	if has("customopt") {
		fmt.Fprintf(&sb, "\nmessage OptSub {\n  %sint32 leaf = 1;\n  repeated string names = 2;\n  %sOptSub sub = 3;\n}\n", lbl, lbl)
		fmt.Fprintf(&sb, "extend google.protobuf.FileOptions {\n  %sstring fopt = 50001;\n}\n", lbl)
		fmt.Fprintf(&sb, "extend google.protobuf.MessageOptions {\n  %sOptSub mopt = 50002;\n  %sOptSub mopt2 = 50003;\n}\n", lbl, lbl)
		fmt.Fprintf(&sb, "extend google.protobuf.FieldOptions {\n  %sint32 fldopt = 50004;\n", lbl)
		if has("srcret") {
			fmt.Fprintf(&sb, "  %sstring srcopt = 50005 [retention = RETENTION_SOURCE];\n", lbl)
		}
		sb.WriteString("}\n")
	}
	if has("comments") {
		sb.WriteString("\n// Trailing detached comment at end of file.\n")
	}
	text := sb.String()
	if has("weird_layout") {
		text = weird(text)
	}
	out[Main] = text

	// helper files: always proto3, plain
	out["dep.proto"] = "syntax = \"proto3\";\npackage dep.pkg;\nmessage DepMsg {\n  int32 x = 1;\n}\nenum DepEnum {\n  DEP_ZERO = 0;\n  DEP_ONE = 1;\n}\n"
	out["mid.proto"] = "syntax = \"proto3\";\npackage mid.pkg;\nimport public \"deep.proto\";\nmessage MidMsg {\n  deep.pkg.DeepMsg d = 1;\n}\n"
	out["deep.proto"] = "syntax = \"proto3\";\npackage deep.pkg;\nmessage DeepMsg {\n  string s = 1;\n}\n"
	return out
}

// weird rewrites the layout without changing the token sequence: CRLF line ends, tabs, a block
// comment and a form feed after some semicolons, no final newline.
func weird(text string) string {
	lines := strings.Split(strings.TrimRight(text, "\n"), "\n")
	var sb strings.Builder
	for i, l := range lines {
		l = strings.ReplaceAll(l, "  ", "\t")
		if strings.HasSuffix(l, ";") && !strings.Contains(l, "//") && i%3 == 0 {
			l += " /* cé */"
		}
		if i%7 == 3 && !strings.Contains(l, "//") {
			l += "\f"
		}
		sb.WriteString(l)
		if i+1 < len(lines) {
			sb.WriteString("\r\n")
		}
	}
	return sb.String()
}

// Files returns the paths of the workspace that main.proto transitively needs, main first.
func Files(c *Case) []string {
	fs := []string{Main}
	if c.Has("import") {
		fs = append(fs, "dep.proto")
	}
	if c.Has("public") {
		fs = append(fs, "mid.proto", "deep.proto")
	}
	return fs
}

// MeasuredKinds returns the element kinds present in a compiled main.proto (same vocabulary as
// FileFeatures!Kinds).
func MeasuredKinds(fd *descriptorpb.FileDescriptorProto) map[string]bool {
	k := map[string]bool{}
	var walkMsg func(m *descriptorpb.DescriptorProto, nested bool)
	walkField := func(f *descriptorpb.FieldDescriptorProto, ext bool) {
		if ext {
			k["extension"] = true
		} else {
			k["field"] = true
		}
		if f.GetType() == descriptorpb.FieldDescriptorProto_TYPE_GROUP {
			k["group"] = true
			if ext {
				k["group_in_extend"] = true
			}
		}
		if f.GetLabel() == descriptorpb.FieldDescriptorProto_LABEL_REQUIRED {
			k["required"] = true
		}
		if f.DefaultValue != nil {
			k["default_value"] = true
		}
		if f.JsonName != nil && f.GetJsonName() == "NAME" {
			k["json_name"] = true
		}
		if f.GetProto3Optional() {
			k["synthetic_oneof"] = true
		}
		if fs := f.GetOptions().GetFeatures(); fs != nil {
			if fs.GetMessageEncoding() == descriptorpb.FeatureSet_DELIMITED {
				k["delimited"] = true
			}
			if fs.GetFieldPresence() == descriptorpb.FeatureSet_LEGACY_REQUIRED {
				k["legacy_required"] = true
			}
		}
		if f.GetName() == "fooBar" {
			k["json_default_collision"] = true
		}
		if fs := f.GetOptions().GetFeatures(); fs != nil && (f.GetName() == "mf1" || f.GetName() == "mf2") {
			k["map_field_features"] = true
		}
		if f.GetOptions().GetRetention() == descriptorpb.FieldOptions_RETENTION_SOURCE {
			k["source_retention_option"] = true
		}
		if o := f.GetOptions(); o != nil && hasCustom(o) {
			k["custom_option_set"] = true
		}
	}
	walkMsg = func(m *descriptorpb.DescriptorProto, nested bool) {
		if nested {
			if m.GetOptions().GetMapEntry() {
				k["map_entry"] = true
			} else {
				k["nested_message"] = true
			}
		} else {
			k["message"] = true
		}
		for _, f := range m.Field {
			walkField(f, false)
		}
		for _, f := range m.Extension {
			walkField(f, true)
		}
		for _, o := range m.OneofDecl {
			_ = o
		}
		real := 0
		for i := range m.OneofDecl {
			synthetic := false
			for _, f := range m.Field {
				if f.OneofIndex != nil && int(f.GetOneofIndex()) == i && f.GetProto3Optional() {
					synthetic = true
				}
			}
			if !synthetic {
				real++
			}
		}
		if real > 0 {
			k["oneof"] = true
		}
		if len(m.ExtensionRange) > 0 {
			k["extension_range"] = true
		}
		if len(m.ReservedRange) > 0 {
			k["reserved_range"] = true
		}
		if len(m.ReservedName) > 0 {
			k["reserved_name"] = true
		}
		if o := m.GetOptions(); o != nil && hasCustom(o) {
			k["custom_option_set"] = true
		}
		for _, e := range m.EnumType {
			_ = e
			k["nested_enum"] = true
		}
		for _, n := range m.NestedType {
			walkMsg(n, true)
		}
	}
	for _, m := range fd.MessageType {
		walkMsg(m, false)
	}
	for _, e := range fd.EnumType {
		k["enum"] = true
		if e.GetOptions().GetAllowAlias() {
			k["enum_alias"] = true
		}
	}
	for _, f := range fd.Extension {
		walkField(f, true)
	}
	for _, sv := range fd.Service {
		k["service"] = true
		for _, m := range sv.Method {
			if m.GetClientStreaming() || m.GetServerStreaming() {
				k["streaming_method"] = true
			}
		}
	}
	if o := fd.GetOptions(); o != nil && hasCustom(o) {
		k["custom_option_set"] = true
	}
	return k
}

func hasCustom(m proto.Message) bool {
	r := m.ProtoReflect()
	if len(r.GetUnknown()) > 0 {
		return true
	}
	found := false
	r.Range(func(fd protoreflect.FieldDescriptor, _ protoreflect.Value) bool {
		if fd.IsExtension() {
			found = true
			return false
		}
		return true
	})
	return found
}

// CheckAgainstSpec compares the measured kinds and dependency list of a compiled main.proto with
// what FileFeatures.tla says; a non-empty result is a renderer (harness) bug.
func CheckAgainstSpec(c *Case, fd *descriptorpb.FileDescriptorProto) string {
	got := MeasuredKinds(fd)
	var probs []string
	for _, want := range c.Kinds {
		if !got[want] {
			probs = append(probs, "missing kind "+want)
		}
	}
	if strings.Join(fd.Dependency, ",") != strings.Join(c.Deps, ",") {
		probs = append(probs, fmt.Sprintf("deps %v want %v", fd.Dependency, c.Deps))
	}
	return strings.Join(probs, "; ")
}

// DetBytes is the deterministic encoding used to compare descriptors.
func DetBytes(m proto.Message) []byte {
	b, err := proto.MarshalOptions{Deterministic: true}.Marshal(m)
	if err != nil {
		panic(err)
	}
	return b
}
