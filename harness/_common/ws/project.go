package ws

import (
	"fmt"
	"sort"
	"strings"

	"google.golang.org/protobuf/encoding/protowire"
	"google.golang.org/protobuf/proto"
	"google.golang.org/protobuf/types/descriptorpb"

	"github.com/bufbuild/protocompile/parser"
	"github.com/bufbuild/protocompile/reporter"
)

// Elem is one named element of a FileDescriptorProto.
type Elem struct {
	Kind  string // message enum value oneof field ext service method
	FQN   string
	Msg   *descriptorpb.DescriptorProto
	Enum  *descriptorpb.EnumDescriptorProto
	Value *descriptorpb.EnumValueDescriptorProto
	Oneof *descriptorpb.OneofDescriptorProto
	Field *descriptorpb.FieldDescriptorProto // field or ext
	Svc   *descriptorpb.ServiceDescriptorProto
	Mtd   *descriptorpb.MethodDescriptorProto
}

// Options returns the element's options message (nil if unset).
func (e *Elem) Options() proto.Message {
	switch {
	case e.Msg != nil:
		if e.Msg.Options != nil {
			return e.Msg.Options
		}
	case e.Enum != nil:
		if e.Enum.Options != nil {
			return e.Enum.Options
		}
	case e.Value != nil:
		if e.Value.Options != nil {
			return e.Value.Options
		}
	case e.Oneof != nil:
		if e.Oneof.Options != nil {
			return e.Oneof.Options
		}
	case e.Field != nil:
		if e.Field.Options != nil {
			return e.Field.Options
		}
	case e.Svc != nil:
		if e.Svc.Options != nil {
			return e.Svc.Options
		}
	case e.Mtd != nil:
		if e.Mtd.Options != nil {
			return e.Mtd.Options
		}
	}
	return nil
}

func join(scope, name string) string {
	if scope == "" {
		return name
	}
	return scope + "." + name
}

// Index walks a FileDescriptorProto and returns its named elements by full name (protobuf
// scoping: enum values are siblings of their enum). Duplicated names keep the first element and
// are reported in dups.
func Index(fd *descriptorpb.FileDescriptorProto) (byName map[string]*Elem, dups []string) {
	byName = map[string]*Elem{}
	add := func(e *Elem) {
		if _, ok := byName[e.FQN]; ok {
			dups = append(dups, e.FQN)
			return
		}
		byName[e.FQN] = e
	}
	var enum func(scope string, ed *descriptorpb.EnumDescriptorProto)
	enum = func(scope string, ed *descriptorpb.EnumDescriptorProto) {
		add(&Elem{Kind: "enum", FQN: join(scope, ed.GetName()), Enum: ed})
		for _, v := range ed.Value {
			add(&Elem{Kind: "value", FQN: join(scope, v.GetName()), Value: v})
		}
	}
	var msg func(scope string, md *descriptorpb.DescriptorProto)
	msg = func(scope string, md *descriptorpb.DescriptorProto) {
		fqn := join(scope, md.GetName())
		add(&Elem{Kind: "message", FQN: fqn, Msg: md})
		for _, f := range md.Field {
			add(&Elem{Kind: "field", FQN: join(fqn, f.GetName()), Field: f})
		}
		for _, o := range md.OneofDecl {
			add(&Elem{Kind: "oneof", FQN: join(fqn, o.GetName()), Oneof: o})
		}
		for _, x := range md.Extension {
			add(&Elem{Kind: "ext", FQN: join(fqn, x.GetName()), Field: x})
		}
		for _, e := range md.EnumType {
			enum(fqn, e)
		}
		for _, n := range md.NestedType {
			msg(fqn, n)
		}
	}
	pkg := fd.GetPackage()
	for _, m := range fd.MessageType {
		msg(pkg, m)
	}
	for _, e := range fd.EnumType {
		enum(pkg, e)
	}
	for _, x := range fd.Extension {
		add(&Elem{Kind: "ext", FQN: join(pkg, x.GetName()), Field: x})
	}
	for _, s := range fd.Service {
		sfqn := join(pkg, s.GetName())
		add(&Elem{Kind: "service", FQN: sfqn, Svc: s})
		for _, m := range s.Method {
			add(&Elem{Kind: "method", FQN: join(sfqn, m.GetName()), Mtd: m})
		}
	}
	return byName, dups
}

// fieldNumbers lists the field numbers present in the wire form of an options message; an
// interpreted custom option shows up as its extension number (whether or not the runtime knows
// the extension). uninterpreted_option (999) is dropped.
func fieldNumbers(m proto.Message) ([]int, error) {
	if m == nil {
		return nil, nil
	}
	b, err := proto.MarshalOptions{Deterministic: true}.Marshal(m)
	if err != nil {
		return nil, err
	}
	var out []int
	for len(b) > 0 {
		num, typ, n := protowire.ConsumeTag(b)
		if n < 0 {
			return nil, protowire.ParseError(n)
		}
		b = b[n:]
		n = protowire.ConsumeFieldValue(num, typ, b)
		if n < 0 {
			return nil, protowire.ParseError(n)
		}
		b = b[n:]
		if num != 999 {
			out = append(out, int(num))
		}
	}
	sort.Ints(out)
	return out, nil
}

// Projection of one compiled file onto the reference sites of its workspace file.
type Projection struct {
	// Target is the fully-qualified name (no leading dot) found in the compiled descriptor at a
	// type / extendee / input / output site.
	Target map[Site]string
	// OptNums is, per declaration (0 = file), the sorted extension numbers set in its options.
	OptNums map[int][]int
}

// Project reads the resolved names out of the compiled descriptor proto of workspace file fi
// (1-based). Elements are located by full name computed from the case (File.FQN), so the
// projection does not depend on any lookup code of the compiler.
func Project(w Workspace, fi int, fd *descriptorpb.FileDescriptorProto) (*Projection, error) {
	f := &w[fi-1]
	if fd.GetName() != f.Path {
		return nil, fmt.Errorf("project: descriptor is %q, want %q", fd.GetName(), f.Path)
	}
	if fd.GetPackage() != strings.Join(f.Pkg, ".") {
		return nil, fmt.Errorf("project: package %q, want %q", fd.GetPackage(), strings.Join(f.Pkg, "."))
	}
	idx, dups := Index(fd)
	if len(dups) > 0 {
		return nil, fmt.Errorf("project: duplicate names in descriptor: %v", dups)
	}
	p := &Projection{Target: map[Site]string{}, OptNums: map[int][]int{}}
	if fd.Options != nil {
		nums, err := fieldNumbers(fd.Options)
		if err != nil {
			return nil, err
		}
		p.OptNums[0] = nums
	}
	for i := range f.Decls {
		d := i + 1
		dl := &f.Decls[i]
		e := idx[f.FQN(d)]
		if e == nil || e.Kind != dl.Kind {
			return nil, fmt.Errorf("project: %s %s of %s not in descriptor", dl.Kind, f.FQN(d), f.Path)
		}
		strip := func(s string) string {
			if !strings.HasPrefix(s, ".") {
				return "!notabsolute:" + s
			}
			return s[1:]
		}
		switch dl.Kind {
		case "field", "ext":
			if dl.Type.IsRef() {
				p.Target[Site{fi, d, "type"}] = strip(e.Field.GetTypeName())
			}
			if dl.Kind == "ext" {
				p.Target[Site{fi, d, "extendee"}] = strip(e.Field.GetExtendee())
			}
		case "method":
			p.Target[Site{fi, d, "input"}] = strip(e.Mtd.GetInputType())
			p.Target[Site{fi, d, "output"}] = strip(e.Mtd.GetOutputType())
		}
		if len(dl.Opts) > 0 || e.Options() != nil {
			nums, err := fieldNumbers(e.Options())
			if err != nil {
				return nil, err
			}
			p.OptNums[d] = nums
		}
	}
	return p, nil
}

// ---------------------------------------------------------------------------------------------
// Cross-check of the trusted base: render -> parse (no linking) -> read the names back.

// ParseBack parses one rendered file and reconstructs a canonical view of what is written in it:
// "kind:/path/of/parents/name" -> attributes (number, spellings as written, option names).
func ParseBack(path, src string) (map[string]string, error) {
	var errs []string
	h := reporter.NewHandler(reporter.NewReporter(func(e reporter.ErrorWithPos) error {
		errs = append(errs, e.Error())
		return nil
	}, nil))
	ast, err := parser.Parse(path, strings.NewReader(src), h)
	if err != nil || len(errs) > 0 {
		return nil, fmt.Errorf("parse %s: %v %v", path, err, errs)
	}
	res, err := parser.ResultFromAST(ast, true, h)
	if err != nil || len(errs) > 0 {
		return nil, fmt.Errorf("to-descriptor %s: %v %v", path, err, errs)
	}
	fd := res.FileDescriptorProto()
	out := map[string]string{}
	optNames := func(m proto.Message) string {
		if m == nil {
			return ""
		}
		var names []string
		uo := m.ProtoReflect().Get(m.ProtoReflect().Descriptor().Fields().ByNumber(999)).List()
		for i := 0; i < uo.Len(); i++ {
			u := uo.Get(i).Message().Interface().(*descriptorpb.UninterpretedOption)
			var parts []string
			for _, np := range u.Name {
				if np.GetIsExtension() {
					parts = append(parts, "("+np.GetNamePart()+")")
				} else {
					parts = append(parts, np.GetNamePart())
				}
			}
			names = append(names, strings.Join(parts, ".")+"="+fmt.Sprint(u.GetPositiveIntValue()))
		}
		return strings.Join(names, ",")
	}
	syn := fd.GetSyntax()
	if syn == "" {
		syn = "proto2"
	}
	pub := map[int32]bool{}
	for _, i := range fd.PublicDependency {
		pub[i] = true
	}
	var imps []string
	for i, d := range fd.Dependency {
		k := "plain"
		if pub[int32(i)] {
			k = "public"
		}
		imps = append(imps, k+":"+d)
	}
	var fo proto.Message
	if fd.Options != nil {
		fo = fd.Options
	}
	out["file"] = fmt.Sprintf("syntax=%s pkg=%s imports=%s opts=%s", syn, fd.GetPackage(), strings.Join(imps, ","), optNames(fo))
	fld := func(prefix, kind string, f *descriptorpb.FieldDescriptorProto, xr bool) {
		typ := f.GetTypeName()
		if typ == "" {
			typ = strings.ToLower(strings.TrimPrefix(f.GetType().String(), "TYPE_"))
		}
		var o proto.Message
		if f.Options != nil {
			o = f.Options
		}
		out[kind+":"+prefix+"/"+f.GetName()] = fmt.Sprintf("num=%d type=%s extendee=%s opts=%s", f.GetNumber(), typ, f.GetExtendee(), optNames(o))
	}
	var enum func(prefix string, e *descriptorpb.EnumDescriptorProto)
	enum = func(prefix string, e *descriptorpb.EnumDescriptorProto) {
		var o proto.Message
		if e.Options != nil {
			o = e.Options
		}
		p := prefix + "/" + e.GetName()
		out["enum:"+p] = "opts=" + optNames(o)
		for _, v := range e.Value {
			var vo proto.Message
			if v.Options != nil {
				vo = v.Options
			}
			out["value:"+p+"/"+v.GetName()] = fmt.Sprintf("num=%d opts=%s", v.GetNumber(), optNames(vo))
		}
	}
	var msg func(prefix string, m *descriptorpb.DescriptorProto)
	msg = func(prefix string, m *descriptorpb.DescriptorProto) {
		var o proto.Message
		if m.Options != nil {
			o = m.Options
		}
		p := prefix + "/" + m.GetName()
		var xr []string
		for _, r := range m.ExtensionRange {
			xr = append(xr, fmt.Sprintf("%d-%d", r.GetStart(), r.GetEnd()-1))
		}
		out["message:"+p] = fmt.Sprintf("xr=%s opts=%s", strings.Join(xr, ","), optNames(o))
		for i, oo := range m.OneofDecl {
			var ov proto.Message
			if oo.Options != nil {
				ov = oo.Options
			}
			out["oneof:"+p+"/"+oo.GetName()] = "opts=" + optNames(ov)
			_ = i
		}
		for _, f := range m.Field {
			fp := p
			if f.OneofIndex != nil {
				fp = p + "/" + m.OneofDecl[f.GetOneofIndex()].GetName()
			}
			fld(fp, "field", f, false)
		}
		for _, x := range m.Extension {
			fld(p, "ext", x, true)
		}
		for _, e := range m.EnumType {
			enum(p, e)
		}
		for _, n := range m.NestedType {
			msg(p, n)
		}
	}
	for _, m := range fd.MessageType {
		msg("", m)
	}
	for _, e := range fd.EnumType {
		enum("", e)
	}
	for _, x := range fd.Extension {
		fld("", "ext", x, true)
	}
	for _, s := range fd.Service {
		var o proto.Message
		if s.Options != nil {
			o = s.Options
		}
		p := "/" + s.GetName()
		out["service:"+p] = "opts=" + optNames(o)
		for _, m := range s.Method {
			var mo proto.Message
			if m.Options != nil {
				mo = m.Options
			}
			out["method:"+p+"/"+m.GetName()] = fmt.Sprintf("input=%s output=%s opts=%s", m.GetInputType(), m.GetOutputType(), optNames(mo))
		}
	}
	return out, nil
}

// Canon computes, directly from the case, the view ParseBack must reproduce.
func Canon(f *File) map[string]string {
	out := map[string]string{}
	optNames := func(o []OptUse) string {
		var names []string
		for _, u := range o {
			names = append(names, "("+u.Name.String()+")=1")
		}
		return strings.Join(names, ",")
	}
	var imps []string
	for _, im := range f.Imports {
		imps = append(imps, im.Kind+":"+im.Path)
	}
	out["file"] = fmt.Sprintf("syntax=%s pkg=%s imports=%s opts=%s", f.Syntax, strings.Join(f.Pkg, "."), strings.Join(imps, ","), optNames(f.Opts))
	var path func(d int) string
	path = func(d int) string {
		if d == 0 {
			return ""
		}
		return path(f.Decls[d-1].Parent) + "/" + f.Decls[d-1].Name
	}
	for i := range f.Decls {
		dl := &f.Decls[i]
		key := dl.Kind + ":" + path(i+1)
		switch dl.Kind {
		case "message":
			xr := "1000-1999"
			if f.Syntax == "proto3" {
				xr = ""
			}
			out[key] = fmt.Sprintf("xr=%s opts=%s", xr, optNames(dl.Opts))
		case "enum", "oneof", "service":
			out[key] = "opts=" + optNames(dl.Opts)
		case "value":
			n := 0
			for j := 0; j < i; j++ {
				if f.Decls[j].Parent == dl.Parent {
					n++
				}
			}
			out[key] = fmt.Sprintf("num=%d opts=%s", n, optNames(dl.Opts))
		case "field", "ext":
			typ := "int32"
			if dl.Type.IsRef() {
				typ = dl.Type.String()
			}
			ext := ""
			if dl.Kind == "ext" {
				ext = dl.Extendee.String()
			}
			out[key] = fmt.Sprintf("num=%d type=%s extendee=%s opts=%s", dl.Num, typ, ext, optNames(dl.Opts))
		case "method":
			out[key] = fmt.Sprintf("input=%s output=%s opts=%s", dl.Input.String(), dl.Output.String(), optNames(dl.Opts))
		}
	}
	return out
}

// CrossCheck renders the workspace, parses every file back WITHOUT linking and compares what is
// written with the case. A non-nil error is a harness bug (or a parser defect), never a finding
// about name resolution.
func CrossCheck(w Workspace, rd *Rendered) error {
	for i := range w {
		if w[i].Builtin {
			continue
		}
		got, err := ParseBack(w[i].Path, rd.Src[w[i].Path])
		if err != nil {
			return err
		}
		want := Canon(&w[i])
		if len(got) != len(want) {
			return fmt.Errorf("crosscheck %s: %d elements parsed back, case has %d\n%v\n%v", w[i].Path, len(got), len(want), got, want)
		}
		for k, v := range want {
			if got[k] != v {
				return fmt.Errorf("crosscheck %s: %s: parsed back %q, case says %q", w[i].Path, k, got[k], v)
			}
		}
	}
	// the recorded spans must contain exactly the spelling
	for s, sp := range rd.Spans {
		lines := strings.Split(rd.Src[w[s.File-1].Path], "\n")
		if sp.Line < 1 || sp.Line > len(lines) || sp.EndCol-1 > len(lines[sp.Line-1]) {
			return fmt.Errorf("crosscheck: span of %v outside the text", s)
		}
		txt := lines[sp.Line-1][sp.Col-1 : sp.EndCol-1]
		if txt != w[s.File-1].Slot(s.Decl, s.Slot).String() {
			return fmt.Errorf("crosscheck: span of %v holds %q, want %q", s, txt, w[s.File-1].Slot(s.Decl, s.Slot).String())
		}
	}
	return nil
}
