package ws

import (
	"context"
	"fmt"
	"runtime/debug"

	"github.com/bufbuild/protocompile"
	"github.com/bufbuild/protocompile/linker"
	"github.com/bufbuild/protocompile/reporter"
)

// Diag is one reported error or warning.
type Diag struct {
	File string `json:"file"`
	Line int    `json:"line"`
	Col  int    `json:"col"`
	Msg  string `json:"msg"` // underlying message without the position prefix
	// Unused is the import path when the diagnostic is linker.ErrorUnusedImport
	Unused string `json:"unused,omitempty"`
}

func (d Diag) String() string { return fmt.Sprintf("%s:%d:%d: %s", d.File, d.Line, d.Col, d.Msg) }

// Result of compiling a workspace with the stable compiler.
type Result struct {
	Targets  []string
	Files    linker.Files // parallel to Targets; nil entries when compilation failed
	Err      error        // what Compile returned
	Errors   []Diag       // every error the reporter saw (the reporter keeps going)
	Warnings []Diag
	Panic    string // non-empty if the compiler panicked
}

func (r *Result) OK() bool { return r.Err == nil && r.Panic == "" && len(r.Errors) == 0 }

// File returns the compiled file for path (nil if not a target or failed).
func (r *Result) File(path string) linker.File {
	for i, t := range r.Targets {
		if t == path && i < len(r.Files) {
			return r.Files[i]
		}
	}
	return nil
}

func diagOf(e reporter.ErrorWithPos) Diag {
	p := e.GetPosition()
	d := Diag{File: p.Filename, Line: p.Line, Col: p.Col, Msg: e.Unwrap().Error()}
	if u, ok := e.Unwrap().(linker.ErrorUnusedImport); ok {
		d.Unused = u.UnusedImport()
	}
	return d
}

// CompileSources compiles the target paths from in-memory sources with the stable compiler
// (standard imports available, parallelism 1, all errors and warnings collected).
func CompileSources(src map[string]string, targets []string) (res *Result) {
	res = &Result{Targets: targets}
	defer func() {
		if p := recover(); p != nil {
			res.Panic = fmt.Sprintf("%v\n%s", p, debug.Stack())
		}
	}()
	rep := reporter.NewReporter(
		func(e reporter.ErrorWithPos) error {
			res.Errors = append(res.Errors, diagOf(e))
			return nil
		},
		func(e reporter.ErrorWithPos) {
			res.Warnings = append(res.Warnings, diagOf(e))
		})
	c := protocompile.Compiler{
		Resolver: protocompile.WithStandardImports(&protocompile.SourceResolver{
			Accessor: protocompile.SourceAccessorFromMap(src),
		}),
		MaxParallelism: 1,
		Reporter:       rep,
	}
	files, err := c.Compile(context.Background(), targets...)
	res.Files, res.Err = files, err
	if pe, ok := err.(protocompile.PanicError); ok {
		res.Panic = pe.Error()
	}
	return res
}

// UserPaths lists the non-builtin files in workspace order.
func (w Workspace) UserPaths() []string {
	var out []string
	for i := range w {
		if !w[i].Builtin {
			out = append(out, w[i].Path)
		}
	}
	return out
}

// Compile renders the workspace and compiles the given targets (all user files when nil), all in
// one Compile call, i.e. one symbol pool.
func Compile(w Workspace, targets []string) (*Rendered, *Result) {
	rd := Render(w)
	if targets == nil {
		targets = w.UserPaths()
	}
	return rd, CompileSources(rd.Src, targets)
}
