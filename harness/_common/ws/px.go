package ws

import (
	"fmt"
	"strconv"
	"strings"

	"google.golang.org/protobuf/proto"
	"google.golang.org/protobuf/types/descriptorpb"

	"github.com/bufbuild/protocompile/parser"
	"github.com/bufbuild/protocompile/reporter"
)

// ParseBackX parses one file rendered with the explicit conventions (no validation, no linking)
// and reconstructs the view CanonX computes from the case. syntaxErr = true means the text is not
// syntactically a .proto file for this parser (a legitimate outcome for some mutants).
func ParseBackX(path, src string) (out map[string]string, syntaxErr bool, err error) {
	var errs []string
	h := reporter.NewHandler(reporter.NewReporter(func(e reporter.ErrorWithPos) error {
		errs = append(errs, e.Error())
		return nil
	}, nil))
	ast, perr := parser.Parse(path, strings.NewReader(src), h)
	if perr != nil || len(errs) > 0 {
		return nil, true, fmt.Errorf("parse %s: %v %v", path, perr, errs)
	}
	res, rerr := parser.ResultFromAST(ast, false, h)
	if res == nil {
		return nil, true, fmt.Errorf("to-descriptor %s: %v %v", path, rerr, errs)
	}
	fd := res.FileDescriptorProto()
	out = map[string]string{}
	optNames := func(m proto.Message) string {
		if m == nil {
			return ""
		}
		var names []string
		uo := m.ProtoReflect().Get(m.ProtoReflect().Descriptor().Fields().ByNumber(999)).List()
		for i := 0; i < uo.Len(); i++ {
			u := uo.Get(i).Message().Interface().(*descriptorpb.UninterpretedOption)
			if len(u.Name) == 1 && !u.Name[0].GetIsExtension() {
				continue // default / json_name / other plain options are read from their own fields
			}
			var parts []string
			for _, np := range u.Name {
				if np.GetIsExtension() {
					parts = append(parts, "("+np.GetNamePart()+")")
				} else {
					parts = append(parts, np.GetNamePart())
				}
			}
			names = append(names, strings.Join(parts, ".")+"="+fmt.Sprint(u.GetPositiveIntValue()))
		}
		return strings.Join(names, ",")
	}
	plainOpt := func(m *descriptorpb.FieldOptions, name string) string {
		for _, u := range m.GetUninterpretedOption() {
			if len(u.Name) == 1 && !u.Name[0].GetIsExtension() && u.Name[0].GetNamePart() == name {
				switch {
				case u.IdentifierValue != nil:
					return u.GetIdentifierValue()
				case u.PositiveIntValue != nil:
					return fmt.Sprint(u.GetPositiveIntValue())
				case u.StringValue != nil:
					if string(u.GetStringValue()) == "a\x7f\x01" { // the generators' token for this byte string
						return "del"
					}
					return string(u.GetStringValue())
				case u.DoubleValue != nil:
					// as the generators spell it: shortest form, exponent without '+'
					return strings.Replace(strconv.FormatFloat(u.GetDoubleValue(), 'g', -1, 64), "e+", "e", 1)
				}
				return "?"
			}
		}
		return ""
	}
	syn := fd.GetSyntax()
	if syn == "" {
		syn = "proto2"
	}
	pub := map[int32]bool{}
	for _, i := range fd.PublicDependency {
		pub[i] = true
	}
	var imps []string
	for i, d := range fd.Dependency {
		k := "plain"
		if pub[int32(i)] {
			k = "public"
		}
		imps = append(imps, k+":"+d)
	}
	var fo proto.Message
	if fd.Options != nil {
		fo = fd.Options
	}
	out["file"] = fmt.Sprintf("syntax=%s pkg=%s imports=%s opts=%s", syn, fd.GetPackage(), strings.Join(imps, ","), optNames(fo))
	scalarOrName := func(f *descriptorpb.FieldDescriptorProto) string {
		if f.GetTypeName() != "" {
			return f.GetTypeName()
		}
		return strings.ToLower(strings.TrimPrefix(f.GetType().String(), "TYPE_"))
	}
	fld := func(prefix, kind string, f *descriptorpb.FieldDescriptorProto, entries map[string]*descriptorpb.DescriptorProto) {
		typ := scalarOrName(f)
		if e := entries[f.GetTypeName()]; e != nil && len(e.Field) == 2 {
			typ = "map<" + scalarOrName(e.Field[0]) + "," + scalarOrName(e.Field[1]) + ">"
		}
		var o proto.Message
		if f.Options != nil {
			o = f.Options
		}
		label := strings.ToLower(strings.TrimPrefix(f.GetLabel().String(), "LABEL_"))
		out[kind+":"+prefix+"/"+f.GetName()] = fmt.Sprintf("num=%d label=%s type=%s extendee=%s dflt=%s json=%s dep=%s opts=%s",
			f.GetNumber(), label, typ, f.GetExtendee(), plainOpt(f.Options, "default"), plainOpt(f.Options, "json_name"),
			plainOpt(f.Options, "deprecated"), optNames(o))
	}
	var enum func(prefix string, e *descriptorpb.EnumDescriptorProto)
	enum = func(prefix string, e *descriptorpb.EnumDescriptorProto) {
		var o proto.Message
		if e.Options != nil {
			o = e.Options
		}
		p := prefix + "/" + e.GetName()
		alias := false
		for _, u := range e.GetOptions().GetUninterpretedOption() {
			if len(u.Name) == 1 && u.Name[0].GetNamePart() == "allow_alias" && u.GetIdentifierValue() == "true" {
				alias = true
			}
		}
		var err []string
		for _, r := range e.ReservedRange {
			err = append(err, fmt.Sprintf("%d-%d", r.GetStart(), r.GetEnd())) // inclusive for enums
		}
		out["enum:"+p] = fmt.Sprintf("alias=%v rr=%s rn=%s opts=%s", alias, strings.Join(err, ","), strings.Join(dedupe(e.ReservedName), ","), optNames(o))
		for _, v := range e.Value {
			var vo proto.Message
			if v.Options != nil {
				vo = v.Options
			}
			out["value:"+p+"/"+v.GetName()] = fmt.Sprintf("num=%d opts=%s", v.GetNumber(), optNames(vo))
		}
	}
	var msg func(prefix string, m *descriptorpb.DescriptorProto)
	msg = func(prefix string, m *descriptorpb.DescriptorProto) {
		var o proto.Message
		if m.Options != nil {
			o = m.Options
		}
		p := prefix + "/" + m.GetName()
		var xr, rr []string
		for _, r := range m.ExtensionRange {
			xr = append(xr, fmt.Sprintf("%d-%d", r.GetStart(), r.GetEnd()-1))
		}
		for _, r := range m.ReservedRange {
			rr = append(rr, fmt.Sprintf("%d-%d", r.GetStart(), r.GetEnd()-1))
		}
		out["message:"+p] = fmt.Sprintf("xr=%s rr=%s rn=%s opts=%s", strings.Join(xr, ","), strings.Join(rr, ","), strings.Join(dedupe(m.ReservedName), ","), optNames(o))
		entries := map[string]*descriptorpb.DescriptorProto{}
		for _, n := range m.NestedType {
			if n.GetOptions().GetMapEntry() {
				entries[n.GetName()] = n
			}
		}
		synthetic := map[int32]bool{}
		for _, f := range m.Field {
			if f.OneofIndex != nil && f.GetProto3Optional() {
				synthetic[f.GetOneofIndex()] = true
			}
		}
		for oi, oo := range m.OneofDecl {
			if synthetic[int32(oi)] {
				continue // synthetic oneof of a proto3 optional field
			}
			var ov proto.Message
			if oo.Options != nil {
				ov = oo.Options
			}
			out["oneof:"+p+"/"+oo.GetName()] = "opts=" + optNames(ov)
		}
		for _, f := range m.Field {
			fp := p
			if f.OneofIndex != nil && !f.GetProto3Optional() {
				fp = p + "/" + m.OneofDecl[f.GetOneofIndex()].GetName()
			}
			fld(fp, "field", f, entries)
		}
		for _, x := range m.Extension {
			fld(p, "ext", x, nil)
		}
		for _, e := range m.EnumType {
			enum(p, e)
		}
		for _, n := range m.NestedType {
			if entries[n.GetName()] == nil {
				msg(p, n)
			}
		}
	}
	for _, m := range fd.MessageType {
		msg("", m)
	}
	for _, e := range fd.EnumType {
		enum("", e)
	}
	for _, x := range fd.Extension {
		fld("", "ext", x, nil)
	}
	for _, s := range fd.Service {
		var o proto.Message
		if s.Options != nil {
			o = s.Options
		}
		p := "/" + s.GetName()
		out["service:"+p] = "opts=" + optNames(o)
		for _, m := range s.Method {
			var mo proto.Message
			if m.Options != nil {
				mo = m.Options
			}
			out["method:"+p+"/"+m.GetName()] = fmt.Sprintf("input=%s output=%s cs=%v ss=%v opts=%s", m.GetInputType(), m.GetOutputType(),
				m.GetClientStreaming(), m.GetServerStreaming(), optNames(mo))
		}
	}
	return out, false, nil
}

// CrossCheckX is CrossCheck for workspaces whose files use the explicit conventions. Files the
// parser rejects syntactically are skipped and listed (some one-rule mutants are syntax errors
// for this parser); every other file must read back exactly as the case says.
func CrossCheckX(w Workspace, rd *Rendered) (skipped []string, err error) {
	for i := range w {
		if w[i].Builtin {
			continue
		}
		got, syntaxErr, perr := ParseBackX(w[i].Path, rd.Src[w[i].Path])
		if syntaxErr {
			skipped = append(skipped, w[i].Path+": "+perr.Error())
			continue
		}
		want := CanonX(&w[i])
		for k, v := range want {
			if got[k] != v {
				return skipped, fmt.Errorf("crosscheck %s: %s: parsed back %q, case says %q\n%s", w[i].Path, k, got[k], v, rd.Src[w[i].Path])
			}
		}
		if len(got) != len(want) {
			return skipped, fmt.Errorf("crosscheck %s: %d elements parsed back, case has %d\n%v\n%v", w[i].Path, len(got), len(want), got, want)
		}
	}
	for s, sp := range rd.Spans {
		lines := strings.Split(rd.Src[w[s.File-1].Path], "\n")
		if sp.Line < 1 || sp.Line > len(lines) || sp.EndCol-1 > len(lines[sp.Line-1]) {
			return skipped, fmt.Errorf("crosscheck: span of %v outside the text", s)
		}
		txt := lines[sp.Line-1][sp.Col-1 : sp.EndCol-1]
		if txt != w[s.File-1].Slot(s.Decl, s.Slot).String() {
			return skipped, fmt.Errorf("crosscheck: span of %v holds %q, want %q", s, txt, w[s.File-1].Slot(s.Decl, s.Slot).String())
		}
	}
	return skipped, nil
}
