package ws

import (
	"fmt"
	"strings"
)

// MaxFieldNum is rendered as `max` in ranges.
const MaxFieldNum = 536870911

// Explicit conventions (File.X, spec/ProtoValid.tla):
//   - a field / extension is `[label ]type name = num[ [default = V, json_name = "J", (opt) = 1]];`
//     with the label exactly as given (none when empty), type = map<key, T> | reference | scalar
//   - a message lists `extensions lo to hi;`, `reserved lo to hi;`, `reserved "name";` (one statement
//     per entry, in that order) before its members; hi = 536870911 is written `max`; in an editions
//     file a reserved name is written as an identifier (`reserved name;`)
//   - enum values carry their own numbers
//   - string / bytes defaults are quoted, every other default is written as is
//   - field options in brackets in the order default, json_name, deprecated, custom options
//   - `option allow_alias = true;` is the first statement of an enum with Alias
//   - a group is two declarations: its message (Grp) and its field (Gof = index of the message,
//     Type = the message's name); they are rendered as one `label group Name = num { ... }`

func rangeText(r [2]int) string {
	if r[1] == MaxFieldNum {
		return fmt.Sprintf("%d to max", r[0])
	}
	if r[0] == r[1] {
		return fmt.Sprintf("%d", r[0])
	}
	return fmt.Sprintf("%d to %d", r[0], r[1])
}

func (r *fileRenderer) rangesX(dl *Decl, ind string) {
	if dl.XOpt != "" && len(dl.XR) > 0 {
		// one statement for all ranges, with options that therefore belong to every range
		var rs []string
		for _, x := range dl.XR {
			rs = append(rs, rangeText(x))
		}
		opts := "verification = UNVERIFIED"
		if dl.XOpt == "vr" {
			opts += ", (.a.zrep) = 7"
		}
		r.w.put(ind + "extensions " + strings.Join(rs, ", ") + " [" + opts + "];\n")
	} else {
		for _, x := range dl.XR {
			r.w.put(ind + "extensions " + rangeText(x) + ";\n")
		}
	}
	for _, x := range dl.RR {
		r.w.put(ind + "reserved " + rangeText(x) + ";\n")
	}
	for _, n := range dl.RN {
		if r.f.Syntax == "editions" {
			r.w.put(ind + "reserved " + n + ";\n") // editions: identifiers, not string literals
		} else {
			r.w.put(ind + "reserved \"" + n + "\";\n")
		}
	}
}

// ScalarOf returns the scalar type of a declaration without type reference.
func (d *Decl) ScalarOf() string {
	if d.Scalar == "" {
		return "int32"
	}
	return d.Scalar
}

func (r *fileRenderer) typeX(d int, dl *Decl) {
	if dl.Type.IsRef() {
		r.ref(d, "type", dl.Type)
	} else {
		r.w.put(dl.ScalarOf())
	}
}

// groupX renders `label group Name = num { body of the group's message }` for a field with Gof set.
func (r *fileRenderer) groupX(d int, ind string) {
	dl := &r.f.Decls[d-1]
	g := &r.f.Decls[dl.Gof-1]
	r.w.put(ind)
	if dl.Label != "" {
		r.w.put(dl.Label + " ")
	}
	r.w.put(fmt.Sprintf("group %s = %d {\n", g.Name, dl.Num))
	r.messageBody(dl.Gof, ind+"  ")
	r.w.put(ind + "}\n")
}

func (r *fileRenderer) fieldLineX(d int, ind string) {
	dl := &r.f.Decls[d-1]
	r.w.put(ind)
	if dl.Label != "" {
		r.w.put(dl.Label + " ")
	}
	if dl.MapKey != "" {
		r.w.put("map<" + dl.MapKey + ", ")
		r.typeX(d, dl)
		r.w.put(">")
	} else {
		r.typeX(d, dl)
	}
	r.w.put(fmt.Sprintf(" %s = %d", dl.Name, dl.Num))
	var pre []string
	if dl.Dflt != "" {
		v := dl.Dflt
		if !dl.Type.IsRef() && (dl.ScalarOf() == "string" || dl.ScalarOf() == "bytes") && v == "hi" {
			v = "\"hi\""
		}
		if !dl.Type.IsRef() && dl.ScalarOf() == "bytes" && v == "del" {
			v = `"a\x7f\001"`
		}
		pre = append(pre, "default = "+v)
	}
	if dl.Json != "" {
		pre = append(pre, "json_name = \""+dl.Json+"\"")
	}
	if dl.Dep {
		pre = append(pre, "deprecated = true")
	}
	if len(pre) > 0 || len(dl.Opts) > 0 {
		r.w.put(" [" + strings.Join(pre, ", "))
		for k, o := range dl.Opts {
			if k > 0 || len(pre) > 0 {
				r.w.put(", ")
			}
			r.w.put("(")
			r.ref(d, OptSlot(k+1), o.Name)
			r.w.put(") = 1")
		}
		r.w.put("]")
	}
	r.w.put(";\n")
}

// ---------------------------------------------------------------------------------------------
// cross-check for files rendered with the explicit conventions

func rangesText(rs [][2]int) string {
	var out []string
	for _, r := range rs {
		out = append(out, fmt.Sprintf("%d-%d", r[0], r[1]))
	}
	return strings.Join(out, ",")
}

// CanonX computes, directly from the case, the view ParseBackX must reproduce. A field without
// label is compared as `optional` (`repeated` for a map field): the parser fills missing labels in.
func CanonX(f *File) map[string]string {
	out := map[string]string{}
	optNames := func(o []OptUse) string {
		var names []string
		for _, u := range o {
			names = append(names, "("+u.Name.String()+")=1")
		}
		return strings.Join(names, ",")
	}
	var imps []string
	for _, im := range f.Imports {
		imps = append(imps, im.Kind+":"+im.Path)
	}
	out["file"] = fmt.Sprintf("syntax=%s pkg=%s imports=%s opts=%s", f.Syntax, strings.Join(f.Pkg, "."), strings.Join(imps, ","), optNames(f.Opts))
	var path func(d int) string
	path = func(d int) string {
		if d == 0 {
			return ""
		}
		return path(f.Decls[d-1].Parent) + "/" + f.Decls[d-1].Name
	}
	for i := range f.Decls {
		dl := &f.Decls[i]
		key := dl.Kind + ":" + path(i+1)
		switch dl.Kind {
		case "message":
			out[key] = fmt.Sprintf("xr=%s rr=%s rn=%s opts=%s", rangesText(dl.XR), rangesText(dl.RR), strings.Join(dedupe(dl.RN), ","), optNames(dl.Opts))
		case "enum":
			out[key] = fmt.Sprintf("alias=%v rr=%s rn=%s opts=%s", dl.Alias, rangesText(dl.RR), strings.Join(dedupe(dl.RN), ","), optNames(dl.Opts))
		case "oneof", "service":
			out[key] = "opts=" + optNames(dl.Opts)
		case "value":
			out[key] = fmt.Sprintf("num=%d opts=%s", dl.Num, optNames(dl.Opts))
		case "field", "ext":
			typ := dl.ScalarOf()
			if dl.Type.IsRef() {
				typ = dl.Type.String()
			}
			label := dl.Label
			if dl.MapKey != "" {
				typ = "map<" + dl.MapKey + "," + typ + ">"
				if label == "" {
					label = "repeated"
				}
			}
			if label == "" {
				label = "optional"
			}
			ext := ""
			if dl.Kind == "ext" {
				ext = dl.Extendee.String()
			}
			dep := ""
			if dl.Dep {
				dep = "true"
			}
			out[key] = fmt.Sprintf("num=%d label=%s type=%s extendee=%s dflt=%s json=%s dep=%s opts=%s", dl.Num, label, typ, ext, dl.Dflt, dl.Json, dep, optNames(dl.Opts))
		case "method":
			out[key] = fmt.Sprintf("input=%s output=%s cs=%v ss=%v opts=%s", dl.Input.String(), dl.Output.String(), dl.CS, dl.SS, optNames(dl.Opts))
		}
	}
	return out
}

// dedupe keeps the first occurrence of every name (the parser's descriptor lists a reserved name
// once even when the source reserves it twice, which it reports as an error).
func dedupe(s []string) []string {
	seen := map[string]bool{}
	var out []string
	for _, x := range s {
		if !seen[x] {
			seen[x] = true
			out = append(out, x)
		}
	}
	return out
}
