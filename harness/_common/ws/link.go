package ws

import (
	"fmt"
	"runtime/debug"
	"strings"

	"github.com/bufbuild/protocompile/linker"
	"github.com/bufbuild/protocompile/parser"
	"github.com/bufbuild/protocompile/reporter"
)

// LinkSuperset produces linked files the way a direct user of linker.Link does: every user file
// is parsed (parser.Parse + parser.ResultFromAST) and the files are linked bottom-up in a
// topological order of the import graph, each one receiving ALL previously linked files of the
// workspace as its dependencies (a strict superset of its imports whenever an earlier file is not
// imported). One Symbols table is shared. Options are not interpreted (the lookup checks that use
// this do not need them). Builtin files must not be imported by the workspace (no standard-import
// resolution here). The result is parallel to w.UserPaths().
func LinkSuperset(w Workspace, src map[string]string) (res *Result) {
	res = &Result{Targets: w.UserPaths()}
	defer func() {
		if p := recover(); p != nil {
			res.Panic = fmt.Sprintf("%v\n%s", p, debug.Stack())
		}
	}()
	h := reporter.NewHandler(reporter.NewReporter(
		func(e reporter.ErrorWithPos) error {
			res.Errors = append(res.Errors, diagOf(e))
			return nil
		},
		func(e reporter.ErrorWithPos) {
			res.Warnings = append(res.Warnings, diagOf(e))
		}))
	// topological order: repeatedly take the first file whose imports are all done
	done := map[string]bool{}
	var order []int
	for len(order) < len(res.Targets) {
		progress := false
		for i := range w {
			if w[i].Builtin || done[w[i].Path] {
				continue
			}
			ready := true
			for _, im := range w[i].Imports {
				if !done[im.Path] {
					ready = false
				}
			}
			if ready {
				done[w[i].Path] = true
				order = append(order, i)
				progress = true
			}
		}
		if !progress {
			res.Err = fmt.Errorf("LinkSuperset: import cycle or import of a file that is not a user file")
			return res
		}
	}
	syms := &linker.Symbols{}
	var linked linker.Files
	byPath := map[string]linker.File{}
	for _, i := range order {
		path := w[i].Path
		ast, err := parser.Parse(path, strings.NewReader(src[path]), h)
		if err != nil {
			res.Err = err
			return res
		}
		pr, err := parser.ResultFromAST(ast, true, h)
		if err != nil {
			res.Err = err
			return res
		}
		deps := append(linker.Files{}, linked...) // everything linked so far, not just the imports
		lr, err := linker.Link(pr, deps, syms, h)
		if err != nil {
			res.Err = err
			return res
		}
		linked = append(linked, lr)
		byPath[path] = lr
	}
	res.Files = make(linker.Files, len(res.Targets))
	for i, t := range res.Targets {
		res.Files[i] = byPath[t]
	}
	return res
}
