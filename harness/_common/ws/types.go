// Package ws is the Go side of spec/ProtoLang.tla: the "workspace case" types that TLC exports
// with ToJson, a deterministic renderer to .proto source, a helper that compiles a workspace with
// the stable compiler, and projections of the compiled descriptors back onto the case's reference
// sites.  It is trusted base for every ProtoLang-based check; CrossCheck (render -> parse ->
// project back) guards it.  See /verif/harness/_common/README.md.
//
// Compiled as github.com/bufbuild/protocompile/internal/zzverif/common/ws.
package ws

import (
	"encoding/json"
	"fmt"
	"strings"
)

// Spelling is a reference as written: a dotted name with or without a leading dot.
// No parts = "no reference" (a field of scalar type int32).
type Spelling struct {
	Abs   bool     `json:"abs"`
	Parts []string `json:"parts"`
}

// UnmarshalJSON accepts the compact text form (".a.b") exported by ProtoLang!SpText as well as
// the record form {"abs":..,"parts":[..]}.
func (s *Spelling) UnmarshalJSON(b []byte) error {
	if len(b) > 0 && b[0] == '"' {
		var t string
		if err := json.Unmarshal(b, &t); err != nil {
			return err
		}
		*s = ParseSpelling(t)
		return nil
	}
	var r struct {
		Abs   bool     `json:"abs"`
		Parts []string `json:"parts"`
	}
	if err := json.Unmarshal(b, &r); err != nil {
		return err
	}
	s.Abs, s.Parts = r.Abs, r.Parts
	return nil
}

// MarshalJSON writes the compact text form.
func (s Spelling) MarshalJSON() ([]byte, error) { return json.Marshal(s.String()) }

// UnmarshalJSON accepts "(.a.b)"-less text form of an option use ("a.b") or {"name": ...}.
func (o *OptUse) UnmarshalJSON(b []byte) error {
	if len(b) > 0 && b[0] == '"' {
		return o.Name.UnmarshalJSON(b)
	}
	var r struct {
		Name Spelling `json:"name"`
	}
	if err := json.Unmarshal(b, &r); err != nil {
		return err
	}
	o.Name = r.Name
	return nil
}

func (s Spelling) IsRef() bool { return len(s.Parts) > 0 }
func (s Spelling) String() string {
	t := strings.Join(s.Parts, ".")
	if s.Abs {
		return "." + t
	}
	return t
}

// ParseSpelling is the inverse of Spelling.String.
func ParseSpelling(t string) Spelling {
	if t == "" {
		return Spelling{Parts: []string{}}
	}
	abs := strings.HasPrefix(t, ".")
	return Spelling{Abs: abs, Parts: strings.Split(strings.TrimPrefix(t, "."), ".")}
}

// OptUse is one use of a custom option `(name) = 1`.
type OptUse struct {
	Name Spelling `json:"name"`
}

// Decl is one row of a file's flat declaration table (ProtoLang.tla: D0).
// Parent is the 1-based index of the enclosing declaration, 0 = file level.
type Decl struct {
	Kind     string   `json:"kind"` // message enum value oneof field ext service method
	Name     string   `json:"name"`
	Parent   int      `json:"parent"`
	Type     Spelling `json:"type"`
	Extendee Spelling `json:"extendee"`
	Input    Spelling `json:"input"`
	Output   Spelling `json:"output"`
	Num      int      `json:"num"`
	Opts     []OptUse `json:"opts"`

	// Extended attributes (spec/ProtoValid.tla), rendered only in files with X = true.
	Label  string   `json:"label,omitempty"`  // "" | optional | required | repeated
	Scalar string   `json:"scalar,omitempty"` // scalar type when Type is no reference ("" = int32)
	MapKey string   `json:"mapkey,omitempty"` // key type of map<key, T>; "" = not a map
	Dflt   string   `json:"dflt,omitempty"`   // default value as written (hi is rendered "hi" for string / bytes)
	Json   string   `json:"json,omitempty"`   // explicit json_name
	XR     [][2]int `json:"xr,omitempty"`     // extension ranges, inclusive
	RR     [][2]int `json:"rr,omitempty"`     // reserved ranges, inclusive
	RN     []string `json:"rn,omitempty"`     // reserved names
	CS     bool     `json:"cs,omitempty"`     // client streaming
	SS     bool     `json:"ss,omitempty"`     // server streaming
	Alias  bool     `json:"alias,omitempty"`  // enum: option allow_alias = true;
	Dep    bool     `json:"dep,omitempty"`    // field / extension: [deprecated = true]
	Grp    bool     `json:"grp,omitempty"`    // message: it is the message of a group (rendered by its field)
	XOpt   string   `json:"xopt,omitempty"`   // message: all XR in ONE statement with options: "v" = [verification = UNVERIFIED], "vr" = that + (.a.zrep) = 7
	Gof    int      `json:"gof,omitempty"`    // field: it is the field of the group whose message is declaration Gof
}

type Import struct {
	Path string `json:"path"`
	Kind string `json:"kind"` // plain | public
}

type File struct {
	Path    string   `json:"path"`
	Pkg     []string `json:"pkg"`
	Syntax  string   `json:"syntax"` // proto2 | proto3 | editions
	Imports []Import `json:"imports"`
	Decls   []Decl   `json:"decls"`
	Opts    []OptUse `json:"opts"`
	Builtin bool     `json:"builtin"`
	// X selects the explicit conventions of spec/ProtoValid.tla: labels, scalar types, enum value
	// numbers, extension / reserved ranges exactly as given in the case (no implicit `optional`,
	// no implicit `extensions 1000 to 1999`, no positional enum numbers).
	X bool `json:"x,omitempty"`
}

// Workspace is a sequence of files; file indices in cases are 1-based like in the spec.
type Workspace []File

// Expect is the spec's outcome for one reference (ProtoLang.tla: Outcome).
type Expect struct {
	Outcome   string   `json:"outcome"` // ok | notfound | stuck | wrongkind
	FQN       string   `json:"fqn"`
	Kind      string   `json:"kind"`
	DefFile   int      `json:"deffile"`
	Guess     string   `json:"guess"`
	GuessKind string   `json:"guesskind"`
	Rules     []string `json:"rules"`
}

// Ref is one reference site with its expected resolution (ProtoLang.tla: RefsOf).
type Ref struct {
	Decl int      `json:"decl"`
	Slot string   `json:"slot"`
	Sp   Spelling `json:"sp"`
	Exp  Expect   `json:"exp"`
}

const DescriptorPath = "google/protobuf/descriptor.proto"

// Site addresses a reference slot: file index (1-based), declaration index (0 = the file), slot.
type Site struct {
	File int    `json:"file"`
	Decl int    `json:"decl"`
	Slot string `json:"slot"` // type extendee input output opt1 opt2 ...
}

func (s Site) String() string { return fmt.Sprintf("%d/%d/%s", s.File, s.Decl, s.Slot) }

func OptSlot(k int) string { return fmt.Sprintf("opt%d", k) }
func IsOptSlot(slot string) bool {
	return strings.HasPrefix(slot, "opt")
}
func OptIndex(slot string) int {
	var k int
	fmt.Sscanf(slot, "opt%d", &k)
	return k
}

// FileIdx returns the 1-based index of the file with the given path, 0 if absent.
func (w Workspace) FileIdx(path string) int {
	for i := range w {
		if w[i].Path == path {
			return i + 1
		}
	}
	return 0
}

// ScopeParent mirrors ProtoLang.tla: enum values and oneof members are siblings of their container.
func (f *File) ScopeParent(d int) int {
	p := f.Decls[d-1].Parent
	if p != 0 {
		if k := f.Decls[p-1].Kind; k == "enum" || k == "oneof" {
			return f.Decls[p-1].Parent
		}
	}
	return p
}

// FQN is the full name of declaration d (1-based); d = 0 gives the package.
func (f *File) FQN(d int) string {
	if d == 0 {
		return strings.Join(f.Pkg, ".")
	}
	var parts []string
	for x := d; x != 0; x = f.ScopeParent(x) {
		parts = append(parts, f.Decls[x-1].Name)
	}
	for i, j := 0, len(parts)-1; i < j; i, j = i+1, j-1 {
		parts[i], parts[j] = parts[j], parts[i]
	}
	return strings.Join(append(append([]string{}, f.Pkg...), parts...), ".")
}

// Slot returns a pointer to the spelling stored at a site of this file.
func (f *File) Slot(d int, slot string) *Spelling {
	if d == 0 {
		return &f.Opts[OptIndex(slot)-1].Name
	}
	dl := &f.Decls[d-1]
	switch slot {
	case "type":
		return &dl.Type
	case "extendee":
		return &dl.Extendee
	case "input":
		return &dl.Input
	case "output":
		return &dl.Output
	}
	return &dl.Opts[OptIndex(slot)-1].Name
}

// Sites lists the reference sites of file fi (1-based) in a fixed order.
func (w Workspace) Sites(fi int) []Site {
	f := &w[fi-1]
	var out []Site
	for k := range f.Opts {
		out = append(out, Site{fi, 0, OptSlot(k + 1)})
	}
	for i := range f.Decls {
		d := &f.Decls[i]
		if (d.Kind == "field" || d.Kind == "ext") && d.Type.IsRef() {
			out = append(out, Site{fi, i + 1, "type"})
		}
		if d.Kind == "ext" {
			out = append(out, Site{fi, i + 1, "extendee"})
		}
		if d.Kind == "method" {
			out = append(out, Site{fi, i + 1, "input"}, Site{fi, i + 1, "output"})
		}
		for k := range d.Opts {
			out = append(out, Site{fi, i + 1, OptSlot(k + 1)})
		}
	}
	return out
}

// Clone is a deep copy.
func (w Workspace) Clone() Workspace {
	out := make(Workspace, len(w))
	for i := range w {
		f := w[i]
		f.Pkg = append([]string{}, f.Pkg...)
		f.Imports = append([]Import{}, f.Imports...)
		f.Opts = cloneOpts(f.Opts)
		f.Decls = append([]Decl{}, f.Decls...)
		for j := range f.Decls {
			d := &f.Decls[j]
			d.Type, d.Extendee, d.Input, d.Output = cloneSp(d.Type), cloneSp(d.Extendee), cloneSp(d.Input), cloneSp(d.Output)
			d.Opts = cloneOpts(d.Opts)
			d.XR = append([][2]int(nil), d.XR...)
			d.RR = append([][2]int(nil), d.RR...)
			d.RN = append([]string(nil), d.RN...)
		}
		out[i] = f
	}
	return out
}

func cloneSp(s Spelling) Spelling {
	return Spelling{Abs: s.Abs, Parts: append([]string{}, s.Parts...)}
}
func cloneOpts(o []OptUse) []OptUse {
	out := make([]OptUse, len(o))
	for i := range o {
		out[i] = OptUse{Name: cloneSp(o[i].Name)}
	}
	return out
}

// WithoutImport returns a copy in which file fi (1-based) no longer imports path.
func (w Workspace) WithoutImport(fi int, path string) Workspace {
	c := w.Clone()
	f := &c[fi-1]
	var keep []Import
	for _, im := range f.Imports {
		if im.Path != path {
			keep = append(keep, im)
		}
	}
	f.Imports = keep
	return c
}
