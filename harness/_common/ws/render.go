package ws

import (
	"fmt"
	"strings"
)

// Span is where a reference spelling was written (1-based line/columns, EndCol exclusive).
type Span struct {
	Line, Col, EndCol int
}

// Rendered is the source text of every non-builtin file plus the position of every reference site.
type Rendered struct {
	Src   map[string]string
	Spans map[Site]Span
}

// SiteAt returns the site of file `path` whose spelling covers line:col (ok=false if none).
func (r *Rendered) SiteAt(w Workspace, path string, line, col int) (Site, bool) {
	fi := w.FileIdx(path)
	for s, sp := range r.Spans {
		if s.File == fi && sp.Line == line && col >= sp.Col && col < sp.EndCol {
			return s, true
		}
	}
	return Site{}, false
}

type writer struct {
	sb        strings.Builder
	line, col int
}

func (w *writer) put(s string) {
	for _, c := range s {
		if c == '\n' {
			w.line++
			w.col = 1
		} else {
			w.col++
		}
	}
	w.sb.WriteString(s)
}

type fileRenderer struct {
	w     *writer
	f     *File
	fi    int
	spans map[Site]Span
	kids  map[int][]int
}

// Render turns a workspace into .proto texts. It is deterministic and total on well-formed
// declaration tables; layout is fixed (two-space indentation, one declaration per line).
//
// Conventions (kept in step with ProtoLang.tla):
//   - proto2: singular fields and extensions carry `optional`; proto3 / editions: no label
//   - every message of a non-proto3 file gets `extensions 1000 to 1999;`
//   - enum values are numbered 0,1,2,... in order
//   - a field / extension without type reference has type int32
//   - a custom option use is `(name) = 1`
//   - each `ext` declaration gets its own extend block
//
// Files with X = true (spec/ProtoValid.tla) are rendered with explicit conventions instead: see x.go.
func Render(w Workspace) *Rendered {
	out := &Rendered{Src: map[string]string{}, Spans: map[Site]Span{}}
	for i := range w {
		if w[i].Builtin {
			continue
		}
		r := &fileRenderer{w: &writer{line: 1, col: 1}, f: &w[i], fi: i + 1, spans: out.Spans, kids: map[int][]int{}}
		for j := range w[i].Decls {
			p := w[i].Decls[j].Parent
			r.kids[p] = append(r.kids[p], j+1)
		}
		r.file()
		out.Src[w[i].Path] = r.w.sb.String()
	}
	return out
}

func (r *fileRenderer) ref(d int, slot string, sp Spelling) {
	t := sp.String()
	r.spans[Site{r.fi, d, slot}] = Span{r.w.line, r.w.col, r.w.col + len(t)}
	r.w.put(t)
}

func (r *fileRenderer) file() {
	f := r.f
	switch f.Syntax {
	case "proto3":
		r.w.put("syntax = \"proto3\";\n")
	case "editions":
		r.w.put("edition = \"2023\";\n")
	default:
		r.w.put("syntax = \"proto2\";\n")
	}
	if len(f.Pkg) > 0 {
		r.w.put("package " + strings.Join(f.Pkg, ".") + ";\n")
	}
	for _, im := range f.Imports {
		if im.Kind == "public" {
			r.w.put("import public \"" + im.Path + "\";\n")
		} else {
			r.w.put("import \"" + im.Path + "\";\n")
		}
	}
	r.optionStmts(0, f.Opts, "")
	for _, d := range r.kids[0] {
		r.decl(d, "")
	}
}

func (r *fileRenderer) optionStmts(d int, opts []OptUse, ind string) {
	for k, o := range opts {
		r.w.put(ind + "option (")
		r.ref(d, OptSlot(k+1), o.Name)
		r.w.put(") = 1;\n")
	}
}

func (r *fileRenderer) compactOpts(d int, opts []OptUse) {
	if len(opts) == 0 {
		return
	}
	r.w.put(" [")
	for k, o := range opts {
		if k > 0 {
			r.w.put(", ")
		}
		r.w.put("(")
		r.ref(d, OptSlot(k+1), o.Name)
		r.w.put(") = 1")
	}
	r.w.put("]")
}

func (r *fileRenderer) fieldLine(d int, ind string, labelled bool) {
	dl := &r.f.Decls[d-1]
	if r.f.X {
		r.fieldLineX(d, ind)
		return
	}
	r.w.put(ind)
	if labelled && r.f.Syntax == "proto2" {
		r.w.put("optional ")
	}
	if dl.Type.IsRef() {
		r.ref(d, "type", dl.Type)
	} else {
		r.w.put("int32")
	}
	r.w.put(fmt.Sprintf(" %s = %d", dl.Name, dl.Num))
	r.compactOpts(d, dl.Opts)
	r.w.put(";\n")
}

func (r *fileRenderer) messageBody(d int, in2 string) {
	dl := &r.f.Decls[d-1]
	r.optionStmts(d, dl.Opts, in2)
	if r.f.X {
		r.rangesX(dl, in2)
	} else if r.f.Syntax != "proto3" {
		r.w.put(in2 + "extensions 1000 to 1999;\n")
	}
	for _, c := range r.kids[d] {
		r.decl(c, in2)
	}
}

func (r *fileRenderer) decl(d int, ind string) {
	dl := &r.f.Decls[d-1]
	in2 := ind + "  "
	switch dl.Kind {
	case "message":
		if r.f.X && dl.Grp {
			return // the message of a group: rendered by the group's field declaration
		}
		r.w.put(ind + "message " + dl.Name + " {\n")
		r.messageBody(d, in2)
		r.w.put(ind + "}\n")
	case "enum":
		r.w.put(ind + "enum " + dl.Name + " {\n")
		if r.f.X && dl.Alias {
			r.w.put(in2 + "option allow_alias = true;\n")
		}
		if r.f.X {
			r.rangesX(dl, in2) // reserved ranges (inclusive) and names of the enum
		}
		r.optionStmts(d, dl.Opts, in2)
		n := 0
		for _, c := range r.kids[d] {
			cd := &r.f.Decls[c-1]
			if r.f.X {
				n = cd.Num
			}
			r.w.put(fmt.Sprintf("%s%s = %d", in2, cd.Name, n))
			r.compactOpts(c, cd.Opts)
			r.w.put(";\n")
			n++
		}
		r.w.put(ind + "}\n")
	case "oneof":
		r.w.put(ind + "oneof " + dl.Name + " {\n")
		r.optionStmts(d, dl.Opts, in2)
		for _, c := range r.kids[d] {
			r.fieldLine(c, in2, false)
		}
		r.w.put(ind + "}\n")
	case "field":
		if r.f.X && dl.Gof > 0 {
			r.groupX(d, ind)
			return
		}
		r.fieldLine(d, ind, true)
	case "ext":
		r.w.put(ind + "extend ")
		r.ref(d, "extendee", dl.Extendee)
		r.w.put(" {\n")
		r.fieldLine(d, in2, true)
		r.w.put(ind + "}\n")
	case "service":
		r.w.put(ind + "service " + dl.Name + " {\n")
		r.optionStmts(d, dl.Opts, in2)
		for _, c := range r.kids[d] {
			r.decl(c, in2)
		}
		r.w.put(ind + "}\n")
	case "method":
		r.w.put(ind + "rpc " + dl.Name + "(")
		if dl.CS {
			r.w.put("stream ")
		}
		r.ref(d, "input", dl.Input)
		r.w.put(") returns (")
		if dl.SS {
			r.w.put("stream ")
		}
		r.ref(d, "output", dl.Output)
		if len(dl.Opts) == 0 {
			r.w.put(");\n")
		} else {
			r.w.put(") {\n")
			r.optionStmts(d, dl.Opts, in2)
			r.w.put(ind + "}\n")
		}
	case "value":
		// rendered by the enclosing enum
	default:
		panic("ws.Render: unknown declaration kind " + dl.Kind)
	}
}
