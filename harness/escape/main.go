// Driver for C26: replays the byte strings enumerated by TLC (spec/MCEscape.tla) through the real
// escaping / unescaping code.  Every case carries b and the text Escape(b) computed by
// spec/Escape.tla.  Checked per case:
//
//	escape:text          internal.EscapeBytes(b) == Escape(b)
//	source route         a proto2 file with `optional bytes f = N [default = "<Escape(b)>"]` compiled
//	                     with protocompile.Compiler:
//	  descriptor:text      default_value written by the compiler == Escape(b)
//	  default:linker       linker descriptor HasDefault() && Default().Bytes() == b
//	  default:protodesc    protodesc.NewFile(FileDescriptorProto).Default().Bytes() == b
//	  default:runtime-reescape   protodesc.ToFileDescriptorProto(linker descriptor) re-escaped by
//	                       the Go runtime, read back by linker + protodesc == b
//	proto route          a FileDescriptorProto whose default_value is the REAL EscapeBytes(b),
//	                     linked by the compiler: default:linker-from-proto, default:protodesc-from-proto
//
// Direction code -> model: every text the real code produced (EscapeBytes output, default_value of
// the compiled descriptor, default_value re-escaped by the Go runtime) is written with its bytes
// to the trace file (-trace) and validated by TLC against spec/EscapeTrace.tla.
//
// One JSON line per disagreement on stdout, STATS on stderr.
package main

import (
	"bufio"
	"context"
	"encoding/json"
	"flag"
	"fmt"
	"os"
	"runtime"
	"strings"
	"sync"
	"sync/atomic"

	"github.com/bufbuild/protocompile"
	"github.com/bufbuild/protocompile/internal"
	"github.com/bufbuild/protocompile/linker"
	"google.golang.org/protobuf/proto"
	"google.golang.org/protobuf/reflect/protodesc"
	"google.golang.org/protobuf/reflect/protoreflect"
	"google.golang.org/protobuf/reflect/protoregistry"
	"google.golang.org/protobuf/types/descriptorpb"
)

type tcase struct {
	B   []int `json:"b"`
	Esc []int `json:"esc"`
}

type mismatch struct {
	Class  string `json:"class"`
	Case   tcase  `json:"case"`
	Detail string `json:"detail"`
}

type traceRec struct {
	B   []int  `json:"b"`
	T   []int  `json:"t"`
	Src string `json:"src"`
}

var (
	outMu    sync.Mutex
	enc      *json.Encoder
	trMu     sync.Mutex
	trEnc    *json.Encoder
	compiles atomic.Int64
	checks   atomic.Int64
	traced   atomic.Int64
)

func report(class string, c *tcase, detail string) {
	outMu.Lock()
	defer outMu.Unlock()
	_ = enc.Encode(mismatch{Class: class, Case: *c, Detail: detail})
}

func toInts(s string) []int {
	v := make([]int, len(s))
	for i := 0; i < len(s); i++ {
		v[i] = int(s[i])
	}
	return v
}

func trace(b []int, text, src string) {
	if trEnc == nil {
		return
	}
	if b == nil {
		b = []int{}
	}
	trMu.Lock()
	defer trMu.Unlock()
	traced.Add(1)
	_ = trEnc.Encode(traceRec{B: b, T: toInts(text), Src: src})
}

func toBytes(v []int) []byte {
	b := make([]byte, len(v))
	for i, x := range v {
		b[i] = byte(x)
	}
	return b
}

func compileWith(res protocompile.Resolver) (r linker.Result, err error) {
	compiles.Add(1)
	defer func() {
		if p := recover(); p != nil {
			err = fmt.Errorf("PANIC: %v", p)
		}
	}()
	c := protocompile.Compiler{Resolver: res, MaxParallelism: 1}
	files, err := c.Compile(context.Background(), "t.proto")
	if err != nil {
		return nil, err
	}
	lr, ok := files[0].(linker.Result)
	if !ok {
		fmt.Fprintln(os.Stderr, "harness: compile result is not a linker.Result")
		os.Exit(2)
	}
	return lr, nil
}

func compileSource(src string) (linker.Result, error) {
	return compileWith(&protocompile.SourceResolver{
		Accessor: protocompile.SourceAccessorFromMap(map[string]string{"t.proto": src}),
	})
}

func compileProto(fdp *descriptorpb.FileDescriptorProto) (linker.Result, error) {
	return compileWith(protocompile.ResolverFunc(func(name string) (protocompile.SearchResult, error) {
		if name == "t.proto" {
			return protocompile.SearchResult{Proto: fdp}, nil
		}
		return protocompile.SearchResult{}, os.ErrNotExist
	}))
}

func runtimeFile(fdp *descriptorpb.FileDescriptorProto) (fd protoreflect.FileDescriptor, err error) {
	defer func() {
		if p := recover(); p != nil {
			err = fmt.Errorf("PANIC: %v", p)
		}
	}()
	return protodesc.NewFile(fdp, &protoregistry.Files{})
}

func fieldByNumber(md protoreflect.MessageDescriptor, n int) protoreflect.FieldDescriptor {
	return md.Fields().ByNumber(protoreflect.FieldNumber(n))
}

// checkDefaults compares the default of field i+1 (case batch[i]) in every view of the result.
func checkDefaults(batch []*tcase, res linker.Result, route string, wantText bool) {
	fdp := res.FileDescriptorProto()
	rt, rtErr := runtimeFile(fdp)
	var re *descriptorpb.FileDescriptorProto
	var reLinked linker.Result
	var reRt protoreflect.FileDescriptor
	if route == "" {
		func() {
			defer func() {
				if p := recover(); p != nil {
					re = nil
				}
			}()
			re = protodesc.ToFileDescriptorProto(res)
		}()
		if re != nil {
			reLinked, _ = compileProto(proto.Clone(re).(*descriptorpb.FileDescriptorProto))
			reRt, _ = runtimeFile(re)
		}
	}
	for i, c := range batch {
		want := toBytes(c.B)
		n := i + 1
		fp := fdp.GetMessageType()[0].GetField()[i]
		if wantText {
			checks.Add(1)
			trace(c.B, fp.GetDefaultValue(), "descriptor")
			if fp.DefaultValue == nil || fp.GetDefaultValue() != string(toBytes(c.Esc)) {
				report("descriptor:text", c, fmt.Sprintf("default_value=%q want %q", fp.GetDefaultValue(), toBytes(c.Esc)))
			}
		}
		checks.Add(1)
		lf := fieldByNumber(res.Messages().Get(0), n)
		if lf == nil || !lf.HasDefault() || string(lf.Default().Bytes()) != string(want) {
			got := "<no default>"
			if lf != nil && lf.HasDefault() {
				got = fmt.Sprintf("%x", lf.Default().Bytes())
			}
			report("default:linker"+route, c, fmt.Sprintf("default_value=%q Default().Bytes()=%s want %x", fp.GetDefaultValue(), got, want))
		}
		checks.Add(1)
		if rtErr != nil {
			report("default:protodesc"+route, c, "protodesc.NewFile: "+rtErr.Error())
		} else {
			rf := fieldByNumber(rt.Messages().Get(0), n)
			if rf == nil || !rf.HasDefault() || string(rf.Default().Bytes()) != string(want) {
				got := "<no default>"
				if rf != nil && rf.HasDefault() {
					got = fmt.Sprintf("%x", rf.Default().Bytes())
				}
				report("default:protodesc"+route, c, fmt.Sprintf("default_value=%q Default().Bytes()=%s want %x", fp.GetDefaultValue(), got, want))
			}
		}
		if route == "" {
			checks.Add(1)
			if re == nil {
				report("default:runtime-reescape", c, "protodesc.ToFileDescriptorProto panicked")
				continue
			}
			text := re.GetMessageType()[0].GetField()[i].GetDefaultValue()
			trace(c.B, text, "runtime-reescape")
			ok := reLinked != nil && reRt != nil
			if ok {
				a := fieldByNumber(reLinked.Messages().Get(0), n)
				b := fieldByNumber(reRt.Messages().Get(0), n)
				ok = a != nil && b != nil && a.HasDefault() && b.HasDefault() &&
					string(a.Default().Bytes()) == string(want) && string(b.Default().Bytes()) == string(want)
			}
			if !ok {
				report("default:runtime-reescape", c, fmt.Sprintf("runtime text %q does not read back to %x", text, want))
			}
		}
	}
}

func renderSource(batch []*tcase) string {
	var sb strings.Builder
	sb.WriteString("syntax = \"proto2\";\nmessage M {\n")
	for i, c := range batch {
		fmt.Fprintf(&sb, "  optional bytes f%d = %d [default = \"", i+1, i+1)
		sb.Write(toBytes(c.Esc))
		sb.WriteString("\"];\n")
	}
	sb.WriteString("}\n")
	return sb.String()
}

func buildProto(batch []*tcase, texts []string) *descriptorpb.FileDescriptorProto {
	md := &descriptorpb.DescriptorProto{Name: proto.String("M")}
	for i := range batch {
		md.Field = append(md.Field, &descriptorpb.FieldDescriptorProto{
			Name:         proto.String(fmt.Sprintf("f%d", i+1)),
			JsonName:     proto.String(fmt.Sprintf("f%d", i+1)),
			Number:       proto.Int32(int32(i + 1)),
			Label:        descriptorpb.FieldDescriptorProto_LABEL_OPTIONAL.Enum(),
			Type:         descriptorpb.FieldDescriptorProto_TYPE_BYTES.Enum(),
			DefaultValue: proto.String(texts[i]),
		})
	}
	return &descriptorpb.FileDescriptorProto{
		Name:        proto.String("t.proto"),
		Syntax:      proto.String("proto2"),
		MessageType: []*descriptorpb.DescriptorProto{md},
	}
}

func doBatch(batch []*tcase) {
	// 1. the real escaper against the specification's text
	texts := make([]string, len(batch))
	for i, c := range batch {
		checks.Add(1)
		b := toBytes(c.B)
		var real string
		func() {
			defer func() {
				if p := recover(); p != nil {
					report("panic:escape", c, fmt.Sprint(p))
				}
			}()
			real = internal.EscapeBytes(b)
			// the generic function must not depend on the argument's type
			if s := internal.EscapeBytes(string(b)); s != real {
				report("escape:string-vs-bytes", c, fmt.Sprintf("%q vs %q", s, real))
			}
		}()
		texts[i] = real
		trace(c.B, real, "EscapeBytes")
		if real != string(toBytes(c.Esc)) {
			report("escape:text", c, fmt.Sprintf("EscapeBytes=%q want %q", real, toBytes(c.Esc)))
		}
	}
	// 2. source route
	res, err := compileSource(renderSource(batch))
	if err != nil {
		if len(batch) > 1 {
			for _, c := range batch {
				doSourceSingle(c)
			}
		} else {
			report("compile:rejects-escaped-text", batch[0], err.Error())
		}
	} else {
		checkDefaults(batch, res, "", true)
	}
	// 3. proto route, default_value = the real escaper's output
	res2, err := compileProto(buildProto(batch, texts))
	if err != nil {
		if len(batch) > 1 {
			for i, c := range batch {
				r1, e1 := compileProto(buildProto([]*tcase{c}, texts[i:i+1]))
				if e1 != nil {
					report("compile:rejects-descriptor", c, e1.Error())
				} else {
					checkDefaults([]*tcase{c}, r1, "-from-proto", false)
				}
			}
		} else {
			report("compile:rejects-descriptor", batch[0], err.Error())
		}
	} else {
		checkDefaults(batch, res2, "-from-proto", false)
	}
}

func doSourceSingle(c *tcase) {
	res, err := compileSource(renderSource([]*tcase{c}))
	if err != nil {
		report("compile:rejects-escaped-text", c, err.Error())
		return
	}
	checkDefaults([]*tcase{c}, res, "", true)
}

func main() {
	workers := flag.Int("j", runtime.NumCPU(), "parallel workers")
	batchN := flag.Int("batch", 24, "fields per compiled file")
	tracePath := flag.String("trace", "", "ndjson trace of (bytes, text produced by the real code)")
	flag.Parse()
	in := bufio.NewScanner(os.Stdin)
	in.Buffer(make([]byte, 1<<20), 1<<26)
	w := bufio.NewWriter(os.Stdout)
	defer w.Flush()
	enc = json.NewEncoder(w)
	var tw *bufio.Writer
	if *tracePath != "" {
		f, err := os.Create(*tracePath)
		if err != nil {
			fmt.Fprintln(os.Stderr, err)
			os.Exit(2)
		}
		defer f.Close()
		tw = bufio.NewWriter(f)
		trEnc = json.NewEncoder(tw)
	}
	ch := make(chan []*tcase, 64)
	var wg sync.WaitGroup
	for i := 0; i < *workers; i++ {
		wg.Add(1)
		go func() {
			defer wg.Done()
			for b := range ch {
				doBatch(b)
			}
		}()
	}
	n := 0
	var cur []*tcase
	for in.Scan() {
		if len(in.Bytes()) == 0 {
			continue
		}
		c := new(tcase)
		if err := json.Unmarshal(in.Bytes(), c); err != nil {
			fmt.Fprintln(os.Stderr, "bad case:", err)
			os.Exit(2)
		}
		if c.B == nil {
			c.B = []int{}
		}
		n++
		cur = append(cur, c)
		if len(cur) >= *batchN {
			ch <- cur
			cur = nil
		}
	}
	if len(cur) > 0 {
		ch <- cur
	}
	close(ch)
	wg.Wait()
	w.Flush()
	if tw != nil {
		tw.Flush()
	}
	fmt.Fprintf(os.Stderr, "STATS {\"cases\":%d,\"compiles\":%d,\"checks\":%d,\"traced\":%d}\n",
		n, compiles.Load(), checks.Load(), traced.Load())
}
