// Driver for C08: compiles workspaces whose files carry the error/warning items of an MCReporter
// case, with a Reporter that aborts at the k-th error, and records the callback trace
// (validated by TLC against ReporterTrace.tla / ReporterContract.tla).
//
// stdin: run specs (JSON lines); argv[1]: trace output (ndjson); stdout: one result per line.
package main

import (
	"bufio"
	"context"
	"encoding/json"
	"errors"
	"fmt"
	"os"
	"runtime"
	"sort"
	"strings"
	"sync"
	"sync/atomic"
	"time"

	"github.com/bufbuild/protocompile"
	"github.com/bufbuild/protocompile/internal/verifhook"
	"github.com/bufbuild/protocompile/reporter"
)

type runSpec struct {
	ID       int                 `json:"id"`
	Items    map[string][]string `json:"items"`
	AbortAt  int                 `json:"abortAt"`
	MustFail bool                `json:"mustFail"`
	Par      int                 `json:"par"`
	Seed     int64               `json:"seed"`
	Chain    bool                `json:"chain"` // files import each other in a chain (more scheduling variety)
	DP       string              `json:"dp"`    // this task's file is served as an overriding google/protobuf/descriptor.proto and not requested
}

type result struct {
	ID        int    `json:"id"`
	Res       string `json:"res"`
	Err       string `json:"err"`
	NErr      int    `json:"nerr"`
	NWarn     int    `json:"nwarn"`
	MaxInfl   int32  `json:"max_inflight"`
	AfterAbrt int    `json:"err_calls_after_abort"`
	Hung      bool   `json:"hung"`
}

var (
	mu  sync.Mutex
	out *bufio.Writer
)

func emit(m map[string]any) {
	mu.Lock()
	defer mu.Unlock()
	b, _ := json.Marshal(m)
	out.Write(b)
	out.WriteByte('\n')
}

var errAbort = errors.New("verif-reporter-abort")

func render(spec *runSpec, names []string, i int) string {
	t := names[i]
	var sb strings.Builder
	sb.WriteString("syntax = \"proto3\";\n")
	fmt.Fprintf(&sb, "package p%s;\n", t)
	nW := 0
	for _, it := range spec.Items[t] {
		if it == "W" {
			nW++
		}
	}
	if nW > 0 {
		sb.WriteString("import \"unused.proto\";\n")
	}
	if spec.Chain && i+1 < len(names) {
		fmt.Fprintf(&sb, "import \"%s.proto\";\n", names[i+1])
	}
	fmt.Fprintf(&sb, "message M%s {\n  int32 x = 1;\n", t)
	if spec.Chain && i+1 < len(names) {
		fmt.Fprintf(&sb, "  p%s.M%s nxt = 2;\n", names[i+1], names[i+1])
	}
	n := 10
	nS := 0
	for _, it := range spec.Items[t] {
		switch it {
		case "E":
			fmt.Fprintf(&sb, "  Unknown%d u%d = %d;\n", n, n, n)
			n++
		case "S":
			nS++
		}
	}
	sb.WriteString("}\n")
	for k := 0; k < nS; k++ {
		// each of these is one syntax error the parser recovers from
		fmt.Fprintf(&sb, "message Bad%d { int32 = ; }\n", k)
	}
	return sb.String()
}

func indexOf(l []string, x string) int {
	for i, y := range l {
		if y == x {
			return i
		}
	}
	return -1
}

func runOne(spec *runSpec) result {
	res := result{ID: spec.ID}
	names := make([]string, 0, len(spec.Items))
	for t := range spec.Items {
		names = append(names, t)
	}
	sort.Strings(names)
	texts := map[string]string{"unused.proto": "syntax = \"proto3\";\npackage unused;\nmessage Unused {}\n"}
	failing := map[string]bool{}
	const dpPath = "google/protobuf/descriptor.proto"
	var reqNames []string
	for _, t := range names {
		if t != spec.DP {
			reqNames = append(reqNames, t)
		}
	}
	for _, t := range names {
		if t == spec.DP {
			// a custom descriptor.proto with this task's defects; nobody imports it explicitly
			txt := render(&runSpec{Items: spec.Items}, []string{t}, 0)
			texts[dpPath] = strings.Replace(txt, "package p"+t+";", "package google.protobuf;", 1)
			continue
		}
		texts[t+".proto"] = render(spec, reqNames, indexOf(reqNames, t))
		for _, it := range spec.Items[t] {
			if it == "N" {
				failing[t+".proto"] = true
			}
		}
	}
	resolver := protocompile.ResolverFunc(func(path string) (protocompile.SearchResult, error) {
		if failing[path] {
			return protocompile.SearchResult{}, errors.New("verif-resolve-fault")
		}
		text, ok := texts[path]
		if !ok {
			return protocompile.SearchResult{}, errors.New("verif-resolve-fault: no such file")
		}
		return protocompile.SearchResult{Source: strings.NewReader(text)}, nil
	})

	var gateCount int64
	seed := uint64(spec.Seed)*0x9E3779B97F4A7C15 + 0x1234567
	jitter := func() {
		if spec.Seed == 0 {
			return
		}
		k := atomic.AddInt64(&gateCount, 1)
		x := (seed + uint64(k)*0xBF58476D1CE4E5B9)
		x ^= x >> 31
		x *= 0x94D049BB133111EB
		x ^= x >> 29
		switch x % 8 {
		case 0, 1, 2:
			runtime.Gosched()
		case 3:
			time.Sleep(time.Duration(20+x%180) * time.Microsecond)
		}
	}
	verifhook.SetGate(func(string, ...any) { jitter() })

	var inflight, maxInfl int32
	var aborted int32
	nerr := 0
	enter := func() {
		v := atomic.AddInt32(&inflight, 1)
		for {
			m := atomic.LoadInt32(&maxInfl)
			if v <= m || atomic.CompareAndSwapInt32(&maxInfl, m, v) {
				break
			}
		}
	}
	rep := reporter.NewReporter(
		func(e reporter.ErrorWithPos) error {
			enter()
			emit(map[string]any{"ev": "ErrEnter", "file": e.GetPosition().Filename})
			if atomic.LoadInt32(&aborted) != 0 {
				res.AfterAbrt++
			}
			nerr++ // deliberately unsynchronised state would race; the contract says we are never concurrent
			n := nerr
			jitter()
			time.Sleep(250 * time.Microsecond)
			ab := spec.AbortAt > 0 && n == spec.AbortAt
			if ab {
				atomic.StoreInt32(&aborted, 1)
			}
			emit(map[string]any{"ev": "ErrExit", "abort": ab})
			atomic.AddInt32(&inflight, -1)
			if ab {
				return errAbort
			}
			return nil
		},
		func(e reporter.ErrorWithPos) {
			enter()
			emit(map[string]any{"ev": "WarnEnter", "file": e.GetPosition().Filename})
			res.NWarn++
			jitter()
			time.Sleep(250 * time.Microsecond)
			emit(map[string]any{"ev": "WarnExit"})
			atomic.AddInt32(&inflight, -1)
		})

	emit(map[string]any{"ev": "Config", "id": spec.ID, "abortAt": spec.AbortAt})
	comp := protocompile.Compiler{Resolver: resolver, MaxParallelism: spec.Par, Reporter: rep}
	req := make([]string, len(reqNames))
	for i, t := range reqNames {
		req[i] = t + ".proto"
	}
	type outT struct{ err error }
	ch := make(chan outT, 1)
	go func() {
		_, err := comp.Compile(context.Background(), req...)
		ch <- outT{err}
	}()
	var o outT
	select {
	case o = <-ch:
	case <-time.After(20 * time.Second):
		res.Hung = true
		res.Res = "hung"
		return res
	}
	switch {
	case o.err == nil:
		res.Res = "nil"
	case errors.Is(o.err, errAbort):
		res.Res = "abort"
	case errors.Is(o.err, reporter.ErrInvalidSource):
		res.Res = "invalid"
	default:
		res.Res = "other"
	}
	if o.err != nil {
		res.Err = o.err.Error()
	}
	emit(map[string]any{"ev": "Return", "res": res.Res, "mustFail": spec.MustFail})
	// let stragglers (tasks still running after Compile returned) finish before the next run
	deadline := time.Now().Add(2 * time.Second)
	for runtime.NumGoroutine() > 2 && time.Now().Before(deadline) {
		time.Sleep(100 * time.Microsecond)
	}
	res.NErr = nerr
	res.MaxInfl = atomic.LoadInt32(&maxInfl)
	return res
}

func main() {
	tf, err := os.Create(os.Args[1])
	if err != nil {
		fmt.Fprintln(os.Stderr, err)
		os.Exit(2)
	}
	out = bufio.NewWriterSize(tf, 1<<20)
	in := bufio.NewScanner(os.Stdin)
	in.Buffer(make([]byte, 1<<20), 1<<26)
	w := bufio.NewWriter(os.Stdout)
	enc := json.NewEncoder(w)
	for in.Scan() {
		var spec runSpec
		if err := json.Unmarshal(in.Bytes(), &spec); err != nil {
			fmt.Fprintln(os.Stderr, "bad spec:", err)
			os.Exit(2)
		}
		r := runOne(&spec)
		_ = enc.Encode(r)
		if r.Hung {
			break
		}
	}
	w.Flush()
	mu.Lock()
	out.Flush()
	mu.Unlock()
	tf.Close()
}
