// Driver for C25: renders HeaderLang cases, runs fastscan.Scan and the full parser, compares both
// with the expectation computed by HeaderLang.tla.
package main

import (
	"bufio"
	"encoding/json"
	"fmt"
	"os"
	"strings"

	"github.com/bufbuild/protocompile/ast"
	"github.com/bufbuild/protocompile/parser"
	"github.com/bufbuild/protocompile/parser/fastscan"
	"github.com/bufbuild/protocompile/reporter"
)

type item struct {
	K    string `json:"k"`
	Form string `json:"form"`
	Kind string `json:"kind"`
	Path string `json:"path"`
	Fill string `json:"fill"`
}
type imp struct {
	N      int  `json:"n"`
	Public bool `json:"public"`
	Weak   bool `json:"weak"`
}
type tcase struct {
	Items   []item `json:"items"`
	Layout  string `json:"layout"`
	Pkg     string `json:"pkg"`
	Imports []imp  `json:"imports"`
}
type mismatch struct {
	N      int    `json:"n"`
	Class  string `json:"class"`
	Text   string `json:"text"`
	Detail string `json:"detail"`
}

// sep returns the trivia placed between two tokens of a statement
func sep(layout string) string {
	switch layout {
	case "newline":
		return "\n"
	case "blockcomment":
		return " /* import \"c.proto\"; package c; */ "
	case "linecomment":
		return " // package z; import \"z.proto\";\n"
	case "tab_crlf":
		return "\t\r\n"
	case "starcomment":
		return " /** import \"s.proto\"; **/ "
	case "tight":
		return ""
	}
	return " "
}

// join renders a token list with the layout's separator; tokens starting with "~" are glued to
// the previous token without any separator (used for forms whose spelling is fixed).
func join(layout string, toks ...string) string {
	var sb strings.Builder
	for i, t := range toks {
		if i > 0 {
			if layout == "tight" {
				if wordEnd(toks[i-1]) && wordStart(t) {
					sb.WriteString(" ")
				}
			} else {
				sb.WriteString(sep(layout))
			}
		}
		sb.WriteString(t)
	}
	return sb.String()
}

func isWordByte(b byte) bool {
	return b == '_' || b == '.' || (b >= '0' && b <= '9') || (b >= 'a' && b <= 'z') || (b >= 'A' && b <= 'Z')
}
func wordEnd(t string) bool   { return t != "" && isWordByte(t[len(t)-1]) }
func wordStart(t string) bool { return t != "" && isWordByte(t[0]) }

func pkgTokens(form string) []string {
	switch form {
	case "a":
		return []string{"package", "a", ";"}
	case "a.b":
		return []string{"package", "a.b", ";"}
	case "a . b":
		return []string{"package", "a", ".", "b", ";"}
	case "a/**/.b":
		return []string{"package", "a/**/.b", ";"}
	case "a.\nb":
		return []string{"package", "a.\nb", ";"}
	case "pkgkw":
		return []string{"package", "import", ".", "public", ";"}
	}
	panic("pkg form " + form)
}

func pathTokens(form string, n int) []string {
	name := fmt.Sprintf("f%d.proto", n)
	switch form {
	case "dq":
		return []string{`"` + name + `"`}
	case "sq":
		return []string{`'` + name + `'`}
	case "split":
		return []string{fmt.Sprintf(`"f%d."`, n), `"proto"`}
	case "hexesc":
		return []string{`"\x66"`, fmt.Sprintf(`"%d.proto"`, n)}
	case "split3":
		return []string{`'f'`, fmt.Sprintf(`"%d"`, n), `'.proto'`}
	case "octesc":
		// 'f' = \146 ; '.' = \56 followed by a non-octal character
		return []string{fmt.Sprintf(`"\146%d\56proto"`, n)}
	}
	panic("path form " + form)
}

func fill(kind string, layout string) string {
	switch kind {
	case "linecomment":
		return "// import \"no1.proto\";\n"
	case "blockcomment":
		return "/* package no;\n import public \"no2.proto\"; */"
	case "option_str":
		return join(layout, "option", "java_package", "=", `"import \"q.proto\"; package q;"`, ";")
	case "option_msglit":
		return join(layout, "option", "(foo)", "=", "{", "import", ":", `"x.proto"`, ";", "package", ":", "[", "1", ",", "2", "]", "}", ";")
	case "option_angle":
		return join(layout, "option", "(foo)", "=", "{", "m", "<", "import", ":", `"y.proto"`, ">", "}", ";")
	case "message_kwfields":
		return join(layout, "message", "M1", "{", "string", "import", "=", "1", ";", "int32", "package", "=", "2", ";", "}")
	case "message_named_import":
		return join(layout, "message", "import", "{", "import", "public", "=", "1", ";", "}")
	case "enum_kwvalues":
		return join(layout, "enum", "E1", "{", "import", "=", "0", ";", "package", "=", "1", ";", "}")
	case "empty_stmt":
		return ";"
	case "blockcomment_stars":
		return "/** package no3; **/ /***/ /* import \"no4.proto\"; **/ /****/"
	case "option_str_octal":
		return join(layout, "option", "go_package", "=", `"a\7z\18\0019;import \"no5.proto\";"`, ";") + sep(layout) +
			join(layout, "option", "java_package", "=", `"com.foo\0"`, ";")
	case "service":
		return join(layout, "service", "S1", "{", "rpc", "import", "(", "M", ")", "returns", "(", "stream", "M", ")", "{", "option", "deprecated", "=", "true", ";", "}", "}")
	case "extend_brackets":
		return join(layout, "message", "M2", "{", "extensions", "1", "to", "10", "[", "(x)", "=", `"import 'w.proto';"`, "]", ";", "}")
	case "nested_close":
		return join(layout, "message", "M3", "{", "message", "N", "{", "}", "import", "f", "=", "1", ";", "}")
	}
	panic("fill " + kind)
}

func render(c *tcase) string {
	var sb strings.Builder
	sb.WriteString(join(c.Layout, "syntax", "=", `"proto2"`, ";"))
	sb.WriteString("\n")
	n := 0
	for _, it := range c.Items {
		switch it.K {
		case "PKG":
			sb.WriteString(join(c.Layout, pkgTokens(it.Form)...))
		case "IMP":
			n++
			toks := []string{"import"}
			if it.Kind != "plain" {
				toks = append(toks, it.Kind)
			}
			toks = append(toks, pathTokens(it.Path, n)...)
			toks = append(toks, ";")
			sb.WriteString(join(c.Layout, toks...))
		case "FILL":
			sb.WriteString(fill(it.Fill, c.Layout))
		}
		if c.Layout != "tight" {
			sb.WriteString(sep(c.Layout))
		}
	}
	return sb.String()
}

func main() {
	in := bufio.NewScanner(os.Stdin)
	in.Buffer(make([]byte, 1<<20), 1<<26)
	out := bufio.NewWriter(os.Stdout)
	defer out.Flush()
	enc := json.NewEncoder(out)
	total, accepted := 0, 0
	for in.Scan() {
		var c tcase
		if err := json.Unmarshal(in.Bytes(), &c); err != nil {
			fmt.Fprintln(os.Stderr, "bad case:", err)
			os.Exit(2)
		}
		total++
		text := render(&c)
		report := func(class, detail string) {
			_ = enc.Encode(mismatch{N: total - 1, Class: class, Text: text, Detail: detail})
		}
		want := make([]string, len(c.Imports))
		for i, im := range c.Imports {
			want[i] = fmt.Sprintf("f%d.proto public=%v weak=%v", im.N, im.Public, im.Weak)
		}
		// full parser (reference named by the property)
		var perrs []string
		h := reporter.NewHandler(reporter.NewReporter(func(e reporter.ErrorWithPos) error {
			perrs = append(perrs, e.Error())
			return nil
		}, nil))
		var fn *ast.FileNode
		func() {
			defer func() {
				if r := recover(); r != nil {
					perrs = append(perrs, fmt.Sprint("panic: ", r))
				}
			}()
			fn, _ = parser.Parse("t.proto", strings.NewReader(text), h)
		}()
		if len(perrs) > 0 || fn == nil {
			// the property only speaks about files the full parser accepts
			report("HARNESS:parser-rejects", strings.Join(perrs, " | "))
			continue
		}
		accepted++
		ppkg := ""
		var pimps []string
		for _, d := range fn.Decls {
			switch d := d.(type) {
			case *ast.PackageNode:
				ppkg = string(d.Name.AsIdentifier())
			case *ast.ImportNode:
				pimps = append(pimps, fmt.Sprintf("%s public=%v weak=%v", d.Name.AsString(), d.Public != nil, d.Weak != nil))
			}
		}
		if ppkg != c.Pkg || strings.Join(pimps, ";") != strings.Join(want, ";") {
			report("HARNESS:spec-vs-parser", fmt.Sprintf("parser pkg=%q imports=%v; spec pkg=%q imports=%v", ppkg, pimps, c.Pkg, want))
			continue
		}
		// fast scanner
		var res fastscan.Result
		var err error
		func() {
			defer func() {
				if r := recover(); r != nil {
					err = fmt.Errorf("panic: %v", r)
				}
			}()
			res, err = fastscan.Scan("t.proto", strings.NewReader(text))
		}()
		if err != nil {
			report("scan-error", err.Error())
			continue
		}
		if res.PackageName != c.Pkg {
			report("package", fmt.Sprintf("got %q want %q", res.PackageName, c.Pkg))
		}
		var simps []string
		for _, im := range res.Imports {
			simps = append(simps, fmt.Sprintf("%s public=%v weak=%v", im.Path, im.IsPublic, im.IsWeak))
		}
		if strings.Join(simps, ";") != strings.Join(want, ";") {
			cls := "imports"
			if len(simps) != len(want) {
				cls = "imports:count"
			}
			report(cls, fmt.Sprintf("got %v want %v", simps, want))
		}
	}
	out.Flush()
	fmt.Fprintf(os.Stderr, "STATS total=%d accepted=%d\n", total, accepted)
}
