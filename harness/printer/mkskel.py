#!/usr/bin/env python3
"""Data preparation for spec/PrintLayoutSkel.tla (run by hand, result is checked in; nothing runs this at check time).

The skeletons below are ordinary .proto texts in a plain, canonical layout.  This script only cuts them into
tokens and names the whitespace between two tokens with a trivia-kind name of PrintLayout!TriviaText; it writes
them as TLA+ sequences of <<token text, lexical category, default gap after the token>>.  Everything that
matters (gap classes, admissible placements, feature vectors, the rendered text) is computed by PrintLayout.tla
from those sequences.

    python3 harness/printer/mkskel.py > spec/PrintLayoutSkel.tla
"""
import re, sys

AUX = {
    "a.proto": 'syntax = "proto3";\npackage dep.a;\nmessage A {\n  int32 x = 1;\n}\n',
    "b.proto": 'syntax = "proto3";\npackage dep.b;\nmessage B {\n  int32 x = 1;\n}\n',
    "c.proto": 'syntax = "proto3";\npackage dep.c;\nenum C {\n  C_ZERO = 0;\n}\n',
    "opts.proto": '''syntax = "proto2";
import "google/protobuf/descriptor.proto";
message O {
  optional int32 leaf = 1;
  repeated string names = 2;
  optional O sub = 3;
  repeated O subs = 4;
  optional double d = 5;
  optional bool flag = 6;
  extensions 100 to 199;
}
extend O {
  optional int32 oext = 100;
}
extend google.protobuf.FileOptions {
  optional string fopt = 50001;
  repeated string frep = 50002;
  optional O fmsg = 50003;
}
extend google.protobuf.MessageOptions {
  optional O mopt = 50001;
  optional O mopt2 = 50002;
}
extend google.protobuf.FieldOptions {
  optional O fldopt = 50001;
  optional int32 fldnum = 50002;
}
extend google.protobuf.EnumValueOptions {
  optional string evopt = 50001;
}
extend google.protobuf.MethodOptions {
  optional O mtdopt = 50001;
}
''',
}

# name -> (text, expected element kinds (vocabulary of FileFeatures!Kinds), expected dependency list)
SKEL = {}

SKEL["hdr"] = ('''syntax = "proto2";
package foo.bar.baz;
import "b.proto";
import public "a.proto";
import weak "c.proto";
import "opts.proto";
option java_package = "com.foo" ".bar";
option (frep) = "r2";
option deprecated = false;
option (frep) = "r1";
option (fopt) = "f";
message M {
  optional dep.a.A x = 1;
}
''', ["message", "field", "custom_option_set"], ["b.proto", "a.proto", "c.proto", "opts.proto"])

SKEL["msg"] = ('''syntax = "proto2";
message M {
  optional int32 a = 1;
  repeated string b = 2;
  required .M.N c = 3;
  message N {
    optional bool x = 1;
  }
  enum K {
    K_ZERO = 0;
  }
  map<string, N> m = 4;
  optional K k = 5;
}
''', ["message", "field", "nested_message", "nested_enum", "map_entry", "required"], [])

SKEL["body"] = ('''syntax = "proto2";
message M {
  oneof o {
    int32 p = 5;
    string q = 6;
  }
  optional group G = 7 {
    optional int32 g = 1;
  }
  extensions 100 to 199, 500 to max;
  reserved 8, 9 to 11;
  reserved "r1", "r2";
}
extend M {
  optional int32 e = 100;
}
''', ["message", "field", "oneof", "group", "extension_range", "reserved_range", "reserved_name", "extension"], [])

SKEL["enum"] = ('''syntax = "proto3";
enum E {
  option allow_alias = true;
  E_ZERO = 0;
  E_ONE = 1 [deprecated = true];
  E_UNO = 1;
  E_NEG = -1;
  reserved 5 to 9, 20;
  reserved "E_OLD";
}
message P {
  optional E e = 1;
  E message = 2;
}
''', ["message", "field", "enum", "enum_alias", "synthetic_oneof"], [])

SKEL["copt"] = ('''syntax = "proto2";
message M {
  optional int32 a = 1 [default = -5, deprecated = true, json_name = "NAME"];
  optional string s = 2 [default = "x" "y"];
  optional double d = 3 [default = -inf];
  repeated int32 r = 4 [packed = true];
  optional float f = 5 [default = 1.5];
}
''', ["message", "field", "default_value", "json_name"], [])

# compact options that are already broken over several lines, one entry's value a message literal followed by `,`
SKEL["coptml"] = ('''syntax = "proto2";
import "opts.proto";
message M {
  optional int32 a = 1 [
    default = -5,
    deprecated = true,
    json_name = "NAME"
  ];
  optional int32 b = 2 [
    (fldopt) = {
      leaf: 1
      names: "a"
    },
    (fldnum) = 3
  ];
}
''', ["message", "field", "default_value", "json_name", "custom_option_set"], ["opts.proto"])

SKEL["lit"] = ('''syntax = "proto2";
import "opts.proto";
message T {
  option (mopt) = { leaf: 1 names: ["x", "y"] sub { leaf: 2 } };
  optional int32 f = 1 [(fldopt) = { leaf: 5, names: "a"; sub < d: -1.5 > }];
}
message U {
  option (mopt).names = "n1";
  option (mopt).names = "n2";
  option (mopt).sub.leaf = 7;
  option (mopt2) = {
    subs: [{ leaf: 3 }, { flag: true }]
    [oext]: 4
  };
  optional int32 g = 1 [(fldnum) = 3, (fldopt).leaf = 1];
}
''', ["message", "field", "custom_option_set"], ["opts.proto"])

SKEL["svc"] = ('''syntax = "proto3";
import "opts.proto";
message Req {}
message Resp {}
service S {
  option deprecated = true;
  rpc U(Req) returns (Resp);
  rpc B(stream Req) returns (stream .Resp) {
    option idempotency_level = IDEMPOTENT;
    option (mtdopt) = { leaf: 1 };
  }
  rpc E(Req) returns (Resp) {}
}
''', ["message", "service", "streaming_method"], ["opts.proto"])

SKEL["ed"] = ('''edition = "2023";
package p;
option features.field_presence = IMPLICIT;
message M {
  int32 a = 1 [features.field_presence = EXPLICIT];
  extensions 100 to 199;
  M child = 2 [features.message_encoding = DELIMITED];
  int32 req = 3 [features.field_presence = LEGACY_REQUIRED];
  reserved r1, r2;
}
extend M {
  int32 e = 100;
  repeated string f = 101;
}
enum E {
  option features.enum_type = CLOSED;
  E_ONE = 1;
  reserved E_OLD;
}
''', ["message", "field", "extension_range", "extension", "delimited", "legacy_required", "reserved_name", "enum"], [])

SKEL["odd"] = ('''syntax = "proto3";
message Empty {}
message Flat { int32 a = 1; }
enum F { F_ZERO = 0; }
message Kw {
  string message = 1;
  int32 option = 2;
  repeated Kw stream = 3;
}
''', ["message", "field", "enum"], [])

# empty statements: known not to format idempotently, kept apart so that they do not hide anything else
SKEL["empty"] = ('''syntax = "proto3";
;
message Semi {
  ;
}
message After {};
''', ["message"], [])

# degenerate files: no token at all (the single gap is both start and end of the file), only a syntax statement
SKEL["void"] = ('''''', [], [])

SKEL["syn"] = ('''syntax = "proto3";
''', [], [])

# more than 12 top-level declarations, not in canonical order (a message before the import and the options, options
# after messages), with declarations the formatter's sort must keep in source order: thirteen messages and one
# repeated custom file option set three times.  The compiled descriptor fixes both orders.
SKEL["order"] = ('''syntax = "proto2";
message M01 {}
import "opts.proto";
option (frep) = "r3";
message M02 {}
message M03 {}
message M04 {}
message M05 {}
message M06 {}
message M07 {}
option (frep) = "r1";
message M08 {}
message M09 {}
message M10 {}
message M11 {}
message M12 {}
message M13 {}
option (frep) = "r2";
''', ["message", "custom_option_set"], ["opts.proto"])

# message literals whose LAST field is followed by a separator too (braces, angle brackets, nested)
SKEL["litsep"] = ('''syntax = "proto2";
import "opts.proto";
message T {
  option (mopt) = { leaf: 1; names: "two"; };
  option (mopt2) = { sub < leaf: 2, > subs: [{ leaf: 3; }], };
}
''', ["message", "custom_option_set"], ["opts.proto"])

# an empty statement right after a group / message body, and declarations after it (the trivia walker and the AST
# must agree on how many declarations that is when later comments are placed)
SKEL["grpsemi"] = ('''syntax = "proto2";
message M {
  optional group G = 1 {
    optional int32 g = 2;
  };
  optional int32 a = 3;
  message I {};
  optional int32 b = 4;
}
message N {};
message O {}
''', ["message", "field", "group", "nested_message"], [])

TOK = re.compile(r'''"(?:[^"\\\n]|\\.)*"|[0-9][0-9a-zA-Z_.]*|[A-Za-z_][A-Za-z0-9_]*|[=;{}\[\]()<>,.:\-]''')
GAPNAMES = {"": "none", " ": "sp", "\n": "lf", "\n  ": "lf2", "\n    ": "lf4", "\n      ": "lf6", "\n\n": "blank"}


def tla_str(s):
    return '"' + s.replace("\\", "\\\\").replace('"', '\\"').replace("\n", "\\n") + '"'


def tokenize(text):
    out = []
    pos = 0
    if text == "":
        return out
    m = TOK.match(text, pos)
    assert m, "skeleton must start with a token"
    while m:
        tok = m.group(0)
        pos = m.end()
        n = TOK.search(text, pos)
        gap = text[pos:n.start()] if n else text[pos:]
        assert gap.strip() == "", (tok, gap)
        assert gap in GAPNAMES, (tok, repr(gap))
        cat = "s" if tok[0] == '"' else "n" if tok[0].isdigit() else "w" if (tok[0].isalpha() or tok[0] == "_") else "p"
        out.append((tok, cat, GAPNAMES[gap]))
        m = n
    assert "".join(t + {v: k for k, v in GAPNAMES.items()}[g] for t, _c, g in out) == text
    return out


def main():
    w = sys.stdout.write
    w("--------------------------- MODULE PrintLayoutSkel ---------------------------\n")
    w("(* DATA for PrintLayout.tla: token skeletons of valid files in a plain canonical layout, produced from ordinary\n"
      "   .proto texts by harness/printer/mkskel.py (which only cuts the text into tokens and names the whitespace).\n"
      "   Skel[name] is a sequence of <<token text, lexical category (w word / n number / s string / p punctuation),\n"
      "   trivia kind of the gap AFTER the token in the default layout>>.  Together the skeletons contain every element\n"
      "   kind of FileFeatures!Kinds (SkelKinds; cross-checked against the compiled descriptors by the driver), SkelDeps\n"
      "   is the import list the compiled file must have, AuxFiles are the fixed files they import. *)\n")
    w("SkelNames == {" + ", ".join('"%s"' % n for n in SKEL) + "}\n\n")
    w("Skel == [\n")
    first = True
    for name, (text, _k, _d) in SKEL.items():
        toks = tokenize(text)
        if not first:
            w(",\n")
        first = False
        if not toks:
            w("  %s |-> <<>>" % name)
            continue
        w("  %s |-> <<\n" % name)
        line = "    "
        for i, (t, c, g) in enumerate(toks):
            item = "<<%s, \"%s\", \"%s\">>" % (tla_str(t), c, g) + ("," if i + 1 < len(toks) else "")
            if len(line) + len(item) > 118:
                w(line.rstrip() + "\n")
                line = "    "
            line += item + " "
        w(line.rstrip() + "\n  >>")
    w("\n]\n\n")
    w("SkelKinds == [\n" + ",\n".join("  %s |-> {%s}" % (n, ", ".join('"%s"' % k for k in ks)) for n, (_t, ks, _d) in SKEL.items()) + "\n]\n\n")
    w("SkelDeps == [\n" + ",\n".join("  %s |-> <<%s>>" % (n, ", ".join('"%s"' % k for k in ds)) for n, (_t, _k, ds) in SKEL.items()) + "\n]\n\n")
    w("AuxFiles == {\n" + ",\n".join("  <<%s,\n    %s>>" % (tla_str(p), tla_str(t)) for p, t in AUX.items()) + "\n}\n")
    w("=============================================================================\n")


if __name__ == "__main__":
    main()
