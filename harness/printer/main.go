// Driver for C30 (printer round-trip mode reproduces the source) and C31 (formatting preserves meaning and is
// idempotent).  Cases are layouts exported by spec/MCPrintLayout.tla: a token skeleton, its default trivia, the
// trivia table and the gap classes come from the specification ("skel" records); a case ("lay" record) is a set
// of placements <<gap, trivia kind>> plus the feature vector the specification computed for it.  The driver only
// concatenates strings the specification handed over, runs the real printer, and compares.
//
//	printer -skel skels.jsonl -props c30,c31 [-j N] < cases.jsonl     one JSON result line per failing class instance
//	printer -corpus < {key,text} lines                                 free files (no layout vector): diagnostics only
//
// A failing case is MINIMISED: every placement is removed in turn (back to the default trivia) while the same
// check keeps failing; the class is built from the features of the minimal placement set and from the way the
// output differs, then the remaining placements are examined on their own so that one known failure cannot hide
// another one in the same case.
package main

import (
	"bufio"
	"bytes"
	"context"
	"encoding/json"
	"flag"
	"fmt"
	"os"
	"runtime"
	"sort"
	"strconv"
	"strings"
	"sync"
	"sync/atomic"

	"google.golang.org/protobuf/encoding/protowire"
	"google.golang.org/protobuf/proto"
	"google.golang.org/protobuf/types/descriptorpb"

	"github.com/bufbuild/protocompile"
	"github.com/bufbuild/protocompile/experimental/ast"
	"github.com/bufbuild/protocompile/experimental/ast/printer"
	expparser "github.com/bufbuild/protocompile/experimental/parser"
	"github.com/bufbuild/protocompile/experimental/report"
	"github.com/bufbuild/protocompile/experimental/seq"
	"github.com/bufbuild/protocompile/experimental/source"
	"github.com/bufbuild/protocompile/internal/zzverif/common/featgen"
	"github.com/bufbuild/protocompile/protoutil"
	"github.com/bufbuild/protocompile/reporter"
)

// ---------------------------------------------------------------------------------------------
// records from the specification

type skelRec struct {
	Skel     string            `json:"skel"`
	Toks     []string          `json:"toks"`
	Defaults []string          `json:"defaults"` // index gap
	Classes  []string          `json:"classes"`  // index gap
	Zones    []string          `json:"zones"`    // index gap
	Cats     map[string]string `json:"cats"`     // trivia kind -> category
	Comments []string          `json:"commentkinds"`
	Items    []string          `json:"items"`
	Kinds    []string          `json:"kinds"`
	Deps     []string          `json:"deps"`
	Trivia   map[string]string `json:"trivia"`
	Aux      [][]string        `json:"aux"`

	aux      map[string]string
	baseDesc *descriptorpb.FileDescriptorProto
	baseText string
	cache    sync.Map
}

type placement struct {
	Gap  int
	Kind string
}

func (p *placement) UnmarshalJSON(b []byte) error {
	var raw []json.RawMessage
	if err := json.Unmarshal(b, &raw); err != nil || len(raw) != 2 {
		return fmt.Errorf("bad placement %s", b)
	}
	if err := json.Unmarshal(raw[0], &p.Gap); err != nil {
		return err
	}
	return json.Unmarshal(raw[1], &p.Kind)
}

func (p placement) MarshalJSON() ([]byte, error) {
	return json.Marshal([]any{p.Gap, p.Kind})
}

type layRec struct {
	T     string      `json:"t"`
	Skel  string      `json:"skel"`
	Pl    []placement `json:"pl"`
	Feat  []string    `json:"feat"`
	Items []string    `json:"items,omitempty"`
	// binding self-test: if set, the expectation is rendered from these placements instead of Pl
	ExpPl []placement `json:"exp_pl,omitempty"`
}

type result struct {
	Prop   string      `json:"prop"`
	Class  string      `json:"class"`
	Skel   string      `json:"skel"`
	Pl     []placement `json:"pl"`
	Min    []placement `json:"min"`
	Detail string      `json:"detail"`
}

var (
	outMu sync.Mutex
	enc   *json.Encoder
)

func emit(r result) {
	outMu.Lock()
	defer outMu.Unlock()
	_ = enc.Encode(r)
}

func decodeEsc(s string) string {
	for {
		i := strings.Index(s, "<U+")
		if i < 0 {
			return s
		}
		j := strings.Index(s[i:], ">")
		if j < 0 {
			return s
		}
		n, err := strconv.ParseInt(s[i+3:i+j], 16, 32)
		if err != nil {
			return s
		}
		s = s[:i] + string(rune(n)) + s[i+j+1:]
	}
}

func sortPl(pl []placement) []placement {
	out := append([]placement(nil), pl...)
	sort.Slice(out, func(i, j int) bool { return out[i].Gap < out[j].Gap })
	return out
}

// render concatenates trivia(0) t1 trivia(1) ... tn trivia(n); returns the text and the byte offset where the
// last gap (the file's trailing trivia) starts.
func (s *skelRec) render(pl []placement) (string, int) {
	over := map[int]string{}
	for _, p := range pl {
		over[p.Gap] = p.Kind
	}
	var sb strings.Builder
	eof := 0
	for g := 0; g <= len(s.Toks); g++ {
		if g > 0 {
			sb.WriteString(s.Toks[g-1])
		}
		k, ok := over[g]
		if !ok {
			k = s.Defaults[g]
		}
		t, ok := s.Trivia[k]
		if !ok {
			panic("unknown trivia kind " + k)
		}
		if g == len(s.Toks) {
			eof = sb.Len()
		}
		sb.WriteString(decodeEsc(t))
	}
	return sb.String(), eof
}

// features lists the features of the placements.  Order (it matters only for classes built from several
// features, whose leading feature decides the family a known finding can name): comments inside a statement
// first, then other comments, then whitespace; alphabetical within each group.
func (s *skelRec) features(pl []placement) []string {
	set := map[string]int{}
	for _, p := range pl {
		rank := 2
		for _, k := range s.Comments {
			if k == p.Kind {
				rank = 1
				if s.Zones[p.Gap] == "inside" {
					rank = 0
				}
			}
		}
		set[s.Cats[p.Kind]+"@"+s.Zones[p.Gap]+"("+s.Classes[p.Gap]+")="+p.Kind] = rank
	}
	out := make([]string, 0, len(set))
	for f := range set {
		out = append(out, f)
	}
	sort.Slice(out, func(i, j int) bool {
		if set[out[i]] != set[out[j]] {
			return set[out[i]] < set[out[j]]
		}
		return out[i] < out[j]
	})
	return out
}

// ---------------------------------------------------------------------------------------------
// a small scanner of .proto text (harness side, used only to DESCRIBE how two texts differ)

type lexItem struct {
	kind byte // 't' token, 'c' comment
	text string
}

func scan(text string) []lexItem {
	var out []lexItem
	i := 0
	n := len(text)
	for i < n {
		c := text[i]
		switch {
		case c == ' ' || c == '\t' || c == '\n' || c == '\r' || c == '\f' || c == '\v':
			i++
		case strings.HasPrefix(text[i:], "\xef\xbb\xbf"):
			i += 3
		case strings.HasPrefix(text[i:], "//"):
			j := strings.IndexByte(text[i:], '\n')
			if j < 0 {
				j = n - i
			}
			out = append(out, lexItem{'c', strings.TrimRight(text[i:i+j], " \t\r")})
			i += j
		case strings.HasPrefix(text[i:], "/*"):
			j := strings.Index(text[i+2:], "*/")
			if j < 0 {
				j = n - i - 4
			}
			out = append(out, lexItem{'c', text[i : i+2+j+2]})
			i += 2 + j + 2
		case c == '"' || c == '\'':
			j := i + 1
			for j < n && text[j] != c && text[j] != '\n' {
				if text[j] == '\\' {
					j++
				}
				j++
			}
			if j < n {
				j++
			}
			if j > n {
				j = n
			}
			out = append(out, lexItem{'t', text[i:j]})
			i = j
		case isWord(c):
			j := i
			for j < n && (isWord(text[j]) || (text[j] == '.' && j > i && isDigit(text[i]))) {
				j++
			}
			out = append(out, lexItem{'t', text[i:j]})
			i = j
		default:
			out = append(out, lexItem{'t', text[i : i+1]})
			i++
		}
	}
	return out
}

func isDigit(c byte) bool { return c >= '0' && c <= '9' }
func isWord(c byte) bool {
	return c == '_' || isDigit(c) || (c >= 'a' && c <= 'z') || (c >= 'A' && c <= 'Z') || c >= 0x80
}

func project(items []lexItem, kind byte) []string {
	var out []string
	for _, it := range items {
		if it.kind == kind {
			out = append(out, it.text)
		}
	}
	return out
}

func eqStrs(a, b []string) bool {
	if len(a) != len(b) {
		return false
	}
	for i := range a {
		if a[i] != b[i] {
			return false
		}
	}
	return true
}

func sortedCopy(a []string) []string {
	b := append([]string(nil), a...)
	sort.Strings(b)
	return b
}

// normalise a comment for comparison across formatting (block comment interiors may be re-indented)
func normComment(c string) string {
	return strings.Join(strings.Fields(c), " ")
}

// diffMode describes how got differs from want.
func diffMode(want, got string) string {
	w, g := scan(want), scan(got)
	wt, gt := project(w, 't'), project(g, 't')
	if !eqStrs(wt, gt) {
		switch {
		case len(gt) < len(wt):
			return "tokens-lost"
		case len(gt) > len(wt):
			return "tokens-added"
		}
		return "tokens-changed"
	}
	wc, gc := project(w, 'c'), project(g, 'c')
	for i := range wc {
		wc[i] = normComment(wc[i])
	}
	for i := range gc {
		gc[i] = normComment(gc[i])
	}
	if !eqStrs(wc, gc) {
		switch {
		case eqStrs(sortedCopy(wc), sortedCopy(gc)):
			return "comments-reordered"
		case len(gc) < len(wc):
			return "comment-lost"
		case len(gc) > len(wc):
			return "comment-added"
		}
		return "comment-text"
	}
	// same tokens, same comments: interleaving?
	if len(w) == len(g) {
		same := true
		for i := range w {
			if w[i].kind != g[i].kind {
				same = false
				break
			}
		}
		if !same {
			return "comment-moved"
		}
	}
	if strings.Count(want, "\n") != strings.Count(got, "\n") {
		return "ws-lines"
	}
	return "ws-horizontal"
}

// severity groups the ways two texts can differ: the code changed, the comments changed, only the layout changed.
func severity(mode string) string {
	switch {
	case strings.HasPrefix(mode, "tokens-"):
		return "tokens"
	case mode == "comment-lost" || mode == "comment-added" || mode == "comment-text" || mode == "comments-reordered":
		return "comments"
	case mode == "comment-moved" || strings.HasPrefix(mode, "ws-"):
		return "layout"
	}
	return mode
}

func excerpt(want, got string) string {
	p := 0
	for p < len(want) && p < len(got) && want[p] == got[p] {
		p++
	}
	s := 0
	for s < len(want)-p && s < len(got)-p && want[len(want)-1-s] == got[len(got)-1-s] {
		s++
	}
	from := p - 30
	if from < 0 {
		from = 0
	}
	wto, gto := len(want)-s+15, len(got)-s+15
	if wto > len(want) {
		wto = len(want)
	}
	if gto > len(got) {
		gto = len(got)
	}
	return fmt.Sprintf("at byte %d: want %q got %q", p, want[from:wto], got[from:gto])
}

func onlyTrivia(s string) bool {
	return len(project(scan(s), 't')) == 0
}

// ---------------------------------------------------------------------------------------------
// the real code

func expParse(text string) (file fileT, nerr int, first string) {
	errs := &report.Report{}
	f, _ := expparser.Parse("main.proto", source.NewFile("main.proto", text), errs)
	for _, d := range errs.Diagnostics {
		if d.Level() <= report.Error {
			if nerr == 0 {
				first = fmt.Sprint(d.Message())
			}
			nerr++
		}
	}
	return f, nerr, first
}

var presets = []struct {
	name string
	opts printer.Options
}{
	{"default", printer.Options{Format: true, Formatting: printer.Default()}},
	{"legacy", printer.Options{Format: true, Formatting: printer.Legacy()}},
}

func stableCompile(aux map[string]string, text string) (fd *descriptorpb.FileDescriptorProto, err error) {
	defer func() {
		if r := recover(); r != nil {
			err = fmt.Errorf("panic: %v", r)
		}
	}()
	files := map[string]string{"main.proto": text}
	for k, v := range aux {
		files[k] = v
	}
	comp := protocompile.Compiler{
		Resolver: protocompile.WithStandardImports(&protocompile.SourceResolver{
			Accessor: protocompile.SourceAccessorFromMap(files),
		}),
		MaxParallelism: 1,
		Reporter:       reporter.NewReporter(nil, func(reporter.ErrorWithPos) {}),
	}
	res, err := comp.Compile(context.Background(), "main.proto")
	if err != nil {
		return nil, err
	}
	return protoutil.ProtoFromFileDescriptor(res[0]), nil
}

// compileFormatted compiles a formatted text with the stable compiler.  Descriptors without source info are a
// function of the token sequence alone, so the result is remembered per token sequence (as cut by scan, whose
// agreement with the skeleton's tokens is checked in prepare); one hit in 64 is compiled anyway and compared.
type compiled struct {
	fd  *descriptorpb.FileDescriptorProto
	err error
}

func (s *skelRec) compileFormatted(text string) (*descriptorpb.FileDescriptorProto, error) {
	key := strings.Join(project(scan(text), 't'), "\x00")
	if v, ok := s.cache.Load(key); ok {
		c := v.(compiled)
		nCacheHit.Add(1)
		h := 0
		for i := 0; i < len(text); i++ {
			h = h*31 + int(text[i])
		}
		if h&63 == 0 {
			fd, err := stableCompile(s.aux, text)
			nCompile.Add(1)
			if (err == nil) != (c.err == nil) || (err == nil && !bytes.Equal(featgen.DetBytes(noSI(fd)), featgen.DetBytes(noSI(c.fd)))) {
				harnessErrs.Add(1)
				emit(result{Prop: "HARNESS", Class: "HARNESS:compile-cache", Skel: s.Skel, Detail: "same tokens, different compilation result: " + strconv.Quote(text)})
			}
		}
		return c.fd, c.err
	}
	fd, err := stableCompile(s.aux, text)
	nCompile.Add(1)
	s.cache.Store(key, compiled{fd, err})
	return fd, err
}

func noSI(fd *descriptorpb.FileDescriptorProto) *descriptorpb.FileDescriptorProto {
	c := proto.Clone(fd).(*descriptorpb.FileDescriptorProto)
	c.SourceCodeInfo = nil
	return c
}

// descDiff compares two descriptors without source info: depOrder reports that the dependency lists are
// permutations of each other but not equal; other names the top-level FileDescriptorProto fields that still
// differ once the dependency lists are sorted ("" if none).
func descDiff(a, b *descriptorpb.FileDescriptorProto) (depOrder bool, other string) {
	ab, bb := featgen.DetBytes(noSI(a)), featgen.DetBytes(noSI(b))
	if bytes.Equal(ab, bb) {
		return false, ""
	}
	na, nb := normDeps(a), normDeps(b)
	depOrder = strings.Join(a.Dependency, ",") != strings.Join(b.Dependency, ",") &&
		strings.Join(na.Dependency, ",") == strings.Join(nb.Dependency, ",")
	if bytes.Equal(featgen.DetBytes(na), featgen.DetBytes(nb)) {
		return depOrder, ""
	}
	fa, fb := topFields(featgen.DetBytes(na)), topFields(featgen.DetBytes(nb))
	names := map[string]bool{}
	for num, v := range fa {
		if !bytes.Equal(v, fb[num]) {
			names[fieldName(num)] = true
		}
	}
	for num := range fb {
		if _, ok := fa[num]; !ok {
			names[fieldName(num)] = true
		}
	}
	var ns []string
	for n := range names {
		ns = append(ns, n)
	}
	sort.Strings(ns)
	return depOrder, "descriptor(" + strings.Join(ns, ",") + ")"
}

func fieldName(num protowire.Number) string {
	fd := (&descriptorpb.FileDescriptorProto{}).ProtoReflect().Descriptor().Fields().ByNumber(num)
	if fd == nil {
		return fmt.Sprint(num)
	}
	return string(fd.Name())
}

func topFields(b []byte) map[protowire.Number][]byte {
	out := map[protowire.Number][]byte{}
	for len(b) > 0 {
		num, typ, n := protowire.ConsumeTag(b)
		if n < 0 {
			break
		}
		m := protowire.ConsumeFieldValue(num, typ, b[n:])
		if m < 0 {
			break
		}
		out[num] = append(out[num], b[:n+m]...)
		b = b[n+m:]
	}
	return out
}

// normDeps sorts the dependency list (remapping public / weak indexes) and drops source info.
func normDeps(fd *descriptorpb.FileDescriptorProto) *descriptorpb.FileDescriptorProto {
	c := noSI(fd)
	type dep struct {
		name         string
		public, weak bool
	}
	ds := make([]dep, len(c.Dependency))
	for i, d := range c.Dependency {
		ds[i].name = d
	}
	for _, i := range c.PublicDependency {
		ds[i].public = true
	}
	for _, i := range c.WeakDependency {
		ds[i].weak = true
	}
	sort.Slice(ds, func(i, j int) bool { return ds[i].name < ds[j].name })
	c.Dependency, c.PublicDependency, c.WeakDependency = nil, nil, nil
	for i, d := range ds {
		c.Dependency = append(c.Dependency, d.name)
		if d.public {
			c.PublicDependency = append(c.PublicDependency, int32(i))
		}
		if d.weak {
			c.WeakDependency = append(c.WeakDependency, int32(i))
		}
	}
	return c
}

// ---------------------------------------------------------------------------------------------
// checks

type failure struct {
	mode   string
	detail string
}

type outcome struct {
	harness string             // non-empty: the case is not a valid case (specification / renderer problem)
	fails   map[string]failure // check name -> failure
}

var (
	doC30, doC31 bool
	nEval        atomic.Int64
	nPrint       atomic.Int64
	nCompile     atomic.Int64
	nCacheHit    atomic.Int64
)

func guard(what string, f func()) (msg string) {
	defer func() {
		if r := recover(); r != nil {
			msg = fmt.Sprintf("panic in %s: %v", what, r)
		}
	}()
	f()
	return ""
}

// evaluate runs every selected check on text.  expect is the text round-trip mode has to reproduce (= text except
// in the binding self-test); eofStart is where the file's trailing trivia begins in expect.
func evaluate(s *skelRec, text, expect string, eofStart int) outcome {
	nEval.Add(1)
	o := outcome{fails: map[string]failure{}}
	file, nerr, first := expParse(text)
	if nerr > 0 {
		o.harness = "experimental parser rejects the layout: " + first
		return o
	}
	if doC30 {
		var got string
		if msg := guard("PrintFile", func() {
			var err error
			got, err = printer.PrintFile(printer.Options{}, file)
			if err != nil {
				panic(err)
			}
		}); msg != "" {
			o.fails["roundtrip"] = failure{"panic", msg}
		} else if got != expect {
			o.fails["roundtrip"] = failure{diffMode(expect, got), excerpt(expect, got)}
		}
		nPrint.Add(1)
		var cat strings.Builder
		if msg := guard("Print", func() {
			for d := range seq.Values(file.Decls()) {
				cat.WriteString(printer.Print(printer.Options{}, d))
			}
		}); msg != "" {
			o.fails["printcat"] = failure{"panic", msg}
		} else {
			c := cat.String()
			// must be: expect minus (a suffix of) the file's trailing trivia
			okCat := strings.HasPrefix(expect, c) && len(c) >= eofStart
			if !okCat {
				// the same deviation as PrintFile's is one defect, not two
				if _, rtFailed := o.fails["roundtrip"]; rtFailed && strings.HasPrefix(got, c) && onlyTrivia(got[len(c):]) {
					// subsumed
				} else {
					ref := expect[:eofStart]
					if len(c) > eofStart && len(c) <= len(expect) {
						ref = expect[:len(c)]
					}
					o.fails["printcat"] = failure{diffMode(ref, c), excerpt(ref, c)}
				}
			}
		}
	}
	if doC31 {
		for _, pr := range presets {
			var f1, f2 string
			msg := guard("format", func() {
				var err error
				f1, err = printer.PrintFile(pr.opts, file)
				if err != nil {
					panic(err)
				}
			})
			nPrint.Add(1)
			if msg != "" {
				o.fails["meaning:"+pr.name] = failure{"panic", msg}
				continue
			}
			file2, nerr2, first2 := expParse(f1)
			if nerr2 > 0 {
				o.fails["meaning:"+pr.name] = failure{"formatted-does-not-parse", first2 + " in " + strconv.Quote(f1)}
				continue
			}
			msg = guard("format twice", func() {
				var err error
				f2, err = printer.PrintFile(pr.opts, file2)
				if err != nil {
					panic(err)
				}
			})
			if msg != "" {
				o.fails["idempotence:"+pr.name] = failure{"panic", msg}
			} else if f1 != f2 {
				o.fails["idempotence:"+pr.name] = failure{diffMode(f1, f2), excerpt(f1, f2)}
			}
			fd, err := s.compileFormatted(f1)
			if err != nil {
				// is the case itself valid?
				if _, err0 := stableCompile(s.aux, text); err0 != nil {
					o.harness = "stable compiler rejects the layout: " + err0.Error()
					return o
				}
				o.fails["meaning:"+pr.name] = failure{"formatted-does-not-compile", err.Error() + " in " + strconv.Quote(f1)}
				continue
			}
			if depOrder, d := descDiff(s.baseDesc, fd); depOrder || d != "" {
				fd0, err0 := stableCompile(s.aux, text)
				if err0 != nil {
					o.harness = "stable compiler rejects the layout: " + err0.Error()
					return o
				}
				if dep0, d0 := descDiff(s.baseDesc, fd0); dep0 || d0 != "" {
					o.harness = "layout changes the descriptor: " + d0
					return o
				}
				if depOrder {
					o.fails["deporder:"+pr.name] = failure{"dependency-order", fmt.Sprintf("dependency %q became %q", s.baseDesc.Dependency, fd.Dependency)}
				}
				if d != "" {
					o.fails["meaning:"+pr.name] = failure{d, d + " after formatting to " + strconv.Quote(f1)}
				}
			}
		}
	}
	return o
}

func propOf(check string) string {
	if check == "roundtrip" || check == "printcat" {
		return "C30"
	}
	return "C31"
}

// ---------------------------------------------------------------------------------------------
// one case

type caseRun struct {
	s    *skelRec
	memo map[string]outcome
}

func plKey(pl []placement) string {
	pl = sortPl(pl)
	var sb strings.Builder
	for _, p := range pl {
		fmt.Fprintf(&sb, "%d=%s,", p.Gap, p.Kind)
	}
	return sb.String()
}

func (c *caseRun) eval(pl []placement) outcome {
	k := plKey(pl)
	if o, ok := c.memo[k]; ok {
		return o
	}
	text, eof := c.s.render(pl)
	o := evaluate(c.s, text, text, eof)
	c.memo[k] = o
	return o
}

func without(pl []placement, i int) []placement {
	out := make([]placement, 0, len(pl)-1)
	out = append(out, pl[:i]...)
	return append(out, pl[i+1:]...)
}

func minus(pl, sub []placement) []placement {
	var out []placement
	for _, p := range pl {
		in := false
		for _, q := range sub {
			if p == q {
				in = true
			}
		}
		if !in {
			out = append(out, p)
		}
	}
	return out
}

var harnessErrs atomic.Int64

func runCase(s *skelRec, lc *layRec) {
	c := &caseRun{s: s, memo: map[string]outcome{}}
	pl := sortPl(lc.Pl)
	// the feature vector the specification computed must be the one the classes give
	if f := c.s.features(pl); !eqStrs(sortedCopy(f), sortedCopy(lc.Feat)) {
		harnessErrs.Add(1)
		emit(result{Prop: "HARNESS", Class: "HARNESS:features", Skel: s.Skel, Pl: pl, Detail: fmt.Sprintf("spec %v driver %v", lc.Feat, f)})
		return
	}
	text, eof := s.render(pl)
	if lc.Items != nil && strings.Join(decodeAll(lc.Items), "") != text {
		harnessErrs.Add(1)
		emit(result{Prop: "HARNESS", Class: "HARNESS:items", Skel: s.Skel, Pl: pl, Detail: "rendered text differs from the specification's Items"})
		return
	}
	var o outcome
	if lc.ExpPl != nil {
		exp, eof2 := s.render(lc.ExpPl)
		o = evaluate(s, text, exp, eof2)
	} else {
		o = evaluate(s, text, text, eof)
		c.memo[plKey(pl)] = o
	}
	if o.harness != "" {
		harnessErrs.Add(1)
		emit(result{Prop: "HARNESS", Class: "HARNESS:invalid-case", Skel: s.Skel, Pl: pl, Detail: o.harness + " in " + strconv.Quote(text)})
		return
	}
	checks := make([]string, 0, len(o.fails))
	for ch := range o.fails {
		checks = append(checks, ch)
	}
	sort.Strings(checks)
	for _, ch := range checks {
		if lc.ExpPl != nil {
			f := o.fails[ch]
			emit(result{Prop: propOf(ch), Class: ch + ":" + severity(f.mode) + ":selftest;" + f.mode, Skel: s.Skel, Pl: pl, Min: pl, Detail: f.detail})
			continue
		}
		rest := pl
		for round := 0; ; round++ {
			cur := rest
			for i := 0; i < len(cur); {
				try := without(cur, i)
				ot := c.eval(try)
				if ot.harness != "" {
					i++
					continue
				}
				if _, still := ot.fails[ch]; still {
					cur = try
				} else {
					i++
				}
			}
			f := c.eval(cur).fails[ch]
			feats := strings.Join(s.features(cur), "+")
			if len(cur) == 0 {
				feats = "default-layout(" + s.Skel + ")"
			}
			emit(result{Prop: propOf(ch), Class: ch + ":" + severity(f.mode) + ":" + feats + ";" + f.mode, Skel: s.Skel, Pl: pl, Min: cur, Detail: f.detail})
			if len(cur) == 0 {
				break
			}
			rest = minus(rest, cur)
			if len(rest) == 0 {
				break
			}
			or := c.eval(rest)
			if _, still := or.fails[ch]; !still || or.harness != "" {
				break
			}
		}
	}
}

func decodeAll(items []string) []string {
	out := make([]string, len(items))
	for i, s := range items {
		out[i] = decodeEsc(s)
	}
	return out
}

// prepare a skeleton: cross-check the renderer and the skeleton data against the specification
func (s *skelRec) prepare() error {
	s.aux = map[string]string{}
	for _, a := range s.Aux {
		s.aux[a[0]] = a[1]
	}
	if len(s.Defaults) != len(s.Toks)+1 || len(s.Classes) != len(s.Toks)+1 || len(s.Zones) != len(s.Toks)+1 {
		return fmt.Errorf("skeleton %s: table sizes", s.Skel)
	}
	text, _ := s.render(nil)
	if strings.Join(decodeAll(s.Items), "") != text {
		return fmt.Errorf("skeleton %s: rendered default layout differs from the specification's Items", s.Skel)
	}
	// the scanner used for describing differences must see exactly the skeleton's tokens
	if toks := project(scan(text), 't'); !eqStrs(toks, s.Toks) {
		return fmt.Errorf("skeleton %s: scanner tokens %q differ from skeleton tokens", s.Skel, toks)
	}
	fd, err := stableCompile(s.aux, text)
	if err != nil {
		return fmt.Errorf("skeleton %s does not compile: %v\n%s", s.Skel, err, text)
	}
	got := featgen.MeasuredKinds(fd)
	for _, k := range s.Kinds {
		if !got[k] {
			return fmt.Errorf("skeleton %s: element kind %s missing in the compiled descriptor", s.Skel, k)
		}
	}
	if strings.Join(fd.Dependency, ",") != strings.Join(s.Deps, ",") {
		return fmt.Errorf("skeleton %s: dependencies %v, specification says %v", s.Skel, fd.Dependency, s.Deps)
	}
	if _, nerr, first := expParse(text); nerr > 0 {
		return fmt.Errorf("skeleton %s: experimental parser: %s", s.Skel, first)
	}
	s.baseDesc = fd
	s.baseText = text
	return nil
}

// ---------------------------------------------------------------------------------------------

type fileT = *ast.File

func corpus() {
	sc := bufio.NewScanner(os.Stdin)
	sc.Buffer(make([]byte, 1<<20), 1<<26)
	doC30, doC31 = true, true
	for sc.Scan() {
		var c struct {
			Key  string            `json:"key"`
			Text string            `json:"text"`
			Aux  map[string]string `json:"aux"`
		}
		if err := json.Unmarshal(sc.Bytes(), &c); err != nil {
			panic(err)
		}
		s := &skelRec{Skel: c.Key, aux: c.Aux}
		fd, err := stableCompile(c.Aux, c.Text)
		if err != nil {
			fmt.Printf("%s: does not compile: %v\n", c.Key, err)
			doC31 = false
		} else {
			s.baseDesc = fd
			doC31 = true
		}
		if fd != nil {
			// is the stable compiler deterministic on this file at all?
			for i := 0; i < 3; i++ {
				if fd2, err2 := stableCompile(c.Aux, c.Text); err2 == nil {
					if _, d := descDiff(fd, fd2); d != "" {
						fmt.Printf("%s: NOTE two compilations of the same text differ: %s\n", c.Key, d)
						break
					}
				}
			}
		}
		trimmed := strings.TrimRight(c.Text, " \t\r\n")
		o := evaluate(s, c.Text, c.Text, len(trimmed))
		if o.harness != "" {
			fmt.Printf("%s: INVALID %s\n", c.Key, o.harness)
			continue
		}
		var ks []string
		for k := range o.fails {
			ks = append(ks, k)
		}
		sort.Strings(ks)
		fmt.Printf("%s: %d failing checks\n", c.Key, len(ks))
		for _, k := range ks {
			fmt.Printf("   %s:%s  %s\n", k, o.fails[k].mode, o.fails[k].detail)
		}
	}
}

func main() {
	skelPath := flag.String("skel", "", "skeleton records (JSON lines)")
	props := flag.String("props", "c30,c31", "which properties to check")
	jobs := flag.Int("j", 0, "worker goroutines")
	corp := flag.Bool("corpus", false, "free files on stdin")
	flag.Parse()
	enc = json.NewEncoder(os.Stdout)
	enc.SetEscapeHTML(false)
	if *corp {
		corpus()
		return
	}
	doC30 = strings.Contains(*props, "c30")
	doC31 = strings.Contains(*props, "c31")
	skels := map[string]*skelRec{}
	fh, err := os.Open(*skelPath)
	if err != nil {
		fmt.Fprintln(os.Stderr, err)
		os.Exit(3)
	}
	sc := bufio.NewScanner(fh)
	sc.Buffer(make([]byte, 1<<20), 1<<26)
	for sc.Scan() {
		s := &skelRec{}
		if err := json.Unmarshal(sc.Bytes(), s); err != nil {
			fmt.Fprintln(os.Stderr, "bad skeleton record:", err)
			os.Exit(3)
		}
		if err := s.prepare(); err != nil {
			emit(result{Prop: "HARNESS", Class: "HARNESS:skeleton", Skel: s.Skel, Detail: err.Error()})
			harnessErrs.Add(1)
			continue
		}
		skels[s.Skel] = s
	}
	fh.Close()

	n := *jobs
	if n <= 0 {
		n = runtime.NumCPU() / 2
		if n > 8 {
			n = 8
		}
		if n < 1 {
			n = 1
		}
	}
	ch := make(chan *layRec, 256)
	var wg sync.WaitGroup
	var nCases atomic.Int64
	for i := 0; i < n; i++ {
		wg.Add(1)
		go func() {
			defer wg.Done()
			for lc := range ch {
				s := skels[lc.Skel]
				if s == nil {
					harnessErrs.Add(1)
					emit(result{Prop: "HARNESS", Class: "HARNESS:unknown-skeleton", Skel: lc.Skel})
					continue
				}
				runCase(s, lc)
				nCases.Add(1)
			}
		}()
	}
	in := bufio.NewScanner(os.Stdin)
	in.Buffer(make([]byte, 1<<20), 1<<26)
	for in.Scan() {
		if len(bytes.TrimSpace(in.Bytes())) == 0 {
			continue
		}
		lc := &layRec{}
		if err := json.Unmarshal(in.Bytes(), lc); err != nil {
			fmt.Fprintln(os.Stderr, "bad case:", err)
			os.Exit(3)
		}
		ch <- lc
	}
	close(ch)
	wg.Wait()
	fmt.Fprintf(os.Stderr, "STATS cases=%d evaluations=%d prints=%d compiles=%d compile_cache_hits=%d harness=%d\n",
		nCases.Load(), nEval.Load(), nPrint.Load(), nCompile.Load(), nCacheHit.Load(), harnessErrs.Load())
}
