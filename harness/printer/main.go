// scratch probe (to be replaced)
package main

import (
	"bufio"
	"encoding/json"
	"fmt"
	"os"
	"strings"

	"github.com/bufbuild/protocompile/experimental/ast/printer"
	"github.com/bufbuild/protocompile/experimental/parser"
	"github.com/bufbuild/protocompile/experimental/report"
	"github.com/bufbuild/protocompile/experimental/seq"
	"github.com/bufbuild/protocompile/experimental/source"
)

type in struct {
	Key  string `json:"key"`
	Text string `json:"text"`
}

func main() {
	sc := bufio.NewScanner(os.Stdin)
	sc.Buffer(make([]byte, 1<<20), 1<<26)
	for sc.Scan() {
		var c in
		if err := json.Unmarshal(sc.Bytes(), &c); err != nil {
			panic(err)
		}
		errs := &report.Report{}
		file, ok := parser.Parse("x.proto", source.NewFile("x.proto", c.Text), errs)
		nerr := 0
		for _, d := range errs.Diagnostics {
			if d.Level() <= report.Error {
				nerr++
			}
		}
		got, _ := printer.PrintFile(printer.Options{}, file)
		var sb strings.Builder
		for d := range seq.Values(file.Decls()) {
			sb.WriteString(printer.Print(printer.Options{}, d))
		}
		fmt.Printf("%s ok=%v errs=%d rt=%v prefix=%v\n", c.Key, ok, nerr, got == c.Text, strings.HasPrefix(c.Text, sb.String()))
		if got != c.Text {
			fmt.Printf("  src=%q\n  got=%q\n", c.Text, got)
		}
		if !strings.HasPrefix(c.Text, sb.String()) {
			fmt.Printf("  cat=%q\n", sb.String())
		}
		for _, pr := range []struct {
			n string
			f printer.Formatting
		}{{"default", printer.Default()}, {"legacy", printer.Legacy()}} {
			o := printer.Options{Format: true, Formatting: pr.f}
			f1, _ := printer.PrintFile(o, file)
			errs2 := &report.Report{}
			file2, _ := parser.Parse("x.proto", source.NewFile("x.proto", f1), errs2)
			f2, _ := printer.PrintFile(o, file2)
			fmt.Printf("  %s idem=%v f1=%q\n", pr.n, f1 == f2, f1)
			if f1 != f2 {
				fmt.Printf("    f2=%q\n", f2)
			}
		}
	}
}
