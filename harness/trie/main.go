// Driver for C41 (trie): replays TLC-exported insertion histories (MCTrie) on the real
// trie.Trie and compares Prefixes(q) and Get(q) for every query with the answers computed by
// Trie.tla after EVERY insert.
//
// Letters are concretised as byte strings ("codes").  All key letters of one coding have the same
// length and differ somewhere, so "k is a prefix of q" means the same for the abstract and the
// concrete strings; the query-only letter x is either another code of that length or a proper
// prefix of a's code (a query that stops in the middle of a letter).  Long codes push the node
// count of the nybble trie over 255 (uint8 -> uint16 index) and, with -huge, over 65535.
//
//	stdin   one JSON case per line (see MCTrie!Case)
//	stdout  up to -cap JSON lines per disagreement class, then one {"stats":...} line
//	-seed N     selects codings and their random bytes
//	-huge K     additionally run every K-th case with 23000-byte letters (0 = never)
//	-corrupt N  self-test of the binding: the first case with index >= N that agrees with the model is replayed
//	            again with one expectation damaged (must be reported; stats.corrupted_case says which)
package main

import (
	"bufio"
	"encoding/json"
	"flag"
	"fmt"
	"math/rand"
	"os"
	"reflect"
	"slices"
	"strings"
	"sync/atomic"
	"time"

	"github.com/bufbuild/protocompile/internal/trie"
)

type answer struct {
	P [][2]int `json:"p"` // Prefixes: [letters in the prefix, value]
	G [2]int   `json:"g"` // Get
}
type tcase struct {
	Hist    [][]string `json:"hist"`
	Queries [][]string `json:"queries"`
	Steps   [][]answer `json:"steps"`
}
type mismatch struct {
	Class  string     `json:"class"`
	Hist   [][]string `json:"hist"`
	Step   int        `json:"step"`
	Query  []string   `json:"query"`
	Coding string     `json:"coding"`
	Detail string     `json:"detail"`
}

type coding struct {
	name string
	code map[string]string
}

var (
	enc        *json.Encoder
	nChecks    int64
	nMismatch  int64
	classCount = map[string]int64{}
	capPer     = 100
	corrupted  = int64(-1)
	implSeen   = map[string]int64{}
	codingSeen = map[string]int64{}
	progress   atomic.Int64
	current    atomic.Pointer[tcase]
)

func main() {
	seed := flag.Int64("seed", 1, "")
	huge := flag.Int64("huge", 0, "")
	corrupt := flag.Int64("corrupt", -1, "")
	flag.IntVar(&capPer, "cap", 100, "")
	flag.Parse()
	in := bufio.NewScanner(os.Stdin)
	in.Buffer(make([]byte, 1<<20), 1<<28)
	out := bufio.NewWriterSize(os.Stdout, 1<<20)
	defer out.Flush()
	enc = json.NewEncoder(out)

	codings := makeCodings(*seed)
	hugeCoding := longCoding("huge23000", rand.New(rand.NewSource(*seed+99)), 23000, 11000, "tail")
	// a case that makes no progress for 60 s is reported as a hang of the real code
	go func() {
		last := int64(-1)
		for {
			time.Sleep(60 * time.Second)
			p := progress.Load()
			if p == last {
				if c := current.Load(); c != nil {
					_ = enc.Encode(mismatch{Class: "trie:hang", Hist: c.Hist, Detail: "no progress for 60 s"})
				}
				_ = enc.Encode(map[string]any{"stats": map[string]any{"aborted": true}})
				out.Flush()
				os.Exit(0)
			}
			last = p
		}
	}()

	var n int64
	for in.Scan() {
		var c tcase
		if err := json.Unmarshal(in.Bytes(), &c); err != nil {
			fmt.Fprintln(os.Stderr, "bad case:", err)
			os.Exit(2)
		}
		if len(c.Steps) != len(c.Hist) {
			fmt.Fprintln(os.Stderr, "harness: case shape")
			os.Exit(2)
		}
		for _, st := range c.Steps {
			if len(st) != len(c.Queries) {
				fmt.Fprintln(os.Stderr, "harness: case shape (answers)")
				os.Exit(2)
			}
		}
		before := nMismatch
		n++
		current.Store(&c)
		progress.Add(1)
		replay(&c, codings[0])
		k := 1 + int((uint64(n)*2654435761+uint64(*seed)*40503)%uint64(len(codings)-1))
		replay(&c, codings[k])
		if *huge > 0 && n%*huge == 0 {
			replay(&c, hugeCoding)
		}
		if *corrupt >= 0 && corrupted < 0 && n-1 >= *corrupt && nMismatch == before {
			// binding self-test: first agreeing case from index -corrupt on, replayed with a damaged expectation
			corrupted = n - 1
			lastStep := slices.Clone(c.Steps[len(c.Steps)-1])
			lastStep[0].G = [2]int{lastStep[0].G[0], lastStep[0].G[1] + 1}
			c.Steps[len(c.Steps)-1] = lastStep
			replay(&c, codings[0])
		}
	}
	out.Flush()
	_ = enc.Encode(map[string]any{"stats": map[string]any{"cases": n, "checks": nChecks, "mismatches": nMismatch,
		"class_counts": classCount, "final_impl": implSeen, "codings": codingSeen, "corrupted_case": corrupted}})
}

func makeCodings(seed int64) []coding {
	r := rand.New(rand.NewSource(seed))
	return []coding{
		{"ascii", map[string]string{"a": "a", "b": "b", "x": "x"}},
		{"same-hi-nybble", map[string]string{"a": "\x60", "b": "\x61", "x": "\x6f"}},
		{"same-lo-nybble", map[string]string{"a": "\x0a", "b": "\x1a", "x": "\xfa"}},
		{"edge-bytes", map[string]string{"a": "\x00", "b": "\xff", "x": "\xf0"}},
		{"utf8", map[string]string{"a": "é", "b": "ê", "x": "è"}},
		{"utf8-cut", map[string]string{"a": "é", "b": "ê", "x": "\xc3"}},
		longCoding("long100-tail", r, 100, 50, "tail"),
		longCoding("long100-cut", r, 100, 0, "cut"),
		longCoding("long90-head", r, 90, 0, "head"),
		longCoding("long300-cut", r, 300, 254, "cut"),
		longCoding("long127-tail", r, 127, 0, "tail"), // "aa" = 254 bytes: exactly 255 nodes, no growth yet
		longCoding("long85-head", r, 85, 84, "head"),  // "aaa" = 255 bytes: growth at the very last byte
	}
}

// longCoding: letters of n bytes sharing their first `common` bytes.  xmode: "tail" x = a with
// the last byte changed, "head" x = a with the first byte changed, "cut" x = first half of a.
func longCoding(name string, r *rand.Rand, n, common int, xmode string) coding {
	buf := make([]byte, n)
	r.Read(buf)
	a := string(buf)
	bb := []byte(a)
	for i := common; i < n; i++ {
		bb[i] = byte(r.Intn(256))
	}
	bb[common] = a[common] ^ byte(1+r.Intn(255)) // certainly different from a there
	x := []byte(a)
	switch xmode {
	case "tail":
		x[n-1] ^= byte(1 + r.Intn(255))
		if common == n-1 && x[n-1] == bb[n-1] {
			x[n-1] = ^x[n-1]
		}
	case "head":
		x[0] ^= byte(1 + r.Intn(255))
		if common == 0 && x[0] == bb[0] {
			x[0] ^= 0x80
			if x[0] == a[0] {
				x[0] ^= 0x40
			}
		}
	case "cut":
		x = x[:n/2]
	}
	return coding{name, map[string]string{"a": a, "b": string(bb), "x": string(x)}}
}

func (cd coding) word(w []string) (s string, ends []int) {
	var sb strings.Builder
	ends = append(ends, 0)
	for _, l := range w {
		c, ok := cd.code[l]
		if !ok {
			fmt.Fprintln(os.Stderr, "harness: unknown letter", l)
			os.Exit(2)
		}
		sb.WriteString(c)
		ends = append(ends, sb.Len())
	}
	return sb.String(), ends
}

func short(s string) string {
	if len(s) > 24 {
		return fmt.Sprintf("%q..(%d bytes)", s[:12], len(s))
	}
	return fmt.Sprintf("%q", s)
}

func report(class string, c *tcase, i int, q []string, cd coding, detail string) {
	nMismatch++
	classCount[class]++
	if classCount[class] > int64(capPer) {
		return
	}
	_ = enc.Encode(mismatch{Class: class, Hist: c.Hist[:i+1], Step: i + 1, Query: q, Coding: cd.name, Detail: detail})
}

type pv struct {
	prefix string
	value  int
}

func replay(c *tcase, cd coding) {
	codingSeen[cd.name]++
	t := new(trie.Trie[int])
	type cq struct {
		s    string
		ends []int
	}
	qs := make([]cq, len(c.Queries))
	for k, q := range c.Queries {
		s, ends := cd.word(q)
		qs[k] = cq{s, ends}
	}
	var i int
	var curQ []string
	defer func() {
		if r := recover(); r != nil {
			report("trie:panic", c, i, curQ, cd, fmt.Sprint(r))
		}
		implSeen[implName(t)]++
	}()
	for i = range c.Hist {
		curQ = nil
		key, _ := cd.word(c.Hist[i])
		t.Insert(key, i+1)
		impl := implName(t)
		for k, a := range c.Steps[i] {
			curQ = c.Queries[k]
			q := qs[k]
			// Prefixes
			var got []pv
			for p, v := range t.Prefixes(q.s) {
				got = append(got, pv{p, v})
			}
			want := make([]pv, len(a.P))
			for j, e := range a.P {
				want[j] = pv{q.s[:q.ends[e[0]]], e[1]}
			}
			nChecks++
			if !equalPV(got, want) {
				report(classifyPrefixes(got, want), c, i, curQ, cd,
					fmt.Sprintf("Prefixes(%s) = %s, model says %s [%s]", short(q.s), showPV(got), showPV(want), impl))
				return
			}
			// Get
			gp, gv := t.Get(q.s)
			wp, wv := "", 0
			if a.G != [2]int{0, 0} {
				wp, wv = q.s[:q.ends[a.G[0]]], a.G[1]
			}
			nChecks++
			if gp != wp || gv != wv {
				report("trie:get", c, i, curQ, cd,
					fmt.Sprintf("Get(%s) = (%s, %d), model says (%s, %d) [%s]", short(q.s), short(gp), gv, short(wp), wv, impl))
				return
			}
		}
	}
}

func equalPV(a, b []pv) bool {
	if len(a) != len(b) {
		return false
	}
	for i := range a {
		if a[i] != b[i] {
			return false
		}
	}
	return true
}

func showPV(a []pv) string {
	var sb strings.Builder
	sb.WriteString("[")
	for i, e := range a {
		if i > 0 {
			sb.WriteString(" ")
		}
		fmt.Fprintf(&sb, "%s:%d", short(e.prefix), e.value)
	}
	sb.WriteString("]")
	return sb.String()
}

func classifyPrefixes(got, want []pv) string {
	gm, wm := map[string]int{}, map[string]int{}
	for _, e := range got {
		gm[e.prefix] = e.value
	}
	for _, e := range want {
		wm[e.prefix] = e.value
	}
	if len(gm) != len(got) {
		return "trie:prefixes-duplicate"
	}
	sameKeys := len(gm) == len(wm)
	for p := range gm {
		if _, ok := wm[p]; !ok {
			sameKeys = false
		}
	}
	if !sameKeys {
		if len(gm) < len(wm) {
			return "trie:prefixes-missing"
		}
		return "trie:prefixes-extra"
	}
	for p, v := range gm {
		if wm[p] != v {
			return "trie:prefixes-value"
		}
	}
	return "trie:prefixes-order"
}

// implName reports the width of the node index currently in use (private field, read-only
// reflection), so that the evidence can say how many cases actually crossed a growth threshold.
func implName(t *trie.Trie[int]) string {
	f := reflect.ValueOf(t).Elem().FieldByName("impl")
	if !f.IsValid() || f.IsNil() {
		return "nil"
	}
	s := f.Elem().Type().String()
	if i := strings.Index(s, "["); i >= 0 {
		return strings.TrimSuffix(s[i+1:], "]")
	}
	return s
}
