// Driver for C40: replays TLC-exported insertion histories (MCInterval) on the real
// interval.Intersect and interval.Nesting and compares with the naive model's answers
// (Interval.tla) after EVERY insert.
//
//	stdin   one JSON case per line (see MCInterval!Case)
//	stdout  one JSON line per disagreement, then one {"stats":...} line
//	-seed N       selects the second concretisation of each case
//	-trace FILE   write the observed Nesting.Sets() of every step (identity concretisation) as
//	              ndjson for validation by IntervalTrace.tla (direction B)
//	-tracemod M -tracerem R   record only every M-th case (those with index % M == R)
//	-cap N        at most N lines per disagreement class (all are counted in stats.class_counts)
//	-corrupt N    self-test of the binding: the first case with index >= N that agrees with the model is replayed
//	              again with one expectation damaged (must be reported; stats.corrupted_case says which)
package main

import (
	"bufio"
	"encoding/json"
	"flag"
	"fmt"
	"math"
	"os"
	"slices"
	"sync/atomic"
	"time"

	"github.com/bufbuild/protocompile/internal/interval"
)

type entry struct {
	S int64   `json:"s"`
	E int64   `json:"e"`
	V []int64 `json:"v"`
}
type step struct {
	Ret     bool      `json:"ret"`
	Entries []entry   `json:"entries"`
	Get     [][]int64 `json:"get"` // points -1 .. maxp+1
}
type tcase struct {
	MaxP   int64      `json:"maxp"`
	Hist   [][2]int64 `json:"hist"`
	Steps  []step     `json:"steps"`
	Compat [][]int    `json:"compat"` // 2 compatible, 1 only under the lenient reading, 0 not
}
type mismatch struct {
	Class   string     `json:"class"`
	Hist    [][2]int64 `json:"hist"` // the prefix that was inserted when it was seen
	Step    int        `json:"step"`
	Variant string     `json:"variant"`
	Detail  string     `json:"detail"`
}

// A concretisation maps the abstract point p to the block [base+p*stride, base+p*stride+stride-1]
// of K; abstract interval [lo,hi] becomes [first(lo), last(hi)].  Adjacency, order, containment
// and therefore every answer of the naive model are preserved.
type variant struct {
	name   string
	kind   string // int int8 uint8 int64 uint64
	base   float64
	ibase  int64
	ubase  uint64
	stride int64
}

type traceEntry struct {
	S int64 `json:"s"`
	E int64 `json:"e"`
	V int64 `json:"v"`
}
type traceSet []traceEntry
type traceRec struct {
	H   [][2]int64   `json:"h"`
	Obs [][]traceSet `json:"obs"`
}

var (
	out        *bufio.Writer
	enc        *json.Encoder
	nChecks    int64
	nMismatch  int64
	nVariants  = map[string]int64{}
	traceEnc   *json.Encoder
	traceCount int64
	classCount = map[string]int64{}
	progress   atomic.Int64
	current    atomic.Pointer[tcase]
	capPer     = 200
	corrupted  = int64(-1)
)

func main() {
	seed := flag.Int64("seed", 1, "")
	tracePath := flag.String("trace", "", "")
	corrupt := flag.Int64("corrupt", -1, "")
	traceMod := flag.Int64("tracemod", 1, "")
	traceRem := flag.Int64("tracerem", 0, "")
	flag.IntVar(&capPer, "cap", 200, "")
	flag.Parse()

	in := bufio.NewScanner(os.Stdin)
	in.Buffer(make([]byte, 1<<20), 1<<26)
	out = bufio.NewWriterSize(os.Stdout, 1<<20)
	defer out.Flush()
	enc = json.NewEncoder(out)
	if *tracePath != "" {
		f, err := os.Create(*tracePath)
		if err != nil {
			fmt.Fprintln(os.Stderr, err)
			os.Exit(2)
		}
		w := bufio.NewWriterSize(f, 1<<20)
		defer func() { w.Flush(); f.Close() }()
		traceEnc = json.NewEncoder(w)
	}

	// a case that makes no progress for 30 s is reported as a hang of the real code
	go func() {
		last := int64(-1)
		for {
			time.Sleep(30 * time.Second)
			p := progress.Load()
			if p == last {
				if c := current.Load(); c != nil {
					_ = enc.Encode(mismatch{Class: "interval:hang", Hist: c.Hist, Step: 0, Variant: "?", Detail: "no progress for 30 s"})
				}
				_ = enc.Encode(map[string]any{"stats": map[string]any{"aborted": true}})
				out.Flush()
				os.Exit(0)
			}
			last = p
		}
	}()

	var n int64
	for in.Scan() {
		var c tcase
		if err := json.Unmarshal(in.Bytes(), &c); err != nil {
			fmt.Fprintln(os.Stderr, "bad case:", err)
			os.Exit(2)
		}
		if len(c.Steps) != len(c.Hist) || len(c.Compat) != len(c.Hist) {
			fmt.Fprintln(os.Stderr, "harness: case shape")
			os.Exit(2)
		}
		before := nMismatch
		n++
		current.Store(&c)
		progress.Add(1)
		// identity concretisation always, one seeded other
		runVariant(&c, variants(c.MaxP)[0], traceEnc != nil && n%*traceMod == *traceRem%*traceMod)
		vs := variants(c.MaxP)
		k := 1 + int((uint64(n)*2654435761+uint64(*seed)*40503)%uint64(len(vs)-1))
		runVariant(&c, vs[k], false)
		if *corrupt >= 0 && corrupted < 0 && n-1 >= *corrupt && nMismatch == before {
			// binding self-test: the first case from index -corrupt on that agrees with the model is replayed once
			// more with one expectation of its last step damaged; that must produce a disagreement
			corrupted = n - 1
			last := &c.Steps[len(c.Steps)-1]
			at := c.Hist[len(c.Hist)-1][0] + 1
			last.Get = slices.Clone(last.Get)
			last.Get[at] = append([]int64{99}, last.Get[at]...)
			runVariant(&c, vs[0], false)
		}
	}
	out.Flush()
	st := map[string]any{"cases": n, "checks": nChecks, "mismatches": nMismatch, "variants": nVariants, "class_counts": classCount,
		"trace_records": traceCount, "corrupted_case": corrupted}
	_ = enc.Encode(map[string]any{"stats": st})
}

func variants(maxp int64) []variant {
	return []variant{
		{name: "int+0x1", kind: "int", ibase: 0, stride: 1},
		{name: "int-7x1", kind: "int", ibase: -7, stride: 1},
		{name: "int-1000x3", kind: "int", ibase: -1000, stride: 3},
		{name: "int+2^40x2", kind: "int", ibase: 1 << 40, stride: 2},
		{name: "int8-128x1", kind: "int8", ibase: -128, stride: 1},
		{name: "int8topx1", kind: "int8", ibase: 127 - maxp, stride: 1},
		{name: "int8-64x7", kind: "int8", ibase: -64, stride: 7},
		{name: "uint8+0x1", kind: "uint8", ibase: 0, stride: 1},
		{name: "uint8topx1", kind: "uint8", ibase: 255 - maxp, stride: 1},
		{name: "int64minx1", kind: "int64", ibase: math.MinInt64, stride: 1},
		{name: "int64topx1", kind: "int64", ibase: math.MaxInt64 - maxp, stride: 1},
		{name: "uint64topx2", kind: "uint64", ubase: math.MaxUint64 - uint64(2*maxp+1), stride: 2},
	}
}

func runVariant(c *tcase, v variant, trace bool) {
	nVariants[v.name]++
	switch v.kind {
	case "int":
		replay[int](c, v, int64(math.MinInt), int64(math.MaxInt), trace)
	case "int8":
		replay[int8](c, v, math.MinInt8, math.MaxInt8, trace)
	case "uint8":
		replay[uint8](c, v, 0, math.MaxUint8, trace)
	case "int64":
		replay[int64](c, v, math.MinInt64, math.MaxInt64, trace)
	case "uint64":
		replayU64(c, v)
	}
}

func report(class string, c *tcase, i int, v variant, detail string) {
	nMismatch++
	classCount[class]++
	if classCount[class] > int64(capPer) {
		return
	}
	_ = enc.Encode(mismatch{Class: class, Hist: c.Hist[:i+1], Step: i + 1, Variant: v.name, Detail: detail})
}

type real struct {
	S, E int64
	V    []int64
}

// replay for every K whose values fit in int64.
func replay[K interval.Endpoint](c *tcase, v variant, kmin, kmax int64, trace bool) {
	first := func(p int64) (int64, bool) { // first concrete point of abstract p
		x := v.ibase + p*v.stride
		// overflow-safe because |p*stride| is tiny and bases are at the edges only on one side
		if (p < 0 && x > v.ibase) || (p > 0 && x < v.ibase) || x < kmin || x > kmax {
			return 0, false
		}
		return x, true
	}
	last := func(p int64) (int64, bool) {
		f, ok := first(p)
		if !ok || f > kmax-(v.stride-1) {
			return 0, false
		}
		return f + v.stride - 1, true
	}
	var m interval.Intersect[K, int64]
	var nest interval.Nesting[K, int64]
	mOK, nOK := true, true
	var rec traceRec
	for i := range c.Hist {
		lo, ok1 := first(c.Hist[i][0])
		hi, ok2 := last(c.Hist[i][1])
		if !ok1 || !ok2 {
			fmt.Fprintln(os.Stderr, "harness: variant does not fit", v.name)
			os.Exit(2)
		}
		if mOK {
			mOK = stepIntersect(c, i, v, func() bool { return m.Insert(K(lo), K(hi), int64(i+1)) },
				func() []real {
					var r []real
					for e := range m.Entries() {
						r = append(r, real{int64(e.Start), int64(e.End), slices.Clone(e.Value)})
					}
					return r
				},
				func(p int64) real {
					e := m.Get(K(p))
					return real{int64(e.Start), int64(e.End), slices.Clone(e.Value)}
				}, first, last)
		}
		if nOK {
			var sets [][]real
			nOK = stepNesting(c, i, v, func() {
				nest.Insert(K(lo), K(hi), int64(i+1))
				for set := range nest.Sets() {
					var s []real
					for e := range set {
						s = append(s, real{int64(e.Start), int64(e.End), []int64{e.Value}})
					}
					sets = append(sets, s)
				}
			}, &sets, first, last)
			if trace {
				var ob []traceSet
				for _, s := range sets {
					ts := traceSet{}
					for _, e := range s {
						ts = append(ts, traceEntry{S: e.S, E: e.E, V: e.V[0]}) // identity variant: concrete = abstract
					}
					ob = append(ob, ts)
				}
				rec.Obs = append(rec.Obs, ob)
			}
		} else if trace {
			rec.Obs = append(rec.Obs, []traceSet{})
		}
	}
	if trace {
		rec.H = c.Hist
		for i := range rec.Obs {
			if rec.Obs[i] == nil {
				rec.Obs[i] = []traceSet{}
			}
		}
		traceCount++
		_ = traceEnc.Encode(rec)
	}
}

// uint64 near the top of the range does not fit int64: shift everything down by ubase for the
// comparison (the real structure still sees the huge values).
func replayU64(c *tcase, v variant) {
	first := func(p int64) (int64, bool) {
		if p < 0 || uint64(p*v.stride) > math.MaxUint64-v.ubase {
			return 0, false
		}
		return p * v.stride, true
	}
	last := func(p int64) (int64, bool) {
		if p < 0 || uint64(p*v.stride+v.stride-1) > math.MaxUint64-v.ubase {
			return 0, false
		}
		return p*v.stride + v.stride - 1, true
	}
	up := func(x int64) uint64 { return v.ubase + uint64(x) }
	down := func(x uint64) int64 { return int64(x - v.ubase) }
	var m interval.Intersect[uint64, int64]
	var nest interval.Nesting[uint64, int64]
	mOK, nOK := true, true
	for i := range c.Hist {
		lo, _ := first(c.Hist[i][0])
		hi, ok := last(c.Hist[i][1])
		if !ok {
			fmt.Fprintln(os.Stderr, "harness: variant does not fit", v.name)
			os.Exit(2)
		}
		if mOK {
			mOK = stepIntersect(c, i, v, func() bool { return m.Insert(up(lo), up(hi), int64(i+1)) },
				func() []real {
					var r []real
					for e := range m.Entries() {
						r = append(r, real{down(e.Start), down(e.End), slices.Clone(e.Value)})
					}
					return r
				},
				func(p int64) real {
					e := m.Get(up(p))
					if e.Value == nil {
						return real{}
					}
					return real{down(e.Start), down(e.End), slices.Clone(e.Value)}
				}, first, last)
		}
		if nOK {
			var sets [][]real
			nOK = stepNesting(c, i, v, func() {
				nest.Insert(up(lo), up(hi), int64(i+1))
				for set := range nest.Sets() {
					var s []real
					for e := range set {
						s = append(s, real{down(e.Start), down(e.End), []int64{e.Value}})
					}
					sets = append(sets, s)
				}
			}, &sets, first, last)
		}
	}
}

func eqVals(a, b []int64) bool { return slices.Equal(a, b) }

// stepIntersect performs insert i and compares Insert's result, Entries() and Get(p) for every
// probe point with the model.  Returns false when the structure can no longer be trusted.
func stepIntersect(c *tcase, i int, v variant, insert func() bool, entries func() []real,
	get func(int64) real, first, last func(int64) (int64, bool)) (ok bool) {
	defer func() {
		if r := recover(); r != nil {
			report("intersect:panic", c, i, v, fmt.Sprint(r))
			ok = false
		}
	}()
	exp := c.Steps[i]
	ret := insert()
	nChecks++
	if ret != exp.Ret {
		report("intersect:insert-ret", c, i, v, fmt.Sprintf("Insert returned %v, model says %v", ret, exp.Ret))
		return false
	}
	// Entries
	got := entries()
	nChecks++
	want := make([]real, len(exp.Entries))
	for k, e := range exp.Entries {
		s, ok1 := first(e.S)
		en, ok2 := last(e.E)
		if !ok1 || !ok2 {
			fmt.Fprintln(os.Stderr, "harness: expected entry outside variant range")
			os.Exit(2)
		}
		want[k] = real{s, en, e.V}
	}
	same := len(got) == len(want)
	for k := 0; same && k < len(got); k++ {
		same = got[k].S == want[k].S && got[k].E == want[k].E && eqVals(got[k].V, want[k].V)
	}
	if !same {
		cls := "intersect:entries-values"
		malformed := false
		for k := range got {
			if got[k].S > got[k].E || (k > 0 && got[k-1].E >= got[k].S) {
				malformed = true
			}
		}
		if malformed {
			cls = "intersect:entries-malformed"
		} else if pointwiseEqual(got, want) {
			cls = "intersect:entries-split"
		}
		report(cls, c, i, v, fmt.Sprintf("Entries() = %v, model says %v", got, want))
		return false
	}
	// Get at both ends of the block of every probe point
	for k, wv := range exp.Get {
		p := int64(k) - 1
		for _, f := range []func(int64) (int64, bool){first, last} {
			x, okp := f(p)
			if !okp {
				continue
			}
			g := get(x)
			nChecks++
			if !eqVals(g.V, wv) || (len(wv) > 0 && !(g.S <= x && x <= g.E)) {
				report("intersect:get", c, i, v, fmt.Sprintf("Get(%d) = %v, model says values %v", x, g, wv))
				return false
			}
		}
	}
	return true
}

func pointwiseEqual(a, b []real) bool {
	flat := func(es []real) map[int64]string {
		m := map[int64]string{}
		for _, e := range es {
			if e.E < e.S || uint64(e.E)-uint64(e.S) > 1<<16 { // width computed without overflow
				return nil
			}
			for p := e.S; ; p++ {
				m[p] = fmt.Sprint(e.V)
				if p == e.E {
					break
				}
			}
		}
		return m
	}
	fa, fb := flat(a), flat(b)
	if fa == nil || fb == nil || len(fa) != len(fb) {
		return false
	}
	for p, s := range fa {
		if fb[p] != s {
			return false
		}
	}
	return true
}

// stepNesting performs insert i on the Nesting and checks the observed sets against the contract:
// every inserted interval appears exactly once with its own end points, no set is empty, and any
// two members of one set are compatible according to the model's matrix.
func stepNesting(c *tcase, i int, v variant, insertAndObserve func(), sets *[][]real,
	first, last func(int64) (int64, bool)) (ok bool) {
	defer func() {
		if r := recover(); r != nil {
			report("nesting:panic", c, i, v, fmt.Sprint(r))
			ok = false
		}
	}()
	insertAndObserve()
	nChecks++
	seen := make([]int, i+2)
	for _, set := range *sets {
		if len(set) == 0 {
			report("nesting:empty-set", c, i, v, fmt.Sprint(*sets))
			return false
		}
		for _, e := range set {
			idx := e.V[0]
			if idx < 1 || idx > int64(i+1) {
				report("nesting:foreign-entry", c, i, v, fmt.Sprint(*sets))
				return false
			}
			lo, _ := first(c.Hist[idx-1][0])
			hi, _ := last(c.Hist[idx-1][1])
			if e.S != lo || e.E != hi {
				report("nesting:wrong-entry", c, i, v, fmt.Sprintf("value %d reported as [%d,%d], inserted as [%d,%d]", idx, e.S, e.E, lo, hi))
				return false
			}
			seen[idx]++
		}
	}
	for idx := 1; idx <= i+1; idx++ {
		if seen[idx] == 0 {
			report("nesting:lost-interval", c, i, v, fmt.Sprintf("insert #%d %v is in no set: %v", idx, c.Hist[idx-1], *sets))
			return false
		}
		if seen[idx] > 1 {
			report("nesting:duplicate", c, i, v, fmt.Sprintf("insert #%d appears %d times: %v", idx, seen[idx], *sets))
			return false
		}
	}
	worst := 2
	var wa, wb int64
	for _, set := range *sets {
		for a := range set {
			for b := range set {
				if a < b {
					if k := c.Compat[set[a].V[0]-1][set[b].V[0]-1]; k < worst {
						worst, wa, wb = k, set[a].V[0], set[b].V[0]
					}
				}
			}
		}
	}
	if worst == 0 {
		report("nesting:overlap", c, i, v, fmt.Sprintf("inserts #%d %v and #%d %v share a set but are neither disjoint nor nested: %v",
			wa, c.Hist[wa-1], wb, c.Hist[wb-1], *sets))
		return false
	}
	if worst == 1 {
		report("nesting:shared-endpoint", c, i, v, fmt.Sprintf("inserts #%d %v and #%d %v share a set and an end point: %v",
			wa, c.Hist[wa-1], wb, c.Hist[wb-1], *sets))
		return false
	}
	return true
}
