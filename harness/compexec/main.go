// Driver for C05/C06/C07: runs the real Compiler on import graphs taken from CompileExec.tla
// configurations, with a fault-injecting resolver, seed-perturbed schedules at the build-tagged
// gates, and records one hook trace per run (validated by TLC against CompileExecTrace.tla).
//
// stdin : one run spec per line (JSON)      argv[1]: trace output file (ndjson)
// stdout: one result per line (JSON)
package main

import (
	"bufio"
	"context"
	"crypto/sha256"
	"encoding/hex"
	"encoding/json"
	"errors"
	"fmt"
	"io"
	"io/fs"
	"os"
	"runtime"
	"sort"
	"strings"
	"sync"
	"sync/atomic"
	"time"

	"google.golang.org/protobuf/proto"
	"google.golang.org/protobuf/reflect/protodesc"
	"google.golang.org/protobuf/types/descriptorpb"
	"google.golang.org/protobuf/reflect/protoreflect"

	"github.com/bufbuild/protocompile"
	"github.com/bufbuild/protocompile/internal/verifhook"
	"github.com/bufbuild/protocompile/linker"
	"github.com/bufbuild/protocompile/protoutil"
	"github.com/bufbuild/protocompile/reporter"
)

type runSpec struct {
	ID       int                 `json:"id"`
	Imports  map[string][]string `json:"imports"`
	Req      []string            `json:"req"`
	Plan     map[string]string   `json:"plan"`
	Par      int                 `json:"par"`
	Public   bool                `json:"public"`   // render every import as "import public" and use re-exported types
	Cancel   int                 `json:"cancel"`   // cancel the caller's context at the k-th gate passage (0 = never)
	Seed     int64               `json:"seed"`     // perturbation seed
	Reporter string              `json:"reporter"` // "default" (nil reporter) | "accept"
	Shared   bool                `json:"shared"`   // pass a Symbols table
	Trace    bool                `json:"trace"`
	Ovr      bool                `json:"ovr"`     // the resolver overrides google/protobuf/descriptor.proto (model file "d")
	Collide  bool                `json:"collide"` // all files share one package and every requested file defines message Dup
	SrcRes   bool                `json:"srcres"`  // realise the fault plan through SourceResolver{ImportPaths: p1, p2} + Accessor
	FanIn    bool                `json:"fanin"`   // public flavour: every import-free file re-exports a hidden leaf that all files use
	Opts     bool                `json:"opts"`    // every file defines and uses a custom option whose value holds a map (not traced)
	Sched    [][]string          `json:"sched"`   // TLC-exported schedule: replayed step by step through the gates
}

type runResult struct {
	ID       int               `json:"id"`
	Class    string            `json:"class"`
	Err      string            `json:"err"`
	Cycles   [][]string        `json:"cycles"` // each: sequence..., dep (file ids)
	Descs    map[string]string `json:"descs"`
	Leak     int               `json:"leak"`
	Hung     bool              `json:"hung"`
	PanicOK  bool              `json:"panic_ok"`
	Stacks   string            `json:"stacks,omitempty"`
	NEvents  int               `json:"nevents"`
	Nonconf  string            `json:"nonconf,omitempty"` // schedule replay: where the real code left the model's schedule
	Steps    int               `json:"steps"`             // schedule replay: model steps driven
	Warnings int               `json:"warnings"`
}

// ---------------------------------------------------------------------------------------------

type tracer struct {
	mu  sync.Mutex
	seq int
	w   *bufio.Writer
	on  bool
	n   int
}

const dpPath = "google/protobuf/descriptor.proto"

func id(s string) string {
	if s == dpPath {
		return "d"
	}
	return strings.TrimSuffix(s, ".proto")
}

func pathOf(f string) string {
	if f == "d" && ovrMode {
		return dpPath
	}
	return f + ".proto"
}

var ovrMode bool

func classify(err error) string {
	if err == nil {
		return "ok"
	}
	var pe protocompile.PanicError
	if errors.As(err, &pe) {
		return "panic"
	}
	if errors.Is(err, context.Canceled) {
		return "ctx"
	}
	msg := err.Error()
	switch {
	case strings.Contains(msg, "cycle found in imports"):
		return "cycle"
	case errors.Is(err, reporter.ErrInvalidSource):
		return "cycle" // accept-all reporter: the only reported errors of these inputs are cycles
	case strings.Contains(msg, "verif-resolve-fault"):
		return "resolve"
	case strings.Contains(msg, "verif-read-fault"):
		return "read"
	case strings.Contains(msg, "already defined"):
		return "dup"
	}
	return "other:" + msg
}

// events of compiler.go (other hooked packages share the same hook and are not part of CompileExec)
var compilerEvents = map[string]bool{"Config": true, "End": true, "Cancel": true, "Create": true, "MainStart": true, "MainWoke": true,
	"Return": true, "Done": true, "SetBlocked": true, "ReadBlocked": true, "Acquired": true, "Released": true, "Parsed": true,
	"Loop": true, "LoopDP": true, "Woke": true, "WokeDP": true, "Lookup": true, "Cycle": true}

func (t *tracer) emit(ev string, kv ...any) {
	if !compilerEvents[ev] {
		return
	}
	t.mu.Lock()
	defer t.mu.Unlock()
	if !t.on {
		return
	}
	t.seq++
	t.n++
	m := map[string]any{"ev": ev}
	for i := 0; i+1 < len(kv); i += 2 {
		k := kv[i].(string)
		switch v := kv[i+1].(type) {
		case nil:
			if k == "err" {
				m[k] = "ok"
			} else {
				m[k] = []string{}
			}
		case error:
			m[k] = classify(v)
		case string:
			m[k] = id(v)
		case []string:
			out := make([]string, len(v))
			for j, s := range v {
				out[j] = id(s)
			}
			m[k] = out
		default:
			m[k] = v
		}
	}
	b, _ := json.Marshal(m)
	t.w.Write(b)
	t.w.WriteByte('\n')
}

// ---------------------------------------------------------------------------------------------

type failingReader struct {
	r io.Reader
	n int
}

func (f *failingReader) Read(p []byte) (int, error) {
	if f.n <= 0 {
		return 0, errors.New("verif-read-fault")
	}
	if len(p) > f.n {
		p = p[:f.n]
	}
	n, err := f.r.Read(p)
	f.n -= n
	return n, err
}

func publicClosure(imports map[string][]string, f string, seen map[string]bool, out *[]string) {
	for _, d := range imports[f] {
		if !seen[d] {
			seen[d] = true
			*out = append(*out, d)
			publicClosure(imports, d, seen, out)
		}
	}
}

func render(spec *runSpec, f string) string {
	var sb strings.Builder
	sb.WriteString("syntax = \"proto3\";\n")
	pkg := func(x string) string {
		if spec.Collide {
			return "shared"
		}
		return "pkg_" + x
	}
	fmt.Fprintf(&sb, "package %s;\n", pkg(f))
	if spec.FanIn && len(spec.Imports[f]) == 0 && f != "zz" {
		sb.WriteString("import public \"zz.proto\";\n")
	}
	for _, d := range spec.Imports[f] {
		if spec.Public {
			fmt.Fprintf(&sb, "import public \"%s\";\n", pathOf(d))
		} else {
			fmt.Fprintf(&sb, "import \"%s\";\n", pathOf(d))
		}
	}
	if spec.Opts {
		sb.WriteString("import \"google/protobuf/descriptor.proto\";\n")
		fmt.Fprintf(&sb, "message Opt%s { map<string, int32> m = 1; map<int32, string> n = 2; repeated string r = 3; }\n", f)
		tag := 50000 + 10*int(f[0]-'a')
		fmt.Fprintf(&sb, "extend google.protobuf.MessageOptions { Opt%s om_%s = %d; }\n", f, f, tag+1)
		fmt.Fprintf(&sb, "extend google.protobuf.FileOptions { Opt%s of_%s = %d; }\n", f, f, tag+2)
		fmt.Fprintf(&sb, "option (of_%s) = { m: {key: \"k1\" value: 1} m: {key: \"k2\" value: 2} m: {key: \"k3\" value: 3} m: {key: \"k4\" value: 4} m: {key: \"k5\" value: 5} };\n", f)
	}
	fmt.Fprintf(&sb, "message M%s {\n  int32 x = 1;\n", f)
	if spec.Ovr && f != "d" && spec.Plan["d"] != "err" && spec.Plan["d"] != "panic" { // only when the override is effective
		sb.WriteString("  option vfoo = \"Bob\";\n  option vqux = 7;\n  option vbaz = \"Tobias\";\n  option vbar = 3.25;\n")
	}
	if spec.Opts {
		fmt.Fprintf(&sb, "  option (om_%s) = { n: {key: 5 value: \"e\"} n: {key: 4 value: \"d\"} n: {key: 3 value: \"c\"} n: {key: 2 value: \"b\"} n: {key: 1 value: \"a\"} r: \"x\" r: \"y\" };\n", f)
	}
	n := 2
	var used []string
	if spec.Public {
		seen := map[string]bool{f: true}
		publicClosure(spec.Imports, f, seen, &used)
	} else {
		seen := map[string]bool{}
		for _, d := range spec.Imports[f] {
			if !seen[d] && d != f {
				seen[d] = true
				used = append(used, d)
			}
		}
	}
	for _, d := range used {
		fmt.Fprintf(&sb, "  %s.M%s f%d = %d;\n", pkg(d), d, n, n)
		n++
	}
	if spec.FanIn && f != "zz" {
		// reachable through the chain of public imports
		fmt.Fprintf(&sb, "  pkg_zz.Mzz fz = %d;\n", n)
		n++
	}
	sb.WriteString("}\n")
	fmt.Fprintf(&sb, "enum E%s { E%s_ZERO = 0; }\n", f, f)
	if spec.Collide {
		for _, r := range spec.Req {
			if r == f {
				// many symbols per file widen the window in which two files are linked at the same time
				for k := 0; k < 400; k++ {
					fmt.Fprintf(&sb, "message Bulk%s%d { int32 y = 1; }\n", f, k)
				}
				sb.WriteString("message Dup { int32 y = 1; }\n")
			}
		}
	}
	return sb.String()
}

func hashFile(f protoreflect.FileDescriptor) string {
	fd := protoutil.ProtoFromFileDescriptor(f)
	b, err := proto.MarshalOptions{Deterministic: true}.Marshal(fd)
	if err != nil {
		return "marshal-error:" + err.Error()
	}
	h := sha256.Sum256(b)
	return hex.EncodeToString(h[:8])
}

func collect(f protoreflect.FileDescriptor, out map[string]string) {
	name := id(f.Path())
	if _, ok := out[name]; ok {
		return
	}
	out[name] = hashFile(f)
	imps := f.Imports()
	for i := 0; i < imps.Len(); i++ {
		collect(imps.Get(i).FileDescriptor, out)
	}
}

var tr = &tracer{}

// allBlocked reports whether every goroutine except the caller is parked in a blocking operation
// (so that waiting longer cannot change anything), and returns the stack dump.
func allBlocked() (bool, string) {
	buf := make([]byte, 4<<20)
	dump := string(buf[:runtime.Stack(buf, true)])
	blocked := true
	first := true
	for _, line := range strings.Split(dump, "\n") {
		if !strings.HasPrefix(line, "goroutine ") || !strings.HasSuffix(line, "]:") {
			continue
		}
		if first { // the caller itself
			first = false
			continue
		}
		st := line[strings.Index(line, "[")+1:]
		if strings.HasPrefix(st, "running") || strings.HasPrefix(st, "runnable") || strings.HasPrefix(st, "syscall") {
			blocked = false
		}
	}
	return blocked, dump
}

// confirmStuck is called when a deadline has expired: a verdict (hang / stall) is only given once all
// goroutines are seen blocked twice in a row; a loaded machine just gets more time (up to ~2 minutes).
func confirmStuck(done func() bool) (bool, string) {
	seen := 0
	var dump string
	for i := 0; i < 240; i++ {
		if done() {
			return false, ""
		}
		var b bool
		b, dump = allBlocked()
		if b {
			seen++
			if seen >= 2 {
				return true, dump
			}
		} else {
			seen = 0
		}
		time.Sleep(500 * time.Millisecond)
	}
	return true, dump // two minutes without finishing although something is runnable: report with the dump
}

// ---------------------------------------------------------------------------------------------
// Gate controller: replays a TLC schedule on the real compiler, one goroutine per model step.

type arrival struct {
	gate   string
	resume chan struct{}
}

type controller struct {
	mu      sync.Mutex
	parked  map[string]*arrival
	exited  map[string]bool
	created map[string]bool
	free    bool
	wake    chan struct{}
}

var minorGate = map[string]bool{"setblocked": true, "checklookup": true, "register": true}

var compilerGate = map[string]bool{"mainwait": true, "return": true, "exit": true, "acquire": true, "reacquire": true, "find": true,
	"loop": true, "loopdp": true, "checkread": true, "checkdep": true, "release": true, "finrelease": true, "waitdep": true,
	"waitdp": true, "unblock": true, "link": true}

func newController() *controller {
	return &controller{parked: map[string]*arrival{}, exited: map[string]bool{}, created: map[string]bool{}, wake: make(chan struct{}, 1)}
}

func (c *controller) signal() {
	select {
	case c.wake <- struct{}{}:
	default:
	}
}

func (c *controller) gate(name string, kv ...any) {
	if minorGate[name] || !compilerGate[name] {
		return // gates of other hooked packages (linker, intern) are not steps of CompileExec
	}
	who := "main"
	if name != "mainwait" && name != "return" {
		who = id(kv[0].(string))
	}
	c.mu.Lock()
	if name == "exit" {
		c.exited[who] = true
		c.mu.Unlock()
		c.signal()
		return
	}
	if c.free {
		c.mu.Unlock()
		return
	}
	a := &arrival{gate: name, resume: make(chan struct{})}
	c.parked[who] = a
	c.mu.Unlock()
	c.signal()
	<-a.resume
}

// quiesce waits until every live goroutine (main + created tasks) is parked at a gate or has exited.
func (c *controller) quiesce(mainLive func() bool, d time.Duration) bool {
	if c.quiesce1(mainLive, d) {
		return true
	}
	// deadline expired: only a state in which every goroutine is blocked is a stall
	stuck, _ := confirmStuck(func() bool { return c.quiesce1(mainLive, 10*time.Millisecond) })
	return !stuck && c.quiesce1(mainLive, time.Second)
}

func (c *controller) quiesce1(mainLive func() bool, d time.Duration) bool {
	deadline := time.After(d)
	for {
		c.mu.Lock()
		ok := true
		if mainLive() && c.parked["main"] == nil {
			ok = false
		}
		for f := range c.created {
			if c.parked[f] == nil && !c.exited[f] {
				ok = false
			}
		}
		c.mu.Unlock()
		if ok {
			return true
		}
		select {
		case <-c.wake:
		case <-time.After(2 * time.Millisecond):
		case <-deadline:
			return false
		}
	}
}

func (c *controller) release(who string) {
	c.mu.Lock()
	a := c.parked[who]
	delete(c.parked, who)
	c.mu.Unlock()
	if a != nil {
		close(a.resume)
	}
}

func (c *controller) freeAll() {
	c.mu.Lock()
	c.free = true
	ps := c.parked
	c.parked = map[string]*arrival{}
	c.mu.Unlock()
	for _, a := range ps {
		close(a.resume)
	}
}

var allowedGate = map[string][]string{
	"AcquireOk": {"acquire", "reacquire"}, "AcquireFail": {"acquire", "reacquire"}, "Find": {"find"}, "Loop": {"loop"},
	"LoopDP": {"loopdp"}, "CheckRead": {"checkread"}, "CheckLookup": {"checkdep"}, "Release": {"release"},
	"WaitReady": {"waitdep"}, "WaitCtx": {"waitdep"}, "WaitDPReady": {"waitdp"}, "WaitDPCtx": {"waitdp"},
	"Unblock": {"unblock"}, "Link": {"link"}, "FinalRelease": {"finrelease"}, "PanicRelease": {"finrelease"},
	"MainWaitReady": {"mainwait"}, "MainWaitCtx": {"mainwait"}, "MainReturn": {"return"},
}

// drive replays sched; start launches Compile. Returns a description of the first nonconformance ("" if none)
// and the number of steps driven.
func (c *controller) drive(sched [][]string, start func(), mainDone func() bool, cancel func()) (string, int) {
	steps := 0
	mainStarted := false
	mainLive := func() bool { return mainStarted && !mainDone() }
	for i, lab := range sched {
		act := lab[0]
		who := "main"
		if len(lab) > 1 {
			who = lab[1]
		}
		switch act {
		case "MainStart":
			mainStarted = true
			start()
			if !c.quiesce(mainLive, 3*time.Second) {
				return fmt.Sprintf("step %d %v: no quiescence after start", i, lab), steps
			}
			steps++
			continue
		case "PanicFail":
			continue // r.fail follows the unwinding release without a gate of its own
		case "ExternalCancel":
			tr.emit("Cancel")
			cancel()
			steps++
			continue
		}
		c.mu.Lock()
		a := c.parked[who]
		ex := c.exited[who]
		c.mu.Unlock()
		if a == nil {
			if act == "MainReturn" && mainDone() {
				continue
			}
			return fmt.Sprintf("step %d %v: goroutine %s is not parked (exited=%v)", i, lab, who, ex), steps
		}
		okGate := false
		for _, g := range allowedGate[act] {
			if g == a.gate {
				okGate = true
			}
		}
		if !okGate {
			return fmt.Sprintf("step %d %v: goroutine %s is at gate %q, the model expects %v", i, lab, who, a.gate, allowedGate[act]), steps
		}
		c.release(who)
		steps++
		if act == "MainReturn" {
			// the model's MainReturn reads the handler and returns in one step: let Compile return before
			// any other goroutine is freed (a task running on could otherwise report in between)
			for w := 0; w < 20000 && !mainDone(); w++ {
				time.Sleep(100 * time.Microsecond)
			}
			break
		}
		if !c.quiesce(mainLive, 3*time.Second) {
			c.mu.Lock()
			desc := fmt.Sprintf("step %d %v: stalled; parked=%v exited=%v", i, lab, gateNames(c.parked), c.exited)
			c.mu.Unlock()
			return desc, steps
		}
	}
	return "", steps
}

func gateNames(m map[string]*arrival) map[string]string {
	out := map[string]string{}
	for k, a := range m {
		out[k] = a.gate
	}
	return out
}

func runOne(spec *runSpec) runResult {
	res := runResult{ID: spec.ID, Descs: map[string]string{}}
	files := make([]string, 0, len(spec.Imports))
	for f := range spec.Imports {
		files = append(files, f)
	}
	sort.Strings(files)
	texts := map[string]string{}
	ovrMode = spec.Ovr
	for _, f := range files {
		if f == "d" && spec.Ovr {
			continue
		}
		texts[f+".proto"] = render(spec, f)
	}
	if spec.FanIn {
		texts["zz.proto"] = "syntax = \"proto3\";\npackage pkg_zz;\nmessage Mzz { int32 x = 1; }\n"
	}
	dpProto := protodesc.ToFileDescriptorProto(descriptorpb.File_google_protobuf_descriptor_proto)
	if spec.Ovr {
		// the overriding descriptor.proto knows three more message options than the Go runtime's copy
		for _, m := range dpProto.MessageType {
			if m.GetName() == "MessageOptions" {
				add := func(name string, num int32, typ descriptorpb.FieldDescriptorProto_Type) {
					m.Field = append(m.Field, &descriptorpb.FieldDescriptorProto{Name: proto.String(name), Number: proto.Int32(num),
						Type: typ.Enum(), Label: descriptorpb.FieldDescriptorProto_LABEL_OPTIONAL.Enum(), JsonName: proto.String(name)})
				}
				add("vfoo", 100, descriptorpb.FieldDescriptorProto_TYPE_STRING)
				add("vbar", 101, descriptorpb.FieldDescriptorProto_TYPE_DOUBLE)
				add("vbaz", 102, descriptorpb.FieldDescriptorProto_TYPE_STRING)
				add("vqux", 103, descriptorpb.FieldDescriptorProto_TYPE_INT32)
			}
		}
	}
	resolver := protocompile.ResolverFunc(func(path string) (protocompile.SearchResult, error) {
		if path == dpPath {
			if !spec.Ovr {
				return protocompile.SearchResult{}, errors.New("verif-resolve-fault: no such file")
			}
			switch spec.Plan["d"] {
			case "err":
				return protocompile.SearchResult{}, errors.New("verif-resolve-fault")
			case "panic":
				panic("verif-panic:" + path)
			}
			return protocompile.SearchResult{Proto: dpProto}, nil
		}
		text, ok := texts[path]
		if !ok {
			return protocompile.SearchResult{}, errors.New("verif-resolve-fault: no such file")
		}
		switch spec.Plan[id(path)] {
		case "err":
			return protocompile.SearchResult{}, errors.New("verif-resolve-fault")
		case "panic":
			panic("verif-panic:" + path)
		case "short":
			return protocompile.SearchResult{Source: &failingReader{r: strings.NewReader(text), n: len(text) / 2}}, nil
		}
		return protocompile.SearchResult{Source: strings.NewReader(text)}, nil
	})

	ctx, cancel := context.WithCancel(context.Background())
	defer cancel()

	var gateCount int64
	var cancelOnce sync.Once
	seed := uint64(spec.Seed)*0x9E3779B97F4A7C15 + 0x1234567
	var ctl *controller
	if len(spec.Sched) > 0 {
		ctl = newController()
	}
	gateFn := func(name string, kv ...any) {
		if ctl != nil {
			ctl.gate(name, kv...)
			return
		}
		k := atomic.AddInt64(&gateCount, 1)
		if spec.Cancel > 0 && int(k) >= spec.Cancel {
			cancelOnce.Do(func() {
				tr.emit("Cancel")
				cancel()
			})
		}
		if spec.Seed == 0 {
			return
		}
		if name == "register" {
			// hold the registration loop long enough for an already started task to reach its own
			// e.compile(dep): harmless while the loop holds e.mu, revealing if it does not
			if k%2 == 0 {
				time.Sleep(400 * time.Microsecond)
			}
			return
		}
		x := (seed + uint64(k)*0xBF58476D1CE4E5B9)
		x ^= x >> 31
		x *= 0x94D049BB133111EB
		x ^= x >> 29
		switch x % 8 {
		case 0, 1, 2:
			runtime.Gosched()
		case 3:
			time.Sleep(time.Duration(20+x%180) * time.Microsecond)
		}
	}
	verifhook.SetGate(gateFn)

	tr.mu.Lock()
	tr.on = spec.Trace
	tr.n = 0
	tr.mu.Unlock()
	tr.emit("Config", "id", spec.ID, "imports", cfgImports(spec), "req", spec.Req, "plan", cfgPlan(spec), "par", spec.Par, "ovr", spec.Ovr)

	var mu sync.Mutex
	var rep reporter.Reporter
	if spec.Reporter == "accept" {
		rep = reporter.NewReporter(func(reporter.ErrorWithPos) error { return nil },
			func(reporter.ErrorWithPos) { mu.Lock(); res.Warnings++; mu.Unlock() })
	}
	var res0 protocompile.Resolver = resolver
	if spec.SrcRes {
		// the same fault plan through the library's own SourceResolver: the file exists under the second
		// import path; the first one answers not-exist when healthy and fails as planned otherwise
		res0 = &protocompile.SourceResolver{
			ImportPaths: []string{"p1", "p2"},
			Accessor: func(path string) (io.ReadCloser, error) {
				switch {
				case strings.HasPrefix(path, "p1/"):
					name := strings.TrimPrefix(path, "p1/")
					switch spec.Plan[id(name)] {
					case "err":
						return nil, errors.New("verif-resolve-fault")
					case "panic":
						panic("verif-panic:" + name)
					case "short":
						if text, ok := texts[name]; ok {
							return io.NopCloser(&failingReader{r: strings.NewReader(text), n: len(text) / 2}), nil
						}
					}
					return nil, fs.ErrNotExist
				case strings.HasPrefix(path, "p2/"):
					if text, ok := texts[strings.TrimPrefix(path, "p2/")]; ok {
						return io.NopCloser(strings.NewReader(text)), nil
					}
				}
				return nil, fs.ErrNotExist
			},
		}
	}
	if spec.Opts {
		res0 = protocompile.WithStandardImports(resolver)
	}
	comp := protocompile.Compiler{Resolver: res0, MaxParallelism: spec.Par, Reporter: rep}
	if spec.Shared {
		comp.Symbols = &linker.Symbols{}
	}
	names := make([]string, len(spec.Req))
	for i, r := range spec.Req {
		names[i] = pathOf(r)
	}

	base := runtime.NumGoroutine()
	type outT struct {
		fs  linker.Files
		err error
		pv  any
	}
	ch := make(chan outT, 1)
	var mainFinished int32
	startCompile := func() {
		go func() {
			defer atomic.StoreInt32(&mainFinished, 1)
			defer func() {
				if p := recover(); p != nil {
					ch <- outT{pv: p}
				}
			}()
			fs, err := comp.Compile(ctx, names...)
			ch <- outT{fs: fs, err: err}
		}()
	}
	if ctl != nil {
		// tasks become known to the controller through the Create trace point
		verifhook.SetTrace(func(ev string, kv ...any) {
			if ev == "Create" {
				ctl.mu.Lock()
				ctl.created[id(kv[1].(string))] = true
				ctl.mu.Unlock()
			}
			tr.emit(ev, kv...)
		})
		res.Nonconf, res.Steps = ctl.drive(spec.Sched, startCompile, func() bool { return atomic.LoadInt32(&mainFinished) == 1 }, cancel)
		ctl.freeAll()
		verifhook.SetTrace(tr.emit)
	} else {
		startCompile()
	}
	var o outT
	got := false
	select {
	case o = <-ch:
		got = true
	case <-time.After(20 * time.Second):
	}
	if !got {
		stuck, dump := confirmStuck(func() bool {
			select {
			case o = <-ch:
				got = true
				return true
			default:
				return false
			}
		})
		if stuck && !got {
			res.Hung = true
			res.Stacks = dump
			res.Class = "hung"
			return res
		}
		if !got {
			o = <-ch
		}
	}
	if o.pv != nil {
		res.Class = "crash"
		res.Err = fmt.Sprint(o.pv)
		return res
	}
	res.Class = classify(o.err)
	if o.err != nil {
		res.Err = o.err.Error()
		var pe protocompile.PanicError
		if errors.As(o.err, &pe) {
			s, _ := pe.Value.(string)
			res.PanicOK = strings.HasPrefix(s, "verif-panic:") && spec.Plan[id(strings.TrimPrefix(s, "verif-panic:"))] == "panic"
		}
	} else {
		for _, f := range o.fs {
			if f != nil {
				collect(f, res.Descs)
			}
		}
	}
	// goroutines must be gone soon after Compile has returned
	deadline := time.Now().Add(5 * time.Second)
	for runtime.NumGoroutine() > base+1 && time.Now().Before(deadline) { // +1: the closed helper goroutine may linger briefly
		time.Sleep(200 * time.Microsecond)
	}
	for runtime.NumGoroutine() > base && time.Now().Before(deadline) {
		time.Sleep(200 * time.Microsecond)
	}
	if n := runtime.NumGoroutine(); n > base {
		res.Leak = n - base
		buf := make([]byte, 1<<20)
		res.Stacks = string(buf[:runtime.Stack(buf, true)])
	}
	tr.emit("End", "id", spec.ID)
	tr.mu.Lock()
	res.NEvents = tr.n
	tr.on = false
	tr.mu.Unlock()
	return res
}

func cfgImports(spec *runSpec) map[string][]string {
	out := map[string][]string{}
	for f, l := range spec.Imports {
		if l == nil {
			l = []string{}
		}
		out[f] = l
	}
	return out
}

func cfgPlan(spec *runSpec) map[string]string {
	out := map[string]string{}
	for f := range spec.Imports {
		p := spec.Plan[f]
		if p == "" {
			p = "ok"
		}
		out[f] = p
	}
	return out
}

func main() {
	if len(os.Args) < 2 {
		fmt.Fprintln(os.Stderr, "usage: compexec <trace-out>")
		os.Exit(2)
	}
	tf, err := os.Create(os.Args[1])
	if err != nil {
		fmt.Fprintln(os.Stderr, err)
		os.Exit(2)
	}
	tr.w = bufio.NewWriterSize(tf, 1<<20)
	verifhook.SetTrace(tr.emit)
	in := bufio.NewScanner(os.Stdin)
	in.Buffer(make([]byte, 1<<20), 1<<26)
	out := bufio.NewWriter(os.Stdout)
	enc := json.NewEncoder(out)
	for in.Scan() {
		var spec runSpec
		if err := json.Unmarshal(in.Bytes(), &spec); err != nil {
			fmt.Fprintln(os.Stderr, "bad spec:", err)
			os.Exit(2)
		}
		r := runOne(&spec)
		_ = enc.Encode(r)
		out.Flush() // a crash of the code under test must not lose the results so far
		if r.Hung {
			break // the process is polluted by the stuck goroutines
		}
	}
	out.Flush()
	tr.mu.Lock()
	tr.w.Flush()
	tr.mu.Unlock()
	tf.Close()
}
