// Driver for C32: replays TLC-exported texts (MCSrcLoc) into source.File.Location /
// InverseLocation and compares with the positions computed by SrcText.tla.
package main

import (
	"bufio"
	"encoding/json"
	"fmt"
	"os"
	"strings"

	"github.com/bufbuild/protocompile/experimental/source"
	"github.com/bufbuild/protocompile/experimental/source/length"
)

type pos struct {
	K    int `json:"k"`
	Off  int `json:"off"`
	Line int `json:"line"`
	Cb   int `json:"cb"`
	Cr   int `json:"cr"`
	Cu   int `json:"cu"`
}
type tcase struct {
	Text []string `json:"text"`
	Pos  []pos    `json:"pos"`
}
type mismatch struct {
	N      int    `json:"n"`
	Class  string `json:"class"`
	Text   string `json:"text"`
	Detail string `json:"detail"`
}

var concrete = map[string]string{"a": "a", "T": "\t", "N": "\n", "R": "\r", "2": "é", "3": "€", "4": "😀"}

func main() {
	in := bufio.NewScanner(os.Stdin)
	in.Buffer(make([]byte, 1<<20), 1<<26)
	out := bufio.NewWriter(os.Stdout)
	defer out.Flush()
	enc := json.NewEncoder(out)
	n, checks := 0, 0
	for in.Scan() {
		var c tcase
		if err := json.Unmarshal(in.Bytes(), &c); err != nil {
			fmt.Fprintln(os.Stderr, "bad case:", err)
			os.Exit(2)
		}
		n++
		var sb strings.Builder
		for _, cl := range c.Text {
			s, ok := concrete[cl]
			if !ok {
				fmt.Fprintln(os.Stderr, "unknown class", cl)
				os.Exit(2)
			}
			sb.WriteString(s)
		}
		text := sb.String()
		// sanity of the concretisation against the spec's byte offsets
		if len(c.Pos) != len(c.Text)+1 || c.Pos[len(c.Pos)-1].Off != len(text) {
			fmt.Fprintln(os.Stderr, "harness: concretisation disagrees with spec offsets", text)
			os.Exit(2)
		}
		report := func(class, detail string) {
			_ = enc.Encode(mismatch{N: n - 1, Class: class, Text: text, Detail: detail})
		}
		func() {
			defer func() {
				if r := recover(); r != nil {
					report("panic", fmt.Sprint(r))
				}
			}()
			f := source.NewFile("t.proto", text)
			for _, p := range c.Pos {
				for _, u := range []struct {
					name string
					unit length.Unit
					col  int
				}{{"bytes", length.Bytes, p.Cb}, {"utf16", length.UTF16, p.Cu}, {"runes", length.Runes, p.Cr}} {
					checks++
					loc := f.Location(p.Off, u.unit)
					if loc.Line != p.Line {
						report("line", fmt.Sprintf("off=%d unit=%s got line %d want %d", p.Off, u.name, loc.Line, p.Line))
					}
					if loc.Column != u.col {
						report("forward:"+u.name, fmt.Sprintf("off=%d got col %d want %d", p.Off, loc.Column, u.col))
					}
					if loc.Offset != p.Off {
						report("forward-offset:"+u.name, fmt.Sprintf("off=%d got %d", p.Off, loc.Offset))
					}
					// the property: Inverse(Location(off)) == off; use the real forward result, and
					// also the spec's (line, col) so that a forward defect cannot mask an inverse one.
					inv := f.InverseLocation(loc.Line, loc.Column, u.unit)
					if inv.Offset != p.Off {
						report("roundtrip:"+u.name, fmt.Sprintf("off=%d -> (%d,%d) -> %d", p.Off, loc.Line, loc.Column, inv.Offset))
					}
					inv2 := f.InverseLocation(p.Line, u.col, u.unit)
					if inv2.Offset != p.Off {
						report("inverse:"+u.name, fmt.Sprintf("(%d,%d) -> %d want %d", p.Line, u.col, inv2.Offset, p.Off))
					}
				}
			}
		}()
	}
	out.Flush()
	fmt.Fprintf(os.Stderr, "STATS cases=%d checks=%d\n", n, checks)
}
