package main

import (
	"encoding/json"
	"fmt"
	"strings"

	"github.com/bufbuild/protocompile/internal/zzverif/common/ws"
)

// featCase mirrors spec/MCFeat27.tla: one edition-2023 feature set at several lexical levels.
type featCase struct {
	Family    string `json:"family"` // json | enumtype | presence
	File      string `json:"file"`
	Msg       string `json:"msg"` // "-" = the enum is top level
	Inner     string `json:"inner"`
	Trigger   bool   `json:"trigger"`
	Effective string `json:"effective"`
	SetAt     string `json:"setat"`
}

func (f *featCase) render() string {
	var sb strings.Builder
	if f.Family == "aliasres" {
		switch f.File {
		case "editions":
			sb.WriteString("edition = \"2023\";\n")
		default:
			sb.WriteString("syntax = \"" + f.File + "\";\n")
		}
		sb.WriteString("package a;\nenum Color {\n")
		if f.Inner == "alias" {
			sb.WriteString("  option allow_alias = true;\n")
		}
		sb.WriteString("  COLOR_A = 0;\n  COLOR_B = 1;\n")
		if f.Inner == "alias" {
			sb.WriteString("  COLOR_C = 1;\n")
		}
		n := 8
		if f.Trigger {
			n = 6
		}
		fmt.Fprintf(&sb, "  COLOR_D = %d;\n  reserved 5 to 7;\n}\n", n)
		return sb.String()
	}
	sb.WriteString("edition = \"2023\";\npackage a;\n")
	feature := map[string]string{"json": "json_format", "enumtype": "enum_type", "presence": "field_presence"}[f.Family]
	if f.File != "" {
		fmt.Fprintf(&sb, "option features.%s = %s;\n", feature, f.File)
	}
	switch f.Family {
	case "json", "enumtype":
		ind := ""
		if f.Msg != "-" {
			sb.WriteString("message m {\n")
			if f.Msg != "" {
				fmt.Fprintf(&sb, "  option features.%s = %s;\n", feature, f.Msg)
			}
			ind = "  "
		}
		sb.WriteString(ind + "enum Color {\n")
		if f.Inner != "" {
			fmt.Fprintf(&sb, "%s  option features.%s = %s;\n", ind, feature, f.Inner)
		}
		if f.Family == "json" {
			second := "COLOR_LIGHT"
			if f.Trigger {
				second = "COLOR_dark_red"
			}
			fmt.Fprintf(&sb, "%s  COLOR_DARK_RED = 0;\n%s  %s = 1;\n", ind, ind, second)
		} else {
			first := 0
			if f.Trigger {
				first = 1
			}
			fmt.Fprintf(&sb, "%s  COLOR_A = %d;\n%s  COLOR_B = 2;\n", ind, first, ind)
		}
		sb.WriteString(ind + "}\n")
		if f.Msg != "-" {
			sb.WriteString("}\n")
		}
	case "presence":
		var opts []string
		if f.Inner != "" {
			opts = append(opts, "features.field_presence = "+f.Inner)
		}
		if f.Trigger {
			opts = append(opts, "default = 7")
		}
		sb.WriteString("message m {\n  int32 zf = 1")
		if len(opts) > 0 {
			sb.WriteString(" [" + strings.Join(opts, ", ") + "]")
		}
		sb.WriteString(";\n}\n")
	}
	return sb.String()
}

// feat27 compiles the case with both compilers: same accept/reject, equal descriptors when both accept.
// A disagreement is named by family, direction, and the level that decides the feature's value.
func (r *runner) feat27(f *featCase, raw json.RawMessage) {
	st := r.st
	if r.mode != "c27" {
		st.harness("feature-placement case given to mode %s", r.mode)
		return
	}
	src := map[string]string{"f1.proto": f.render()}
	targets := []string{"f1.proto"}
	res := ws.CompileSources(src, targets)
	ex := compileExperimental(src, targets)
	fv := fmt.Sprintf("FEAT %s file=%s msg=%s inner=%s trigger=%v", f.Family, f.File, f.Msg, f.Inner, f.Trigger)
	st.mu.Lock()
	st.Cases++
	st.Compiles += 2
	st.Evals++
	st.Features[fv] = true
	bump(st.Outcomes, "feature-placement-cases")
	st.mu.Unlock()
	rep := func(cls, detail string) {
		r.out(mismatch{Class: cls, Detail: detail, Case: map[string]any{"replay": raw, "source": src}})
	}
	if res.Panic != "" {
		rep("c27:feat:"+f.Family+":stable-panic", res.Panic)
		return
	}
	if ex.Panic != "" {
		rep("c27:feat:"+f.Family+":exp-panic", ex.Panic)
		return
	}
	firstSt, firstExp := "(none)", "(none)"
	if len(res.Errors) > 0 {
		firstSt = res.Errors[0].Msg
	}
	if len(ex.Errors) > 0 {
		firstExp = ex.Errors[0]
	}
	where := fmt.Sprintf("eff=%s:set-at=%s:trigger=%v", f.Effective, f.SetAt, f.Trigger)
	detail := fmt.Sprintf("%s | stable ok=%v (%s) | experimental ok=%v (%s)", fv, res.OK(), firstSt, ex.OK, firstExp)
	switch {
	case res.OK() && !ex.OK:
		rep("c27:feat:"+f.Family+":exp-rejects-stable-accepts:"+where, detail)
	case !res.OK() && ex.OK:
		rep("c27:feat:"+f.Family+":exp-accepts-stable-rejects:"+where, detail)
	case res.OK() && ex.OK:
		sf := res.File("f1.proto")
		efd := ex.Files["f1.proto"]
		if sf == nil || efd == nil {
			st.harness("compiled file missing from a result (%s)", fv)
			return
		}
		if path, d := protoDiff(stripSourceInfo(protoFromFile(sf)), stripSourceInfo(efd)); path != "" {
			rep("c27:feat:"+f.Family+":desc:"+path+":"+where, detail+" | "+d)
		}
	}
}
