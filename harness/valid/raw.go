package main

import (
	"bufio"
	"encoding/json"
	"fmt"
	"os"
	"sort"
	"strings"

	"google.golang.org/protobuf/encoding/prototext"
	"google.golang.org/protobuf/proto"
	"google.golang.org/protobuf/types/descriptorpb"

	"github.com/bufbuild/protocompile/internal/zzverif/common/ws"
)

// rawCase is a hand-written probe: sources and targets, no expectations. Development aid only
// (mode "raw"); it is not used by any check.
type rawCase struct {
	Files   map[string]string `json:"files"`
	Targets []string          `json:"targets"`
	Desc    bool              `json:"desc"`
}

func runRaw() {
	in := bufio.NewScanner(os.Stdin)
	in.Buffer(make([]byte, 1<<20), 1<<26)
	for in.Scan() {
		var c rawCase
		if err := json.Unmarshal(in.Bytes(), &c); err != nil {
			fmt.Println("bad case:", err)
			continue
		}
		if c.Targets == nil {
			for p := range c.Files {
				c.Targets = append(c.Targets, p)
			}
			sort.Strings(c.Targets)
		}
		st := ws.CompileSources(c.Files, c.Targets)
		ex := compileExperimental(c.Files, c.Targets)
		fmt.Printf("== stable ok=%v", st.OK())
		for _, e := range st.Errors {
			fmt.Printf("\n   E %s", e.String())
		}
		for _, e := range st.Warnings {
			fmt.Printf("\n   W %s", e.String())
		}
		if st.Err != nil {
			fmt.Printf("\n   err %v", st.Err)
		}
		if st.Panic != "" {
			fmt.Printf("\n   PANIC %s", firstLine(st.Panic))
		}
		fmt.Printf("\n== experimental ok=%v", ex.OK)
		for _, e := range ex.Errors {
			fmt.Printf("\n   E %s", e)
		}
		if ex.Panic != "" {
			fmt.Printf("\n   PANIC %s", ex.Panic)
		}
		fmt.Println()
		if c.Desc {
			for _, t := range c.Targets {
				if f := st.File(t); f != nil {
					fd := proto.Clone(protoFromFile(f)).(proto.Message)
					fmt.Printf("-- stable %s\n%s", t, prototext.MarshalOptions{Multiline: true}.Format(fd))
				}
				if fd := ex.Files[t]; fd != nil {
					fmt.Printf("-- experimental %s\n%s", t, prototext.MarshalOptions{Multiline: true}.Format(fd))
				}
			}
		}
	}
}

// dumpSet prints the files of a protoc-produced FileDescriptorSet (calibration aid).
func dumpSet(path, filter string) {
	b, err := os.ReadFile(path)
	if err != nil {
		fmt.Println(err)
		return
	}
	var fds descriptorpb.FileDescriptorSet
	if err := proto.Unmarshal(b, &fds); err != nil {
		fmt.Println(err)
		return
	}
	for _, f := range fds.File {
		if filter != "" && !strings.Contains(f.GetName(), filter) {
			continue
		}
		f.SourceCodeInfo = nil
		fmt.Println(prototext.MarshalOptions{Multiline: true}.Format(f))
	}
}
