package main

import (
	"bytes"
	"fmt"
	"sort"
	"strings"

	"google.golang.org/protobuf/encoding/prototext"
	"google.golang.org/protobuf/encoding/protowire"
	"google.golang.org/protobuf/proto"
	"google.golang.org/protobuf/reflect/protoreflect"
	"google.golang.org/protobuf/types/descriptorpb"
)

// projectFile maps a real FileDescriptorProto onto the abstract projection that
// spec/ProtoValid.tla Descriptor(ws, g) computes: same member names, default-valued members
// omitted in the same places. Anything set in the real descriptor that the projection does not
// know (options other than map_entry, weak dependencies, ...) is carried as an "unexpected:..."
// member so that it shows up as a difference instead of being ignored silently.
func projectFile(fd *descriptorpb.FileDescriptorProto) any {
	out := map[string]any{
		"name":              fd.GetName(),
		"package":           fd.GetPackage(),
		"syntax":            fd.GetSyntax(),
		"edition":           "",
		"dependency":        strs(fd.Dependency),
		"public_dependency": ints(fd.PublicDependency),
		"message_type":      list(fd.MessageType, projectMsg),
		"enum_type":         list(fd.EnumType, projectEnum),
		"service":           list(fd.Service, projectSvc),
		"extension":         list(fd.Extension, projectField),
	}
	if fd.Edition != nil {
		out["edition"] = fd.GetEdition().String()
	}
	if len(fd.WeakDependency) > 0 {
		out["unexpected:weak_dependency"] = ints(fd.WeakDependency)
	}
	if len(fd.OptionDependency) > 0 {
		out["unexpected:option_dependency"] = strs(fd.OptionDependency)
	}
	if fd.Options != nil {
		projectOptions(out, fd.Options, nil)
	}
	unknown(out, fd)
	return out
}

func unknown(out map[string]any, m proto.Message) {
	if u := m.ProtoReflect().GetUnknown(); len(u) > 0 {
		out["unexpected:unknown_fields"] = fmt.Sprintf("%x", []byte(u))
	}
}

// projectOptions splits an options message by field number: custom options (extension numbers
// >= 1000, whether stored as known extension fields or as unknown fields) become the sorted member
// ext_options (the number when the value is the varint 1, "<num>=<raw>" otherwise); the standard
// options named in `modelled` become boolean members; anything else is reported as unexpected.
func projectOptions(out map[string]any, opts proto.Message, modelled map[protowire.Number]string) {
	if opts == nil || !opts.ProtoReflect().IsValid() {
		return
	}
	b, err := proto.MarshalOptions{Deterministic: true}.Marshal(opts)
	if err != nil {
		out["unexpected:options"] = "marshal: " + err.Error()
		return
	}
	var ext []any
	var other []string
	for len(b) > 0 {
		num, typ, n := protowire.ConsumeTag(b)
		if n < 0 {
			out["unexpected:options"] = "bad wire data"
			return
		}
		b = b[n:]
		vn := protowire.ConsumeFieldValue(num, typ, b)
		if vn < 0 {
			out["unexpected:options"] = "bad wire data"
			return
		}
		val := b[:vn]
		b = b[vn:]
		var varint uint64
		isVarint := typ == protowire.VarintType
		if isVarint {
			varint, _ = protowire.ConsumeVarint(val)
		}
		switch {
		case num >= 1000:
			if isVarint && varint == 1 {
				ext = append(ext, float64(num))
			} else {
				ext = append(ext, fmt.Sprintf("%d=%x", num, val))
			}
		case modelled[num] != "" && isVarint:
			out[modelled[num]] = varint != 0
		default:
			other = append(other, fmt.Sprintf("%d=%x", num, val))
		}
	}
	if len(ext) > 0 {
		sort.Slice(ext, func(i, j int) bool { return fmt.Sprint(ext[i]) < fmt.Sprint(ext[j]) })
		out["ext_options"] = ext
	}
	if len(other) > 0 {
		out["unexpected:options"] = strings.Join(other, " ")
	}
}

// projectRangeOptions: ExtensionRangeOptions as members verification (enum name) and rep (the values
// of the repeated int32 option extension 1010, packed or not, known or unknown); anything else unexpected.
func projectRangeOptions(out map[string]any, opts proto.Message) {
	b, err := proto.MarshalOptions{Deterministic: true}.Marshal(opts)
	if err != nil {
		out["unexpected:options"] = "marshal: " + err.Error()
		return
	}
	var rep []any
	var other []string
	for len(b) > 0 {
		num, typ, n := protowire.ConsumeTag(b)
		if n < 0 {
			out["unexpected:options"] = "bad wire data"
			return
		}
		b = b[n:]
		vn := protowire.ConsumeFieldValue(num, typ, b)
		if vn < 0 {
			out["unexpected:options"] = "bad wire data"
			return
		}
		val := b[:vn]
		b = b[vn:]
		switch {
		case num == 3 && typ == protowire.VarintType:
			v, _ := protowire.ConsumeVarint(val)
			out["verification"] = descriptorpb.ExtensionRangeOptions_VerificationState(v).String()
		case num == 1010 && typ == protowire.VarintType:
			v, _ := protowire.ConsumeVarint(val)
			rep = append(rep, float64(v))
		case num == 1010 && typ == protowire.BytesType:
			p, _ := protowire.ConsumeBytes(val)
			for len(p) > 0 {
				v, k := protowire.ConsumeVarint(p)
				if k < 0 {
					break
				}
				rep = append(rep, float64(v))
				p = p[k:]
			}
		default:
			other = append(other, fmt.Sprintf("%d=%x", num, val))
		}
	}
	if rep != nil {
		out["rep"] = rep
	}
	if len(other) > 0 {
		out["unexpected:options"] = strings.Join(other, " ")
	}
}

func unexpectedOptions(out map[string]any, opts proto.Message) {
	if opts == nil || !opts.ProtoReflect().IsValid() {
		return
	}
	out["unexpected:options"] = prototext.MarshalOptions{}.Format(opts)
}

func strs(s []string) any {
	out := make([]any, len(s))
	for i, x := range s {
		out[i] = x
	}
	return out
}

func ints(s []int32) any {
	out := make([]any, len(s))
	for i, x := range s {
		out[i] = float64(x)
	}
	return out
}

func list[T any](s []T, f func(T) any) any {
	out := make([]any, len(s))
	for i, x := range s {
		out[i] = f(x)
	}
	return out
}

func projectField(f *descriptorpb.FieldDescriptorProto) any {
	out := map[string]any{
		"name":   f.GetName(),
		"number": float64(f.GetNumber()),
		"label":  "(unset)",
		"type":   "(unset)",
	}
	if f.Label != nil {
		out["label"] = f.GetLabel().String()
	}
	if f.Type != nil {
		out["type"] = f.GetType().String()
	}
	if f.JsonName != nil {
		out["json_name"] = f.GetJsonName()
	}
	if f.TypeName != nil {
		out["type_name"] = f.GetTypeName()
	}
	if f.Extendee != nil {
		out["extendee"] = f.GetExtendee()
	}
	if f.OneofIndex != nil {
		out["oneof_index"] = float64(f.GetOneofIndex())
	}
	if f.Proto3Optional != nil {
		out["proto3_optional"] = f.GetProto3Optional()
	}
	if f.DefaultValue != nil {
		out["default_value"] = f.GetDefaultValue()
	}
	if f.Options != nil {
		projectOptions(out, f.Options, map[protowire.Number]string{3: "deprecated"})
	}
	unknown(out, f)
	return out
}

func projectEnum(e *descriptorpb.EnumDescriptorProto) any {
	out := map[string]any{
		"name": e.GetName(),
		"value": list(e.Value, func(v *descriptorpb.EnumValueDescriptorProto) any {
			o := map[string]any{"name": v.GetName(), "number": float64(v.GetNumber())}
			if v.Number == nil {
				o["number"] = "(unset)"
			}
			if v.Options != nil {
				projectOptions(o, v.Options, nil)
			}
			return o
		}),
	}
	if len(e.ReservedRange) > 0 {
		// an enum's reserved range is inclusive at both ends in the descriptor
		out["reserved_range"] = list(e.ReservedRange, func(r *descriptorpb.EnumDescriptorProto_EnumReservedRange) any {
			o := map[string]any{"start": "(unset)", "end": "(unset)"}
			if r.Start != nil {
				o["start"] = float64(r.GetStart())
			}
			if r.End != nil {
				o["end"] = float64(r.GetEnd())
			}
			return o
		})
	}
	if len(e.ReservedName) > 0 {
		out["reserved_name"] = strs(e.ReservedName)
	}
	if e.Options != nil {
		projectOptions(out, e.Options, map[protowire.Number]string{2: "allow_alias"})
	}
	if e.Visibility != nil {
		out["unexpected:visibility"] = e.GetVisibility().String()
	}
	unknown(out, e)
	return out
}

func projectMsg(m *descriptorpb.DescriptorProto) any {
	out := map[string]any{
		"name":  m.GetName(),
		"field": list(m.Field, projectField),
	}
	if len(m.NestedType) > 0 {
		out["nested_type"] = list(m.NestedType, projectMsg)
	}
	if len(m.EnumType) > 0 {
		out["enum_type"] = list(m.EnumType, projectEnum)
	}
	if len(m.Extension) > 0 {
		out["extension"] = list(m.Extension, projectField)
	}
	if len(m.OneofDecl) > 0 {
		out["oneof_decl"] = list(m.OneofDecl, func(o *descriptorpb.OneofDescriptorProto) any {
			if o.Options != nil {
				return o.GetName() + " unexpected:options"
			}
			return o.GetName()
		})
	}
	rng := func(start, end *int32, opts proto.Message) any {
		o := map[string]any{"start": "(unset)", "end": "(unset)"}
		if start != nil {
			o["start"] = float64(*start)
		}
		if end != nil {
			o["end"] = float64(*end)
		}
		if opts != nil && opts.ProtoReflect().IsValid() {
			projectRangeOptions(o, opts)
		}
		return o
	}
	if len(m.ExtensionRange) > 0 {
		out["extension_range"] = list(m.ExtensionRange, func(r *descriptorpb.DescriptorProto_ExtensionRange) any {
			var o proto.Message
			if r.Options != nil {
				o = r.Options
			}
			return rng(r.Start, r.End, o)
		})
	}
	if len(m.ReservedRange) > 0 {
		out["reserved_range"] = list(m.ReservedRange, func(r *descriptorpb.DescriptorProto_ReservedRange) any {
			return rng(r.Start, r.End, nil)
		})
	}
	if len(m.ReservedName) > 0 {
		out["reserved_name"] = strs(m.ReservedName)
	}
	if m.Options != nil {
		projectOptions(out, m.Options, map[protowire.Number]string{7: "map_entry"})
	}
	if m.Visibility != nil {
		out["unexpected:visibility"] = m.GetVisibility().String()
	}
	unknown(out, m)
	return out
}

func projectSvc(s *descriptorpb.ServiceDescriptorProto) any {
	out := map[string]any{
		"name": s.GetName(),
		"method": list(s.Method, func(m *descriptorpb.MethodDescriptorProto) any {
			o := map[string]any{"name": m.GetName(), "input_type": m.GetInputType(), "output_type": m.GetOutputType()}
			if m.ClientStreaming != nil {
				o["client_streaming"] = m.GetClientStreaming()
			}
			if m.ServerStreaming != nil {
				o["server_streaming"] = m.GetServerStreaming()
			}
			if m.Options != nil {
				projectOptions(o, m.Options, nil)
			}
			return o
		}),
	}
	if s.Options != nil {
		projectOptions(out, s.Options, nil)
	}
	return out
}

// diffAbstract compares the spec's abstract descriptor with the projection of the real one.
// It returns the member path (list indices dropped: message_type.field.json_name) of the first
// difference and a description; "" when equal. n counts compared leaves.
func diffAbstract(want, got any, path string, n *int) (string, string) {
	switch w := want.(type) {
	case map[string]any:
		g, ok := got.(map[string]any)
		if !ok {
			return path, fmt.Sprintf("%s: expected a record, real %v", path, got)
		}
		keys := map[string]bool{}
		for k := range w {
			keys[k] = true
		}
		for k := range g {
			keys[k] = true
		}
		var ks []string
		for k := range keys {
			ks = append(ks, k)
		}
		sort.Strings(ks)
		for _, k := range ks {
			p := k
			if path != "" {
				p = path + "." + k
			}
			wv, wok := w[k]
			gv, gok := g[k]
			switch {
			case !wok:
				return p, fmt.Sprintf("%s: real descriptor has %v, the specification has no such member (%s)", p, gv, nameOf(g))
			case !gok:
				return p, fmt.Sprintf("%s: specification expects %v, real descriptor has no such member (%s)", p, wv, nameOf(g))
			}
			if dp, d := diffAbstract(wv, gv, p, n); dp != "" {
				return dp, d
			}
		}
		return "", ""
	case []any:
		g, ok := got.([]any)
		if !ok {
			return path, fmt.Sprintf("%s: expected a list, real %v", path, got)
		}
		if len(w) != len(g) {
			return path + ".#", fmt.Sprintf("%s: specification expects %d entries %v, real descriptor has %d %v", path, len(w), brief(w), len(g), brief(g))
		}
		for i := range w {
			if dp, d := diffAbstract(w[i], g[i], path, n); dp != "" {
				return dp, d
			}
		}
		return "", ""
	default:
		*n++
		if fmt.Sprint(want) != fmt.Sprint(got) {
			return path, fmt.Sprintf("%s: specification expects %v, real descriptor has %v", path, want, got)
		}
		return "", ""
	}
}

func nameOf(m map[string]any) string {
	if n, ok := m["name"]; ok {
		return fmt.Sprint("in ", n)
	}
	return ""
}

func brief(l []any) []string {
	var out []string
	for _, x := range l {
		if m, ok := x.(map[string]any); ok {
			out = append(out, fmt.Sprint(m["name"]))
		} else {
			out = append(out, fmt.Sprint(x))
		}
	}
	return out
}

// pdiff is one difference between two messages: the path (field names, no indices) and a description.
type pdiff struct{ path, detail string }

// protoDiffAll compares two messages of the same type field by field and returns every difference
// (one per differing member; a list whose lengths differ is reported once and not descended into).
// Unknown fields are compared as raw bytes. A differing default_value carries the field's type in
// its path (default_value[TYPE_FLOAT]) so that different kinds of default are different classes.
func protoDiffAll(a, b proto.Message) []pdiff {
	var acc []pdiff
	msgDiff(a.ProtoReflect(), b.ProtoReflect(), "", &acc)
	return acc
}

// protoDiff returns the first difference, "" when equal.
func protoDiff(a, b proto.Message) (string, string) {
	if ds := protoDiffAll(a, b); len(ds) > 0 {
		return ds[0].path, ds[0].detail
	}
	return "", ""
}

func msgDiff(a, b protoreflect.Message, path string, acc *[]pdiff) {
	fields := a.Descriptor().Fields()
	for i := 0; i < fields.Len(); i++ {
		fd := fields.Get(i)
		p := string(fd.Name())
		if path != "" {
			p = path + "." + p
		}
		ha, hb := a.Has(fd), b.Has(fd)
		if ha != hb {
			*acc = append(*acc, pdiff{p, fmt.Sprintf("%s: stable %s, experimental %s (%s)", p, present(a, fd), present(b, fd), ident(a))})
			continue
		}
		if !ha {
			continue
		}
		va, vb := a.Get(fd), b.Get(fd)
		switch {
		case fd.IsList():
			la, lb := va.List(), vb.List()
			if la.Len() != lb.Len() {
				*acc = append(*acc, pdiff{p + ".#", fmt.Sprintf("%s: stable has %d entries, experimental %d (%s)", p, la.Len(), lb.Len(), ident(a))})
				continue
			}
			for j := 0; j < la.Len(); j++ {
				valDiff(fd, la.Get(j), lb.Get(j), p, a, acc)
			}
		case fd.IsMap():
			// descriptor.proto has no map fields
		default:
			valDiff(fd, va, vb, p, a, acc)
		}
	}
	if !bytes.Equal(a.GetUnknown(), b.GetUnknown()) {
		*acc = append(*acc, pdiff{path + ".(unknown)", fmt.Sprintf("%s: unknown fields differ: stable %x experimental %x", path, []byte(a.GetUnknown()), []byte(b.GetUnknown()))})
	}
}

func valDiff(fd protoreflect.FieldDescriptor, va, vb protoreflect.Value, p string, parent protoreflect.Message, acc *[]pdiff) {
	if fd.Message() != nil {
		// options messages: compare by canonical wire form (known vs unknown storage of
		// extension values must not matter)
		if strings.HasSuffix(string(fd.Message().Name()), "Options") {
			ca, cb := canonWire(va.Message().Interface()), canonWire(vb.Message().Interface())
			if ca != cb {
				*acc = append(*acc, pdiff{p, fmt.Sprintf("%s: stable {%s} = %s, experimental {%s} = %s (%s)", p,
					prototext.MarshalOptions{}.Format(va.Message().Interface()), ca,
					prototext.MarshalOptions{}.Format(vb.Message().Interface()), cb, ident(parent))})
			}
			return
		}
		msgDiff(va.Message(), vb.Message(), p, acc)
		return
	}
	if !va.Equal(vb) {
		if fd.Name() == "default_value" {
			if tf := parent.Descriptor().Fields().ByName("type"); tf != nil && tf.Enum() != nil {
				p += "[" + fmtVal(tf, parent.Get(tf)) + "]"
			}
		}
		*acc = append(*acc, pdiff{p, fmt.Sprintf("%s: stable %v, experimental %v (%s)", p, fmtVal(fd, va), fmtVal(fd, vb), ident(parent))})
	}
}

// canonWire is the wire form of an options message as a list of (field number, wire type, value
// bytes) sorted by field number (stable for repeated occurrences). Whether a custom option is stored
// as a known extension field or as an unknown field changes the ORDER in which the Go runtime
// serialises it (extensions first, unknown fields last, in the order they were parsed), never the
// entries themselves; the property says that storage must not matter.
func canonWire(m proto.Message) string {
	b, err := proto.MarshalOptions{Deterministic: true}.Marshal(m)
	if err != nil {
		return "marshal error: " + err.Error()
	}
	type ent struct {
		num protowire.Number
		s   string
	}
	var es []ent
	for len(b) > 0 {
		num, typ, n := protowire.ConsumeTag(b)
		if n < 0 {
			return fmt.Sprintf("bad wire data %x", b)
		}
		b = b[n:]
		vn := protowire.ConsumeFieldValue(num, typ, b)
		if vn < 0 {
			return fmt.Sprintf("bad wire data %x", b)
		}
		es = append(es, ent{num, fmt.Sprintf("%d/%d=%x", num, typ, b[:vn])})
		b = b[vn:]
	}
	sort.SliceStable(es, func(i, j int) bool { return es[i].num < es[j].num })
	var out []string
	for _, e := range es {
		out = append(out, e.s)
	}
	return strings.Join(out, " ")
}

func fmtVal(fd protoreflect.FieldDescriptor, v protoreflect.Value) string {
	if fd.Enum() != nil {
		if ev := fd.Enum().Values().ByNumber(v.Enum()); ev != nil {
			return string(ev.Name())
		}
	}
	return fmt.Sprintf("%q", fmt.Sprint(v.Interface()))
}

func present(m protoreflect.Message, fd protoreflect.FieldDescriptor) string {
	if !m.Has(fd) {
		return "unset"
	}
	if fd.IsList() {
		return fmt.Sprintf("%d entries", m.Get(fd).List().Len())
	}
	if fd.Message() != nil {
		return "{" + prototext.MarshalOptions{}.Format(m.Get(fd).Message().Interface()) + "}"
	}
	return "= " + fmtVal(fd, m.Get(fd))
}

func ident(m protoreflect.Message) string {
	if fd := m.Descriptor().Fields().ByName("name"); fd != nil && fd.Kind() == protoreflect.StringKind {
		return "in " + string(m.Descriptor().Name()) + " " + m.Get(fd).String()
	}
	return "in " + string(m.Descriptor().Name())
}
