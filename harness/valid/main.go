// Driver for C01 (accept/reject), C02 (descriptor projection) and C27 (experimental vs stable
// compiler) on the workspaces exported by spec/MCValid.tla.  Reads one JSON case per line on
// stdin, writes one JSON line per disagreement to stdout and a STATS object to stderr.
package main

import (
	"flag"
	"fmt"
	"os"
	"runtime"

	"google.golang.org/protobuf/types/descriptorpb"

	"github.com/bufbuild/protocompile/linker"
	"github.com/bufbuild/protocompile/protoutil"
)

func protoFromFile(f linker.File) *descriptorpb.FileDescriptorProto {
	if r, ok := f.(linker.Result); ok {
		return r.FileDescriptorProto()
	}
	return protoutil.ProtoFromFileDescriptor(f)
}

func main() {
	mode := flag.String("mode", "c01", "c01 | c02 | c27 | raw")
	jobs := flag.Int("j", runtime.GOMAXPROCS(0), "parallel workers")
	corrupt := flag.Int("corrupt", 0, "self-test: corrupt the expectation of every n-th case (0 = off)")
	flag.Parse()
	switch *mode {
	case "raw":
		runRaw()
	case "dumpset":
		dumpSet(flag.Arg(0), flag.Arg(1))
	case "c01", "c02", "c27":
		os.Exit(runCases(*mode, *jobs, *corrupt))
	default:
		fmt.Fprintln(os.Stderr, "unknown mode", *mode)
		os.Exit(2)
	}
}
