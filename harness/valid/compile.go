package main

import (
	"context"
	"fmt"
	"runtime/debug"
	"strings"
	"time"

	"google.golang.org/protobuf/proto"
	"google.golang.org/protobuf/types/descriptorpb"

	"github.com/bufbuild/protocompile/experimental/fdp"
	"github.com/bufbuild/protocompile/experimental/incremental"
	"github.com/bufbuild/protocompile/experimental/incremental/queries"
	"github.com/bufbuild/protocompile/experimental/ir"
	"github.com/bufbuild/protocompile/experimental/report"
	"github.com/bufbuild/protocompile/experimental/source"
)

// expResult is the outcome of compiling target paths with the experimental compiler the way
// internal/testing/dualcompiler/new_adapter.go does: one queries.IR per target, accepted iff no
// fatal result and no Error/ICE diagnostic, descriptors through fdp.DescriptorProtoBytes.
type expResult struct {
	OK     bool
	Errors []string // messages of Error / ICE diagnostics (and fatal results)
	Panic  string
	Files  map[string]*descriptorpb.FileDescriptorProto
}

func compileExperimental(src map[string]string, targets []string) (res *expResult) {
	res = &expResult{Files: map[string]*descriptorpb.FileDescriptorProto{}}
	done := make(chan struct{})
	go func() {
		defer close(done)
		defer func() {
			if p := recover(); p != nil {
				res.Panic = fmt.Sprintf("%v\n%s", p, debug.Stack())
			}
		}()
		m := source.NewMap(nil)
		for p, t := range src {
			m.Add(p, t)
		}
		opener := &source.Openers{source.WKTs(), m}
		session := &ir.Session{}
		exec := incremental.New(incremental.WithParallelism(1))
		qs := make([]incremental.Query[*ir.File], len(targets))
		for i, t := range targets {
			qs[i] = queries.IR{Opener: opener, Session: session, Path: t}
		}
		ctx, cancel := context.WithTimeout(context.Background(), 60*time.Second)
		defer cancel()
		results, rpt, err := incremental.Run(ctx, exec, qs...)
		if err != nil {
			res.Errors = append(res.Errors, "run: "+err.Error())
			return
		}
		var files []*ir.File
		for i, r := range results {
			if r.Fatal != nil {
				res.Errors = append(res.Errors, fmt.Sprintf("fatal %s: %v", targets[i], r.Fatal))
				continue
			}
			files = append(files, r.Value)
		}
		if rpt != nil {
			for _, d := range rpt.Diagnostics {
				if d.Level() == report.Error || d.Level() == report.ICE {
					res.Errors = append(res.Errors, d.Message())
				}
			}
		}
		if len(res.Errors) > 0 {
			return
		}
		for _, f := range files {
			data, err := fdp.DescriptorProtoBytes(f, fdp.IncludeSourceCodeInfo(false))
			if err != nil {
				res.Errors = append(res.Errors, "fdp: "+err.Error())
				return
			}
			fd := &descriptorpb.FileDescriptorProto{}
			if err := proto.Unmarshal(data, fd); err != nil {
				res.Errors = append(res.Errors, "fdp unmarshal: "+err.Error())
				return
			}
			res.Files[f.Path()] = fd
		}
		res.OK = true
	}()
	select {
	case <-done:
	case <-time.After(90 * time.Second):
		return &expResult{Panic: "hang: experimental compile did not return"}
	}
	return res
}

func firstLine(s string) string {
	if i := strings.IndexByte(s, '\n'); i >= 0 {
		return s[:i]
	}
	return s
}
