package main

func runCases(mode string, jobs, corrupt int) int { return 2 }
