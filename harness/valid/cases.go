package main

import (
	"bufio"
	"bytes"
	"encoding/json"
	"fmt"
	"os"
	"regexp"
	"sort"
	"strings"
	"sync"

	"google.golang.org/protobuf/types/descriptorpb"

	"github.com/bufbuild/protocompile/internal/zzverif/common/ws"
)

// vcase is one state exported by spec/MCValid.tla.
type vcase struct {
	WS       ws.Workspace `json:"ws"`
	Valid    bool         `json:"valid"`
	Broken   []string     `json:"broken"`
	Features []string     `json:"features"`
	FQNs     [][]string   `json:"fqns"`
	Refs     [][]ws.Ref   `json:"refs"`
	Desc     []any        `json:"desc"` // abstract descriptor per file (valid cases)
	// Certain = false: the workspace uses a construct on which the project documents a deliberate
	// divergence from protoc (synthetic oneof name meeting a nested symbol): C01 / C02 skip it,
	// C27 still compares the two compilers (the specification does not arbitrate).
	Certain *bool `json:"certain"`
	// Feat: a case of spec/MCFeat27.tla (C27 only): edition 2023 feature placement, rendered by feat.go.
	Feat *featCase `json:"feat"`
}

func (c *vcase) certain() bool { return c.Certain == nil || *c.Certain }

type mismatch struct {
	Class  string `json:"class"`
	Case   any    `json:"case"`
	Detail string `json:"detail"`
}

type stats struct {
	mu        sync.Mutex
	Cases     int                       `json:"cases"`
	Evals     int                       `json:"evaluations"`
	Compiles  int                       `json:"compiles"`
	Valid     int                       `json:"valid_cases"`
	Invalid   int                       `json:"invalid_cases"`
	Skipped   map[string]int            `json:"skipped"`
	Outcomes  map[string]int            `json:"outcomes"`
	Rules     map[string]int            `json:"rules"`
	Reasons   map[string]map[string]int `json:"reasons"` // rule -> normalised stable error -> count
	ExpReason map[string]map[string]int `json:"exp_reasons"`
	SynSkip   int                       `json:"crosscheck_skipped_syntax_error"`
	Features  map[string]bool           `json:"-"`
	Nontriv   int                       `json:"distinct_nontrivial"`
	Distinct  int                       `json:"distinct_features"`
	Harness   []string                  `json:"harness_errors"`
	Samples   []any                     `json:"samples"`
}

func (s *stats) harness(format string, a ...any) {
	s.mu.Lock()
	if len(s.Harness) < 20 {
		s.Harness = append(s.Harness, fmt.Sprintf(format, a...))
	}
	s.mu.Unlock()
}

func bump(m map[string]int, k string) { m[k]++ }

var (
	reQuoted = regexp.MustCompile("`[^`]*`|\"[^\"]*\"")
	reNum    = regexp.MustCompile(`[0-9]+`)
	reIdent  = regexp.MustCompile(`\b(f[0-9]\.proto|[a-z_]+(\.[A-Za-z_]+)+|a|b|m|c|z[a-zA-Z_]*|Z[A-Za-z]*Entry)\b`)
)

// normMsg strips the case-specific parts (names, numbers, positions) of a diagnostic.
func normMsg(s string) string {
	s = firstLine(s)
	s = reQuoted.ReplaceAllString(s, "_")
	s = reIdent.ReplaceAllString(s, "_")
	s = reNum.ReplaceAllString(s, "N")
	if len(s) > 140 {
		s = s[:140]
	}
	return s
}

// lookupClass joins the lookup rule ids (L-...) of the references of the case that do not resolve
// to a usable element.
func lookupClass(c *vcase) string {
	set := map[string]bool{}
	for _, rs := range c.Refs {
		for _, r := range rs {
			if r.Exp.Outcome == "ok" {
				continue
			}
			set["O-"+r.Exp.Outcome] = true
			for _, rule := range r.Exp.Rules {
				if strings.HasPrefix(rule, "L-") || strings.HasPrefix(rule, "K-") {
					set[rule] = true
				}
			}
		}
	}
	var out []string
	for k := range set {
		out = append(out, k)
	}
	sort.Strings(out)
	return strings.Join(out, "+")
}

// lookupDivergence names how the experimental compiler got past a reference the specification
// (and the stable compiler) reject: "agg-stop-miss-resolved-outward:<kind>:<scope>" when the first
// component of a compound name is bound to an aggregate of that kind that lacks the remainder
// (lookup rule L-agg-stop-miss) and the experimental compiler nevertheless resolved the name;
// otherwise "exp-accepts:<lookup rule ids>".
func lookupDivergence(c *vcase) string {
	lc := lookupClass(c)
	for _, part := range strings.Split(lc, "+") {
		if strings.HasPrefix(part, "L-agg-stop-miss:") {
			f := strings.Split(part, ":") // L-agg-stop-miss:<scope tag>:<kind>
			if len(f) == 3 {
				return "agg-stop-miss-resolved-outward:" + f[2] + ":" + f[1]
			}
		}
	}
	return "exp-accepts:" + lc
}

func brokenRule(c *vcase) string {
	b := append([]string{}, c.Broken...)
	sort.Strings(b)
	return strings.Join(b, "+")
}

// featureVector of a case: syntactic features + broken rule ids + the lookup rule ids of all its
// references (resolved or not).
func featureVector(c *vcase) (string, bool) {
	set := map[string]bool{}
	for _, f := range c.Features {
		set[f] = true
	}
	for _, b := range c.Broken {
		set[b] = true
	}
	refs := 0
	for _, rs := range c.Refs {
		for _, r := range rs {
			refs++
			set["O-"+r.Exp.Outcome] = true
			for _, rule := range r.Exp.Rules {
				set[rule] = true
			}
		}
	}
	var out []string
	for k := range set {
		out = append(out, k)
	}
	sort.Strings(out)
	nontrivial := len(c.Broken) > 0 || refs > 0 || len(out) > 4
	return strings.Join(out, " "), nontrivial
}

type runner struct {
	mode    string
	corrupt int
	st      *stats
	out     func(mismatch)
	n       int
	nmu     sync.Mutex
}

func (r *runner) report(cls string, raw json.RawMessage, c *vcase, rd *ws.Rendered, detail string) {
	src := map[string]string{}
	if rd != nil {
		src = rd.Src
	}
	r.out(mismatch{Class: cls, Detail: detail,
		Case: map[string]any{"replay": raw, "broken": c.Broken, "valid": c.Valid, "source": src, "lookup": lookupClass(c)}})
}

func (r *runner) run(line []byte) {
	st := r.st
	var c vcase
	dec := json.NewDecoder(bytes.NewReader(line))
	if err := dec.Decode(&c); err != nil {
		st.harness("bad case: %v: %.200s", err, line)
		return
	}
	raw := json.RawMessage(append([]byte(nil), bytes.TrimSpace(line)...))
	if c.Feat != nil {
		r.feat27(c.Feat, raw)
		return
	}
	r.nmu.Lock()
	r.n++
	no := r.n
	r.nmu.Unlock()

	// harness self-checks: FQNs agree with the spec; the rendered text says what the case says
	if len(c.FQNs) != len(c.WS) {
		st.harness("fqns for %d files, workspace has %d", len(c.FQNs), len(c.WS))
		return
	}
	for i := range c.WS {
		if len(c.FQNs[i]) != len(c.WS[i].Decls) {
			st.harness("file %d: %d fqns for %d decls", i+1, len(c.FQNs[i]), len(c.WS[i].Decls))
			return
		}
		for d := range c.WS[i].Decls {
			if got := c.WS[i].FQN(d + 1); got != c.FQNs[i][d] {
				st.harness("file %d decl %d: harness FQN %q, spec FQN %q", i+1, d+1, got, c.FQNs[i][d])
				return
			}
		}
	}
	rd := ws.Render(c.WS)
	skipped, err := ws.CrossCheckX(c.WS, rd)
	if err != nil {
		st.harness("%v", err)
		return
	}
	if len(skipped) > 0 && c.Valid {
		st.harness("valid case does not parse: %v", skipped)
		return
	}
	targets := c.WS.UserPaths()

	corrupt := r.corrupt > 0 && no%r.corrupt == 0
	if corrupt {
		// binding self-test: flip the expectation
		if r.mode == "c02" && c.Valid {
			corruptDesc(c.Desc)
		} else {
			c.Valid = !c.Valid
			if c.Valid {
				c.Broken = nil
			} else {
				c.Broken = []string{"V-corrupted"}
			}
		}
	}

	fv, nontriv := featureVector(&c)
	st.mu.Lock()
	st.Cases++
	if len(skipped) > 0 {
		st.SynSkip++
	}
	if c.Valid {
		st.Valid++
	} else {
		st.Invalid++
		bump(st.Rules, brokenRule(&c))
	}
	key := fv
	if !nontriv {
		key = "trivial|" + fv
	}
	st.Features[key] = true
	if len(st.Samples) < 3 && no%97 == 1 {
		st.Samples = append(st.Samples, map[string]any{"valid": c.Valid, "broken": c.Broken, "source": rd.Src})
	}
	st.mu.Unlock()

	if !c.certain() && r.mode != "c27" {
		st.mu.Lock()
		bump(st.Skipped, "documented-divergence-from-protoc")
		st.mu.Unlock()
		return
	}
	switch r.mode {
	case "c01":
		r.c01(&c, raw, rd, targets)
	case "c02":
		r.c02(&c, raw, rd, targets)
	case "c27":
		r.c27(&c, raw, rd, targets)
	}
}

func diagTexts(ds []ws.Diag) []string {
	var out []string
	for _, d := range ds {
		out = append(out, d.String())
	}
	return out
}

// ---------------------------------------------------------------------------------------------
// C01

func (r *runner) c01(c *vcase, raw json.RawMessage, rd *ws.Rendered, targets []string) {
	st := r.st
	res := ws.CompileSources(rd.Src, targets)
	st.mu.Lock()
	st.Compiles++
	st.Evals++
	st.mu.Unlock()
	if res.Panic != "" {
		r.report("c01:panic:"+normMsg(res.Panic), raw, c, rd, res.Panic)
		return
	}
	rule := brokenRule(c)
	switch {
	case c.Valid && res.OK():
		st.mu.Lock()
		bump(st.Outcomes, "valid-accepted")
		st.mu.Unlock()
	case c.Valid && !res.OK():
		msg := "(no error reported)"
		if len(res.Errors) > 0 {
			msg = res.Errors[0].Msg
		} else if res.Err != nil {
			msg = res.Err.Error()
		}
		r.report("c01:rejects-valid:"+normMsg(msg), raw, c, rd, strings.Join(diagTexts(res.Errors), " | "))
	case !c.Valid && res.OK():
		cls := "c01:accepts-invalid:" + rule
		if strings.HasPrefix(rule, "V-ref-") {
			cls += ":" + lookupClass(c)
		}
		r.report(cls, raw, c, rd, "spec: breaks "+rule+"; the compiler accepted the files")
	default:
		// rejected as expected: is one of the errors about the broken rule?
		matched := false
		var msgs []string
		for _, e := range res.Errors {
			msgs = append(msgs, e.Msg)
		}
		if len(msgs) == 0 && res.Err != nil {
			msgs = append(msgs, res.Err.Error())
		}
		pats, known := reasonPatterns[rule]
		for _, m := range msgs {
			for _, p := range pats {
				if strings.Contains(m, p) {
					matched = true
				}
			}
		}
		st.mu.Lock()
		bump(st.Outcomes, "invalid-rejected")
		if st.Reasons[rule] == nil {
			st.Reasons[rule] = map[string]int{}
		}
		for _, m := range msgs {
			bump(st.Reasons[rule], normMsg(m))
		}
		if !known {
			bump(st.Outcomes, "reason-unchecked:"+rule)
		}
		st.mu.Unlock()
		if known && !matched {
			r.report("c01:reason:"+rule, raw, c, rd, "rejected, but no error is about "+rule+": "+strings.Join(msgs, " | "))
		}
	}
}

// refReasons: a reference that does not resolve to a usable element. Whether the compiler words it
// as "unknown" or as "invalid type: X is a field" when protoc skips a non-type and then finds nothing
// is C15's business (same verdict); here any error about the reference is accepted.
var refReasons = []string{"unknown type", "unknown extendee", "unknown request type", "unknown response type",
	"invalid type", "invalid request type", "invalid response type", "extendee is invalid", "is not defined",
	"unknown extension", "invalid extension"}

// reasonPatterns: for each rule, substrings one of which must occur in some error the stable
// compiler reports for a workspace that breaks exactly that rule (the compiler's own wording;
// protoc's wording differs, the subject must be the same).
var reasonPatterns = map[string][]string{
	"V-import-exists":        {"file does not exist"},
	"V-import-dup":           {"was already imported"},
	"V-import-cycle":         {"cycle found in imports"},
	"V-dup-symbol":           {"already defined at"},
	"V-pkg-symbol":           {"already defined as a package", "already defined at"},
	"V-p2-label-missing":     {"field has no label", "syntax error: unexpected \"group\""},
	"V-p3-required":          {"label 'required' is not allowed in proto3"},
	"V-ed-optional":          {"label 'optional' is not allowed in editions"},
	"V-ed-required":          {"label 'required' is not allowed in proto3 or editions"},
	"V-oneof-label":          {"syntax error: unexpected \"optional\"", "syntax error: unexpected \"required\"", "syntax error: unexpected \"repeated\""},
	"V-map-label":            {"syntax error: unexpected '<'", "syntax error: unexpected '>'"},
	"V-map-in-oneof":         {"syntax error: unexpected '<'", "syntax error: unexpected '>'"},
	"V-ext-required":         {"extension fields cannot be 'required'"},
	"V-p3-group":             {"groups are not allowed in proto3 or editions", "syntax error: unexpected \"group\""},
	"V-ed-group":             {"groups are not allowed in proto3 or editions", "syntax error: unexpected \"group\""},
	"V-num-positive":         {"must be greater than zero"},
	"V-num-max":              {"higher than max allowed tag number"},
	"V-num-impl-reserved":    {"is in disallowed reserved range"},
	"V-num-dup":              {"both have the same tag"},
	"V-num-reserved":         {"which is in reserved range"},
	"V-name-reserved":        {"is using a reserved name"},
	"V-num-in-extrange":      {"which is in extension range"},
	"V-range-overlap":        {"ranges overlap", "overlaps reserved range"},
	"V-p3-extrange":          {"extension ranges are not allowed in proto3"},
	"V-rname-dup":            {"is already reserved"},
	"V-enum-empty":           {"enums must define at least one value"},
	"V-enum-first-zero":      {"requires that first value of enum have numeric value zero", "first value of open enum"},
	"V-enum-dup-num":         {"both have the same numeric value"},
	"V-enum-num-reserved":    {"which is in reserved range"},
	"V-enum-name-reserved":   {"is using a reserved name"},
	"V-enum-range-overlap":   {"reserved ranges overlap"},
	"V-oneof-empty":          {"oneof must contain at least one field"},
	"V-map-key":              {"syntax error: unexpected \"bytes\"", "syntax error: unexpected \"float\"", "syntax error: unexpected \"double\"", "syntax error: unexpected '>'"},
	"V-p3-default":           {"default values are not allowed in proto3"},
	"V-default-repeated":     {"default value cannot be set because field is repeated"},
	"V-default-type":         {"option default: expecting"},
	"V-default-message":      {"default value cannot be set because field is a message"},
	"V-default-enum-value":   {"has no value named"},
	"V-default-enum-ident":   {"option default: expecting enum name"},
	"V-json-conflict":        {"conflicts with default JSON name"},
	"V-ref-resolve":          refReasons,
	"V-ref-kind":             refReasons,
	"V-ext-range":            {"is not in valid range for extended type"},
	"V-ext-dup":              {"extension with tag"},
	"V-p3-ext":               {"extend blocks in proto3 can only be used to define custom options"},
	"V-closed-enum-implicit": {"cannot use closed enum"},
	"V-opt-extendee":         {"should extend", "but instead extends"},
	"V-opt-dup":              {"non-repeated option field", "already set"},
}

// ---------------------------------------------------------------------------------------------
// C02

func (r *runner) c02(c *vcase, raw json.RawMessage, rd *ws.Rendered, targets []string) {
	st := r.st
	if !c.Valid {
		st.mu.Lock()
		bump(st.Skipped, "invalid-case")
		st.mu.Unlock()
		return
	}
	res := ws.CompileSources(rd.Src, targets)
	st.mu.Lock()
	st.Compiles++
	st.mu.Unlock()
	if res.Panic != "" {
		r.report("c02:panic:"+normMsg(res.Panic), raw, c, rd, res.Panic)
		return
	}
	if !res.OK() {
		// accept/reject is C01's business; nothing to compare
		st.mu.Lock()
		bump(st.Skipped, "valid-case-rejected")
		st.mu.Unlock()
		return
	}
	for i := range c.WS {
		if c.WS[i].Builtin {
			continue
		}
		f := res.File(c.WS[i].Path)
		if f == nil {
			st.harness("compiled file %s missing from the result", c.WS[i].Path)
			return
		}
		got := projectFile(protoFromFile(f))
		n := 0
		path, detail := diffAbstract(c.Desc[i], got, "", &n)
		st.mu.Lock()
		st.Evals += n
		bump(st.Outcomes, "files-compared")
		st.mu.Unlock()
		if path != "" {
			r.report("c02:"+path, raw, c, rd, detail)
			return
		}
	}
}

// corruptDesc changes one expected member (binding self-test).
func corruptDesc(desc []any) {
	for _, d := range desc {
		m, ok := d.(map[string]any)
		if !ok {
			continue
		}
		if msgs, ok := m["message_type"].([]any); ok && len(msgs) > 0 {
			mm := msgs[0].(map[string]any)
			if fs, ok := mm["field"].([]any); ok && len(fs) > 0 {
				fs[0].(map[string]any)["json_name"] = "corrupted"
				return
			}
			mm["name"] = "corrupted"
			return
		}
		m["package"] = "corrupted"
		return
	}
}

// ---------------------------------------------------------------------------------------------
// C27

func (r *runner) c27(c *vcase, raw json.RawMessage, rd *ws.Rendered, targets []string) {
	st := r.st
	res := ws.CompileSources(rd.Src, targets)
	ex := compileExperimental(rd.Src, targets)
	st.mu.Lock()
	st.Compiles += 2
	st.Evals++
	st.mu.Unlock()
	if res.Panic != "" {
		r.report("c27:stable-panic:"+normMsg(res.Panic), raw, c, rd, res.Panic)
		return
	}
	if ex.Panic != "" {
		r.report("c27:exp-panic:"+normMsg(ex.Panic), raw, c, rd, ex.Panic)
		return
	}
	rule := brokenRule(c)
	sOK, eOK := res.OK(), ex.OK
	firstExp := "(none)"
	if len(ex.Errors) > 0 {
		firstExp = ex.Errors[0]
	}
	firstSt := "(none)"
	if len(res.Errors) > 0 {
		firstSt = res.Errors[0].Msg
	}
	if !eOK {
		st.mu.Lock()
		k := rule
		if c.Valid {
			k = "valid"
		}
		if st.ExpReason[k] == nil {
			st.ExpReason[k] = map[string]int{}
		}
		bump(st.ExpReason[k], normMsg(firstExp))
		st.mu.Unlock()
	}
	detail := fmt.Sprintf("spec: valid=%v broken=%v | stable ok=%v (%s) | experimental ok=%v (%s)", c.Valid, c.Broken, sOK, firstSt, eOK, firstExp)
	switch {
	case sOK != eOK:
		var cls string
		switch {
		case c.Valid && sOK:
			cls = "c27:exp-rejects-valid:" + normMsg(firstExp)
		case c.Valid && !sOK:
			cls = "c27:stable-rejects-valid:" + normMsg(firstSt)
		case !c.Valid && !sOK:
			cls = "c27:exp-accepts-invalid:" + rule
			if strings.HasPrefix(rule, "V-ref-") {
				cls = "c27:lookup:" + lookupDivergence(c)
			}
		default:
			cls = "c27:stable-accepts-invalid:" + rule
		}
		r.report(cls, raw, c, rd, detail)
	case sOK && eOK:
		st.mu.Lock()
		bump(st.Outcomes, "both-accept")
		st.mu.Unlock()
		for i := range c.WS {
			if c.WS[i].Builtin {
				continue
			}
			p := c.WS[i].Path
			f := res.File(p)
			if f == nil || ex.Files[p] == nil {
				st.harness("compiled file %s missing from a result", p)
				return
			}
			sfd := protoFromFile(f)
			efd := ex.Files[p]
			diffs := protoDiffAll(stripSourceInfo(sfd), stripSourceInfo(efd))
			if len(diffs) == 0 {
				continue
			}
			// arbitration by the specification (valid cases): which side deviates from Descriptor(file)?
			who := "spec-undecided"
			if c.Valid && c.certain() && i < len(c.Desc) {
				n := 0
				ps, _ := diffAbstract(c.Desc[i], projectFile(sfd), "", &n)
				pe, _ := diffAbstract(c.Desc[i], projectFile(efd), "", &n)
				switch {
				case ps == "" && pe != "":
					who = "exp-deviates-from-spec"
				case ps != "" && pe == "":
					who = "stable-deviates-from-spec"
				case ps != "" && pe != "":
					who = "both-deviate-from-spec"
				default:
					who = "outside-spec-projection"
				}
			}
			// one report per distinct differing member (path) of the file
			seen := map[string]bool{}
			for _, df := range diffs {
				if !seen[df.path] {
					seen[df.path] = true
					r.report("c27:desc:"+df.path+":"+who, raw, c, rd, detail+" | "+df.detail)
				}
			}
			return
		}
	default:
		st.mu.Lock()
		bump(st.Outcomes, "both-reject")
		st.mu.Unlock()
	}
}

func stripSourceInfo(fd *descriptorpb.FileDescriptorProto) *descriptorpb.FileDescriptorProto {
	c := *fd //nolint
	c.SourceCodeInfo = nil
	return &c
}

// ---------------------------------------------------------------------------------------------

func runCases(mode string, jobs, corrupt int) int {
	st := &stats{Skipped: map[string]int{}, Outcomes: map[string]int{}, Rules: map[string]int{},
		Reasons: map[string]map[string]int{}, ExpReason: map[string]map[string]int{}, Features: map[string]bool{}}
	outw := bufio.NewWriterSize(os.Stdout, 1<<20)
	var outMu sync.Mutex
	enc := json.NewEncoder(outw)
	perClass := map[string]int{}
	out := func(m mismatch) {
		outMu.Lock()
		defer outMu.Unlock()
		perClass[m.Class]++
		if perClass[m.Class] <= 20 {
			_ = enc.Encode(m)
		}
	}
	r := &runner{mode: mode, corrupt: corrupt, st: st, out: out}
	lines := make(chan []byte, 256)
	var wg sync.WaitGroup
	for i := 0; i < jobs; i++ {
		wg.Add(1)
		go func() {
			defer wg.Done()
			for l := range lines {
				r.run(l)
			}
		}()
	}
	in := bufio.NewReaderSize(os.Stdin, 1<<20)
	for {
		l, err := in.ReadBytes('\n')
		if len(bytes.TrimSpace(l)) > 0 {
			lines <- l
		}
		if err != nil {
			break
		}
	}
	close(lines)
	wg.Wait()
	outw.Flush()
	for f := range st.Features {
		st.Distinct++
		if !strings.HasPrefix(f, "trivial|") {
			st.Nontriv++
		}
	}
	type final struct {
		*stats
		PerClass map[string]int `json:"mismatch_classes"`
	}
	b, _ := json.Marshal(final{st, perClass})
	fmt.Fprintf(os.Stderr, "STATS %s\n", b)
	if len(st.Harness) > 0 {
		return 3
	}
	return 0
}
