// Driver for C14: replays the literal texts enumerated by TLC (spec/MCLiterals.tla) into the real
// compiler.  Every case carries what spec/Literals.tla says protoc reads (accept / reject, decoded
// bytes, integer value, float value class).  The literal is placed as a field default and as a
// custom option value in an in-memory proto2 file, compiled with protocompile.Compiler, and the
// values are read back from the resulting descriptors:
//
//	bytes default   linker descriptor Default().Bytes()
//	string default  FieldDescriptorProto.default_value (raw)
//	bytes / string  custom message option, read from the wire encoding of MessageOptions
//	int64 / uint64  default_value text and the option's varint
//	double          Default().Float() and the option's fixed64
//
// One JSON line per disagreement goes to stdout, a STATS line to stderr.
package main

import (
	"bufio"
	"context"
	"encoding/json"
	"errors"
	"flag"
	"fmt"
	"math"
	"math/big"
	"os"
	"runtime"
	"sort"
	"strconv"
	"strings"
	"sync"
	"sync/atomic"
	"unicode/utf8"

	"github.com/bufbuild/protocompile"
	"github.com/bufbuild/protocompile/linker"
	"google.golang.org/protobuf/encoding/protowire"
	"google.golang.org/protobuf/proto"
	"google.golang.org/protobuf/reflect/protoreflect"
)

const rawBase = 1000000

type fval struct {
	K      string `json:"k"`
	Digits []int  `json:"digits"`
	Num    int64  `json:"num"`
	Sh     int    `json:"sh"`
}

type result struct {
	St     string   `json:"st"`
	Bytes  []int    `json:"bytes"`
	U8     bool     `json:"u8"`
	Rules  []string `json:"rules"`
	Kind   string   `json:"kind"`
	Neg    bool     `json:"neg"`
	Digits []int    `json:"digits"`
	I64    string   `json:"i64"`
	U64    string   `json:"u64"`
	Dbl    string   `json:"dbl"`
	Fv     *fval    `json:"fv"`
}

type tcase struct {
	M    string `json:"m"`
	Q    int    `json:"q"`
	Text []int  `json:"text"`
	R    result `json:"r"`
}

type mismatch struct {
	Class  string `json:"class"`
	Case   tcase  `json:"case"`
	Source string `json:"source"`
	Detail string `json:"detail"`
}

var lean bool

var (
	outMu    sync.Mutex
	enc      *json.Encoder
	compiles atomic.Int64
	accepted atomic.Int64
	rejected atomic.Int64
	compared atomic.Int64
)

func report(class string, c *tcase, src, detail string) {
	outMu.Lock()
	defer outMu.Unlock()
	_ = enc.Encode(mismatch{Class: class, Case: *c, Source: src, Detail: detail})
}

// concretise a sequence of character codes into source bytes
func concretise(codes []int) []byte {
	var b []byte
	for _, c := range codes {
		if c >= rawBase {
			b = append(b, byte(c-rawBase))
		} else {
			b = utf8.AppendRune(b, rune(c))
		}
	}
	return b
}

type compiled struct {
	res linker.Result
	err error
	pan bool
}

func compile(src string) (out compiled) {
	compiles.Add(1)
	defer func() {
		if r := recover(); r != nil {
			out = compiled{err: fmt.Errorf("PANIC: %v", r), pan: true}
		}
	}()
	c := protocompile.Compiler{
		Resolver: protocompile.WithStandardImports(&protocompile.SourceResolver{
			Accessor: protocompile.SourceAccessorFromMap(map[string]string{"t.proto": src}),
		}),
		MaxParallelism: 1,
	}
	files, err := c.Compile(context.Background(), "t.proto")
	if err != nil {
		rejected.Add(1)
		var pe protocompile.PanicError
		return compiled{err: err, pan: errors.As(err, &pe)}
	}
	accepted.Add(1)
	res, ok := files[0].(linker.Result)
	if !ok {
		fmt.Fprintln(os.Stderr, "harness: compile result is not a linker.Result")
		os.Exit(2)
	}
	return compiled{res: res}
}

const (
	optBytes  = 50001
	optString = 50002
	optI64    = 50003
	optU64    = 50004
	optDbl    = 50005
)

const extDecl = `import "google/protobuf/descriptor.proto";
extend google.protobuf.MessageOptions {
  optional bytes bopt = 50001;
  optional string sopt = 50002;
  optional int64 iopt = 50003;
  optional uint64 uopt = 50004;
  optional double dopt = 50005;
}
`

// a placement is one line inside message M
type placement struct {
	kind string // "default" | "option"
	typ  string // bytes string int64 uint64 double
}

func (p placement) name() string { return p.kind + ":" + p.typ }

func fieldNo(typ string) int {
	switch typ {
	case "bytes":
		return 1
	case "string":
		return 2
	case "int64":
		return 3
	case "uint64":
		return 4
	default:
		return 5
	}
}

func optName(typ string) string {
	switch typ {
	case "bytes":
		return "bopt"
	case "string":
		return "sopt"
	case "int64":
		return "iopt"
	case "uint64":
		return "uopt"
	default:
		return "dopt"
	}
}

func optNo(typ string) protowire.Number {
	switch typ {
	case "bytes":
		return optBytes
	case "string":
		return optString
	case "int64":
		return optI64
	case "uint64":
		return optU64
	default:
		return optDbl
	}
}

func render(lit []byte, ps []placement) string {
	var sb strings.Builder
	sb.WriteString("syntax = \"proto2\";\n")
	needExt := false
	for _, p := range ps {
		if p.kind == "option" {
			needExt = true
		}
	}
	if needExt {
		sb.WriteString(extDecl)
	}
	sb.WriteString("message M {\n")
	for _, p := range ps {
		if p.kind == "option" {
			fmt.Fprintf(&sb, "  option (%s) = ", optName(p.typ))
			sb.Write(lit)
			sb.WriteString(";\n")
		} else {
			fmt.Fprintf(&sb, "  optional %s f%d = %d [default = ", p.typ, fieldNo(p.typ), fieldNo(p.typ))
			sb.Write(lit)
			sb.WriteString("];\n")
		}
	}
	sb.WriteString("}\n")
	return sb.String()
}

// raw wire value of a message option
func optionWire(res linker.Result, num protowire.Number) (varint uint64, fixed uint64, bytes []byte, found bool) {
	md := res.FileDescriptorProto().GetMessageType()[0]
	raw, err := proto.MarshalOptions{Deterministic: true}.Marshal(md.GetOptions())
	if err != nil {
		return 0, 0, nil, false
	}
	for len(raw) > 0 {
		n, t, l := protowire.ConsumeTag(raw)
		if l < 0 {
			return 0, 0, nil, false
		}
		raw = raw[l:]
		switch t {
		case protowire.VarintType:
			v, l2 := protowire.ConsumeVarint(raw)
			if n == num {
				return v, 0, nil, true
			}
			raw = raw[l2:]
		case protowire.Fixed64Type:
			v, l2 := protowire.ConsumeFixed64(raw)
			if n == num {
				return 0, v, nil, true
			}
			raw = raw[l2:]
		case protowire.BytesType:
			v, l2 := protowire.ConsumeBytes(raw)
			if n == num {
				return 0, 0, v, true
			}
			raw = raw[l2:]
		default:
			l2 := protowire.ConsumeFieldValue(n, t, raw)
			if l2 < 0 {
				return 0, 0, nil, false
			}
			raw = raw[l2:]
		}
	}
	return 0, 0, nil, false
}

func field(res linker.Result, typ string) (protoreflect.FieldDescriptor, string, bool) {
	md := res.Messages().Get(0)
	fd := md.Fields().ByNumber(protoreflect.FieldNumber(fieldNo(typ)))
	if fd == nil {
		return nil, "", false
	}
	for _, f := range res.FileDescriptorProto().GetMessageType()[0].GetField() {
		if int(f.GetNumber()) == fieldNo(typ) {
			if f.DefaultValue == nil {
				return fd, "", false
			}
			return fd, f.GetDefaultValue(), true
		}
	}
	return fd, "", false
}

func toBytes(v []int) []byte {
	b := make([]byte, len(v))
	for i, x := range v {
		b[i] = byte(x)
	}
	return b
}

func digitsToBig(d []int, neg bool) *big.Int {
	var sb strings.Builder
	for _, x := range d {
		sb.WriteByte(byte('0' + x))
	}
	if sb.Len() == 0 {
		sb.WriteByte('0')
	}
	v, ok := new(big.Int).SetString(sb.String(), 10)
	if !ok {
		fmt.Fprintln(os.Stderr, "harness: bad digits", d)
		os.Exit(2)
	}
	if neg {
		v.Neg(v)
	}
	return v
}

// value class of the most specific rule a string case touches (classification of value mismatches)
var rulePriority = []string{"utf8char", "U8", "u4", "hex2", "hex1", "oct3", "oct2", "oct1", "simple", "concat", "raw"}

func valueRule(rules []string) string {
	set := map[string]bool{}
	for _, r := range rules {
		set[r] = true
	}
	for _, r := range rulePriority {
		if set[r] {
			return r
		}
	}
	return "empty"
}

func rejectRule(rules []string) string {
	var rr []string
	for _, r := range rules {
		if strings.HasPrefix(r, "rej:") {
			rr = append(rr, r)
		}
	}
	sort.Strings(rr)
	if len(rr) == 0 {
		return "rej:?"
	}
	// the most specific id first: a Go-ism (digit separator, 0b / 0o prefix, hex float)
	for _, r := range rr {
		if strings.HasPrefix(r, "rej:go-") {
			return r
		}
	}
	return rr[0]
}

func errClass(c compiled) string {
	if c.pan {
		return "panic:compile"
	}
	return ""
}

func checkString(c *tcase) {
	body := concretise(c.Text)
	lit := append([]byte{byte(c.Q)}, body...)
	lit = append(lit, byte(c.Q))
	switch c.R.St {
	case "ok":
		want := toBytes(c.R.Bytes)
		ps := []placement{{"default", "bytes"}, {"option", "bytes"}}
		if c.R.U8 {
			ps = append(ps, placement{"default", "string"}, placement{"option", "string"})
		}
		src := render(lit, ps)
		out := compile(src)
		if out.err != nil {
			cls := errClass(out)
			if cls == "" {
				cls = "string:rejects:" + valueRule(c.R.Rules)
			}
			report(cls, c, src, "spec accepts with bytes "+fmt.Sprintf("%x", want)+"; compiler: "+out.err.Error())
			return
		}
		for _, p := range ps {
			compared.Add(1)
			var got []byte
			var ok bool
			if p.kind == "default" {
				fd, dv, has := field(out.res, p.typ)
				ok = has && fd != nil && fd.HasDefault()
				if ok {
					if p.typ == "bytes" {
						got = fd.Default().Bytes()
					} else {
						got = []byte(dv)
						if s := fd.Default().String(); s != dv {
							report("string:value:descriptor-vs-proto", c, src, fmt.Sprintf("Default()=%q default_value=%q", s, dv))
						}
					}
				}
			} else {
				_, _, got, ok = optionWire(out.res, optNo(p.typ))
			}
			if !ok {
				report("string:value-missing:"+p.name(), c, src, "no value found in the compiled descriptor")
				continue
			}
			if string(got) != string(want) {
				report("string:value:"+valueRule(c.R.Rules), c, src,
					fmt.Sprintf("%s: got %x want %x", p.name(), got, want))
			}
		}
	case "reject":
		for _, p := range []placement{{"default", "bytes"}, {"option", "bytes"}} {
			src := render(lit, []placement{p})
			out := compile(src)
			if out.err == nil {
				var got []byte
				if p.kind == "default" {
					if fd, _, has := field(out.res, "bytes"); has {
						got = fd.Default().Bytes()
					}
				} else {
					_, _, got, _ = optionWire(out.res, optBytes)
				}
				report("string:accepts:"+rejectRule(c.R.Rules), c, src,
					fmt.Sprintf("%s: spec rejects, compiler accepts and decodes %x", p.name(), got))
			} else if out.pan {
				report("panic:compile", c, src, out.err.Error())
			}
			compared.Add(1)
		}
	default:
		fmt.Fprintln(os.Stderr, "harness: case with status", c.R.St, "must never be exported")
		os.Exit(2)
	}
}

func checkFloat(c *tcase, f float64, where, src string) {
	fv := c.R.Fv
	if fv == nil {
		return
	}
	sign := 1.0
	if c.R.Neg {
		sign = -1.0
	}
	rule := "float"
	if c.R.Kind == "int" {
		rule = "int-as-float"
	}
	bad := func(want string) {
		report("number:value:"+rule+":"+fv.K, c, src, fmt.Sprintf("%s: got %v want %s", where, f, want))
	}
	switch fv.K {
	case "zero":
		if f != 0 {
			bad("0")
		}
	case "inf":
		if !math.IsInf(f, int(sign)) {
			bad(fmt.Sprintf("%cinf", map[bool]rune{true: '-', false: '+'}[c.R.Neg]))
		}
	case "int":
		v := digitsToBig(fv.Digits, false)
		if !v.IsUint64() || v.Uint64() >= 1<<53 {
			fmt.Fprintln(os.Stderr, "harness: exact integer class out of range", fv.Digits)
			os.Exit(2)
		}
		want := sign * float64(v.Uint64())
		if f != want {
			bad(strconv.FormatFloat(want, 'g', -1, 64))
		}
	case "dyadic":
		want := sign * math.Ldexp(float64(fv.Num), -fv.Sh)
		if f != want {
			bad(strconv.FormatFloat(want, 'g', -1, 64))
		}
	case "any":
		if math.IsNaN(f) {
			bad("a number")
		}
	default:
		fmt.Fprintln(os.Stderr, "harness: unknown float class", fv.K)
		os.Exit(2)
	}
}

func checkNumber(c *tcase) {
	lit := concretise(c.Text)
	exp := map[string]string{"int64": c.R.I64, "uint64": c.R.U64, "double": c.R.Dbl}
	if c.R.St != "ok" && c.R.St != "reject" {
		fmt.Fprintln(os.Stderr, "harness: case with status", c.R.St, "must never be exported")
		os.Exit(2)
	}
	var acc []placement
	for _, typ := range []string{"int64", "uint64", "double"} {
		switch exp[typ] {
		case "acc":
			acc = append(acc, placement{"default", typ}, placement{"option", typ})
		case "rej":
			ps := []placement{{"default", typ}, {"option", typ}}
			if lean && c.R.St == "reject" {
				// lexical reject: the tokenizer does not know the field type
				switch typ {
				case "int64":
					ps = ps[:1]
				case "double":
					ps = ps[1:]
				default:
					ps = nil
				}
			}
			for _, p := range ps {
				src := render(lit, []placement{p})
				out := compile(src)
				compared.Add(1)
				if out.err == nil {
					rule := "type:" + c.R.Kind
					if c.R.St == "reject" {
						rule = rejectRule(c.R.Rules)
					}
					dv := ""
					if p.kind == "default" {
						_, dv, _ = field(out.res, typ)
					} else {
						v, f, _, _ := optionWire(out.res, optNo(typ))
						dv = fmt.Sprintf("varint=%d fixed64=%v", v, math.Float64frombits(f))
					}
					report("number:accepts:"+rule+":"+typ, c, src,
						fmt.Sprintf("%s: spec rejects, compiler accepts with value %s", p.name(), dv))
				} else if out.pan {
					report("panic:compile", c, src, out.err.Error())
				}
			}
		case "skip":
		default:
			fmt.Fprintln(os.Stderr, "harness: bad expectation", exp[typ])
			os.Exit(2)
		}
	}
	if len(acc) == 0 {
		return
	}
	src := render(lit, acc)
	out := compile(src)
	if out.err != nil {
		// find out which placement is refused
		for _, p := range acc {
			s1 := render(lit, []placement{p})
			o1 := compile(s1)
			if o1.err != nil {
				cls := errClass(o1)
				if cls == "" {
					cls = "number:rejects:" + valueRule2(c.R.Rules) + ":" + p.typ
				}
				report(cls, c, s1, p.name()+": spec accepts; compiler: "+o1.err.Error())
			}
		}
		return
	}
	for _, p := range acc {
		compared.Add(1)
		switch p.typ {
		case "int64", "uint64":
			want := digitsToBig(c.R.Digits, c.R.Neg)
			got := new(big.Int)
			if p.kind == "default" {
				fd, dv, has := field(out.res, p.typ)
				if !has || !fd.HasDefault() {
					report("number:value-missing:"+p.name(), c, src, "no default")
					continue
				}
				if _, ok := got.SetString(dv, 10); !ok {
					report("number:value:"+valueRule2(c.R.Rules)+":"+p.typ, c, src, "default_value not a decimal integer: "+dv)
					continue
				}
				var viaDesc *big.Int
				if p.typ == "int64" {
					viaDesc = big.NewInt(fd.Default().Int())
				} else {
					viaDesc = new(big.Int).SetUint64(fd.Default().Uint())
				}
				if viaDesc.Cmp(want) != 0 {
					report("number:value:"+valueRule2(c.R.Rules)+":"+p.typ, c, src,
						fmt.Sprintf("%s Default(): got %s want %s", p.name(), viaDesc, want))
				}
			} else {
				v, _, _, ok := optionWire(out.res, optNo(p.typ))
				if !ok {
					report("number:value-missing:"+p.name(), c, src, "no option value")
					continue
				}
				if p.typ == "int64" {
					got.SetInt64(int64(v))
				} else {
					got.SetUint64(v)
				}
			}
			if got.Cmp(want) != 0 {
				report("number:value:"+valueRule2(c.R.Rules)+":"+p.typ, c, src,
					fmt.Sprintf("%s: got %s want %s", p.name(), got, want))
			}
		default:
			var f float64
			if p.kind == "default" {
				fd, _, has := field(out.res, p.typ)
				if !has || !fd.HasDefault() {
					report("number:value-missing:"+p.name(), c, src, "no default")
					continue
				}
				f = fd.Default().Float()
			} else {
				_, bits, _, ok := optionWire(out.res, optNo(p.typ))
				if !ok {
					report("number:value-missing:"+p.name(), c, src, "no option value")
					continue
				}
				f = math.Float64frombits(bits)
			}
			checkFloat(c, f, p.name(), src)
		}
	}
}

func valueRule2(rules []string) string {
	for _, want := range []string{"hex", "octal", "decimal", "float-exp", "float"} {
		for _, r := range rules {
			if r == want {
				return want
			}
		}
	}
	return "number"
}

func main() {
	workers := flag.Int("j", runtime.NumCPU(), "parallel compiles")
	flag.BoolVar(&lean, "lean", false, "quick tier: a literal the tokenizer must reject is placed once as a default and once as an option value instead of in every type")
	flag.Parse()
	in := bufio.NewScanner(os.Stdin)
	in.Buffer(make([]byte, 1<<20), 1<<26)
	w := bufio.NewWriter(os.Stdout)
	defer w.Flush()
	enc = json.NewEncoder(w)
	ch := make(chan []byte, 1024)
	var wg sync.WaitGroup
	var ncases atomic.Int64
	for i := 0; i < *workers; i++ {
		wg.Add(1)
		go func() {
			defer wg.Done()
			for line := range ch {
				var c tcase
				if err := json.Unmarshal(line, &c); err != nil {
					fmt.Fprintln(os.Stderr, "bad case:", err)
					os.Exit(2)
				}
				ncases.Add(1)
				switch c.M {
				case "str":
					checkString(&c)
				case "num":
					checkNumber(&c)
				default:
					fmt.Fprintln(os.Stderr, "bad mode", c.M)
					os.Exit(2)
				}
			}
		}()
	}
	for in.Scan() {
		line := append([]byte(nil), in.Bytes()...)
		if len(line) == 0 {
			continue
		}
		ch <- line
	}
	close(ch)
	wg.Wait()
	w.Flush()
	fmt.Fprintf(os.Stderr, "STATS {\"cases\":%d,\"compiles\":%d,\"accepted\":%d,\"rejected\":%d,\"placements_checked\":%d}\n",
		ncases.Load(), compiles.Load(), accepted.Load(), rejected.Load(), compared.Load())
}
