// Driver for C41 (toposort): replays TLC-exported (graph, roots) cases (MCToposort) on the real
// toposort.Sort / Sorter.Sort and compares with the contract computed by Toposort.tla.
//
//	stdin   one JSON case per line (see MCToposort!Case)
//	stdout  one JSON line per disagreement, then one {"stats":...} line
//	-seed N      child-order rotation of the "rot" variant
//	-trace FILE  record the real output of every case (ascending child order, fresh Sort) as
//	             ndjson for validation by ToposortTrace.tla (direction B)
//	-cap N       at most N lines per disagreement class (all are counted in stats.class_counts)
//	-corrupt N   self-test of the binding: the first case with index >= N that agrees with the model is checked
//	             again against a damaged expectation (must be reported; stats.corrupted_case says which)
package main

import (
	"bufio"
	"encoding/json"
	"flag"
	"fmt"
	"iter"
	"os"
	"slices"
	"strings"
	"sync/atomic"
	"time"

	"github.com/bufbuild/protocompile/internal/toposort"
)

type tcase struct {
	N      int      `json:"n"`
	Kids   [][]int  `json:"kids"` // kids[p-1] = children of node p
	Roots  []int    `json:"roots"`
	Reach  []int    `json:"reach"`
	Cyclic bool     `json:"cyclic"`
	Before [][2]int `json:"before"` // [child, parent]
}
type mismatch struct {
	Class   string         `json:"class"`
	Case    map[string]any `json:"case"`
	Variant string         `json:"variant"`
	Detail  string         `json:"detail"`
}
type traceRec struct {
	N     int      `json:"n"`
	Edges [][2]int `json:"edges"` // [parent, child]
	Roots []int    `json:"roots"`
	Out   []int    `json:"out"`
	Panic string   `json:"panic"`
}

type node struct{ id int }

var (
	enc        *json.Encoder
	out        *bufio.Writer
	nChecks    int64
	nMismatch  int64
	progress   atomic.Int64
	current    atomic.Pointer[tcase]
	classCount = map[string]int64{}
	capPer     = 200
	corrupted  = int64(-1)
)

func main() {
	seed := flag.Int("seed", 1, "")
	tracePath := flag.String("trace", "", "")
	corrupt := flag.Int64("corrupt", -1, "")
	flag.IntVar(&capPer, "cap", 200, "")
	flag.Parse()
	in := bufio.NewScanner(os.Stdin)
	in.Buffer(make([]byte, 1<<20), 1<<26)
	out = bufio.NewWriterSize(os.Stdout, 1<<20)
	enc = json.NewEncoder(out)
	var traceEnc *json.Encoder
	if *tracePath != "" {
		f, err := os.Create(*tracePath)
		if err != nil {
			fmt.Fprintln(os.Stderr, err)
			os.Exit(2)
		}
		w := bufio.NewWriterSize(f, 1<<20)
		defer func() { w.Flush(); f.Close() }()
		traceEnc = json.NewEncoder(w)
	}

	// "it still terminates": a case that makes no progress for 20 s is reported as a hang.
	go func() {
		last := int64(-1)
		for {
			time.Sleep(20 * time.Second)
			p := progress.Load()
			if p == last {
				if c := current.Load(); c != nil {
					report("toposort:hang", c, "?", "no progress for 20 s")
				}
				_ = enc.Encode(map[string]any{"stats": map[string]any{"aborted": true}})
				out.Flush()
				os.Exit(0)
			}
			last = p
		}
	}()

	sharedInt := &toposort.Sorter[int, int]{Key: func(n int) int { return n }}
	sharedPtr := &toposort.Sorter[*node, *node]{Key: func(n *node) *node { return n }}
	var n, nCyclic, nTrace int64
	shapes := map[string]struct{}{}
	for in.Scan() {
		c := new(tcase)
		if err := json.Unmarshal(in.Bytes(), c); err != nil {
			fmt.Fprintln(os.Stderr, "bad case:", err)
			os.Exit(2)
		}
		if len(c.Kids) != c.N {
			fmt.Fprintln(os.Stderr, "harness: case shape")
			os.Exit(2)
		}
		before := nMismatch
		n++
		current.Store(c)
		progress.Add(1)
		if c.Cyclic {
			nCyclic++
		}
		shapes[fmt.Sprint(len(c.Reach), c.Cyclic, len(c.Before), len(c.Roots))] = struct{}{}

		for _, variant := range []string{"asc", "desc", "rot", "dup"} {
			kids := orderKids(c.Kids, variant, *seed+int(n))
			dag := func(p int) iter.Seq[int] { return slices.Values(kids[p-1]) }
			fresh, fpanic := collect(toposort.Sort(c.Roots, func(n int) int { return n }, dag), c.N)
			check(c, variant, fresh, fpanic)
			// the reusable Sorter must behave like a fresh Sort, also after a panic or an
			// abandoned iteration in an earlier case
			reused, rpanic := collect(sharedInt.Sort(c.Roots, dag), c.N)
			nChecks++
			if !slices.Equal(fresh, reused) || fpanic != rpanic {
				report("toposort:sorter-reuse", c, variant, fmt.Sprintf("fresh Sort: %v %q, reused Sorter: %v %q", fresh, fpanic, reused, rpanic))
			}
			if variant == "asc" {
				if traceEnc != nil {
					rec := traceRec{N: c.N, Roots: c.Roots, Out: fresh, Panic: fpanic, Edges: [][2]int{}}
					if rec.Out == nil {
						rec.Out = []int{}
					}
					if rec.Roots == nil {
						rec.Roots = []int{}
					}
					for p, ks := range c.Kids {
						for _, k := range ks {
							rec.Edges = append(rec.Edges, [2]int{p + 1, k})
						}
					}
					nTrace++
					_ = traceEnc.Encode(rec)
				}
				// abandon an iteration after the first node, then reuse
				func() {
					defer func() { _ = recover() }()
					for range sharedInt.Sort(c.Roots, dag) {
						break
					}
				}()
				again, apanic := collect(sharedInt.Sort(c.Roots, dag), c.N)
				nChecks++
				if !slices.Equal(fresh, again) || fpanic != apanic {
					report("toposort:sorter-reuse-after-break", c, variant, fmt.Sprintf("fresh Sort: %v %q, after break: %v %q", fresh, fpanic, again, apanic))
				}
			}
		}
		// pointer nodes keyed by identity, as the only production caller does
		nodes := make([]*node, c.N)
		for i := range nodes {
			nodes[i] = &node{i + 1}
		}
		roots := make([]*node, len(c.Roots))
		for i, r := range c.Roots {
			roots[i] = nodes[r-1]
		}
		pdag := func(p *node) iter.Seq[*node] {
			return func(yield func(*node) bool) {
				for _, k := range c.Kids[p.id-1] {
					if !yield(nodes[k-1]) {
						return
					}
				}
			}
		}
		pout, ppanic := collectPtr(sharedPtr.Sort(roots, pdag), c.N)
		check(c, "ptr", pout, ppanic)
		if *corrupt >= 0 && corrupted < 0 && n-1 >= *corrupt && nMismatch == before {
			// binding self-test: first agreeing case from index -corrupt on, checked again against a damaged expectation
			corrupted = n - 1
			d := *c
			if len(d.Reach) > 0 {
				d.Reach = d.Reach[1:]
			} else {
				d.Reach = []int{1}
			}
			check(&d, "ptr", pout, ppanic)
		}
	}
	out.Flush()
	_ = enc.Encode(map[string]any{"stats": map[string]any{"cases": n, "cyclic": nCyclic, "checks": nChecks,
		"mismatches": nMismatch, "class_counts": classCount, "shapes": len(shapes), "trace_records": nTrace, "corrupted_case": corrupted}})
	out.Flush()
}

func orderKids(kids [][]int, variant string, salt int) [][]int {
	res := make([][]int, len(kids))
	for i, ks := range kids {
		ks = slices.Clone(ks)
		switch variant {
		case "desc":
			slices.Reverse(ks)
		case "rot":
			if len(ks) > 1 {
				r := (salt + i) % len(ks)
				ks = append(ks[r:], ks[:r]...)
			}
		case "dup":
			rev := slices.Clone(ks)
			slices.Reverse(rev)
			ks = append(ks, rev...)
		}
		res[i] = ks
	}
	return res
}

func panicText(r any) string {
	s := fmt.Sprint(r)
	// stable part of the message: up to and including "cycle detected"
	if i := strings.Index(s, "cycle detected"); i >= 0 {
		return s[:i+len("cycle detected")]
	}
	return s
}

func collect(seq iter.Seq[int], n int) (res []int, panicked string) {
	defer func() {
		if r := recover(); r != nil {
			panicked = panicText(r)
		}
	}()
	for v := range seq {
		res = append(res, v)
		if len(res) > 4*n+8 {
			panicked = "RUNAWAY"
			break
		}
	}
	return res, panicked
}

func collectPtr(seq iter.Seq[*node], n int) (res []int, panicked string) {
	defer func() {
		if r := recover(); r != nil {
			panicked = panicText(r)
		}
	}()
	for v := range seq {
		res = append(res, v.id)
		if len(res) > 4*n+8 {
			panicked = "RUNAWAY"
			break
		}
	}
	return res, panicked
}

func report(class string, c *tcase, variant, detail string) {
	nMismatch++
	classCount[class]++
	if classCount[class] > int64(capPer) {
		return
	}
	_ = enc.Encode(mismatch{Class: class, Variant: variant, Detail: detail,
		Case: map[string]any{"n": c.N, "kids": c.Kids, "roots": c.Roots, "cyclic": c.Cyclic}})
}

// check compares one real outcome with the model: reach = exactly the nodes to be yielded, once
// each; before = child-before-parent pairs (binding only when no cycle is reachable).
func check(c *tcase, variant string, got []int, panicked string) {
	nChecks++
	if panicked != "" {
		switch {
		case len(got) > 4*c.N+8:
			report("toposort:runaway-output", c, variant, fmt.Sprint(got))
		case c.Cyclic && strings.Contains(panicked, "cycle detected"):
			report("toposort:cycle-panic", c, variant, fmt.Sprintf("panic %q after yielding %v; model: terminate and yield %v once each", panicked, got, c.Reach))
		case c.Cyclic:
			report("toposort:panic-unexpected", c, variant, "reachable cycle, but not the documented cycle panic: "+panicked)
		default:
			report("toposort:panic-unexpected", c, variant, "no cycle reachable: "+panicked)
		}
		return
	}
	pos := map[int]int{}
	for i, v := range got {
		if _, dup := pos[v]; dup {
			report("toposort:duplicate", c, variant, fmt.Sprintf("output %v yields %d twice", got, v))
			return
		}
		pos[v] = i
	}
	for _, r := range c.Reach {
		if _, ok := pos[r]; !ok {
			report("toposort:missing-node", c, variant, fmt.Sprintf("output %v lacks reachable node %d (reachable: %v)", got, r, c.Reach))
			return
		}
	}
	if len(got) != len(c.Reach) {
		report("toposort:unreachable-node", c, variant, fmt.Sprintf("output %v, reachable %v", got, c.Reach))
		return
	}
	if !c.Cyclic {
		for _, b := range c.Before {
			if pos[b[0]] >= pos[b[1]] {
				report("toposort:child-after-parent", c, variant, fmt.Sprintf("output %v: child %d not before parent %d", got, b[0], b[1]))
				return
			}
		}
	}
}
