// Driver for C20 / C21 / C22: replays the cases enumerated by TLC (spec/MCOptionLang.tla) into the real
// option interpreter.  A case is an element kind, schema parameters (targets, retention) and a list of
// option statements, with what spec/OptionLang.tla says the element's options message holds.
//
//	-pid C20  render, compile with protocompile.Compiler, accept/reject as expected; on success decode the
//	          host's options message from its wire form against the compiled schema and compare value
//	          trees; no uninterpreted_option anywhere in the file
//	-pid C21  parse / link by hand; strict vs lenient (identical descriptors when strict succeeds; when it
//	          fails exactly the failing statements stay uninterpreted and nothing of them is populated);
//	          unlinked (parser result): locally interpretable statements have strict's values, the rest stay
//	          verbatim
//	-pid C22  compile (three source info modes), StripSourceRetentionOptionsFromFile: host / sibling options
//	          equal Strip() of the spec, everything else unchanged, input untouched, idempotent, surviving
//	          locations = those not under a removed option
//
// One JSON line per disagreement on stdout, a STATS line on stderr.
package main

import (
	"bufio"
	"bytes"
	"context"
	"encoding/json"
	"errors"
	"flag"
	"fmt"
	"os"
	"regexp"
	"runtime"
	"sort"
	"strconv"
	"strings"
	"sync"
	"sync/atomic"

	"github.com/bufbuild/protocompile"
	"github.com/bufbuild/protocompile/linker"
	"github.com/bufbuild/protocompile/options"
	"github.com/bufbuild/protocompile/parser"
	"github.com/bufbuild/protocompile/reporter"
	"google.golang.org/protobuf/proto"
	"google.golang.org/protobuf/reflect/protoreflect"
	"google.golang.org/protobuf/types/descriptorpb"
	"google.golang.org/protobuf/types/known/anypb"
)

type mismatch struct {
	Class  string `json:"class"`
	Case   *Case  `json:"case"`
	Source string `json:"source"`
	Detail string `json:"detail"`
}

var (
	outMu                                       sync.Mutex
	enc                                         *json.Encoder
	nCases, nCompiles, nAccepted, nRejected     atomic.Int64
	nCompared, nSkipped, nLocs, nStripped, nNop atomic.Int64
)

func report(class string, c *Case, src, detail string) {
	outMu.Lock()
	defer outMu.Unlock()
	_ = enc.Encode(mismatch{Class: class, Case: c, Source: src, Detail: detail})
}

func rulesOf(c *Case) string {
	r := append([]string{}, c.Rules...)
	sort.Strings(r)
	return strings.Join(r, "+")
}

var (
	reNum   = regexp.MustCompile(`[0-9]+`)
	reQuote = regexp.MustCompile(`"[^"]*"`)
)

// errShape: the part of a compiler error that names the failure mode (no positions, names, numbers).
func errShape(err error) string {
	s := err.Error()
	if i := strings.LastIndex(s, ": "); i >= 0 {
		s = s[i+2:]
	}
	s = reQuote.ReplaceAllString(s, "Q")
	s = reNum.ReplaceAllString(s, "N")
	if len(s) > 60 {
		s = s[:60]
	}
	return s
}

func det(b []byte, err error) []byte {
	if err != nil {
		panic(err)
	}
	return b
}

func marshal(m proto.Message) []byte {
	return det(proto.MarshalOptions{Deterministic: true, AllowPartial: true}.Marshal(m))
}

// ---- compiling -------------------------------------------------------------------------------------

func compile(src string, mode protocompile.SourceInfoMode) (res linker.Result, err error) {
	nCompiles.Add(1)
	defer func() {
		if r := recover(); r != nil {
			res, err = nil, fmt.Errorf("PANIC: %v", r)
		}
	}()
	c := protocompile.Compiler{
		// descriptor.proto is handed over as the already indexed linker.File (what WithStandardImports
		// provides, minus re-indexing its ~500 symbols for every case)
		Resolver: protocompile.CompositeResolver{
			protocompile.ResolverFunc(func(path string) (protocompile.SearchResult, error) {
				if path == "google/protobuf/descriptor.proto" {
					return protocompile.SearchResult{Desc: descriptorFile}, nil
				}
				if path == "google/protobuf/any.proto" {
					return protocompile.SearchResult{Desc: anyFile}, nil
				}
				return protocompile.SearchResult{}, os.ErrNotExist
			}),
			&protocompile.SourceResolver{
				Accessor: protocompile.SourceAccessorFromMap(map[string]string{"t.proto": src}),
			},
		},
		MaxParallelism: 1,
		SourceInfoMode: mode,
	}
	files, err := c.Compile(context.Background(), "t.proto")
	if err != nil {
		return nil, err
	}
	r, ok := files[0].(linker.Result)
	if !ok {
		fmt.Fprintln(os.Stderr, "harness: compile result is not a linker.Result")
		os.Exit(2)
	}
	return r, nil
}

func isPanic(err error) bool {
	var pe protocompile.PanicError
	return errors.As(err, &pe) || strings.HasPrefix(err.Error(), "PANIC:")
}

var descriptorFile, anyFile linker.File

func parse(src string) (parser.Result, error) {
	h := reporter.NewHandler(nil)
	ast, err := parser.Parse("t.proto", strings.NewReader(src), h)
	if err != nil {
		return nil, err
	}
	return parser.ResultFromAST(ast, true, h)
}

func link(src string) (linker.Result, error) {
	pr, err := parse(src)
	if err != nil {
		return nil, err
	}
	return linker.Link(pr, linker.Files{descriptorFile, anyFile}, nil, reporter.NewHandler(nil))
}

// anyUninterpreted walks every message of the descriptor and reports the first uninterpreted_option.
func anyUninterpreted(m protoreflect.Message, at string) string {
	var found string
	m.Range(func(fd protoreflect.FieldDescriptor, v protoreflect.Value) bool {
		if fd.Name() == "uninterpreted_option" && fd.IsList() && v.List().Len() > 0 {
			found = at
			return false
		}
		if fd.Message() == nil || fd.IsMap() {
			return true
		}
		if fd.IsList() {
			for i := 0; i < v.List().Len(); i++ {
				if f := anyUninterpreted(v.List().Get(i).Message(), fmt.Sprintf("%s.%s[%d]", at, fd.Name(), i)); f != "" {
					found = f
					return false
				}
			}
			return true
		}
		if f := anyUninterpreted(v.Message(), at+"."+string(fd.Name())); f != "" {
			found = f
			return false
		}
		return true
	})
	return found
}

var skipUninterp = map[string]bool{"uninterpreted_option": true}

// cmpHost compares the expected entries with the options of the host element of fd.  The pseudo-options
// json_name and default live on the field descriptor itself.
func cmpHost(exp []Entry, fd *descriptorpb.FileDescriptorProto, kind string, sib bool, files ...protoreflect.FileDescriptor) (*diff, error) {
	el, ok := findElem(fd, kind, sib)
	if !ok {
		return nil, fmt.Errorf("host element of kind %s not found", kind)
	}
	var rest []Entry
	var jsonName, def *Val
	for i := range exp {
		switch {
		case (kind == "field" || kind == "extension") && exp[i].N == "json_name":
			jsonName = &exp[i].V
		case (kind == "field" || kind == "extension") && exp[i].N == "default":
			def = &exp[i].V
		default:
			rest = append(rest, exp[i])
		}
	}
	if kind == "field" || kind == "extension" {
		f := el.msg.Interface().(*descriptorpb.FieldDescriptorProto)
		switch {
		case jsonName != nil && f.GetJsonName() != jsonName.S:
			return &diff{"value", 0, "json_name", fmt.Sprintf("expected %q, real %q", jsonName.S, f.GetJsonName())}, nil
		case jsonName == nil && f.JsonName != nil && f.GetJsonName() != f.GetName():
			return &diff{"extra", 0, "json_name", fmt.Sprintf("real %q", f.GetJsonName())}, nil
		case def != nil && (f.DefaultValue == nil || f.GetDefaultValue() != signed(def)):
			return &diff{"value", 0, "default", fmt.Sprintf("expected %q, real %v", signed(def), f.DefaultValue)}, nil
		case def == nil && f.DefaultValue != nil:
			return &diff{"extra", 0, "default", fmt.Sprintf("real %q", f.GetDefaultValue())}, nil
		}
	}
	opts, _ := el.options()
	if opts == nil {
		if len(rest) > 0 {
			return &diff{"missing", 0, "options", "the element has no options message, expected " + showVal(&Val{K: "msg", Fs: rest})}, nil
		}
		return nil, nil
	}
	dm, err := decodeOptions(opts, files...)
	if err != nil {
		return nil, err
	}
	return cmpMsg(&ctx{files}, rest, dm, 0, "options", skipUninterp), nil
}

// ---- C20 -------------------------------------------------------------------------------------------

func checkC20(c *Case) {
	src := render(c)
	res, err := compile(src, protocompile.SourceInfoNone)
	if err != nil {
		nRejected.Add(1)
		if isPanic(err) {
			report("panic", c, src, err.Error())
			return
		}
		if c.Ok {
			report("reject-valid:"+errShape(err), c, src, err.Error())
		}
		return
	}
	nAccepted.Add(1)
	if !c.Ok {
		report("accept-invalid:"+rulesOf(c), c, src, "the compiler accepted the file; the specification rejects: "+rulesOf(c))
		return
	}
	fd := res.FileDescriptorProto()
	if at := anyUninterpreted(fd.ProtoReflect(), "file"); at != "" {
		report("uninterpreted-left", c, src, "uninterpreted_option not empty after successful compilation at "+at)
		return
	}
	d, err := cmpHost(c.Es, fd, c.Kind, false, descriptorpb.File_google_protobuf_descriptor_proto, anypb.File_google_protobuf_any_proto, res)
	if err != nil {
		report("decode", c, src, err.Error())
		return
	}
	nCompared.Add(1)
	if d != nil {
		report("value:"+d.what, c, src, d.String())
	}
}

// ---- C21 -------------------------------------------------------------------------------------------

func uoValueEqual(a, b *descriptorpb.UninterpretedOption, verbatim bool) bool {
	if verbatim {
		return proto.Equal(a, b)
	}
	// after linking, extension name parts are fully qualified; everything else must be the same
	if len(a.Name) != len(b.Name) {
		return false
	}
	for i := range a.Name {
		if a.Name[i].GetIsExtension() != b.Name[i].GetIsExtension() {
			return false
		}
		an, bn := a.Name[i].GetNamePart(), b.Name[i].GetNamePart()
		if a.Name[i].GetIsExtension() {
			an, bn = an[strings.LastIndex(an, ".")+1:], bn[strings.LastIndex(bn, ".")+1:]
		}
		if an != bn {
			return false
		}
	}
	x, y := proto.Clone(a).(*descriptorpb.UninterpretedOption), proto.Clone(b).(*descriptorpb.UninterpretedOption)
	x.Name, y.Name = nil, nil
	return proto.Equal(x, y)
}

func hostUninterpreted(fd *descriptorpb.FileDescriptorProto, kind string) ([]*descriptorpb.UninterpretedOption, error) {
	el, ok := findElem(fd, kind, false)
	if !ok {
		return nil, fmt.Errorf("host element of kind %s not found", kind)
	}
	opts, _ := el.options()
	if opts == nil {
		return nil, nil
	}
	l := opts.Get(opts.Descriptor().Fields().ByName("uninterpreted_option")).List()
	out := make([]*descriptorpb.UninterpretedOption, l.Len())
	for i := range out {
		out[i] = l.Get(i).Message().Interface().(*descriptorpb.UninterpretedOption)
	}
	return out, nil
}

// cmpUninterpreted: the statements with the given (1-based) indices, in order.
func cmpUninterpreted(orig, real []*descriptorpb.UninterpretedOption, idx []int, verbatim bool) string {
	if len(real) != len(idx) {
		return fmt.Sprintf("expected statements %v to stay uninterpreted, real has %d uninterpreted option(s)", idx, len(real))
	}
	for i, k := range idx {
		if k < 1 || k > len(orig) {
			return fmt.Sprintf("statement index %d outside the %d parsed options", k, len(orig))
		}
		if !uoValueEqual(orig[k-1], real[i], verbatim) {
			return fmt.Sprintf("uninterpreted option %d is not statement %d: %v", i, k, real[i])
		}
	}
	return ""
}

func checkC21(c *Case) {
	if c.Pre {
		nSkipped.Add(1) // no parsed / linked file to interpret
		return
	}
	src := render(c)
	defer func() {
		if r := recover(); r != nil {
			report("panic", c, src, fmt.Sprint(r))
		}
	}()
	pr0, err := parse(src)
	if err != nil {
		report("parse", c, src, "the specification expects the file to parse: "+err.Error())
		return
	}
	orig, err := hostUninterpreted(pr0.FileDescriptorProto(), c.Kind)
	if err != nil || len(orig) != len(c.Stmts) {
		report("harness", c, src, fmt.Sprintf("parsed host has %d options for %d statements (%v)", len(orig), len(c.Stmts), err))
		return
	}

	// strict
	ls, err := link(src)
	if err != nil {
		report("link", c, src, "the specification expects the file to link: "+err.Error())
		return
	}
	_, serr := options.InterpretOptions(ls, reporter.NewHandler(nil))
	if (serr == nil) != c.Ok {
		nSkipped.Add(1) // strict disagrees with the specification: that is C20's finding, not C21's
		return
	}
	// lenient, linked
	ll, err := link(src)
	if err != nil {
		report("link", c, src, err.Error())
		return
	}
	if _, err := options.InterpretOptionsLenient(ll); err != nil {
		report("lenient:error", c, src, err.Error())
	} else {
		nCompared.Add(1)
		if serr == nil && !bytes.Equal(marshal(ls.FileDescriptorProto()), marshal(ll.FileDescriptorProto())) {
			report("lenient:differs-from-strict", c, src, "strict interpretation succeeded and lenient interpretation gives a different descriptor")
		}
		d, err := cmpHost(c.Es, ll.FileDescriptorProto(), c.Kind, false, descriptorpb.File_google_protobuf_descriptor_proto, anypb.File_google_protobuf_any_proto, ll)
		if err != nil {
			report("decode", c, src, err.Error())
		} else if d != nil {
			report(fmt.Sprintf("lenient:%s-field:%s", d.what, rulesOf(c)), c, src, "interpreted part: "+d.String())
		}
		real, _ := hostUninterpreted(ll.FileDescriptorProto(), c.Kind)
		if msg := cmpUninterpreted(orig, real, c.Bad, false); msg != "" {
			report("lenient:uninterpreted:"+rulesOf(c), c, src, msg)
		}
	}
	// unlinked
	pu, err := parse(src)
	if err != nil {
		report("parse", c, src, err.Error())
		return
	}
	if _, err := options.InterpretUnlinkedOptions(pu); err != nil {
		report("unlinked:error", c, src, err.Error())
		return
	}
	nCompared.Add(1)
	d, err := cmpHost(c.Ues, pu.FileDescriptorProto(), c.Kind, false, descriptorpb.File_google_protobuf_descriptor_proto)
	if err != nil {
		report("decode", c, src, err.Error())
	} else if d != nil {
		report(fmt.Sprintf("unlinked:%s-field:%s", d.what, rulesOf(c)), c, src, "interpreted part: "+d.String())
	}
	real, _ := hostUninterpreted(pu.FileDescriptorProto(), c.Kind)
	if msg := cmpUninterpreted(orig, real, c.Ubad, true); msg != "" {
		report("unlinked:uninterpreted", c, src, msg)
	}
	// whatever unlinked interpretation populated must be what strict populated
	if serr == nil {
		if d, err := cmpSubset(pu.FileDescriptorProto(), ls.FileDescriptorProto(), c.Kind); err == nil && d != "" {
			report("unlinked:differs-from-strict", c, src, d)
		}
	}
}

// cmpSubset: every standard (non-extension) field the unlinked host options hold has the same value in
// the strict result.
func cmpSubset(unl, strict *descriptorpb.FileDescriptorProto, kind string) (string, error) {
	eu, ok1 := findElem(unl, kind, false)
	es, ok2 := findElem(strict, kind, false)
	if !ok1 || !ok2 {
		return "", errors.New("host not found")
	}
	ou, _ := eu.options()
	os_, _ := es.options()
	if ou == nil {
		return "", nil
	}
	var out string
	ou.Range(func(fd protoreflect.FieldDescriptor, v protoreflect.Value) bool {
		if fd.Name() == "uninterpreted_option" {
			return true
		}
		if os_ == nil || !os_.Has(fd) || !v.Equal(os_.Get(fd)) {
			out = fmt.Sprintf("unlinked interpretation set %s = %v, strict interpretation did not", fd.Name(), v)
			return false
		}
		return true
	})
	return out, nil
}

// ---- C22 -------------------------------------------------------------------------------------------

// numericPath turns a removed path of the specification (entry names and list indices) into field numbers.
func numericPath(optsMD protoreflect.MessageDescriptor, file protoreflect.FileDescriptor, steps []string) ([]int32, error) {
	var out []int32
	md := optsMD
	var cur protoreflect.FieldDescriptor
	for _, s := range steps {
		if i, err := strconv.Atoi(s); err == nil {
			out = append(out, int32(i))
			continue
		}
		if md == nil {
			return nil, fmt.Errorf("step %q below a non-message", s)
		}
		cur = md.Fields().ByName(protoreflect.Name(s))
		if cur == nil {
			if x := file.Extensions().ByName(protoreflect.Name(s)); x != nil && x.ContainingMessage().FullName() == md.FullName() {
				cur = x
			}
		}
		if cur == nil {
			return nil, fmt.Errorf("no field %q in %s", s, md.FullName())
		}
		out = append(out, int32(cur.Number()))
		md = cur.Message()
	}
	return out, nil
}

func hasPrefix(p, prefix []int32) bool {
	if len(prefix) > len(p) {
		return false
	}
	for i := range prefix {
		if p[i] != prefix[i] {
			return false
		}
	}
	return true
}

func clearOptions(fd *descriptorpb.FileDescriptorProto, kind string, sib bool) {
	if el, ok := findElem(fd, kind, sib); ok {
		_, f := el.options()
		el.msg.Clear(f)
	}
}

func checkC22(c *Case) {
	if !c.Ok || c.Strip == nil {
		nSkipped.Add(1)
		return
	}
	src := render(c)
	defer func() {
		if r := recover(); r != nil {
			report("panic", c, src, fmt.Sprint(r))
		}
	}()
	for _, mode := range []protocompile.SourceInfoMode{protocompile.SourceInfoNone, protocompile.SourceInfoStandard,
		protocompile.SourceInfoStandard | protocompile.SourceInfoExtraOptionLocations} {
		tag := fmt.Sprintf("srcinfo-mode-%d", int(mode))
		res, err := compile(src, mode)
		if err != nil {
			if mode == protocompile.SourceInfoNone {
				nSkipped.Add(1) // C20's business
			}
			return
		}
		in := res.FileDescriptorProto()
		if (mode != protocompile.SourceInfoNone) != (len(in.GetSourceCodeInfo().GetLocation()) > 0) {
			report("harness", c, src, tag+": unexpected presence of source code info")
			return
		}
		snapshot := marshal(in)
		out, err := options.StripSourceRetentionOptionsFromFile(in)
		if err != nil {
			report("strip:error", c, src, tag+": "+err.Error())
			return
		}
		nStripped.Add(1)
		if !bytes.Equal(snapshot, marshal(in)) {
			report("strip:input-mutated", c, src, tag+": the input descriptor changed")
		}
		changed := c.Strip.Changed || (c.Sib != "none" && c.SibStrip.Changed)
		if !changed {
			nNop.Add(1)
			if !bytes.Equal(snapshot, marshal(out)) {
				report("strip:changed-without-source-option", c, src, tag+": nothing has source retention, the result differs from the input")
			}
			continue
		}
		// host and sibling options
		check := func(st *Strip, sib bool) {
			who := "host"
			if sib {
				who = "sibling"
			}
			el, ok := findElem(out, c.Kind, sib)
			if !ok {
				report("strip:element-lost", c, src, tag+": "+who+" element missing in the result")
				return
			}
			opts, _ := el.options()
			if st.Absent {
				if opts != nil {
					report("strip:empty-options-kept", c, src, tag+": every option of the "+who+" has source retention, the options message is still there: "+fmt.Sprint(opts.Interface()))
				}
				return
			}
			d, err := cmpHost(st.Es, out, c.Kind, sib, descriptorpb.File_google_protobuf_descriptor_proto, anypb.File_google_protobuf_any_proto, res)
			if err != nil {
				report("decode", c, src, tag+": "+err.Error())
			} else if d != nil {
				what := map[string]string{"extra": "source-option-kept", "missing": "live-option-removed", "value": "value-changed", "unknown": "unknown"}[d.what]
				report(fmt.Sprintf("strip:%s:depth%d", what, d.depth), c, src, tag+": "+who+": "+d.String())
			}
		}
		check(c.Strip, false)
		if c.Sib != "none" {
			check(c.SibStrip, true)
		}
		// everything else unchanged
		a, b := proto.Clone(in).(*descriptorpb.FileDescriptorProto), proto.Clone(out).(*descriptorpb.FileDescriptorProto)
		for _, x := range []*descriptorpb.FileDescriptorProto{a, b} {
			clearOptions(x, c.Kind, false)
			if c.Sib != "none" {
				clearOptions(x, c.Kind, true)
			}
			x.SourceCodeInfo = nil
		}
		if !bytes.Equal(marshal(a), marshal(b)) {
			report("strip:other-element-changed", c, src, tag+": something outside the host's and the sibling's options changed")
		}
		// idempotent
		out2, err := options.StripSourceRetentionOptionsFromFile(out)
		if err != nil {
			report("strip:error", c, src, tag+": second strip: "+err.Error())
		} else if !bytes.Equal(marshal(out), marshal(out2)) {
			report("strip:not-idempotent", c, src, tag+": stripping the result again changes it")
		}
		// source code info
		if mode == protocompile.SourceInfoNone {
			if out.SourceCodeInfo != nil {
				report("strip:srcinfo:invented", c, src, tag+": source code info appeared")
			}
			continue
		}
		var removed, fuzzy [][]int32
		add := func(st *Strip, sib bool) error {
			el, ok := findElem(in, c.Kind, sib)
			if !ok {
				return errors.New("element not found")
			}
			_, of := el.options()
			for _, steps := range st.Removed {
				np, err := numericPath(of.Message(), res, steps)
				if err != nil {
					return err
				}
				removed = append(removed, append(el.optionsPath(), np...))
			}
			for _, steps := range st.Fuzzy {
				np, err := numericPath(of.Message(), res, steps)
				if err != nil {
					return err
				}
				fuzzy = append(fuzzy, append(el.optionsPath(), np...))
			}
			return nil
		}
		err = add(c.Strip, false)
		if err == nil && c.Sib != "none" {
			err = add(c.SibStrip, true)
		}
		if err != nil {
			report("harness", c, src, tag+": "+err.Error())
			return
		}
		// locations inside the entries of a map whose values lost fields are not decided (no entry index)
		undecided := func(p []int32) bool {
			for _, f := range fuzzy {
				if hasPrefix(p, f) && len(p) >= len(f)+2 {
					return true
				}
			}
			return false
		}
		var want []*descriptorpb.SourceCodeInfo_Location
		under := 0
		for _, loc := range in.SourceCodeInfo.Location {
			if undecided(loc.Path) {
				continue
			}
			gone := false
			for _, r := range removed {
				if hasPrefix(loc.Path, r) {
					gone = true
				}
			}
			if gone {
				under++
			} else {
				want = append(want, loc)
			}
		}
		nLocs.Add(int64(len(in.SourceCodeInfo.Location)))
		got := out.GetSourceCodeInfo().GetLocation()
		// the result must be exactly `want`, in order: walk both
		wi := 0
		var extra *descriptorpb.SourceCodeInfo_Location
		for _, g := range got {
			if undecided(g.Path) {
				continue
			}
			if wi < len(want) && proto.Equal(g, want[wi]) {
				wi++
			} else if extra == nil {
				extra = g
			}
		}
		if wi < len(want) {
			report("strip:srcinfo:live-location-dropped", c, src, fmt.Sprintf("%s: location %v is not under a removed option and is missing (or out of order) in the result", tag, want[wi].Path))
		} else if extra != nil {
			report("strip:srcinfo:removed-location-kept", c, src, fmt.Sprintf("%s: location %v points into a removed option and is still there (%d locations under removed options)", tag, extra.Path, under))
		}
	}
}

// ---- main --------------------------------------------------------------------------------------------

func main() {
	pid := flag.String("pid", "C20", "property: C20 | C21 | C22")
	jobs := flag.Int("j", runtime.NumCPU(), "parallel workers")
	dump := flag.Bool("dump", false, "print the rendered source of every case and exit")
	flag.Parse()
	var err error
	descriptorFile, err = linker.NewFileRecursive(descriptorpb.File_google_protobuf_descriptor_proto)
	if err != nil {
		fmt.Fprintln(os.Stderr, "harness:", err)
		os.Exit(2)
	}
	anyFile, err = linker.NewFileRecursive(anypb.File_google_protobuf_any_proto)
	if err != nil {
		fmt.Fprintln(os.Stderr, "harness:", err)
		os.Exit(2)
	}
	check := map[string]func(*Case){"C20": checkC20, "C21": checkC21, "C22": checkC22}[*pid]
	if check == nil {
		fmt.Fprintln(os.Stderr, "harness: unknown property", *pid)
		os.Exit(2)
	}
	out := bufio.NewWriterSize(os.Stdout, 1<<20)
	defer out.Flush()
	enc = json.NewEncoder(out)
	lines := make(chan []byte, 256)
	var wg sync.WaitGroup
	for i := 0; i < *jobs; i++ {
		wg.Add(1)
		go func() {
			defer wg.Done()
			for line := range lines {
				var c Case
				if err := json.Unmarshal(line, &c); err != nil {
					fmt.Fprintln(os.Stderr, "harness: bad case:", err)
					os.Exit(2)
				}
				if *dump {
					outMu.Lock()
					fmt.Fprintf(out, "---- %s ok=%v %v\n%s", c.Kind, c.Ok, c.Rules, render(&c))
					outMu.Unlock()
					continue
				}
				nCases.Add(1)
				check(&c)
			}
		}()
	}
	sc := bufio.NewScanner(os.Stdin)
	sc.Buffer(make([]byte, 1<<20), 1<<26)
	for sc.Scan() {
		b := bytes.TrimSpace(sc.Bytes())
		if len(b) == 0 {
			continue
		}
		lines <- append([]byte{}, b...)
	}
	close(lines)
	wg.Wait()
	st, _ := json.Marshal(map[string]int64{"cases": nCases.Load(), "compiles": nCompiles.Load(), "accepted": nAccepted.Load(),
		"rejected": nRejected.Load(), "compared": nCompared.Load(), "skipped": nSkipped.Load(), "locations": nLocs.Load(),
		"strips": nStripped.Load(), "strip_noop": nNop.Load()})
	fmt.Fprintln(os.Stderr, "STATS "+string(st))
}
