package main

import (
	"fmt"
	"strconv"
	"strings"
)

// ---- JSON shapes exported by spec/MCOptionLang.tla ------------------------------------------

// Val is a source value (SV) or a canonical value (CV) of spec/OptionLang.tla.
type Val struct {
	K   string  `json:"k"`
	Neg bool    `json:"neg"`
	S   string  `json:"s"`
	Fs  []Entry `json:"fs"`
}

// Entry is a message-literal field (Nm, Colon set) of a source value, or an entry (N set) of a
// canonical message / list.
type Entry struct {
	N     string    `json:"n,omitempty"`
	Nm    *NamePart `json:"nm,omitempty"`
	Colon bool      `json:"colon,omitempty"`
	V     Val       `json:"v"`
}

type NamePart struct {
	N   string `json:"n"`
	Ext bool   `json:"ext"`
}

type Stmt struct {
	Path []NamePart `json:"path"`
	V    Val        `json:"v"`
}

type Strip struct {
	Absent  bool       `json:"absent"`
	Es      []Entry    `json:"es"`
	Removed [][]string `json:"removed"`
	Fuzzy   [][]string `json:"fuzzy"` // map fields with something removed inside a value: locations below are not decided
	Changed bool       `json:"changed"`
}

type Case struct {
	Mode     string      `json:"mode"`
	Kind     string      `json:"kind"`
	Ed       string      `json:"ed"` // "proto2" | "open" | "closed" (edition 2023 file, enum E open / closed by feature)
	Tf       string      `json:"tf"`
	Tk       []string    `json:"tk"`
	Ret      [][2]string `json:"ret"`
	Stmts    []Stmt      `json:"stmts"`
	Ok       bool        `json:"ok"`
	Pre      bool        `json:"pre"`
	Rules    []string    `json:"rules"`
	Es       []Entry     `json:"es"`
	Bad      []int       `json:"bad"`
	Ues      []Entry     `json:"ues"`
	Ubad     []int       `json:"ubad"`
	Strip    *Strip      `json:"strip,omitempty"`
	Sib      string      `json:"sib,omitempty"`
	SibStrip *Strip      `json:"sibstrip,omitempty"`
}

// ---- rendering --------------------------------------------------------------------------------

var valueTypes = []string{"int32", "int64", "uint32", "uint64", "sint32", "sint64", "fixed32", "fixed64",
	"sfixed32", "sfixed64", "float", "double", "bool", "string", "bytes", "enum"}

var optionsMsgOf = map[string]string{
	"file": "FileOptions", "message": "MessageOptions", "field": "FieldOptions", "extension": "FieldOptions",
	"oneof": "OneofOptions", "enum": "EnumOptions", "enumvalue": "EnumValueOptions", "service": "ServiceOptions",
	"method": "MethodOptions", "extrange": "ExtensionRangeOptions",
}

var targetEnum = map[string]string{
	"file": "TARGET_TYPE_FILE", "message": "TARGET_TYPE_MESSAGE", "field": "TARGET_TYPE_FIELD",
	"oneof": "TARGET_TYPE_ONEOF", "enum": "TARGET_TYPE_ENUM", "enumvalue": "TARGET_TYPE_ENUM_ENTRY",
	"service": "TARGET_TYPE_SERVICE", "method": "TARGET_TYPE_METHOD", "extrange": "TARGET_TYPE_EXTENSION_RANGE",
}

func protoType(t string) string {
	if t == "enum" {
		return "E"
	}
	return t
}

// fieldOpts returns the bracketed options of the schema field with the given id ("" if none).
func (c *Case) fieldOpts(id string) string {
	var parts []string
	for _, r := range c.Ret {
		if r[0] == id && r[1] != "unset" {
			parts = append(parts, "retention = RETENTION_"+r[1])
		}
	}
	if c.Tf == id {
		for _, t := range c.Tk {
			parts = append(parts, "targets = "+targetEnum[t])
		}
	}
	if len(parts) == 0 {
		return ""
	}
	return " [" + strings.Join(parts, ", ") + "]"
}

func renderVal(v *Val) string {
	switch v.K {
	case "int", "flt", "id":
		if v.Neg {
			return "-" + v.S
		}
		return v.S
	case "str":
		return strconv.Quote(v.S) // the spec's strings are printable ASCII
	case "msg":
		var sb strings.Builder
		sb.WriteString("{")
		for i := range v.Fs {
			f := &v.Fs[i]
			sb.WriteString(" ")
			if f.Nm.Ext && strings.Contains(f.Nm.N, "/") {
				sb.WriteString("[" + f.Nm.N + "]") // type reference of an expanded Any
			} else if f.Nm.Ext {
				sb.WriteString("[p." + f.Nm.N + "]")
			} else {
				sb.WriteString(f.Nm.N)
			}
			if f.Colon {
				sb.WriteString(":")
			}
			sb.WriteString(" ")
			sb.WriteString(renderVal(&f.V))
		}
		sb.WriteString(" }")
		return sb.String()
	case "lst":
		parts := make([]string, len(v.Fs))
		for i := range v.Fs {
			parts[i] = renderVal(&v.Fs[i].V)
		}
		return "[" + strings.Join(parts, ", ") + "]"
	}
	panic("render: unknown value kind " + v.K)
}

func renderStmt(s *Stmt) string {
	var sb strings.Builder
	for i, p := range s.Path {
		if i > 0 {
			sb.WriteString(".")
		}
		if p.Ext {
			sb.WriteString("(p." + p.N + ")")
		} else {
			sb.WriteString(p.N)
		}
	}
	sb.WriteString(" = ")
	sb.WriteString(renderVal(&s.V))
	return sb.String()
}

// render produces the source of the case's file: the option schema, then the host element that
// carries the statements (and, in strip mode, a sibling element of the same kind).
func render(c *Case) string {
	var sb strings.Builder
	editions := c.Ed == "open" || c.Ed == "closed"
	opt := "optional " // the label of singular fields: none in an editions file
	if editions {
		opt = ""
		sb.WriteString("edition = \"2023\";\n")
	} else {
		sb.WriteString("syntax = \"proto2\";\n")
	}
	sb.WriteString("package p;\nimport \"google/protobuf/descriptor.proto\";\nimport \"google/protobuf/any.proto\";\n")
	stmts := make([]string, len(c.Stmts))
	for i := range c.Stmts {
		stmts[i] = renderStmt(&c.Stmts[i])
	}
	long := func(ss []string, indent string) string { // option a = v; ...
		var b strings.Builder
		for _, s := range ss {
			b.WriteString(indent + "option " + s + ";\n")
		}
		return b.String()
	}
	compact := func(ss []string) string { return " [" + strings.Join(ss, ", ") + "]" }
	sibS := []string{"(p.x_int32) = 7"}
	before, after := c.Sib == "before", c.Sib == "after"

	if c.Kind == "file" {
		sb.WriteString(long(stmts, ""))
	}
	if c.Ed == "closed" {
		sb.WriteString("enum E { option features.enum_type = CLOSED; E_ZERO = 0; E_ONE = 1; E_NEG = -1; }\n")
	} else {
		sb.WriteString("enum E { E_ZERO = 0; E_ONE = 1; E_NEG = -1; }\n") // proto2: closed; edition 2023: open by default
	}
	fmt.Fprintf(&sb, "message Sub { %sint32 x = 1%s; %sstring y = 2%s; repeated int32 rx = 3; }\n",
		opt, c.fieldOpts("Sub.x"), opt, c.fieldOpts("Sub.y"))
	sb.WriteString("message Opt {\n")
	for i, t := range valueTypes {
		fmt.Fprintf(&sb, "  %s%s f_%s = %d%s;\n", opt, protoType(t), t, i+1, c.fieldOpts("Opt.f_"+t))
	}
	fmt.Fprintf(&sb, "  %sSub sub = 20%s;\n  repeated int32 ri = 21;\n  repeated string rs = 22;\n", opt, c.fieldOpts("Opt.sub"))
	fmt.Fprintf(&sb, "  repeated Sub rm = 23%s;\n  map<string, int32> mp = 24;\n", c.fieldOpts("Opt.rm"))
	if editions {
		// no group syntax in editions: delimited message fields (not used by the editions case family)
		sb.WriteString("  message Grp { int32 g = 1; }\n  Grp grp = 25 [features.message_encoding = DELIMITED];\n")
		sb.WriteString("  message RG { int32 g = 1; int32 h = 2; }\n  repeated RG rg = 28 [features.message_encoding = DELIMITED];\n")
	} else {
		fmt.Fprintf(&sb, "  optional group Grp = 25%s { optional int32 g = 1%s; }\n", c.fieldOpts("Opt.grp"), c.fieldOpts("Grp.g"))
		fmt.Fprintf(&sb, "  repeated group RG = 28 { optional int32 g = 1%s; optional int32 h = 2; }\n", c.fieldOpts("RG.g"))
	}
	sb.WriteString("  " + opt + "google.protobuf.Any any = 26;\n  map<string, Sub> mm = 27;\n  extensions 100 to 199;\n}\n")
	fmt.Fprintf(&sb, "extend Opt { %sint32 oext = 100%s; %sSub osub = 101; }\n", opt, c.fieldOpts("oext"), opt)
	fmt.Fprintf(&sb, "extend google.protobuf.%s {\n", optionsMsgOf[c.Kind])
	for i, t := range valueTypes {
		fmt.Fprintf(&sb, "  %s%s x_%s = %d%s;\n", opt, protoType(t), t, 50001+i, c.fieldOpts("x_"+t))
	}
	fmt.Fprintf(&sb, "  %sOpt m = 50020%s;\n  repeated int32 r = 50021;\n  repeated Sub rm = 50022%s;\n}\n",
		opt, c.fieldOpts("m"), c.fieldOpts("rm"))

	switch c.Kind {
	case "file":
	case "message":
		if before {
			sb.WriteString("message SibM {\n" + long(sibS, "  ") + "}\n")
		}
		sb.WriteString("message Host {\n" + long(stmts, "  ") + "  " + opt + "int32 hf = 1;\n}\n")
		if after {
			sb.WriteString("message SibM {\n" + long(sibS, "  ") + "}\n")
		}
	case "field":
		sb.WriteString("message Host {\n")
		if before {
			sb.WriteString("  " + opt + "int32 sf = 2" + compact(sibS) + ";\n")
		}
		sb.WriteString("  " + opt + "int32 hf = 1" + compact(stmts) + ";\n")
		if after {
			sb.WriteString("  " + opt + "int32 sf = 2" + compact(sibS) + ";\n")
		}
		sb.WriteString("}\n")
	case "extension":
		sb.WriteString("message Xt { extensions 1 to 10; }\nextend Xt {\n")
		if before {
			sb.WriteString("  " + opt + "int32 sx = 2" + compact(sibS) + ";\n")
		}
		sb.WriteString("  " + opt + "int32 hx = 1" + compact(stmts) + ";\n")
		if after {
			sb.WriteString("  " + opt + "int32 sx = 2" + compact(sibS) + ";\n")
		}
		sb.WriteString("}\n")
	case "oneof":
		sb.WriteString("message Host {\n")
		if before {
			sb.WriteString("  oneof so {\n" + long(sibS, "    ") + "    int32 sa = 2;\n  }\n")
		}
		sb.WriteString("  oneof oo {\n" + long(stmts, "    ") + "    int32 oa = 1;\n  }\n")
		if after {
			sb.WriteString("  oneof so {\n" + long(sibS, "    ") + "    int32 sa = 2;\n  }\n")
		}
		sb.WriteString("}\n")
	case "enum":
		if before {
			sb.WriteString("enum SibE {\n" + long(sibS, "  ") + "  SV = 0;\n}\n")
		}
		sb.WriteString("enum HostE {\n" + long(stmts, "  ") + "  HV = 0;\n}\n")
		if after {
			sb.WriteString("enum SibE {\n" + long(sibS, "  ") + "  SV = 0;\n}\n")
		}
	case "enumvalue":
		sb.WriteString("enum HostE {\n")
		if before {
			sb.WriteString("  SV = 1" + compact(sibS) + ";\n")
		}
		sb.WriteString("  HV = 0" + compact(stmts) + ";\n")
		if after {
			sb.WriteString("  SV = 1" + compact(sibS) + ";\n")
		}
		sb.WriteString("}\n")
	case "service":
		if before {
			sb.WriteString("service SibS {\n" + long(sibS, "  ") + "}\n")
		}
		sb.WriteString("service Svc {\n" + long(stmts, "  ") + "}\n")
		if after {
			sb.WriteString("service SibS {\n" + long(sibS, "  ") + "}\n")
		}
	case "method":
		sb.WriteString("service Svc {\n")
		if before {
			sb.WriteString("  rpc Sib(Sub) returns (Sub) {\n" + long(sibS, "    ") + "  }\n")
		}
		sb.WriteString("  rpc Do(Sub) returns (Sub) {\n" + long(stmts, "    ") + "  }\n")
		if after {
			sb.WriteString("  rpc Sib(Sub) returns (Sub) {\n" + long(sibS, "    ") + "  }\n")
		}
		sb.WriteString("}\n")
	case "extrange":
		sb.WriteString("message Host {\n")
		if before {
			sb.WriteString("  extensions 300 to 400" + compact(sibS) + ";\n")
		}
		sb.WriteString("  extensions 100 to 200" + compact(stmts) + ";\n")
		if after {
			sb.WriteString("  extensions 300 to 400" + compact(sibS) + ";\n")
		}
		sb.WriteString("}\n")
	default:
		panic("render: unknown kind " + c.Kind)
	}
	return sb.String()
}

// hostName / sibName: how the host element (and its sibling) is found in the descriptor.
var hostName = map[string]string{"message": "Host", "field": "hf", "extension": "hx", "oneof": "oo", "enum": "HostE",
	"enumvalue": "HV", "service": "Svc", "method": "Do", "extrange": "100"}
var sibName = map[string]string{"message": "SibM", "field": "sf", "extension": "sx", "oneof": "so", "enum": "SibE",
	"enumvalue": "SV", "service": "SibS", "method": "Sib", "extrange": "300"}
