package main

import (
	"fmt"
	"math"
	"sort"
	"strconv"

	"google.golang.org/protobuf/proto"
	"google.golang.org/protobuf/reflect/protoreflect"
	"google.golang.org/protobuf/reflect/protoregistry"
	"google.golang.org/protobuf/types/descriptorpb"
	"google.golang.org/protobuf/types/dynamicpb"
)

// ---- locating the host element ------------------------------------------------------------------

// elem is one element of a FileDescriptorProto together with its source-info path.
type elem struct {
	msg  protoreflect.Message // the FileDescriptorProto / DescriptorProto / FieldDescriptorProto / ...
	path []int32
}

func (e elem) child(field string, match func(protoreflect.Message) bool) (elem, bool) {
	fd := e.msg.Descriptor().Fields().ByName(protoreflect.Name(field))
	l := e.msg.Get(fd).List()
	for i := 0; i < l.Len(); i++ {
		m := l.Get(i).Message()
		if match(m) {
			p := append(append([]int32{}, e.path...), int32(fd.Number()), int32(i))
			return elem{m, p}, true
		}
	}
	return elem{}, false
}

func byName(name string) func(protoreflect.Message) bool {
	return func(m protoreflect.Message) bool {
		return m.Get(m.Descriptor().Fields().ByName("name")).String() == name
	}
}

func byStart(start string) func(protoreflect.Message) bool {
	return func(m protoreflect.Message) bool {
		return strconv.FormatInt(m.Get(m.Descriptor().Fields().ByName("start")).Int(), 10) == start
	}
}

// findElem returns the element of the given kind; sib selects the sibling instead of the host.
func findElem(fd *descriptorpb.FileDescriptorProto, kind string, sib bool) (elem, bool) {
	root := elem{fd.ProtoReflect(), nil}
	name := hostName[kind]
	if sib {
		name = sibName[kind]
	}
	two := func(f1, n1, f2 string, m func(protoreflect.Message) bool) (elem, bool) {
		a, ok := root.child(f1, byName(n1))
		if !ok {
			return elem{}, false
		}
		return a.child(f2, m)
	}
	switch kind {
	case "file":
		return root, !sib
	case "message":
		return root.child("message_type", byName(name))
	case "field":
		return two("message_type", "Host", "field", byName(name))
	case "extension":
		return root.child("extension", byName(name))
	case "oneof":
		return two("message_type", "Host", "oneof_decl", byName(name))
	case "enum":
		return root.child("enum_type", byName(name))
	case "enumvalue":
		return two("enum_type", "HostE", "value", byName(name))
	case "service":
		return root.child("service", byName(name))
	case "method":
		return two("service", "Svc", "method", byName(name))
	case "extrange":
		return two("message_type", "Host", "extension_range", byStart(name))
	}
	return elem{}, false
}

// options returns the element's options message (nil if unset) and the options field.
func (e elem) options() (protoreflect.Message, protoreflect.FieldDescriptor) {
	fd := e.msg.Descriptor().Fields().ByName("options")
	if !e.msg.Has(fd) {
		return nil, fd
	}
	return e.msg.Get(fd).Message(), fd
}

func (e elem) optionsPath() []int32 {
	_, fd := e.options()
	return append(append([]int32{}, e.path...), int32(fd.Number()))
}

// ---- decoding an options message against the COMPILED schema ------------------------------------

// decodeOptions re-reads the wire form of an options message with the descriptors of the compiled
// files (descriptor.proto and the case's file): nothing of the interpreter's own typing is reused.
func decodeOptions(opts protoreflect.Message, files ...protoreflect.FileDescriptor) (protoreflect.Message, error) {
	b, err := proto.MarshalOptions{Deterministic: true, AllowPartial: true}.Marshal(opts.Interface())
	if err != nil {
		return nil, err
	}
	reg := &protoregistry.Files{}
	for _, f := range files {
		if f == nil {
			continue
		}
		if _, err := reg.FindFileByPath(f.Path()); err == nil {
			continue
		}
		if err := reg.RegisterFile(f); err != nil {
			return nil, fmt.Errorf("registering %s: %w", f.Path(), err)
		}
	}
	dm := dynamicpb.NewMessage(opts.Descriptor())
	err = proto.UnmarshalOptions{Resolver: dynamicpb.NewTypes(reg), AllowPartial: true}.Unmarshal(b, dm)
	if err != nil {
		return nil, err
	}
	return dm, nil
}

// ---- comparing a canonical value tree with a real message ---------------------------------------

// diff describes the first difference: what ("extra" real field the spec does not expect, "missing"
// field the spec expects, "value", "unknown" bytes left undecoded), at which nesting depth.
type diff struct {
	what  string
	depth int
	at    string
	det   string
}

func (d *diff) String() string {
	return fmt.Sprintf("%s at %s (depth %d): %s", d.what, d.at, d.depth, d.det)
}

func entryName(fd protoreflect.FieldDescriptor) string { return string(fd.Name()) }

// cmpMsg compares the expected entries with the set fields of m; skip names fields that are not part
// of the value (uninterpreted_option).
// ctx: the compiled files, to find the message type of an expanded Any.
type ctx struct{ files []protoreflect.FileDescriptor }

func (cx *ctx) message(name string) protoreflect.MessageDescriptor {
	if cx == nil {
		return nil
	}
	for _, f := range cx.files {
		if f == nil {
			continue
		}
		if md := f.Messages().ByName(protoreflect.Name(name)); md != nil {
			return md
		}
	}
	return nil
}

func cmpMsg(cx *ctx, exp []Entry, m protoreflect.Message, depth int, at string, skip map[string]bool) *diff {
	if len(m.GetUnknown()) > 0 {
		return &diff{"unknown", depth, at, fmt.Sprintf("%d undecoded bytes", len(m.GetUnknown()))}
	}
	type fv struct {
		fd protoreflect.FieldDescriptor
		v  protoreflect.Value
	}
	act := map[string]fv{}
	var names []string
	m.Range(func(fd protoreflect.FieldDescriptor, v protoreflect.Value) bool {
		n := entryName(fd)
		if skip[n] {
			return true
		}
		act[n] = fv{fd, v}
		names = append(names, n)
		return true
	})
	sort.Strings(names)
	seen := map[string]bool{}
	for i := range exp {
		e := &exp[i]
		a, ok := act[e.N]
		if !ok {
			return &diff{"missing", depth, at + "." + e.N, "expected " + showVal(&e.V)}
		}
		seen[e.N] = true
		if d := cmpField(cx, &e.V, a.fd, a.v, depth, at+"."+e.N); d != nil {
			return d
		}
	}
	for _, n := range names {
		if !seen[n] {
			return &diff{"extra", depth, at + "." + n, "real value " + act[n].v.String()}
		}
	}
	return nil
}

func cmpField(cx *ctx, exp *Val, fd protoreflect.FieldDescriptor, v protoreflect.Value, depth int, at string) *diff {
	switch {
	case fd.IsMap():
		if exp.K != "map" {
			return &diff{"value", depth, at, "expected " + exp.K + ", real field is a map"}
		}
		mp := v.Map()
		if mp.Len() != len(exp.Fs) {
			return &diff{"value", depth, at, fmt.Sprintf("expected %d map entries, real %d", len(exp.Fs), mp.Len())}
		}
		for i := range exp.Fs {
			ent := &exp.Fs[i].V
			var key string
			var val *Val
			for j := range ent.Fs {
				if ent.Fs[j].N == "key" {
					key = ent.Fs[j].V.S
				}
				if ent.Fs[j].N == "value" {
					val = &ent.Fs[j].V
				}
			}
			rv := mp.Get(protoreflect.ValueOfString(key).MapKey())
			if !rv.IsValid() {
				return &diff{"missing", depth, at + "[" + key + "]", "map key absent"}
			}
			if val == nil {
				if fd.MapValue().Message() != nil {
					val = &Val{K: "msg"}
				} else {
					val = &Val{K: "int", S: "0"}
				}
			}
			if d := cmpSingle(cx, val, fd.MapValue(), rv, depth, at+"["+key+"]"); d != nil {
				return d
			}
		}
		return nil
	case fd.IsList():
		if exp.K != "lst" {
			return &diff{"value", depth, at, "expected " + exp.K + ", real field is a list"}
		}
		l := v.List()
		if l.Len() != len(exp.Fs) {
			return &diff{"value", depth, at, fmt.Sprintf("expected %d elements, real %d", len(exp.Fs), l.Len())}
		}
		for i := range exp.Fs {
			if d := cmpSingle(cx, &exp.Fs[i].V, fd, l.Get(i), depth, fmt.Sprintf("%s[%d]", at, i)); d != nil {
				return d
			}
		}
		return nil
	}
	return cmpSingle(cx, exp, fd, v, depth, at)
}

func signed(v *Val) string {
	if v.Neg && v.S != "0" {
		return "-" + v.S
	}
	return v.S
}

func cmpSingle(cx *ctx, exp *Val, fd protoreflect.FieldDescriptor, v protoreflect.Value, depth int, at string) *diff {
	bad := func(real string) *diff {
		return &diff{"value", depth, at, fmt.Sprintf("expected %s, real %s %s", showVal(exp), fd.Kind(), real)}
	}
	switch fd.Kind() {
	case protoreflect.Int32Kind, protoreflect.Sint32Kind, protoreflect.Sfixed32Kind,
		protoreflect.Int64Kind, protoreflect.Sint64Kind, protoreflect.Sfixed64Kind:
		r := strconv.FormatInt(v.Int(), 10)
		if exp.K != "int" || signed(exp) != r {
			return bad(r)
		}
	case protoreflect.Uint32Kind, protoreflect.Fixed32Kind, protoreflect.Uint64Kind, protoreflect.Fixed64Kind:
		r := strconv.FormatUint(v.Uint(), 10)
		if exp.K != "int" || signed(exp) != r {
			return bad(r)
		}
	case protoreflect.BoolKind:
		r := strconv.FormatBool(v.Bool())
		if exp.K != "bool" || exp.S != r {
			return bad(r)
		}
	case protoreflect.StringKind:
		if exp.K != "str" || exp.S != v.String() {
			return bad(strconv.Quote(v.String()))
		}
	case protoreflect.BytesKind:
		if exp.K == "packed" { // the value of an expanded Any: the encoding of a message of type p.<S>
			md := cx.message(exp.S)
			if md == nil {
				return bad("(message type p." + exp.S + " not found in the compiled file)")
			}
			dm := dynamicpb.NewMessage(md)
			if err := (proto.UnmarshalOptions{AllowPartial: true}).Unmarshal(v.Bytes(), dm); err != nil {
				return bad("undecodable: " + err.Error())
			}
			return cmpMsg(cx, exp.Fs, dm, depth+1, at, nil)
		}
		if exp.K != "bytes" || exp.S != string(v.Bytes()) {
			return bad(strconv.Quote(string(v.Bytes())))
		}
	case protoreflect.EnumKind:
		ev := fd.Enum().Values().ByNumber(v.Enum())
		r := fmt.Sprintf("#%d", v.Enum())
		if ev != nil {
			r = string(ev.Name())
		}
		if exp.K != "enum" || exp.S != r {
			return bad(r)
		}
	case protoreflect.FloatKind, protoreflect.DoubleKind:
		bits := 64
		if fd.Kind() == protoreflect.FloatKind {
			bits = 32
		}
		r := v.Float()
		if exp.K != "flt" {
			return bad(strconv.FormatFloat(r, 'g', -1, 64))
		}
		var want float64
		switch exp.S {
		case "inf":
			want = math.Inf(1)
		case "nan":
			want = math.NaN()
		default:
			// the nearest representable value of the decimal text (integer literals included)
			w, err := strconv.ParseFloat(exp.S, bits)
			if err != nil && !math.IsInf(w, 0) {
				return bad("unparsable expectation: " + err.Error())
			}
			want = w
		}
		if exp.Neg {
			want = -want
		}
		if math.IsNaN(want) != math.IsNaN(r) || (!math.IsNaN(want) && want != r) {
			return bad(strconv.FormatFloat(r, 'g', -1, 64))
		}
	case protoreflect.MessageKind, protoreflect.GroupKind:
		if exp.K != "msg" {
			return bad("message")
		}
		return cmpMsg(cx, exp.Fs, v.Message(), depth+1, at, nil)
	}
	return nil
}

func showVal(v *Val) string {
	switch v.K {
	case "msg", "lst", "map", "packed":
		s := v.K + "{"
		for i := range v.Fs {
			if i > 0 {
				s += " "
			}
			if v.Fs[i].N != "" {
				s += v.Fs[i].N + ":"
			}
			s += showVal(&v.Fs[i].V)
		}
		return s + "}"
	case "str", "bytes":
		return v.K + strconv.Quote(v.S)
	}
	return v.K + " " + signed(v)
}
