"""C32 (and C13, see srcpos.py): SrcText.tla as position oracle.
TLC enumerates every text over the class alphabet up to a bound (MCSrcLoc) and exports the expected
(line, column) of every boundary in bytes / UTF-16 / runes; harness/srcloc replays them into
experimental/source.File.Location / InverseLocation."""
import json, os, time, collections
import vf

CFG_T = """SPECIFICATION Spec
CONSTANTS
  MaxLen = %d
  ExportMin = %d
  Alphabet = {%s}
INVARIANTS SpecRoundTrips Export
CHECK_DEADLOCK FALSE
"""



def _line(path, n):
    """the n-th (0-based) JSON line of a case file"""
    with open(path) as fh:
        for i, l in enumerate(fh):
            if i == n:
                return json.loads(l)
    return None

def run(pid, tier, replay=None):
    t0 = time.time()
    wd = vf.workdir(pid)
    binary = vf.build_driver("srcloc")
    runs = []
    if tier == "thorough":
        runs.append(("exh", 6, '"a", "T", "N", "R", "2", "3", "4"', None))
        runs.append(("sim", 40, '"a", "T", "N", "R", "2", "3", "4"', 600))
    else:
        runs.append(("exh", 5, '"a", "N", "R", "2", "3", "4"', None))
        runs.append(("sim", 30, '"a", "T", "N", "R", "2", "3", "4"', 60))
    verdict = vf.Verdict(pid)
    if replay:
        rep = json.load(open(replay))
        casefile = os.path.join(wd, "replay_cases.jsonl")
        vf.jsonl_write(casefile, [e["case"]["abstract"] for e in rep["examples"] if "abstract" in e.get("case", {})])
        rc, out, err = vf.run_driver(binary, [], stdin_path=casefile, timeout=600)
        bad = [l for l in out.splitlines() if l.strip() and not json.loads(l)["class"].startswith("HARNESS:parser-rejects")]
        for l in bad:
            print("REPLAY-MISMATCH", l[:400])
        return 1 if bad else 0
    states = trans = ncases = nontrivial = 0
    samples = []
    seen = set()
    for name, maxlen, alpha, sim in runs:
        cfg = "MCSrcLoc_%s.cfg" % name
        with open(wd + "/" + cfg, "w") as fh:
            fh.write(CFG_T % (maxlen, maxlen if sim else 0, alpha))
        casefile = wd + "/cases_%s.jsonl" % name
        with open(casefile, "w") as cf:
            cnt = [0]
            def sink(o, cf=cf, cnt=cnt):
                key = "".join(o["text"])
                if key in seen:
                    return
                seen.add(key)
                cf.write(json.dumps(o, separators=(",", ":")) + "\n")
                cnt[0] += 1
                if any(c in key for c in "234N"):
                    nonlocal_inc()
                if len(samples) < 3 and len(key) >= 4 and "N" in key and "4" in key:
                    samples.append(o)
            def nonlocal_inc():
                nonlocal nontrivial
                nontrivial += 1
            r = vf.tlc("MCSrcLoc", cfg, wd, workers=1 if sim else 8, simulate=sim, depth=maxlen if sim else None,
                       tseed=vf.seed() if sim else None, case_sink=sink, timeout=3000)
        if r.violated:
            raise vf.MachineryError("spec-level check failed in MCSrcLoc: " + str(r.violated))
        states += r.distinct
        trans += r.generated
        ncases += cnt[0]
        rc, out, err = vf.run_driver(binary, stdin_path=casefile, timeout=3000)
        if rc != 0:
            raise vf.MachineryError("srcloc driver failed: " + err)
        for line in out.splitlines():
            m = json.loads(line)
            verdict.disagree(m["class"], {"text": m["text"], "abstract": _line(casefile, m["n"])}, m["detail"])
    rc = verdict.finish()
    vf.write_evidence(pid, tier, "model_checking", {
        "states": states, "transitions": trans, "traces_validated_against_impl": ncases,
        "evaluations": ncases, "distinct_nontrivial": nontrivial,
        "rule": "every text over the class alphabet {a,T,N,R,2-,3-,4-byte char} up to the bound (exhaustive) plus "
                "TLC -simulate longer texts; a case = one text with every boundary offset x {bytes,utf16,runes}; "
                "non-trivial = contains a multi-byte character or a newline; distinct by text",
        "samples": samples or [{"text": "see cases"}],
        "exhaustive": True,
        "bounds": [{"run": n, "maxlen": m, "alphabet": a, "simulate": s} for n, m, a, s in runs],
    }, ["SrcText.tla is the position oracle (written from the property statement)",
        "concretisation a->'a', 2->U+00E9, 3->U+20AC, 4->U+1F600 is representative of its class"],
        time.time() - t0, violations=len(verdict.violations), known=verdict.known_hits)
    return rc
