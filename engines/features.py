"""C04: descriptor views agree with the Go protobuf runtime.

spec/Features.tla is the editions feature model (defaults per syntax / edition, lexical inheritance with explicit
overrides, and the derived descriptor attributes); spec/MCFeatures.tla lets TLC enumerate file values (syntax x overrides
at file / message / nested message / enum / field level x field shape) and export each with ALL expected attributes.
harness/features renders every case, compiles it with the stable compiler, builds the runtime's view with
protodesc.NewFile on the compiled proto and compares every attribute three ways (linker vs spec, runtime vs spec, linker
vs runtime).  File values that break exactly one protoc rule on resolved features are exported too (flagged): the
compiler may reject them, but if it accepts one the property must hold for it."""
import json, os, time, collections, hashlib, threading, concurrent.futures
import vf

CFG = """SPECIFICATION Spec
CONSTANTS
  MaxFields = %(maxfields)d
  MaxWeight = %(maxweight)d
  MinFields = %(minfields)d
  MinWeight = %(minweight)d
  SynSet = {%(syn)s}
  ScopeSet = {%(scopes)s}
  TypeSet = {%(types)s}
  FeatSet = {%(feats)s}
  MaxBroken = 1
INVARIANTS SpecSane Export
CHECK_DEADLOCK FALSE
"""

ALLSYN = '"proto2", "proto3", "editions"'
ALLSCOPES = '"file", "M", "N"'
ALLTYPES = '"int32", "string", "bytes", "enumE", "enumNE", "message", "group"'
ALLFEATS = '"field_presence", "enum_type", "repeated_field_encoding", "utf8_validation", "message_encoding", "json_format"'
# presence x enum-openness family: every combination of up to 3 of {field_presence at file / field level, enum_type at file / enum
# level, [default], non-zero first enum value} on every enum-typed field shape (singular, repeated, map value, oneof member,
# extension).  Covers "implicit-presence field x closed enum (first value 0 / 1)" with the explicit-presence and repeated controls:
# the compiler may reject these (flagged `breaks`), but whatever it accepts protodesc.NewFile must accept too.
PRESENUM = dict(name="presenum", maxfields=1, maxweight=3, minfields=1, minweight=2, syn='"editions"', scopes='"M"', sim=None,
                types='"enumE", "enumNE"', feats='"field_presence", "enum_type"')

# name, maxfields, maxweight, minfields, minweight, syntaxes, scopes, simulate(num traces) , depth, coverage
RUNS = {
    "quick": [
        dict(name="exh1", maxfields=1, maxweight=1, minfields=1, minweight=0, syn=ALLSYN, scopes=ALLSCOPES, sim=None),
        PRESENUM,
        dict(name="sim", maxfields=3, maxweight=9, minfields=2, minweight=2, syn=ALLSYN, scopes=ALLSCOPES, sim=10, depth=12),
    ],
    "thorough": [
        dict(name="exh1", maxfields=1, maxweight=1, minfields=1, minweight=0, syn=ALLSYN, scopes=ALLSCOPES, sim=None, coverage=True),
        PRESENUM,
        dict(name="exh2", maxfields=1, maxweight=2, minfields=1, minweight=2, syn=ALLSYN, scopes=ALLSCOPES, sim=None),
        dict(name="exh3", maxfields=1, maxweight=3, minfields=1, minweight=3, syn='"editions"', scopes='"N"', sim=None,
             types='"string", "enumNE", "message"'),   # one type per feature family: utf8 / enum + packing / encoding + presence
        dict(name="sim", maxfields=3, maxweight=10, minfields=2, minweight=3, syn=ALLSYN, scopes=ALLSCOPES, sim=250, depth=13),
    ],
}

# vacuity: every one of these must be expected by the spec in at least one replayed case
def coverage_flags(c):
    out = set()
    ed = c["syntax"] == "editions"
    out.add("syntax:" + c["syntax"])
    for b in c.get("breaks", []):
        out.add("breaks:" + b)
    for e in c["enums"]:
        if e["closed"]:
            out.add("enum:closed" + (":editions" if ed else ""))
        else:
            out.add("enum:open")
        if not e["zero"]:
            out.add("enum:first-nonzero")
    for m in c["msgs"]:
        if m["req"]:
            out.add("msg:required-numbers" + (":editions" if ed else ""))
        if len(m["req"]) > 1:
            out.add("msg:two-required")
        for o in m["oneofs"]:
            out.add("oneof:synthetic" if o["synth"] else "oneof:real")
        if m["mapentry"]:
            out.add("msg:map-entry")
        if ed and m["ov"] != "------":
            out.add("override:message")
    if ed and c["fov"] != "------":
        out.add("override:file")
    for f in c["fields"]:
        x, s = f["exp"], f["src"]
        out.add("kind:" + x["kind"] + (":editions" if ed and x["kind"] == "group" else ""))
        out.add("card:" + x["card"] + (":editions" if ed and x["card"] == "required" else ""))
        out.add("presence:%s" % x["pres"])
        out.add("packed:%s" % x["packed"])
        out.add("where:" + s["where"])
        out.add("scope:" + s["scope"])
        if x["map"]:
            out.add("field:map")
        if x["hasdef"]:
            out.add("field:default")
        if x["optkw"]:
            out.add("field:optional-keyword")
        if x["text"] not in (f["name"], "[" + f["fqn"] + "]"):
            out.add("field:group-like-text-name" + (":editions" if ed else ""))
        if s["lname"] and x["kind"] == "group" and x["text"] == f["name"]:
            out.add("field:delimited-not-group-like")
        if s["ov"] != "------":
            out.add("override:field")
        if s["packed"] != "unset":
            out.add("field:packed-option")
    return out


REQUIRED_FLAGS = {
    "syntax:proto2", "syntax:proto3", "syntax:editions",
    "breaks:open-enum-first-zero", "breaks:implicit-field-closed-enum", "breaks:implicit-field-default",
    "breaks:map-value-closed-enum-implicit", "breaks:map-value-enum-first-zero",
    "enum:closed", "enum:closed:editions", "enum:open", "enum:first-nonzero",
    "msg:required-numbers", "msg:required-numbers:editions", "oneof:synthetic", "oneof:real", "msg:map-entry",
    "override:message", "override:file", "override:field",
    "kind:group", "kind:group:editions", "kind:message", "kind:enum", "kind:int32", "kind:string", "kind:bytes",
    "card:required", "card:required:editions", "card:repeated", "card:optional",
    "presence:True", "presence:False", "packed:True", "packed:False",
    "where:plain", "where:oneof", "where:ext", "scope:file", "scope:M", "scope:N",
    "field:map", "field:default", "field:optional-keyword", "field:group-like-text-name", "field:group-like-text-name:editions",
    "field:delimited-not-group-like", "field:packed-option", "msg:two-required",
}


def case_id(o):
    return hashlib.sha1(json.dumps(o, sort_keys=True).encode()).hexdigest()


def run_driver_on(binary, casefile, verdict, stats, cases_by_line, extra=()):
    rc, out, err = vf.run_driver(binary, ["-workers", "6"] + list(extra), stdin_path=casefile, timeout=3000)
    if rc != 0:
        raise vf.MachineryError("features driver failed rc=%s: %s" % (rc, err[-2000:]))
    mism = []
    for line in out.splitlines():
        m = json.loads(line)
        mism.append(m)
    for l in err.splitlines():
        if l.startswith("STATS"):
            for kv in l.split()[1:]:
                k, v = kv.split("=")
                stats[k] += int(v)
    return mism


def run(pid, tier, replay=None):
    t0 = time.time()
    wd = vf.workdir(pid)
    binary = vf.build_driver("features")
    verdict = vf.Verdict(pid)
    stats = collections.Counter()
    states = trans = ncases = nontrivial = 0
    flags = set()
    samples = []
    bounds = []

    harness = []

    def judge(mism, casefile):
        lines = None
        for m in mism:
            if m["class"].startswith("HARNESS:"):
                # a Valid file value that does not compile, or a compiled file whose elements are not the spec's: not a C04
                # verdict by itself (exit 2) -- unless genuine attribute disagreements are found as well (then exit 1 wins)
                harness.append(m)
                continue
            case = {"key": m["key"]}
            if "line" in m:
                if lines is None:
                    lines = open(casefile).read().splitlines()
                case["case"] = json.loads(lines[m["line"]])
            verdict.disagree(m["class"], case, m["detail"][:3000])

    if replay:
        rep = json.load(open(replay))
        casefile = os.path.join(wd, "replay.jsonl")
        with open(casefile, "w") as fh:
            for e in rep["examples"]:
                if "case" in e["case"]:
                    fh.write(json.dumps(e["case"]["case"], separators=(",", ":")) + "\n")
                    ncases += 1
        judge(run_driver_on(binary, casefile, verdict, stats, None), casefile)
        rc = verdict.finish()
        print("replayed %d case(s)" % ncases)
        if rc == 0 and harness:
            raise vf.MachineryError("generator / renderer bug: %s" % harness[0]["detail"][:2000])
        return rc

    seen = set()
    demo_file = None
    lock = threading.Lock()
    counters = {"nontrivial": 0}

    def tlc_run(r):
        # each TLC run gets its own directory (vf.tlc copies the spec files there)
        rwd = os.path.join(wd, r["name"])
        os.makedirs(rwd, exist_ok=True)
        cfg = "MCFeatures_%s.cfg" % r["name"]
        with open(os.path.join(rwd, cfg), "w") as fh:
            fh.write(CFG % dict({"types": ALLTYPES, "feats": ALLFEATS}, **r))
        casefile = os.path.join(wd, "cases_%s.jsonl" % r["name"])
        cnt = [0]
        with open(casefile, "w") as cf:
            def sink(o):
                cid = case_id(o)
                fl = coverage_flags(o)
                with lock:
                    if cid in seen:
                        return
                    seen.add(cid)
                    cf.write(json.dumps(o, separators=(",", ":")) + "\n")
                    cnt[0] += 1
                    if o["weight"] >= 1:
                        counters["nontrivial"] += 1
                    flags.update(fl)
                    if len(samples) < 3 and o["weight"] >= 1 and o["syntax"] == "editions" and not o["breaks"] \
                            and (len(samples) == 0 or o["fields"][0]["src"]["type"] != samples[-1]["fields"][0]["src"]["type"]):
                        samples.append(o)
            sim = r.get("sim")
            res = vf.tlc("MCFeatures", cfg, rwd, workers=1 if sim else (2 if tier == "quick" else 6), simulate=sim,
                         depth=r.get("depth"), tseed=vf.seed() if sim else None, case_sink=sink, timeout=2400,
                         coverage=bool(r.get("coverage")))
        return casefile, res, cnt[0]

    # quick: the (two) TLC runs go in parallel; thorough: TLC runs one after the other (<= 6 workers) while the driver
    # replays the cases of the previous run
    pool = concurrent.futures.ThreadPoolExecutor(max_workers=3 if tier == "quick" else 1)
    futures = [(r, pool.submit(tlc_run, r)) for r in RUNS[tier]]
    try:
        for r, fut in futures:
            casefile, res, n = fut.result()
            sim = r.get("sim")
            if res.violated:
                raise vf.MachineryError("spec-level check failed in MCFeatures (%s): %s" % (r["name"], res.violated))
            if r.get("coverage") and res.coverage_zero:
                raise vf.MachineryError("vacuous actions in MCFeatures: %s" % res.coverage_zero)
            states += res.distinct or n
            trans += res.generated or n
            ncases += n
            bounds.append({"run": r["name"], "max_fields": r["maxfields"], "max_weight": r["maxweight"], "syntaxes": r["syn"],
                           "scopes": r["scopes"], "types": r.get("types", "all"), "simulate": sim, "cases": n,
                           "tlc_wall_s": round(res.wall, 1)})
            if n == 0:
                raise vf.MachineryError("run %s exported no case" % r["name"])
            if demo_file is None:
                demo_file = casefile
            judge(run_driver_on(binary, casefile, verdict, stats, None), casefile)
    finally:
        for _r, fut in futures:
            fut.cancel()
        pool.shutdown(wait=True)
    nontrivial = counters["nontrivial"]

    if harness:
        m = harness[0]
        msg = "%d case(s) the specification calls valid were not usable: %s %s: %s" % (len(harness), m["class"], m["key"], m["detail"][:2000])
        if not verdict.violations:
            raise vf.MachineryError("generator / renderer bug: " + msg)
        print("NOTE: " + msg[:600], flush=True)
        rc = verdict.finish()
        vf.write_evidence(pid, tier, "model_checking", {"states": states, "transitions": trans, "traces_validated_against_impl": ncases,
                          "evaluations": stats["checks"], "distinct_nontrivial": nontrivial, "samples": samples, "exhaustive": True,
                          "bounds": bounds, "driver_stats": dict(stats), "unusable_cases": len(harness)}, [], time.time() - t0,
                          violations=len(verdict.violations), known=verdict.known_hits)
        return rc

    need = set(REQUIRED_FLAGS)
    if tier == "quick":   # two required fields in one message come from the simulated files only
        need -= {"msg:two-required"}
    missing = sorted(need - flags)
    if missing:
        raise vf.MachineryError("vacuous: no replayed case expects %s" % missing)

    # binding demonstration: corrupt one exported expectation (is_packed of every field) on a sample -> every case must be
    # rejected by the driver; and corrupt a resolved feature letter.
    demo = os.path.join(wd, "demo.jsonl")
    lines = open(demo_file).read().splitlines()
    rng = vf.rng()
    pick = vf.sample(rng, [l for l in lines if '"breaks":[]' in l], 100)
    with open(demo, "w") as fh:
        fh.write("\n".join(pick) + "\n")
    dstats = collections.Counter()
    for attr in ("is_packed", "required_numbers", "feat.json_format"):
        mm = run_driver_on(binary, demo, None, dstats, None, extra=["-corrupt", attr])
        hit = {m["line"] for m in mm if ("." + attr + ":") in m["class"]}
        if len(hit) != len(pick):
            raise vf.MachineryError("binding self-test: corrupted expectation %s not rejected on every case (%d of %d)" %
                                    (attr, len(hit), len(pick)))

    rc = verdict.finish()
    vf.write_evidence(pid, tier, "model_checking", {
        "states": states, "transitions": trans, "traces_validated_against_impl": ncases,
        "evaluations": stats["checks"], "distinct_nontrivial": nontrivial,
        "rule": "a case = one file value of Features.tla (syntax x explicit feature overrides at file / message / nested message / "
                "enum / field level, [packed], [default], non-zero first enum value x field shapes: type x label x repeated / map / "
                "oneof member / extension x declaration scope x group-like naming); exhaustive up to the stated number of fields and "
                "of decorations (BFS), denser ones from tlc -simulate; distinct by the whole file value; non-trivial = at least one "
                "override / option; evaluations = attribute comparisons (each attribute of each element: linker vs spec, runtime vs "
                "spec, linker vs runtime)",
        "samples": samples, "exhaustive": True, "bounds": bounds,
        "driver_stats": dict(stats), "spec_expectation_coverage": sorted(flags),
        "binding_selftest": "expectations is_packed / required_numbers / feat.json_format corrupted on %d cases: all rejected" % len(pick),
    }, ["Features.tla is the oracle: written from the editions design (feature defaults per edition, targets, lexical inheritance, "
        "feature inference for proto2 / proto3 keywords) and the documented protoreflect contracts, not from the Go code",
        "protodesc.NewFile of google.golang.org/protobuf is the differential partner the property names; where it and the spec "
        "disagree the spec was checked first (HasOptionalKeyword of a proto3 `optional` extension is not asserted: protodesc never "
        "sets it; resolved features of map-entry key / value fields are asserted only where propagation from the map field is certain)",
        "resolved features are observed through protoutil.ResolveFeature on both descriptor trees; proto2 / proto3 elements resolve "
        "to their syntax defaults by that function's documented contract",
        "message-level overrides exist only for json_format, enum-level for enum_type / json_format, field-level for the other four: "
        "the compiler enforces the features' declared targets, so other placements are not accepted sources"],
        time.time() - t0, violations=len(verdict.violations), known=verdict.known_hits)
    return rc

