"""C05 C06 C07: CompileExec.tla (the stable compiler's task executor, compiler.go).

Per check:
  1. TLC explores MCCompileExec exhaustively for the tier's configuration families (all import graphs
     over 2-3 files, request sequences, parallelism, fault plans, external cancellation): safety
     invariants written from the statements, deadlock freedom, and liveness (Terminates, NoLeak) under
     weak fairness.  Each configuration is exported once with the outcomes the statements allow.
  2. Direction A: every exported configuration is run on the real Compiler (harness/compexec) with a
     fault-injecting resolver, under several seed-perturbed schedules (build-tagged gates), optionally
     cancelled at the k-th gate; outcome class, panic value, goroutine leak, hang are compared with the
     spec's expectation.
  3. Direction B: the hook trace of every such run is validated by TLC against CompileExecTrace.tla
     (each event = one step of CompileExec with the logged fields bound; invariants evaluated along the
     trace; End event requires every task terminal and all permits back).
"""
import json, os, time, itertools, collections
import vf

MC_CFG = """SPECIFICATION Spec
CONSTANTS
  Files = {%(files)s}
  DP = "d"
  Pars = {%(pars)s}
  MaxCancels = %(cancels)d
  SampleSize = %(sample)d
  Configs <- %(configs)s
INVARIANTS TypeOK SemInv NoFalseCycle CycleIff OkIff FaultFails OkClosed PanicSurfaces AllowedOutcome Export
%(props)s
"""

SCHED_CFG = """SPECIFICATION SpecH
CONSTANTS
  Files = {%(files)s}
  DP = "d"
  Pars = {%(pars)s}
  MaxCancels = %(cancels)d
  SampleSize = %(sample)d
  Configs <- %(configs)s
VIEW ViewH
INVARIANTS SemInv ExportSched
CHECK_DEADLOCK FALSE
"""

TRACE_CFG = """SPECIFICATION TraceSpec
CONSTANTS
  Files = {%(files)s}
  DP = "d"
  MaxCancels = 1
  Configs = {}
INVARIANTS TypeOK SemInv NoFalseCycle CycleIff OkIff FaultFails OkClosed PanicSurfaces AllowedOutcome
POSTCONDITION TraceAccepted
CHECK_DEADLOCK FALSE
"""


def fileset(names):
    return ", ".join('"%s"' % n for n in names)


class Stats:
    def __init__(self):
        self.states = 0
        self.transitions = 0
        self.configs = 0
        self.runs = 0
        self.traces_ok = 0
        self.events = 0
        self.families = []
        self.samples = []
        self.nontrivial = set()


def mc(wd, st, name, files, pars, cancels, sample, configs, liveness=True, timeout=3000, workers=8):
    cfg = "MCCE_%s.cfg" % name
    with open(os.path.join(wd, cfg), "w") as fh:
        fh.write(MC_CFG % {"files": fileset(files), "pars": ", ".join(map(str, pars)), "cancels": cancels,
                           "sample": sample, "configs": configs,
                           "props": "PROPERTIES Terminates NoLeak" if liveness else ""})
    r = vf.tlc("MCCompileExec", cfg, wd, workers=workers, tseed=vf.seed(), timeout=timeout)
    if r.violated:
        # a design-level counterexample is not a verdict about the code (DESIGN 2.6); it means the model
        # or the property transcription is wrong, or the design is - either way it needs a human.
        raise vf.MachineryError("TLC reports %s violated in CompileExec (%s); see %s" % (r.violated, name, r.stdout_path))
    st.states += r.distinct
    st.transitions += r.generated
    st.configs += len(r.cases)
    st.families.append({"family": name, "files": len(files), "pars": list(pars), "cancels": cancels,
                        "graph_sample": sample, "configs": len(r.cases), "distinct_states": r.distinct,
                        "liveness": liveness, "wall_s": round(r.wall, 1)})
    for c in r.cases:
        c["files"] = list(files)
    return r.cases


def sched_families(pid, tier):
    """(name, files, pars, cancels, graph sample, configs): schedules exported by MCCompileExecSched"""
    F2 = ("a", "b"); F3 = ("a", "b", "c"); FD = ("a", "b", "d")
    if pid == "C07":
        if tier == "quick":
            return [("s2_faults", F2, (1, 2), 0, 0, "ConfigsFaults")]
        # schedules are exported WITHOUT external cancellation: once the context is done a Go `select` with two
        # ready cases picks either, so the real run may legitimately leave the exported schedule (a thorough run
        # with cancels=1 raised false schedule-nonconformance alarms); cancellation is covered by the k-th-gate
        # injection above and by trace validation
        return [("s2_faults", F2, (1, 2, 3), 0, 0, "ConfigsFaults"), ("s3_faults", F3, (2,), 0, 25, "ConfigsFaults")]
    if tier == "quick" and pid == "C05":
        return [("s3", F3, (2,), 0, 6, "ConfigsNoFaultSmall")]
    if tier == "quick":
        return [("s2", F2, (1, 2), 0, 0, "ConfigsMissing"), ("sd", FD, (1,), 0, 0, "ConfigsOvr")]
    return [("s2", F2, (1, 2, 3), 0, 0, "ConfigsMissing"), ("s3p1", F3, (1,), 0, 0, "ConfigsNoFaultSmall"),
            ("s3p2", F3, (2,), 0, 150, "ConfigsNoFaultSmall"), ("sd", FD, (1, 2, 3), 0, 0, "ConfigsOvr")]


def schedule_replay(pid, tier, wd, st, verdict, binary, rng):
    """Direction A for interleavings: every TLC-exported schedule is driven through the gates of the real
    compiler, one goroutine per model step; the goroutine must be parked at the gate the model's next
    action names, the outcome must be the one the model computed for that schedule, and the trace of the
    controlled run is validated like any other."""
    total = 0
    for (name, files, pars, cancels, sample, configs) in sched_families(pid, tier):
        cfg = "MCCES_%s.cfg" % name
        with open(os.path.join(wd, cfg), "w") as fh:
            fh.write(SCHED_CFG % {"files": fileset(files), "pars": ", ".join(map(str, pars)), "cancels": cancels,
                                  "sample": sample, "configs": configs})
        r = vf.tlc("MCCompileExecSched", cfg, wd, workers=8, tseed=vf.seed(), timeout=3000)
        if r.violated:
            raise vf.MachineryError("TLC: %s violated in MCCompileExecSched (%s)" % (r.violated, name))
        scheds = r.cases
        st.states += r.distinct
        st.transitions += r.generated
        if tier == "quick" and len(scheds) > 1500:
            scheds = rng.sample(scheds, 1500)
        runs = []
        for i, c in enumerate(scheds):
            sched = c["sched"]
            if ["ExternalCancel"] in sched:      # defensive: never drive past a cancellation (see sched_families)
                sched = sched[:sched.index(["ExternalCancel"])]
                c["truncated"] = True
            runs.append({"id": i + 1, "imports": c["imports"], "req": c["req"], "plan": c["plan"], "par": c["par"],
                         "ovr": c["ovr"], "seed": 0, "trace": True, "sched": sched})
        by_id = {x["id"]: x for x in runs}
        res, tracefile = run_real(binary, wd, name, runs)
        for rid, o in res.items():
            c = scheds[rid - 1]
            small = {k: c[k] for k in ("imports", "req", "plan", "par", "ovr", "sched")}
            if o.get("nonconf"):
                import re
                m = re.search(r"step \d+ \['(\w+)'", o["nonconf"])
                verdict.disagree("schedule-nonconformance:" + (m.group(1) if m else "?"), small, o["nonconf"])
            elif o.get("hung"):
                verdict.disagree("hang", small, "controlled schedule did not finish")
            elif c.get("truncated"):
                pass
            elif o["class"] != c["mres"] and not (cancels and o["class"] == "ctx"):
                verdict.disagree("schedule-outcome:%s-instead-of-%s" % (o["class"].split(":")[0], c["mres"]), small, o.get("err", ""))
            if o.get("leak", 0) > 0:
                verdict.disagree("goroutine-leak", small, "after a controlled schedule")
        total += len(res)
        st.families.append({"family": "schedules:" + name, "files": len(files), "pars": list(pars), "cancels": cancels,
                            "graph_sample": sample, "schedules_exported": len(r.cases), "schedules_replayed": len(res),
                            "distinct_states": r.distinct, "wall_s": round(r.wall, 1)})
        if len(st.samples) < 4 and scheds:
            st.samples.append({"schedule": scheds[len(scheds) // 2]})
        validate(wd, st, verdict, name, tracefile, files, by_id)
        if len(verdict.violations) > 20:
            break
    st.sched_replayed = total


def run_real(binary, wd, tag, runs, timeout=3000, env=None):
    """Execute run specs on the real compiler. Returns (results by id, trace path)."""
    runfile = os.path.join(wd, "runs_%s.jsonl" % tag)
    tracefile = os.path.join(wd, "trace_%s.ndjson" % tag)
    vf.jsonl_write(runfile, runs)
    rc, out, err = vf.run_driver(binary, [tracefile], stdin_path=runfile, timeout=timeout, env=env)
    res = {}
    for line in out.splitlines():
        try:
            o = json.loads(line)
        except ValueError:
            continue
        res[o["id"]] = o
    if rc != 0:
        # An unrecovered panic in a goroutine of the code under test kills the driver process. That is
        # behaviour of the real code (C07: "does not crash"), not a machinery failure - but only when the
        # panic's stack is in the compiler and not in the harness.
        marker = "panic:" if "panic:" in err else ("fatal error:" if "fatal error:" in err else None)
        in_code = (marker is not None and "github.com/bufbuild/protocompile" in err
                   and "zzverif" not in err[err.index(marker):].split("github.com/bufbuild/protocompile")[0][-400:])
        if rc == 66 and env and "GORACE" in env:
            in_code = False
            return res, tracefile   # race reports are read from the log files by the caller
        if not in_code:
            raise vf.MachineryError("compexec driver failed rc=%s: %s" % (rc, err[-2000:]))
        nxt = next((r for r in runs if r["id"] not in res), runs[-1])
        first = err[err.index(marker):][:1500]
        res[nxt["id"]] = {"id": nxt["id"], "class": "crash", "err": "process died: " + first, "descs": {}, "leak": 0,
                          "hung": False, "panic_ok": False, "crashed_process": True}
    return res, tracefile


def split_traces(tracefile):
    """-> list of (run id, [lines])"""
    out = []
    cur = None
    with open(tracefile) as fh:
        for line in fh:
            if line.startswith('{"ev":"Config"'):
                cur = (json.loads(line)["id"], [line])
                out.append(cur)
            elif cur is not None:
                cur[1].append(line)
    return out


def validate(wd, st, verdict, tag, tracefile, files, runs_by_id, batch_events=40000):
    """Validate all traces of one driver execution; batches of ~batch_events lines per TLC run."""
    traces = [t for t in split_traces(tracefile) if t[1][-1].startswith('{"ev":"End"')]
    tcfg = "CETrace_%s.cfg" % tag
    with open(os.path.join(wd, tcfg), "w") as fh:
        fh.write(TRACE_CFG % {"files": fileset(files)})
    i = 0
    nb = 0
    while i < len(traces):
        batch = []
        n = 0
        while i < len(traces) and (n == 0 or n + len(traces[i][1]) <= batch_events):
            batch.append(traces[i])
            n += len(traces[i][1])
            i += 1
        pending = batch
        while pending:
            nb += 1
            with open(os.path.join(wd, "trace.ndjson"), "w") as fh:
                for _id, lines in pending:
                    fh.writelines(lines)
            total = sum(len(l) for _i, l in pending)
            r = vf.tlc("CompileExecTrace", tcfg, wd, workers=1, timeout=1800, heap="6g")
            if r.violated is None and not r.postcondition_failed:
                st.traces_ok += len(pending)
                st.events += total
                break
            # locate the offending run: line number reached
            if r.postcondition_failed:
                pos = r.rejected_at if r.rejected_at is not None else 0
                what = "trace-rejected"
            else:
                pos = max(r.depth, 1)
                txt = open(r.stdout_path).read()
                import re
                m = re.findall(r"/\\ l = (\d+)", txt)
                pos = int(m[-1]) - 1 if m else pos
                what = "trace-invariant:" + str(r.violated)
            acc = 0
            k = 0
            for k, (_id, lines) in enumerate(pending):
                if acc + len(lines) > pos:
                    break
                acc += len(lines)
            rid, lines = pending[k]
            st.traces_ok += k
            off = pos - acc
            nxt = lines[off].strip() if off < len(lines) else "?"
            ev = json.loads(nxt).get("ev", "?") if nxt.startswith("{") else "?"
            cls = what + (":" + ev if what == "trace-rejected" else "")
            verdict.disagree(cls, {"run": runs_by_id.get(rid), "matched_prefix": [x.strip() for x in lines[:off]][-25:],
                                   "next_event": nxt}, "run %s: %s at event %d of its trace" % (rid, what, off))
            pending = pending[k + 1:]
            if len(verdict.violations) > 20:
                return


def classify_run(verdict, spec, case, res):
    """Outcome checks of one real run against the configuration's allowed outcomes."""
    ok = True
    allowed = set(case["allowed"])
    if spec.get("collide"):
        allowed = ({"cycle"} if case["hasCycle"] else set()) | {"dup"}
    if spec.get("cancel", 0) > 0:
        allowed.add("ctx")
    small = {k: spec[k] for k in ("imports", "req", "plan", "par", "seed", "cancel", "public", "shared", "reporter", "ovr", "collide", "opts", "srcres", "fanin") if k in spec}
    cls = res["class"]
    if res.get("hung"):
        verdict.disagree("hang", small, "Compile did not return within the watchdog; stacks:\n" + res.get("stacks", "")[:3000])
        return False
    if cls == "crash":
        verdict.disagree("crash", small, res.get("err", ""))
        return False
    if cls not in allowed:
        kind = "cycle-missed" if "cycle" in allowed and cls == "ok" else \
               "false-cycle" if cls == "cycle" else \
               "fault-swallowed" if cls == "ok" else "outcome:" + cls.split(":")[0]
        verdict.disagree(kind, small, "got %s (%s), statements allow %s" % (cls, res.get("err", "")[:200], sorted(allowed)))
        ok = False
    if cls == "panic" and not res.get("panic_ok"):
        verdict.disagree("panic-value-lost", small, res.get("err", ""))
        ok = False
    if res.get("leak", 0) > 0:
        verdict.disagree("goroutine-leak", small, "%d goroutines left; stacks:\n%s" % (res["leak"], res.get("stacks", "")[:3000]))
        ok = False
    return ok


def mk_runs(cases, seeds, start_id=1, only=None, **extra):
    runs = []
    rid = start_id
    for ci, c in enumerate(cases):
        if only is not None and ci not in only:
            continue
        for s in seeds:
            r = {"id": rid, "case": ci, "imports": c["imports"], "req": c["req"], "plan": c["plan"], "par": c["par"],
                 "ovr": c.get("ovr", False), "seed": s, "trace": True}
            r.update(extra)
            runs.append(r)
            rid += 1
    return runs


def seeds_for(n):
    base = vf.seed() * 1000
    return [0] + [base + i for i in range(1, n)]


# ---------------------------------------------------------------------------------------------

def families(pid, tier):
    F2 = ("a", "b")
    F3 = ("a", "b", "c")
    FD = ("a", "b", "d")     # "d" plays an overridden google/protobuf/descriptor.proto
    if pid == "C06":
        if tier == "quick":
            return [("f2_missing", F2, (1, 2), 0, 0, "ConfigsMissing", True),
                    ("f3_sample", F3, (1, 2), 0, 8, "ConfigsNoFaultSmall", True),
                    ("fd_override", FD, (1,), 0, 0, "ConfigsOvr", False)]
        return [("f2_missing", F2, (1, 2, 3), 0, 0, "ConfigsMissing", True),
                ("f3_all_p1", F3, (1,), 0, 0, "ConfigsNoFault", True),
                ("f3_all_p2", F3, (2,), 0, 0, "ConfigsNoFaultSmall", True),
                ("f3_all_p3", F3, (3,), 0, 0, "ConfigsNoFaultSmall", True),
                ("f3_missing", F3, (1, 2), 0, 120, "ConfigsMissing", True),
                ("fd_override", FD, (1, 2, 3), 0, 0, "ConfigsOvr", True)]
    if pid == "C05":
        if tier == "quick":
            return [("f2_all", F2, (1, 2), 0, 0, "ConfigsNoFault", False),
                    ("f3_sample", F3, (1, 3), 0, 6, "ConfigsNoFaultSmall", False),
                    ("fd_override", FD, (2,), 0, 0, "ConfigsOvr", False)]
        return [("f2_all", F2, (1, 2, 3), 0, 0, "ConfigsNoFault", False),
                ("f3_sample", F3, (1, 2, 3), 0, 150, "ConfigsNoFault", False),
                ("fd_override", FD, (1, 2, 3), 0, 0, "ConfigsOvr", False)]
    if pid == "C07":
        if tier == "quick":
            return [("f2_faults_cancel", F2, (1, 2), 1, 0, "ConfigsFaults", True),
                    ("f3_faults", F3, (2,), 1, 3, "ConfigsFaults", False)]
        return [("f2_faults_cancel", F2, (1, 2, 3), 1, 0, "ConfigsFaults", True),
                ("f3_faults_cancel", F3, (1, 2), 1, 12, "ConfigsFaults", True),
                ("fd_override_cancel", FD, (1, 2), 1, 0, "ConfigsOvr", True)]
    raise vf.MachineryError("unknown property " + pid)


def feature(c):
    """abstract feature vector of a configuration (for distinct_nontrivial)"""
    n_edges = sum(len(v) for v in c["imports"].values())
    return (c["hasCycle"], c["hasFault"], tuple(sorted(set(c["plan"].values()))), len(c["req"]), c["par"], n_edges,
            tuple(sorted(len(v) for v in c["imports"].values())))


def run(pid, tier, replay=None):
    t0 = time.time()
    wd = vf.workdir(pid)
    st = Stats()
    verdict = vf.Verdict(pid)
    binary = vf.build_driver("compexec")
    rng = vf.rng()

    if replay:
        rep = json.load(open(replay))
        runs = []
        for i, e in enumerate(rep["examples"]):
            sp = e["case"].get("run") or e["case"]
            sp = dict(sp)
            sp["id"] = i + 1
            sp["trace"] = True
            runs.append(sp)
        res, tracefile = run_real(binary, wd, "replay", runs)
        for r in runs:
            print(json.dumps(res.get(r["id"])))
        return 0

    for (name, files, pars, cancels, sample, configs, live) in families(pid, tier):
        cases = mc(wd, st, name, files, pars, cancels, sample, configs, liveness=live)
        for c in cases:
            st.nontrivial.add(feature(c))
        if len(st.samples) < 3 and cases:
            st.samples.append({k: cases[len(cases) // 2][k] for k in ("imports", "req", "plan", "par", "allowed")})
        if pid == "C06":
            nseeds = 3 if tier == "quick" else 4
            runs = mk_runs(cases, seeds_for(nseeds))
            # the accept-all reporter lets every task report its cycle: more schedules of the handler
            runs += mk_runs(cases, seeds_for(2)[1:], start_id=len(runs) + 1, reporter="accept",
                            only=set(rng.sample(range(len(cases)), min(len(cases), 150))))
        elif pid == "C05":
            runs = c05_runs(cases, tier, rng)
        else:
            runs = c07_runs(cases, tier, rng)
        # execute in chunks so that one hang does not lose everything
        by_id = {r["id"]: r for r in runs}
        res, tracefile = run_real(binary, wd, name, runs)
        st.runs += len(res)
        if len(res) < len(runs) and not any(r.get("hung") or r.get("crashed_process") for r in res.values()):
            raise vf.MachineryError("driver returned %d of %d results" % (len(res), len(runs)))
        for rid, r in res.items():
            classify_run(verdict, by_id[rid], cases[by_id[rid]["case"]], r)
        if pid == "C05":
            c05_compare(verdict, runs, res)
            c05_fanin_race(wd, name, cases, verdict, st, tier, rng)
        cap = 1000 if tier == "quick" else 5000
        if len(runs) > cap:
            # every run's outcome is checked; a seed-chosen subset of the traces is validated by TLC
            keep = set(rng.sample(sorted(by_id), cap))
            filt = os.path.join(wd, "trace_%s_sub.ndjson" % name)
            with open(filt, "w") as fh:
                for rid, lines in split_traces(tracefile):
                    if rid in keep:
                        fh.writelines(lines)
            tracefile = filt
        validate(wd, st, verdict, name, tracefile, files, by_id)
        if len(verdict.violations) > 20:
            break

    if len(verdict.violations) <= 20:
        schedule_replay(pid, tier, wd, st, verdict, binary, rng)
    rc = verdict.finish()
    level = "fault_enumeration" if pid == "C07" else "model_checking"
    vf.write_evidence(pid, tier, level, {
        "states": st.states, "transitions": st.transitions,
        "traces_validated_against_impl": st.traces_ok, "trace_events_validated": st.events,
        "evaluations": st.runs, "distinct_nontrivial": len(st.nontrivial),
        "rule": "configurations = (import graph over 2-3 files with <=2 imports per file, request sequence, parallelism, "
                "resolver fault plan) enumerated by TLC from MCCompileExec (all graphs, or a TLC -seed sample of graphs "
                "where stated); each is run on the real Compiler under several seed-perturbed schedules; distinct_nontrivial "
                "counts distinct abstract feature vectors (cyclic?, faulty?, fault kinds, #requested, par, #edges, out-degree profile)",
        "samples": st.samples, "families": st.families, "configurations": st.configs,
        "schedules_replayed_through_gates": getattr(st, "sched_replayed", 0),
        "exhaustive": all(f.get("graph_sample", 0) == 0 for f in st.families),
    }, ["CompileExec.tla models compiler.go at critical-section granularity (DESIGN Appendix A); semaphore grant order is "
        "nondeterministic in the model (Go's is FIFO: a refinement)",
        "hook events are logged at linearization points (under the protecting mutex; give-up events before, obtain events after)",
        "a missing/faulty file together with a cycle may yield either error (statement read as: cycle error only if a cycle exists; "
        "exactly-when in fault-free graphs)",
        "perturbed real schedules sample the interleavings; TLC covers all of them on the model"],
        time.time() - t0, violations=len(verdict.violations), known=verdict.known_hits)
    return rc


# ---------------------------------------------------------------------------------------------
# C05: same inputs -> same success and same descriptor bytes for every par, request order, schedule

def c05_runs(cases, tier, rng):
    groups = {}
    for ci, c in enumerate(cases):
        key = (json.dumps(c["imports"], sort_keys=True), tuple(sorted(c["req"])), json.dumps(c["plan"], sort_keys=True), c.get("ovr", False))
        groups.setdefault(key, []).append(ci)
    runs = []
    rid = 1
    pars_extra = (4, 16) if tier == "quick" else (4, 8, 16)
    nseeds = 2 if tier == "quick" else 3
    for gi, (key, cis) in enumerate(sorted(groups.items())):
        c0 = cases[cis[0]]
        variants = []
        for ci in cis:
            variants.append((ci, cases[ci]["req"], cases[ci]["par"]))
        # parallelism beyond what the model explored, on the first request order
        for p in pars_extra:
            variants.append((cis[0], c0["req"], p))
        for (ci, req, par) in variants:
            for s in seeds_for(nseeds):
                for flavour in ({}, {"shared": True}, {"public": True}, {"collide": True}, {"opts": True}):
                    if flavour and (s == 0 or (gi + par) % 3):  # flavours on a third of the matrix
                        continue
                    if flavour.get("collide") and (len(req) < 2 or c0.get("ovr")):
                        continue
                    if flavour.get("public") and c0.get("ovr"):
                        continue
                    r = {"id": rid, "case": ci, "group": gi, "imports": c0["imports"], "req": req, "plan": c0["plan"],
                         "par": par, "ovr": c0.get("ovr", False), "seed": s, "trace": True}
                    r.update(flavour)
                    if r.get("opts"):
                        if c0.get("ovr"):
                            continue
                        r["trace"] = False   # the standard descriptor.proto import is not part of the model's file set
                        for rep_ in range(3):    # the same inputs again must give identical bytes
                            r2 = dict(r); r2["id"] = rid; r2["seed"] = s + 11 * rep_; rid += 1
                            runs.append(r2)
                        continue
                    if r.get("collide"):
                        r["trace"] = False   # link failures are outside CompileExec.tla (Symbols.tla covers them)
                        for rep_ in range(4):   # repeat: the collision verdict must not depend on link overlap
                            r2 = dict(r); r2["id"] = rid; r2["seed"] = s + 7 * rep_; rid += 1
                            runs.append(r2)
                        continue
                    runs.append(r)
                    rid += 1
    return runs


def c05_compare(verdict, runs, res):
    groups = collections.defaultdict(list)
    for r in runs:
        if r["id"] in res:
            groups[(r["group"], bool(r.get("public")), bool(r.get("collide")), bool(r.get("opts")))].append(r)
    for _key, rs in groups.items():
        ref = res[rs[0]["id"]]
        for r in rs[1:]:
            o = res[r["id"]]
            small = {k: r[k] for k in ("imports", "req", "plan", "par", "seed", "public", "shared", "ovr", "collide", "opts") if k in r}
            if (o["class"] == "ok") != (ref["class"] == "ok"):
                verdict.disagree("nondeterministic:success", small, "class %s vs %s (par %s req %s)" % (o["class"], ref["class"], rs[0]["par"], rs[0]["req"]))
            elif o["class"] == "ok" and o["descs"] != ref["descs"]:
                verdict.disagree("nondeterministic:descriptor-bytes", small, "descriptor hashes %s vs %s" % (o["descs"], ref["descs"]))
            # which of several independent failures is reported first may depend on the schedule: the
            # statement only fixes success and the produced bytes (an earlier version compared the error
            # class too and raised a false alarm on "self-import + duplicate symbol" inputs)


def c05_fanin_race(wd, name, cases, verdict, st, tier, rng):
    """Public re-export fan-in under the race detector: every import-free file re-exports a hidden leaf whose
    type every file uses, so several importers resolve symbols through the same already-linked dependency
    at the same time. Any race report (or a crash such as 'concurrent map writes') is a violation."""
    binary = vf.build_driver("compexec", race=True)
    pick = [c for c in cases if not c.get("ovr") and not c["hasCycle"] and not c["hasFault"]]
    pick = rng.sample(pick, min(len(pick), 40 if tier == "quick" else 300))
    runs = []
    rid = 1
    for c in pick:
        for par in (2, 4):
            for s in seeds_for(3):
                # two hidden importers of the first requested file: both resolve re-exported symbols through
                # the same, already linked dependency
                imps = dict(c["imports"]); x = c["req"][0]
                imps["ya"] = [x]; imps["yb"] = [x]
                runs.append({"id": rid, "case": 0, "imports": imps, "req": list(c["req"]) + ["ya", "yb"], "plan": c["plan"], "par": par,
                             "seed": s, "trace": False, "public": True, "fanin": True})
                rid += 1
    if not runs:
        return
    logp = os.path.join(wd, "race_" + name)
    res, _tf = run_real(binary, wd, name + "_fanin", runs, env={"GORACE": "halt_on_error=0 log_path=" + logp})
    st.runs += len(res)
    for rid_, o in res.items():
        if o["class"] != "ok":
            sp = next(r for r in runs if r["id"] == rid_)
            verdict.disagree("fanin:" + o["class"].split(":")[0], {k: sp[k] for k in ("imports", "req", "par", "seed", "public", "fanin")}, o.get("err", "")[:600])
    for fn in os.listdir(wd):
        if fn.startswith("race_" + name):
            txt = open(os.path.join(wd, fn)).read()
            if "DATA RACE" in txt:
                import re
                fr = re.findall(r"^  ([\w./()*]+)\(\)", txt, re.M)
                top = next((f for f in fr if "protocompile" in f and "zzverif" not in f), "?")
                verdict.disagree("data-race:" + top.split("/")[-1], {"log": fn, "flavour": "public fan-in"}, txt[:3000])
    st.families.append({"family": "fanin-race:" + name, "runs": len(res)})


# ---------------------------------------------------------------------------------------------
# C07: every fault position x cancellation point

def c07_runs(cases, tier, rng):
    runs = []
    rid = 1
    kmax = 40
    for ci, c in enumerate(cases):
        ks = [0] + (list(range(1, kmax + 1)) if tier == "thorough" else sorted(rng.sample(range(1, kmax + 1), 6)))
        for k in ks:
            for s in (seeds_for(2) if k == 0 else seeds_for(2)[1:]):
                r = {"id": rid, "case": ci, "imports": c["imports"], "req": c["req"], "plan": c["plan"], "par": c["par"],
                     "ovr": c.get("ovr", False), "seed": s, "cancel": k, "trace": True}
                runs.append(r)
                rid += 1
                if k == 0 and not c.get("ovr"):
                    # the same fault plan realised through the library's SourceResolver with two import paths
                    r2 = dict(r); r2["id"] = rid; r2["srcres"] = True
                    runs.append(r2)
                    rid += 1
    cap = 3000 if tier == "quick" else 60000
    if len(runs) > cap:
        keep = sorted(rng.sample(range(len(runs)), cap))
        runs = [runs[i] for i in keep]
    return runs
