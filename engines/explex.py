"""C28 (experimental parser is total) and C29 (lexer tokens tile the input).

Direction A supplies the inputs: TLC enumerates spec/MCLexInput.tla (every text over class alphabets up
to a bound, plus `-simulate` for longer ones) and spec/MCLexMutant.tla (the mutation relation over valid
base files), exporting one case per state with what the specification knows about the concrete input
(byte length, UTF-8 validity, NUL prefix).  harness/explex concretises each case, runs the real
experimental lexer / parser.Parse and records what the public API shows at call return as ndjson traces.
Direction B decides: TLC validates every recorded trace against spec/TokenTileTrace.tla (C29) or
spec/ExpParseCallTrace.tla (C28); each rejected trace comes back as a REJECT record naming the checks of
TokenTile.tla / ExpParseCall.tla it broke, from which the classification string is built.
"""
import glob, json, os, subprocess, time, threading, collections
import vf

# ----------------------------------------------------------------------------------------------
# alphabets (symbols of spec/MCLexInput.tla)

FULL = ["dq", "sq", "bs", "sl", "st", "lp", "rp", "lb", "rb", "lc", "rc", "lt", "gt", "sc", "eq", "co", "cl",
        "d0", "d8", "x", "e", "b", "a", "n", "u", "dot", "mi", "pl", "us", "qm", "am", "pi", "ex", "hash",
        "lf", "cr", "tab", "sp", "nul", "inv", "u2", "u3", "bom"]
MID = ["dq", "sq", "bs", "sl", "st", "lp", "rp", "lb", "rb", "lc", "rc", "sc", "eq", "d0", "x", "e", "b", "dot",
       "mi", "lf", "sp", "nul", "inv", "u2"]
MID4 = ["dq", "sq", "bs", "sl", "st", "lp", "rp", "lb", "rc", "sc", "d0", "x", "e", "dot", "lf", "sp", "nul", "u2"]
CORE = ["dq", "bs", "sl", "st", "lc", "rc", "rb", "d0", "x", "lf"]
CORE2 = ["dq", "sq", "bs", "lp", "rp", "lb", "rc", "dot", "d0", "e", "a", "sp"]

# grammar-level alphabets (token symbols of MCLexInput.tla) for the parser
def _tok(words):
    return ["t:" + w for w in words.split()]


TOK_TOP = _tok('syntax = PROTO3 ; import package option message enum service extend a . { } ( )')
TOK_BODY = _tok('reserved extensions 1 a STR , to max ; } = [ ] optional map < > oneof group { option ( ) . - default int32')
TOK_BODY_CORE = _tok('reserved extensions 1 a STR , to max ; } = [ ] - { (')
TOK_SVC = _tok('rpc a ( ) returns stream . { } ; option = 1 M')
PRE_MSG, PRE_ENUM, PRE_SVC, PRE_OPT = "msg", "enum", "svc", "opt"      # contexts defined in MCLexInput.tla
HDRS = ("p2", "p3", "e23")                                               # headers defined in MCLexInput.tla
# declaration bodies: message / extend / oneof body under proto2 / proto3 / edition 2023 headers
TOK_DECL = _tok('optional repeated group G a a.b (x) = 1 { } ; int32 map < > oneof extensions reserved to max option [ ]')
TOK_GROUP = _tok('G a a.b (x) = 1 { } ;')
# byte families for line endings (CR, CRLF inside and after comments)
CRLF = ["sl", "a", "cr", "lf", "sp", "sc"]
CRLF_BLOCK = ["sl", "st", "cr", "lf"]
# numeric literals (hex / exponent / sign / separators), alone and behind `a = `, and behind 0x / 0X
NUM = ["d0", "d1", "x", "X", "e", "E", "p", "pl", "mi", "dot", "us", "a", "sc", "sp"]
NUM_HEX = ["d1", "e", "E", "p", "pl", "mi", "dot", "us", "a", "sc"]
TOK_EXPR = _tok('a 1 STR - . , : { } [ ] < > ( ) ;')

GEN_CFG = """SPECIFICATION Spec
CONSTANTS
  MaxLen = %d
  ExportMin = %d
  Alphabet = {%s}
  PrefixName = {%s}
  Headers = {%s}
INVARIANTS Export
CHECK_DEADLOCK FALSE
"""

MUT_CFG = """SPECIFICATION Spec
CONSTANTS
  Files = {%s}
  Stride = %d
  Phase = %d
  Depths = {%s}
INVARIANTS Export
CHECK_DEADLOCK FALSE
"""

TRACE_CFG = """SPECIFICATION TSpec
INVARIANT TraceInv
POSTCONDITION Consumed
CHECK_DEADLOCK FALSE
"""

# CEL-like expression fragments and other small valid inputs used as extra base files for mutation
FRAGMENTS = [
    'syntax = "proto3";\nmessage M {\n  string s = 1 [(v).cel = {id: "a", expression: "this.x > 0 && this.y in [1, 2] ? \'ok\' : \'no\'"}];\n}\n',
    'option (rule) = { expr: a.b(c)[0] == -1.5e+3 || !(x < y) && z >= 0x1F ? f(g, "s\\n") : [1, 2u, {k: v}] };\n',
    'edition = "2023";\nextend Foo { optional int32 bar = 100 [default = -0x7f, json_name = "b\\x61r"]; }\n',
    'message A { map<string, .pkg.B> m = 1; reserved 2, 4 to max, "x"; oneof o { group G = 3 { } } }\n',
    'service S { rpc M (stream .a.B) returns (C) { option (x).y = { a: [<b: 1>, <b: 2>] "c" \'d\' }; }; }\n',
    'a && b || c ? d : e in f == g != h <= i >= j < k > l + m - n * o / p % q',
]

EXPORT_SHIM = "harness/explex/parser_export.go.txt"


def _build():
    ov = {os.path.join(vf.REPO, "experimental", "parser", "zzverif_export.go"): os.path.join(vf.ROOT, EXPORT_SHIM)}
    return vf.build_driver("explex", extra_overlay=ov)


def _base_files(wd, tier, plan=None):
    """Valid base files for the mutation relation, in a deterministic order, small files first."""
    paths = sorted(glob.glob(os.path.join(vf.REPO, "internal", "testdata", "*.proto")))
    for sub in ("internal/lexer/testdata", "parser/testdata", "ast/printer/testdata", "ir/testdata"):
        paths += sorted(glob.glob(os.path.join(vf.REPO, "experimental", sub, "**", "*.proto"), recursive=True))
    frag = []
    for k, text in enumerate(FRAGMENTS):
        p = os.path.join(wd, "fragment_%d.proto" % k)
        with open(p, "w") as fh:
            fh.write(text)
        frag.append(p)
    sized = sorted(((os.path.getsize(p), p) for p in paths if os.path.getsize(p) > 0))
    rng = vf.rng()
    if tier == "quick":
        small = [p for s, p in sized if 40 <= s <= 700]
        pick = frag + rng.sample(small, min(6, len(small)))
    else:
        small = [p for s, p in sized if s <= 1500]
        large = [p for s, p in sized if 1500 < s <= 12000]
        pick = frag + rng.sample(small, min(plan["files_small"], len(small))) + \
            rng.sample(large, min(plan["files_large"], len(large)))
    return pick


# ----------------------------------------------------------------------------------------------

class Cases:
    """Case file with sequential ids (id = line number)."""

    def __init__(self, path):
        self.path = path
        self.fh = open(path, "w")
        self.n = 0
        self.lock = threading.Lock()

    def sink(self, o):
        with self.lock:
            self.n += 1
            o["id"] = self.n
            self.fh.write(json.dumps(o, separators=(",", ":")) + "\n")

    def counting(self):
        """A sink that also counts what went through it (generators run concurrently)."""
        box = [0]

        def f(o):
            box[0] += 1
            self.sink(o)
        return f, box

    def close(self):
        self.fh.close()

    def lookup(self, ids):
        ids = set(ids)
        out = {}
        with open(self.path) as fh:
            for k, line in enumerate(fh, 1):
                if k in ids:
                    out[k] = json.loads(line)
        return out


def _q(sym):
    return '"%s"' % sym


def _gen_exh(wd, cases, name, alphabet, maxlen, exportmin, simulate=None, workers=4, prefix="", headers=()):
    cfg = "MCLexInput_%s.cfg" % name
    os.makedirs(os.path.join(wd, "gen_" + name), exist_ok=True)
    with open(os.path.join(wd, "gen_" + name, cfg), "w") as fh:
        fh.write(GEN_CFG % (maxlen, exportmin, ", ".join(_q(a) for a in alphabet),
                            ", ".join(_q(c) for c in ((prefix,) if isinstance(prefix, str) else prefix)) if prefix else _q("none"),
                            ", ".join(_q(h) for h in headers) if headers else _q("none")))
    sink, box = cases.counting()
    r = _tlc("MCLexInput", cfg, os.path.join(wd, "gen_" + name), workers=1 if simulate else workers, simulate=simulate,
               depth=(maxlen + 1) if simulate else None, tseed=vf.seed() if simulate else None,
               case_sink=sink, timeout=1500, heap="4g")
    if r.violated:
        raise vf.MachineryError("MCLexInput: unexpected violation " + str(r.violated))
    return {"run": name, "alphabet": len(alphabet), "prefix": prefix or "", "headers": list(headers), "maxlen": maxlen, "exportmin": exportmin,
            "simulate": simulate,
            "states": r.distinct, "generated": r.generated, "cases": box[0]}


def _gen_mut(wd, binary, cases, files, stride, depths, workers=4):
    lst = os.path.join(wd, "files.json")
    with open(lst, "w") as fh:
        json.dump(files, fh)
    rc, out, err = vf.run_driver(binary, ["-files", lst, "-describe"], timeout=300)
    if rc != 0:
        raise vf.MachineryError("explex -describe failed: " + err)
    desc = [json.loads(l) for l in out.splitlines() if l.strip()]
    gd = os.path.join(wd, "gen_mut")
    os.makedirs(gd, exist_ok=True)
    with open(os.path.join(gd, "ExpLexFiles.tla"), "w") as fh:
        fh.write("---- MODULE ExpLexFiles ----\n(* generated: byte length and leaf-token byte lengths of each base file *)\n")
        fh.write("FileBytes == <<%s>>\n" % ", ".join(str(d["bytes"]) for d in desc))
        fh.write("FileLFs == <<%s>>\n" % ", ".join(str(d["lfs"]) for d in desc))
        fh.write("FileTokLens == <<%s>>\n" % ", ".join("<<%s>>" % ", ".join(map(str, d["toklens"])) for d in desc))
        fh.write("====\n")
    cfg = "MCLexMutant_run.cfg"
    phase = vf.seed() % max(stride, 1)
    with open(os.path.join(gd, cfg), "w") as fh:
        fh.write(MUT_CFG % (", ".join(str(i + 1) for i in range(len(files))), stride, phase,
                            ", ".join(map(str, depths))))
    sink, box = cases.counting()
    r = _tlc("MCLexMutant", cfg, gd, workers=workers, case_sink=sink, timeout=1500, heap="4g")
    if r.violated:
        raise vf.MachineryError("MCLexMutant: unexpected violation " + str(r.violated))
    return lst, {"run": "mutants", "files": len(files), "stride": stride, "phase": phase, "depths": list(depths),
                 "states": r.distinct, "generated": r.generated, "cases": box[0],
                 "file_bytes": sum(d["bytes"] for d in desc)}


# ----------------------------------------------------------------------------------------------
# trace validation

def _split(path, head_event, max_events, outdir, stem):
    """Split an ndjson trace file at trace boundaries into chunks of about max_events events."""
    os.makedirs(outdir, exist_ok=True)
    chunks, cur, n, traces = [], None, 0, 0
    marker = '"e":"%s"' % head_event
    with open(path) as fh:
        for line in fh:
            if marker in line:
                traces += 1
                if cur is None or n >= max_events:
                    if cur:
                        cur.close()
                    d = os.path.join(outdir, "%s_%03d" % (stem, len(chunks)))
                    os.makedirs(d, exist_ok=True)
                    chunks.append(d)
                    cur = open(os.path.join(d, TRACE_FILE[stem]), "w")
                    n = 0
            if cur is None:
                raise vf.MachineryError("trace file does not start with a %s event" % head_event)
            cur.write(line)
            n += 1
    if cur:
        cur.close()
    return chunks, traces


TRACE_FILE = {"lex": "tokentile_trace.ndjson", "parse": "expparse_trace.ndjson"}
TRACE_MODULE = {"lex": "TokenTileTrace", "parse": "ExpParseCallTrace"}


def _validate(chunks, stem, parallel=4):
    """Run TLC on every chunk; returns (rejects, states, transitions)."""
    rejects, lock = [], threading.Lock()
    totals = {"states": 0, "trans": 0}
    errors = []
    sem = threading.Semaphore(parallel)

    def work(d):
        with sem:
            try:
                with open(os.path.join(d, "trace.cfg"), "w") as fh:
                    fh.write(TRACE_CFG)
                mine = []
                r = _tlc(TRACE_MODULE[stem], "trace.cfg", d, workers=1, timeout=1500, heap="6g",
                           case_sink=mine.append)
                nev = sum(1 for _ in open(os.path.join(d, TRACE_FILE[stem])))
                if r.violated or r.postcondition_failed or r.distinct != nev + 1:
                    raise vf.MachineryError("trace validation did not consume %s (violated=%s post=%s states=%d events=%d); see %s"
                                            % (d, r.violated, r.postcondition_failed, r.distinct, nev, r.stdout_path))
                with lock:
                    rejects.extend(mine)
                    totals["states"] += r.distinct
                    totals["trans"] += r.generated
                os.remove(os.path.join(d, TRACE_FILE[stem]))
            except Exception as ex:  # noqa
                errors.append(ex)

    ts = [threading.Thread(target=work, args=(d,)) for d in chunks]
    for t in ts:
        t.start()
    for t in ts:
        t.join()
    if errors:
        raise errors[0] if isinstance(errors[0], vf.MachineryError) else vf.MachineryError(repr(errors[0]))
    return rejects, totals["states"], totals["trans"]


# ----------------------------------------------------------------------------------------------
# classification of rejected traces (the failed checks come from the specification)

BRACKET_CHECKS = {"unmatched_reported", "opener_opens", "closer_closes", "implicit_close_ok", "openers_all_closed",
                  "bracket_is_keyword", "fusion_kind", "string_run"}


def classify_lex(r):
    why = set(r["why"])
    out = []
    if "panic" in why:
        out.append("panic:lexer")
    if "covers_input" in why:
        why.discard("concat_is_input")
        if r.get("ice"):
            out.append("tiling:aborted-by-ice")
        elif r["ntok"] == 0:
            if not r["utf8"]:
                out.append("tiling:rejected-non-utf8")
            elif r["nulp"]:
                out.append("tiling:rejected-nul-prefix")
            else:
                out.append("tiling:empty-stream")
        else:
            out.append("tiling:eof-gap")
    for w in sorted(why - {"panic", "covers_input"}):
        out.append(("brackets:" if w in BRACKET_CHECKS else "tiling:") + w.replace("_", "-"))
    return out


def classify_parse(r):
    why = set(r["why"])
    out = []
    if "panic" in why:
        msg = ""
        for e in r.get("info", []):
            if e.get("e") == "Panic":
                msg = e.get("msg", "")
        out.append("panic:parse" + (":" + _sanitize(msg) if msg else ""))
    if "hang" in why:
        out.append("hang:parse")
    if "no_ice" in why:
        sites = sorted({e.get("site", "unknown") for e in r.get("info", []) if e.get("lvl") == 1}) or ["unknown"]
        out += ["ice:" + s for s in sites]
    if "ok_iff_no_error" in why:
        if r["worst"] >= 3:
            out.append("ok:false-without-error")
        elif r["worst"] == 1:
            out.append("ok:true-despite-ice")
        else:
            out.append("ok:true-despite-error")
    for w in sorted(why - {"panic", "hang", "abort", "no_ice", "ok_iff_no_error"}):
        out.append("span:" + w.replace("_", "-") if "inside" in w else "call:" + w.replace("_", "-"))
    return out


def _sanitize(msg):
    import re
    return re.sub(r"\d+", "N", msg)[:60]


# ----------------------------------------------------------------------------------------------

def _plan(tier, prop):
    if tier == "thorough":
        if prop == "parse":      # short traces that repeat a lot: go deeper on inputs
            return {
                "exh": [("full", FULL, 3, 0), ("mid", MID, 4, 4), ("core", CORE, 5, 5), ("core2", CORE2, 4, 4),
                        ("crlf", CRLF, 5, 3), ("numhex", NUM, 4, 1, ("hex", "eqhex"))],
                "sim": [("sim", FULL, 24, 100), ("simcore", CORE, 16, 200)],
                "tok": [("toktop", TOK_TOP, 4, 1, ""), ("tokmsg", TOK_BODY, 3, 1, PRE_MSG), ("tokmsg4", TOK_BODY_CORE, 4, 4, PRE_MSG),
                        ("tokenum", TOK_BODY_CORE, 3, 1, PRE_ENUM),
                        ("toksvc", TOK_SVC, 4, 1, PRE_SVC), ("tokopt", TOK_EXPR, 4, 1, PRE_OPT),
                        ("decl3", TOK_DECL, 3, 1, ("msg", "ext", "oneof"), HDRS),
                        ("decl4", TOK_DECL, 4, 4, ("msg",), ("p2",)),
                        ("group5", TOK_GROUP, 5, 0, ("msg.group",), HDRS),
                        ("group4x", TOK_GROUP, 4, 0, ("msg.optgroup", "ext.group", "oneof.group"), HDRS),
                        ("declsim5", TOK_DECL, 5, 5, ("msg", "ext", "oneof"), HDRS, 400),
                        ("declsim6", TOK_DECL, 6, 6, ("msg", "ext", "oneof"), HDRS, 400)],
                "stride": 29, "depths": [1, 3, 64, 2000],
                "chunk": 400000, "gen_workers": 3, "gen_parallel": 3, "files_small": 40, "files_large": 2,
            }
        return {                  # one trace per input (it carries the bytes): fewer, but every token is validated
            "exh": [("full", FULL, 3, 0), ("mid", MID4, 4, 4), ("core", CORE, 5, 5), ("core2", CORE2, 4, 4),
                    ("crlf", CRLF, 6, 4), ("crlfblock", CRLF_BLOCK, 7, 5), ("num", NUM, 4, 1, ("none", "eq")),
                    ("numhex", NUM, 4, 1, ("hex", "HEX", "eqhex"))],
            "sim": [("sim", FULL, 24, 100), ("simcore", CORE, 16, 200)],
            "stride": 131, "depths": [1, 3, 64],
            "chunk": 400000, "gen_workers": 3, "gen_parallel": 3, "files_small": 40, "files_large": 1,
        }
    return {
        "exh": [("full", FULL, 2, 0), ("mid", MID4, 3, 3), ("core", CORE, 4, 4)] +
               ([("crlf", CRLF, 5, 3), ("crlfblock", CRLF_BLOCK, 6, 5), ("num", NUM, 3, 1, ("none", "eq")),
                 ("numhex", NUM_HEX, 4, 1, ("hex",)), ("numhexeq", NUM_HEX, 3, 1, ("HEX", "eqhex"))]
                if prop == "lex" else [("numhex", NUM_HEX, 3, 1, ("hex", "eqhex"))]),
        # tlc -simulate checks the export invariant on every successor of the last step: num x |alphabet| cases
        "sim": [("sim", FULL, 16, 30), ("simcore", CORE, 10, 60)],
        "tok": [("tokmsg4", TOK_BODY_CORE[:10], 4, 4, PRE_MSG), ("toksvc", TOK_SVC[:10], 3, 1, PRE_SVC),
                # declaration bodies: exhaustive to 3 tokens in a proto2 message body, to 2 in every header x body kind;
                # longer ones (4 and 5 tokens) by tlc -simulate (VERIF_SEED); after `group`: exhaustive to 3 more tokens
                # in every header x body kind, to 4 in a proto2 message body
                ("decl3", TOK_DECL, 3, 1, ("msg",), ("p2",)),
                ("decl2x", TOK_DECL, 2, 1, ("msg", "ext", "oneof"), HDRS),
                ("group4", TOK_GROUP, 3, 0, ("msg.group", "msg.optgroup", "ext.group", "oneof.group"), HDRS),
                ("group5", TOK_GROUP, 4, 4, ("msg.group",), ("p2",)),
                ("declsim", TOK_DECL, 5, 4, ("msg", "ext", "oneof"), HDRS, 60)] if prop == "parse" else [],
        "stride": 61 if prop == "parse" else 131,
        "depths": [2, 40],
        "chunk": 120000, "gen_workers": 2, "gen_parallel": 7, "files_small": 6, "files_large": 0,
    }


def _tlc(*a, **kw):
    """vf.tlc, retried once when the JVM died without a TLC error (other people's jobs share this machine)."""
    try:
        return vf.tlc(*a, **kw)
    except vf.MachineryError as ex:
        if "Error:" in str(ex) or "timed out" in str(ex):
            raise
        time.sleep(2)
        return vf.tlc(*a, **kw)


def _parallel(jobs, width):
    """Run independent generator jobs concurrently; first MachineryError wins."""
    out, errs, sem = [None] * len(jobs), [], threading.Semaphore(width)

    def work(k):
        with sem:
            try:
                out[k] = jobs[k]()
            except Exception as ex:  # noqa
                errs.append(ex)
    ts = [threading.Thread(target=work, args=(k,)) for k in range(len(jobs))]
    for t in ts:
        t.start()
    for t in ts:
        t.join()
    if errs:
        raise errs[0] if isinstance(errs[0], vf.MachineryError) else vf.MachineryError(repr(errs[0]))
    return out


def _t(label, t0):
    if os.environ.get("VERIF_TIMING"):
        print("  [%6.1fs] %s" % (time.time() - t0, label), flush=True)


def run(pid, tier, replay=None):
    t0 = time.time()
    prop = {"C28": "parse", "C29": "lex"}[pid]
    wd = vf.workdir(pid)
    binary = _build()
    _t("driver built", t0)
    cases = Cases(os.path.join(wd, "cases.ndjson"))
    runs, filelist = [], None
    gen_states = gen_trans = 0
    if replay:
        rep = json.load(open(replay))
        for e in rep["examples"]:
            c = dict(e["case"])
            cases.sink({"kind": "raw", "hex": c["hex"]})
        runs.append({"run": "replay", "cases": cases.n})
    else:
        plan = _plan(tier, prop)
        files = _base_files(wd, tier, plan)
        jobs = []
        for ent in plan["exh"]:
            name, alpha, maxlen, exportmin = ent[:4]
            ctx = ent[4] if len(ent) > 4 else ""
            jobs.append(lambda a=(name, alpha, maxlen, exportmin), c=ctx: _gen_exh(
                wd, cases, *a, workers=plan["gen_workers"], prefix=c))
        for name, alpha, maxlen, num in plan["sim"]:
            jobs.append(lambda a=(name, alpha, maxlen, maxlen, num): _gen_exh(wd, cases, *a))
        for ent in plan.get("tok", []):
            name, alpha, maxlen, exportmin, prefix = ent[:5]
            hdrs = ent[5] if len(ent) > 5 else ()
            sim = ent[6] if len(ent) > 6 else None
            jobs.append(lambda a=(name, alpha, maxlen, exportmin), pre=prefix, h=hdrs, sm=sim: _gen_exh(
                wd, cases, *a, simulate=sm, workers=plan["gen_workers"], prefix=pre, headers=h))
        jobs.append(lambda: _gen_mut(wd, binary, cases, files, plan["stride"], plan["depths"], workers=plan["gen_workers"]))
        for res in _parallel(jobs, plan["gen_parallel"]):
            if isinstance(res, tuple):
                filelist, res = res
            runs.append(res)
        gen_states = sum(r["states"] for r in runs)
        gen_trans = sum(r["generated"] for r in runs)
    cases.close()
    _t("cases generated: %d" % cases.n, t0)
    if cases.n == 0:
        raise vf.MachineryError("no cases generated")

    # run the real code
    tracefile = os.path.join(wd, prop + "_traces.ndjson")
    args = ["-" + prop, tracefile]
    if filelist:
        args += ["-files", filelist]
    rc, out, err = vf.run_driver(binary, args, stdin_path=cases.path, timeout=1500)
    verdict = vf.Verdict(pid)
    crashed = None
    if rc == 3:
        crashed = ("hang:" + prop, err)
    elif rc != 0:
        if "HARNESS-ERROR" in err or ("fatal error" not in err and "panic" not in err):
            raise vf.MachineryError("explex driver failed rc=%s: %s" % (rc, err[-2000:]))
        crashed = ("crash:" + prop, err)
    stats = {}
    for line in err.splitlines():
        if line.startswith("STATS "):
            stats = json.loads(line[6:])
    if crashed:
        # the process died inside the code under test: real-code behaviour, reported with the case being run
        cid = None
        for line in crashed[1].splitlines():
            if line.startswith("HANG case=") or line.startswith("DEEP case="):
                cid = int(line.split("=")[1])
        case = cases.lookup([cid]).get(cid) if cid else None
        verdict.disagree(crashed[0], case or {"unknown": True}, crashed[1][-1500:])
        rcode = verdict.finish()
        vf.write_evidence(pid, tier, "model_checking", {"states": gen_states, "transitions": gen_trans,
                          "traces_validated_against_impl": 0, "samples": [], "note": "driver died in the code under test"},
                          [], time.time() - t0, violations=len(verdict.violations), known=verdict.known_hits)
        return rcode
    if not stats:
        raise vf.MachineryError("explex driver printed no STATS: " + err[-1000:])
    _t("driver done: %s" % stats, t0)

    # validate every recorded trace against the specification
    nev = stats.get(prop + "_events", 0)
    plan_chunk = max(40000, min(_plan(tier, prop)["chunk"], nev // 3 + 1))
    chunks, ntraces = _split(tracefile, "Begin" if prop == "lex" else "Call", plan_chunk, os.path.join(wd, "val"), prop)
    samples = _samples(tracefile, prop)
    feats = _features(tracefile, prop)
    if not replay:
        vac = [f for f in NEEDED[prop] if not feats.get("traces_with_" + f)]
        if vac:
            raise vf.MachineryError("vacuous run: no recorded trace exercises %s" % vac)
    _t("split into %d chunks" % len(chunks), t0)
    rejects, vstates, vtrans = _validate(chunks, prop)
    _t("validated: %d rejects" % len(rejects), t0)

    extra = {}
    if tier == "thorough" and not replay:
        extra["design_check"] = _design_check(wd, prop)
        extra["binding_selftest"] = _selftest(wd, prop, tracefile, {r["reject"] for r in rejects})
        _t("design check and binding self-test done", t0)

    # classify
    per_class = collections.Counter()
    need = {}
    rejects.sort(key=lambda r: (r["len"], r["reject"]))    # smallest inputs first: they become the replay examples
    for r in rejects:
        for cls in (classify_lex(r) if prop == "lex" else classify_parse(r)):
            per_class[cls] += 1
            need.setdefault(cls, [])
            if len(need[cls]) < 25:
                need[cls].append(r)
    ids = {r["reject"] for rs in need.values() for r in rs}
    concrete = _hexdump(binary, cases, ids, filelist, wd) if ids else {}
    for cls, rs in sorted(need.items()):
        total = per_class[cls]
        for k, r in enumerate(rs):
            c = concrete.get(r["reject"], {"id": r["reject"]})
            detail = "rejected by %s: failed checks %s at event %s (%d trace(s) of this class in the run)" % (
                TRACE_MODULE[prop], sorted(r["why"]), r.get("at"), total)
            verdict.disagree(cls, c, detail + " " + json.dumps({k2: v for k2, v in r.items() if k2 not in ("why",)})[:600])
        # account for the ones not materialised so that counts in KNOWN-FINDING lines are right
        for _ in range(total - len(rs)):
            verdict.disagree(cls, concrete.get(rs[0]["reject"], {}), "(same class)")
    rcode = verdict.finish()
    for cls, n in sorted(per_class.items()):
        print("  rejected traces: %-40s %d" % (cls, n), flush=True)

    dist = stats.get(prop + "_traces", 0)
    dups = stats.get(prop + "_dups", 0)
    vf.write_evidence(pid, tier, "model_checking", {
        "states": gen_states + vstates, "transitions": gen_trans + vtrans,
        "generator_states": gen_states, "validator_states": vstates,
        "traces_validated_against_impl": ntraces,
        "evaluations": stats.get("cases", 0) * (2 if prop == "lex" else 1),
        "distinct_nontrivial": feats.get("nontrivial_traces", 0),
        "distinct_traces": dist,
        "features": feats,
        **extra,
        "rule": ("one evaluation = one real lexer run (each input under the parser's lexer configuration and under the same "
                 "configuration with EmitNewline set) recorded as Begin/Diag*/Emit*/End; " if prop == "lex" else
                 "one evaluation = one real parser.Parse call recorded as Call/Diag*/Return; ") +
                "distinct = traces that differ from every other recorded trace (identical ones are suppressed by the "
                "driver, %d suppressed); every distinct trace is validated by TLC; non-trivial = a distinct trace that has a "
                "diagnostic%s (feature counts measured from the trace file, see features)" % (
                    dups, ", a bracket, a fused string run, a comment or an unrecognised token" if prop == "lex" else ""),
        "rejected_by_class": dict(per_class),
        "samples": samples,
        "exhaustive": True,
        "bounds": runs,
    }, [
        "inputs: exhaustive over the stated class alphabets and lengths; longer texts by tlc -simulate; mutants on the "
        "lattice p % Stride = Phase (Phase from VERIF_SEED) of the listed operators over seed-selected base files -- "
        "mutant coverage is a sample (exploration), not exhaustive",
        "TokenTile.tla / ExpParseCall.tla are the statement of the property (written from properties.jsonl, not from the lexer)",
        "the driver only projects API-visible state (token offsets, kinds, fusion partners, report levels and annotation "
        "spans via Report.ToProto); text equality and the cursor walk are computed by the driver and checked as booleans",
        "the lexer is reached through parser's own configuration (go build -overlay adds an accessor to package parser)",
    ], time.time() - t0, violations=len(verdict.violations), known=verdict.known_hits)
    return rcode


def _features(tracefile, prop):
    """Measured feature histogram of the recorded traces (vacuity control and distinct_nontrivial)."""
    c = collections.Counter()
    flags = set()

    def flush():
        if flags - {"ok_true", "ok_false"}:
            c["nontrivial_traces"] += 1
        for f in flags:
            c["traces_with_" + f] += 1
        flags.clear()
    with open(tracefile) as fh:
        for line in fh:
            if prop == "lex":
                if '"e":"Emit"' in line:
                    c["tokens"] += 1
                    if '"role":"open"' in line:
                        flags.add("string_run" if '"k":"String"' in line else "fused_bracket_pair")
                    elif '"role":"close"' in line and '"k":"Unrecognized"' in line:
                        flags.add("implicit_closer")
                    elif '"role":"leaf"' in line and '"br":""' not in line:
                        flags.add("unmatched_bracket")
                    if '"k":"Unrecognized"' in line and '"role":"leaf"' in line:
                        flags.add("unrecognized_token")
                    if '"k":"Comment"' in line:
                        flags.add("comment")
                elif '"e":"Diag"' in line:
                    flags.add("error_diag" if ('"lvl":2' in line or '"lvl":1' in line) else "warning_diag")
                elif '"e":"Begin"' in line:
                    flush()
                    c["traces"] += 1
                    if '"cfg":"nl"' in line:
                        c["traces_cfg_nl"] += 1
            else:
                if '"e":"Diag"' in line:
                    o = json.loads(line)
                    flags.add("level_%d" % o["lvl"])
                    if o["spans"]:
                        flags.add("spans")
                    if o["edits"]:
                        flags.add("edits")
                elif '"e":"Return"' in line:
                    flags.add("ok_true" if '"ok":true' in line else "ok_false")
                elif '"e":"Call"' in line:
                    flush()
                    c["traces"] += 1
    flush()
    return dict(c)


NEEDED = {
    "lex": ["fused_bracket_pair", "unmatched_bracket", "implicit_closer", "string_run", "unrecognized_token",
            "comment", "error_diag"],
    "parse": ["level_2", "level_3", "spans", "edits", "ok_true", "ok_false"],
}


def _design_check(wd, prop):
    """Thorough tier: TLC explores the design specification itself (every observation it accepts, small bounds)
    and checks that accepted observations satisfy the property invariants; plus reachability witnesses."""
    d = os.path.join(wd, "design")
    os.makedirs(d, exist_ok=True)
    mod = "MCTokenTile" if prop == "lex" else "MCExpParseCall"
    r = _tlc(mod, mod + ".cfg", d, workers=3, timeout=900, heap="4g")
    if r.violated:
        raise vf.MachineryError("design-level check of %s failed: %s (see %s)" % (mod, r.violated, r.stdout_path))
    out = {"module": mod, "states": r.distinct, "transitions": r.generated, "witnesses": []}
    if prop == "lex":
        base = open(os.path.join(vf.SPEC, "MCTokenTile.cfg")).read()
        for w in ("NoDoneWithPair", "NoDoneWithUnmatched"):
            cfg = "MCTokenTile_%s.cfg" % w
            with open(os.path.join(d, cfg), "w") as fh:
                fh.write("\n".join(("INVARIANTS " + w) if l.startswith("INVARIANTS") else l for l in base.splitlines()) + "\n")
            rw = _tlc(mod, cfg, d, workers=2, timeout=900, heap="4g")
            if rw.violated != w:
                raise vf.MachineryError("design-level witness %s is not reachable: the model is vacuous" % w)
            out["witnesses"].append(w)
    return out


def _selftest(wd, prop, tracefile, rejected_ids):
    """Binding demonstration (thorough tier): take one real accepted trace, (a) corrupt one recorded field,
    (b) drop one event; TLC must reject both and accept the untouched copy."""
    head = "Begin" if prop == "lex" else "Call"
    trace, cur = None, None
    with open(tracefile) as fh:
        for line in fh:
            o = json.loads(line)
            if o["e"] == head:
                ok = bool(cur) and cur[0]["id"] not in rejected_ids and len(cur) >= 3
                if ok and prop == "lex":
                    ok = sum(1 for e in cur if e["e"] == "Emit") >= 3
                if ok:
                    trace = cur
                    break
                cur = []
            cur.append(o)
    if trace is None:
        raise vf.MachineryError("self-test: no accepted trace to mutate")
    import copy
    a, b, c = copy.deepcopy(trace), copy.deepcopy(trace), copy.deepcopy(trace)
    a[0]["id"], b[0]["id"], c[0]["id"] = 1, 2, 3
    if prop == "lex":
        k = [i for i, e in enumerate(a) if e["e"] == "Emit"][1]
        a[k]["t"] += 1                      # corrupted end offset: overlaps the next token / leaves the input
        del b[k]                            # dropped token: gap
        want = {1, 2}
    else:
        a[-1]["ok"] = not a[-1]["ok"]       # corrupted result
        del b[-1]                           # dropped Return: the call never returns
        want = {1, 2}
    d = os.path.join(wd, "selftest")
    os.makedirs(d, exist_ok=True)
    with open(os.path.join(d, TRACE_FILE[prop]), "w") as fh:
        for tr in (a, b, c):
            for e in tr:
                fh.write(json.dumps(e, separators=(",", ":")) + "\n")
    with open(os.path.join(d, "trace.cfg"), "w") as fh:
        fh.write(TRACE_CFG)
    got = []
    r = _tlc(TRACE_MODULE[prop], "trace.cfg", d, workers=1, timeout=600, heap="2g", case_sink=got.append)
    if r.violated or r.postcondition_failed:
        raise vf.MachineryError("self-test: validator did not run to the end")
    ids = {g["reject"] for g in got}
    if ids != want:
        raise vf.MachineryError("binding self-test failed: expected rejects %s, got %s" % (sorted(want), got))
    return {"corrupted_field_rejected": True, "dropped_event_rejected": True, "untouched_copy_accepted": True,
            "reasons": {str(g["reject"]): sorted(g["why"]) for g in got}}


def _samples(tracefile, prop):
    """A few real traces (first lines of the file, and one with diagnostics) for the evidence file."""
    out, cur = [], None
    head = "Begin" if prop == "lex" else "Call"
    with open(tracefile) as fh:
        for k, line in enumerate(fh):
            o = json.loads(line)
            if o["e"] == head:
                if cur and len(cur) >= 4 and len(out) < 3:
                    out.append(cur)
                cur = []
                if len(out) >= 3 or k > 20000:
                    break
            if cur is not None and len(cur) < 12:
                cur.append(o)
    return out or [{"note": "see " + tracefile}]


def _hexdump(binary, cases, ids, filelist, wd):
    sel = cases.lookup(ids)
    p = os.path.join(wd, "sel.ndjson")
    with open(p, "w") as fh:
        for k in sorted(sel):
            fh.write(json.dumps(sel[k]) + "\n")
    args = ["-hexdump"] + (["-files", filelist] if filelist else [])
    rc, out, err = vf.run_driver(binary, args, stdin_path=p, timeout=300)
    if rc != 0:
        raise vf.MachineryError("explex -hexdump failed: " + err[-1000:])
    res = {}
    for line in out.splitlines():
        o = json.loads(line)
        origin = {k: v for k, v in sel[o["id"]].items() if k != "id"}
        if origin.get("kind") == "mut" and filelist:
            files = json.load(open(filelist))
            origin["path"] = os.path.relpath(files[origin["file"] - 1], vf.REPO)
        res[o["id"]] = {"hex": o["hex"], "text": o["text"], "origin": origin}
    return res
