"""C33 / C34: experimental/incremental executor against spec/IncExec.tla.

  1. TLC checks IncExec (all interleavings of the modelled critical sections) for families of cases
     = query graph x dependency batches x panicking set x parallelism x history of Run / Evict, with the
     properties of C33 (FreshValue, AtMostOnce, EvictExact, ChangedFlag) and C34 (termination as deadlock
     freedom + liveness under weak fairness, CycleError, PanicNotCached, PermitsRestored).
  2. direction A: every case is exported with the oracle's expectations and replayed by harness/incexec on
     the real executor under a watchdog (values, errors, Changed flags, execute counts, memoised keys, permits).
  3. direction B: the hook events of those executions (and of the package's own tests) are validated
     against IncExecTrace by TLC.
A TLC counterexample alone is a machinery error; verdicts come from the real executor only."""
import itertools, json, os, subprocess, time
import vf

NODES3 = ["a", "b", "c"]
NODES4 = ["a", "b", "c", "d"]
FIXED = '{"F1", "F2", "F3", "F4", "F5"}'     # the repairs present in the tree (patches/fix-C3[34]-*.diff)

INVARIANTS = ("TypeOK PermitsRestored NoStuckPending NoAbort CycleError RunResultOK CacheExact "
              "PanicNotCached EvictExact AtMostOnce ExecExact ChangedFlag")


# ------------------------------------------------------------------------------------------------
# case generation (python only enumerates the *constants*; expectations come from the spec's oracle)

def tla_str(s):
    return '"%s"' % s


def tla_seq(xs, f=tla_str):
    return "<<" + ", ".join(f(x) for x in xs) + ">>"


def tla_set(xs, f=tla_str):
    return "{" + ", ".join(f(x) for x in sorted(xs)) + "}"


def tla_bat(nodes, bat):
    return "[" + ", ".join("%s |-> %s" % (n, tla_seq(bat.get(n, []), lambda b: tla_seq(b))) for n in nodes) + "]"


def tla_op(op):
    if op["op"] == "run":
        return '[op |-> "run", roots |-> %s]' % tla_seq(op["roots"], lambda r: tla_seq(r))
    return '[op |-> "evict", keys |-> %s, conc |-> %s]' % (tla_set(op["keys"]), "TRUE" if op.get("conc") else "FALSE")


def tla_case(nodes, c, cid):
    return "[id |-> %d, bat |-> %s, pan |-> %s, par |-> %d, plan |-> %s]" % (
        cid, tla_bat(nodes, c["bat"]), tla_set(c["pan"]), c["par"], tla_seq(c["plan"], tla_op))


def runop(*roots):
    return {"op": "run", "roots": [list(r) for r in roots]}


def evict(*keys, conc=False):
    return {"op": "evict", "keys": list(keys), "conc": conc}


def digraphs(nodes, loops=True):
    """All digraphs on `nodes` up to isomorphism, as adjacency dicts (successor lists sorted)."""
    pairs = [(x, y) for x in nodes for y in nodes if loops or x != y]
    seen, out = set(), []
    for bits in range(1 << len(pairs)):
        edges = frozenset(p for i, p in enumerate(pairs) if bits >> i & 1)
        canon = min(tuple(sorted((perm[x], perm[y]) for x, y in edges))
                    for perm in (dict(zip(nodes, p)) for p in itertools.permutations(nodes)))
        if canon in seen:
            continue
        seen.add(canon)
        g = {n: sorted(y for x, y in canon if x == n) for n in nodes}
        out.append(g)
    return out


def batchings(g, variants):
    """Dependency batches per node: 'one' = one Resolve with all deps, 'rev' = one Resolve, reversed order,
    'single' = one Resolve per dep."""
    outs = []
    for v in variants:
        bat = {}
        for n, succ in g.items():
            if not succ:
                bat[n] = []
            elif v == "one":
                bat[n] = [list(succ)]
            elif v == "rev":
                bat[n] = [list(reversed(succ))]
            else:
                bat[n] = [[d] for d in succ]
        if bat not in outs:
            outs.append(bat)
    return outs


def reach(g, roots):
    seen, todo = set(), list(roots)
    while todo:
        n = todo.pop()
        if n in seen:
            continue
        seen.add(n)
        todo.extend(g[n])
    return seen


def is_dag(g):
    return not any(n in reach(g, g[n]) for n in g)


SHAPES3 = {
    "chain": {"a": ["b"], "b": ["c"], "c": []},
    "diamond": {"a": ["b", "c"], "b": ["c"], "c": []},
    "fanout": {"a": ["b", "c"], "b": [], "c": []},
    "fanin": {"a": ["c"], "b": ["c"], "c": []},
    "selfloop": {"a": ["a"], "b": [], "c": []},
    "selfloop-tail": {"a": ["a", "b"], "b": [], "c": ["a"]},
    "2cycle": {"a": ["b"], "b": ["a"], "c": []},
    "3cycle": {"a": ["b"], "b": ["c"], "c": ["a"]},
    "cycle-tail": {"a": ["b"], "b": ["c"], "c": ["b"]},
    "2cycle-leaf": {"a": ["b", "c"], "b": ["a", "c"], "c": []},
}


def write_mc(wd, name, nodes, cases, fix=FIXED, props=True, liveness=False, only_init=False, sim=False):
    """Generate MCIncExecGen_<name>.tla/.cfg in wd; returns (module, cfg)."""
    mod = "MCIncExecGen_" + name
    with open(os.path.join(wd, mod + ".tla"), "w") as fh:
        fh.write("---- MODULE %s ----\nEXTENDS MCIncExec\n" % mod)
        fh.write("GenOrd == %s\n" % tla_seq(nodes))
        fh.write("GenFix == %s\n" % fix)
        fh.write("GenCases == {\n  " + ",\n  ".join(tla_case(nodes, c, i + 1) for i, c in enumerate(cases)) + "\n}\n====\n")
    with open(os.path.join(wd, mod + ".cfg"), "w") as fh:
        fh.write("SPECIFICATION %s\n" % ("SimSpec" if sim else "FairSpec" if liveness else "Spec"))
        fh.write("CONSTANTS\n  Nodes = %s\n  NodeOrd <- GenOrd\n  Cases <- GenCases\n  Fix <- GenFix\n  Stale = FALSE\n"
                 % tla_set(nodes))
        if only_init:
            fh.write("CONSTRAINT OnlyInit\nINVARIANTS Export\nCHECK_DEADLOCK FALSE\n")
        else:
            fh.write("INVARIANTS %s%s\n" % ("" if sim else "Export ", INVARIANTS if props else "TypeOK"))
            if sim:
                fh.write("CHECK_DEADLOCK FALSE\n")
            if liveness:
                fh.write("PROPERTIES Terminates\n")
    return mod, mod + ".cfg"


def on_cycle(g, n):
    return n in reach(g, g[n])


def panic_ok(g, pan):
    """C34's two clauses conflict when a query ON a cycle reaches a panicking query (another member of the
    cycle may legitimately complete with the cycle error before the panic happens): not generated."""
    return not any(on_cycle(g, n) and (reach(g, [n]) & set(pan)) for n in g)


def validate_traces(wd, trace_path, nodes=NODES4, fix=FIXED, name="T", timeout=1500, heap="8g", opaque=False):
    """TLC-validate an ndjson file of traces against IncExecTrace.  Returns (accepted, matched, total, TLCResult)."""
    mod = "IncExecTraceGen_" + name
    tf = os.path.basename(trace_path)
    if os.path.dirname(os.path.abspath(trace_path)) != os.path.abspath(wd):
        import shutil
        shutil.copy(trace_path, os.path.join(wd, tf))
    with open(os.path.join(wd, mod + ".tla"), "w") as fh:
        fh.write("---- MODULE %s ----\nEXTENDS IncExecTrace\nGenOrd == %s\nGenFix == %s\nGenCases == {}\n====\n"
                 % (mod, tla_seq(nodes), fix))
    with open(os.path.join(wd, mod + ".cfg"), "w") as fh:
        fh.write("SPECIFICATION TSpec\nCONSTANTS\n  Nodes = %s\n  NodeOrd <- GenOrd\n  Cases <- GenCases\n  Fix <- GenFix\n"
                 "  Stale = TRUE\n  TraceFile = \"%s\"\n  Opaque = %s\n" % (tla_set(nodes), tf, "TRUE" if opaque else "FALSE"))
        fh.write("CONSTRAINT TraceConstraint\nPOSTCONDITION Accepted\nCHECK_DEADLOCK FALSE\n")
    r = vf.tlc(mod, mod + ".cfg", wd, workers=1, timeout=timeout, heap=heap, extra_args=("-noGenerateSpecTE",))
    matched = total = -1
    with open(r.stdout_path) as fh:
        for line in fh:
            if line.startswith('<<"HWM"'):
                parts = line.strip().strip("<>").split(",")
                matched, total = int(parts[1]), int(parts[2])
    accepted = (not r.postcondition_failed) and r.violated is None and matched == total and total >= 0
    return accepted, matched, total, r


# ------------------------------------------------------------------------------------------------
# families of cases

def all_roots(nodes):
    return [list(nodes), list(reversed(nodes))] + [[n] for n in nodes]


def pan_sets(g, nodes, max_size):
    out = [[]]
    for k in range(1, max_size + 1):
        for ps in itertools.combinations(nodes, k):
            if panic_ok(g, ps):
                out.append(list(ps))
    return out


def fam_c34(graphs, nodes, pars, batch_variants, max_pan, roots_list, two_run=True):
    """C34: every graph (cycles, self-loops) x panicking set x parallelism; a single Run, and - because 'a run
    returns' and 'is not cached' are statements about what comes next - the same Run again after a panic."""
    cases = []
    for g in graphs:
        for bat in batchings(g, batch_variants):
            for pan in pan_sets(g, nodes, max_pan):
                for par in pars:
                    for roots in roots_list:
                        plan = [runop(roots)]
                        if pan and two_run:
                            plan = [runop(roots), runop(roots)]
                        cases.append({"bat": bat, "pan": pan, "par": par, "plan": plan})
    return cases


def fam_c33_seq(graphs, nodes, pars, batch_variants, plans):
    cases = []
    for g in graphs:
        for bat in batchings(g, batch_variants):
            for par in pars:
                for plan in plans:
                    cases.append({"bat": bat, "pan": [], "par": par, "plan": plan})
    return cases


def c33_plans(nodes, rich):
    a, b, c = nodes[0], nodes[1], nodes[-1]
    allr, rev = list(nodes), list(reversed(nodes))
    plans = [
        [runop(allr), evict(c), runop(rev)],                        # evict a leaf: everything above recomputes
        [runop([a]), evict(a), runop(allr), evict(b), runop([a])],  # evict the top, then the middle
        [runop([a], [a]), evict(c), runop([a], [b])],               # two concurrent runs, twice
        [runop([a]), evict(c, conc=True), runop(allr)],             # Evict overlapping a Run
    ]
    if rich:
        plans += [
            [runop(rev), evict(b), runop(allr), evict(a, c), runop(rev)],
            [runop([a], [c]), evict(a), runop(allr, allr)],
            [runop(allr), evict(b, conc=True), runop(rev), evict(c, conc=True), runop(allr)],
            [runop([c]), runop(allr), evict(c), evict(a), runop([a], [b])],
        ]
    return plans


def fam_c34_multipanic(pars):
    """Two panicking queries in one Run.  Siblings (both panic although the first panic cancels the Run) are ordinary
    cases of the model.  Nested (Outer resolves Inner, Inner panics, then Outer panics too) needs queries that panic
    even after Resolve returned the cancellation error: those are replayed on the real executor only, with the
    expectations of the statement (Run returns a panic error, nothing derived is memoised, permits free, no hang)."""
    leaves = {"a": [], "b": [], "c": []}
    sib, nested = [], []
    for par in pars:
        for roots in (NODES3, list(reversed(NODES3))):
            if par >= 2:
                sib.append({"bat": leaves, "pan": ["a", "b"], "par": par, "plan": [runop(roots), runop(roots)]})
                sib.append({"bat": leaves, "pan": ["a", "b", "c"], "par": par, "plan": [runop(roots), runop(roots)]})
                sib.append({"bat": batchings(SHAPES3["fanout"], ["one"])[0], "pan": ["b", "c"], "par": par,
                            "plan": [runop(["a"]), runop(roots)]})
        for g, pan in ((SHAPES3["chain"], ["a", "b"]), (SHAPES3["chain"], ["b", "c"]), (SHAPES3["chain"], ["a", "b", "c"]),
                       (SHAPES3["diamond"], ["a", "c"]), (SHAPES3["fanout"], ["a", "b"]), (SHAPES3["fanin"], ["a", "c"])):
            for bv in ("one", "single"):
                for roots in (["a"], NODES3, list(reversed(NODES3))):
                    nested.append({"bat": batchings(g, [bv])[0], "pan": pan, "par": par, "plan": [runop(roots), runop(roots)]})
    return dedup(sib), dedup(nested)


NODES7 = ["a", "b", "c", "d", "e", "f", "g"]


def fam_c33_fresh_leaf():
    """Fan-in on a fresh leaf: k = 3..6 sibling queries of one batch, all depending on the same leaf that nobody has
    requested yet, par >= k; the driver makes the siblings rendezvous before their Resolve so that their first
    requests of the leaf (Executor.getOrCreateTask) coincide.  From the statement: the leaf executes once per run,
    and after Evict(leaf) the leaf and every sibling are re-executed.  Replay only (many repetitions)."""
    cases = []
    for k in (3, 4, 5, 6):
        sibs = NODES7[1:k + 1]
        bat = {n: ([["a"]] if n in sibs else []) for n in NODES7}
        for par in (k, k + 2):
            cases.append(({"bat": bat, "pan": [], "par": par,
                           "plan": [runop(sibs), evict("a"), runop(list(reversed(sibs))), evict("a"), runop(sibs)]}, sibs))
    return cases


def dedup(cases):
    seen, out = set(), []
    for c in cases:
        k = json.dumps(c, sort_keys=True)
        if k not in seen:
            seen.add(k)
            out.append(c)
    return out


def has_conc_evict(cfg):
    return any(o["op"] == "evict" and o.get("conc") for o in cfg["plan"])


# ------------------------------------------------------------------------------------------------

class Acc:
    """What one check measured."""
    def __init__(self):
        self.states = self.trans = 0
        self.mc_runs = []
        self.cases = self.executions = self.hangs = 0
        self.traces = self.events = 0
        self.samples = []
        self.features = set()
        self.selftests = []


def model_check(wd, name, nodes, cases, acc, workers, liveness=True, timeout=1200, export_sink=None):
    mod, cfg = write_mc(wd, name, nodes, cases, liveness=liveness)
    r = vf.tlc(mod, cfg, wd, workers=workers, timeout=timeout, case_sink=export_sink)
    if r.violated:
        raise vf.MachineryError(
            "spec-level: IncExec (model of the fixed tree) violates %s on family %s (%d cases); see %s - "
            "not a verdict about the code until reproduced on the executor" % (r.violated, name, len(cases), r.stdout_path))
    acc.states += r.distinct
    acc.trans += r.generated
    acc.mc_runs.append({"family": name, "cases": len(cases), "distinct": r.distinct, "generated": r.generated,
                        "liveness": liveness, "wall_s": round(r.wall, 1)})
    return r


def export_cases(wd, name, nodes, cases):
    """Oracle expectations for cases that are only replayed (not model-checked interleaving by interleaving)."""
    mod, cfg = write_mc(wd, name, nodes, cases, only_init=True)
    r = vf.tlc(mod, cfg, wd, workers=1, timeout=900)
    if r.violated:
        raise vf.MachineryError("export of %s failed: %s" % (name, r.violated))
    return r.cases


def feature(c):
    cfg = c["cfg"]
    g = {n: [d for b in bs for d in b] for n, bs in cfg["bat"].items()}
    cyc = any(on_cycle(g, n) for n in g)
    nrun = sum(len(o["roots"]) for o in cfg["plan"] if o["op"] == "run")
    return (len([n for n in g if g[n] or any(n in v for v in g.values())]), sum(len(v) for v in g.values()), cyc,
            len(cfg["pan"]), cfg["par"], len(cfg["plan"]), nrun, has_conc_evict(cfg),
            max([len(b) for bs in cfg["bat"].values() for b in bs] or [0]))


def drive(wd, binary, name, cases, reps, verdict, acc, trace=True, max_traces=None, watchdog=3000):
    """Direction A on the real executor; returns the path of the recorded traces."""
    for i, c in enumerate(cases):
        c["id"] = i + 1
        if has_conc_evict(c["cfg"]):
            c["hold"] = "evict-after-collect"
    cpath = os.path.join(wd, "cases_%s.jsonl" % name)
    rpath = os.path.join(wd, "results_%s.jsonl" % name)
    tpath = os.path.join(wd, "traces_%s.ndjson" % name)
    vf.jsonl_write(cpath, cases)
    args = ["-cases", cpath, "-out", rpath, "-seed", str(vf.seed()), "-reps", str(reps), "-watchdog", str(watchdog)]
    if trace:
        args += ["-trace", tpath]
        if max_traces:
            args += ["-maxtraces", str(max_traces)]
    rc, _out, err = vf.run_driver(binary, args, timeout=3000)
    crashed = None
    if rc != 0:
        # A panic of a query that the executor fails to recover on one of its own goroutines kills the driver
        # process.  That is behaviour of the code under test (C34: a panic surfaces as an error), not a machinery
        # failure - but only when the panic is the deliberate panic of a driver query ("boom:<node>") or was raised
        # inside experimental/incremental; anything else is a harness failure.
        first = err[err.index("panic:"):][:1500] if "panic:" in err else ""
        stack = first.split("goroutine ", 1)[1] if "goroutine " in first else ""
        frames = [l for l in stack.splitlines() if l and not l.startswith(("\t", " ")) and "(" in l]
        in_code = first.startswith("panic: boom:") or (
            frames[:3] and any("experimental/incremental." in f for f in frames[:3])
            and not any("zzverif" in f for f in frames[:3]))
        if not in_code:
            raise vf.MachineryError("incexec driver failed rc=%s: %s" % (rc, err[-3000:]))
        crashed = first
    for line in err.splitlines():
        if line.startswith("STATS"):
            kv = dict(x.split("=") for x in line.split()[1:])
            acc.traces += int(kv["traces"])
            acc.events += int(kv["events"])
    results = vf.jsonl_read(rpath) if os.path.exists(rpath) else []
    if crashed is not None:
        done = {(r["id"], r["rep"]) for r in results}
        nxt = next(((c["id"], rep) for c in cases for rep in range(reps) if (c["id"], rep) not in done), None)
        case = cases[(nxt[0] if nxt else cases[-1]["id"]) - 1]
        verdict.disagree("crash:unrecovered-panic",
                         {"cfg": case["cfg"], "exp": case["exp"], "order": case["order"],
                          "panic_always": case.get("panic_always", False), "step": 0},
                         "the process died with an unrecovered panic while this case was executing: " + crashed[:600])
    for res in results:
        acc.executions += 1
        acc.hangs += 1 if res.get("hang") else 0
        case = cases[res["id"] - 1]
        for m in res.get("mismatches") or []:
            verdict.disagree(m["class"], {"cfg": case["cfg"], "exp": case["exp"], "order": case["order"],
                                          "hold": case.get("hold", ""), "panic_always": case.get("panic_always", False),
                                          "rendezvous": case.get("rendezvous", []),
                                          "step": m["step"]}, m["detail"])
    acc.cases += len(cases)
    for c in cases:
        acc.features.add(feature(c))
    for c in cases:
        if len(acc.samples) < 3 and (c["cfg"]["pan"] or len(c["cfg"]["plan"]) > 2):
            acc.samples.append({"cfg": c["cfg"], "exp": c["exp"]})
    return tpath if trace else None


def first_unmatched(trace_path, matched):
    """The header of the trace in which validation stopped, and the first unmatched event."""
    hdr, evn = None, None
    with open(trace_path) as fh:
        for i, line in enumerate(fh, 1):
            if '"ev":"case"' in line and i <= matched + 1:
                hdr = json.loads(line)
            if i == matched + 1:
                evn = json.loads(line)
                break
    return hdr, evn


def check_traces(wd, tpath, nodes, verdict, acc, name):
    if not tpath or not os.path.exists(tpath) or os.path.getsize(tpath) == 0:
        raise vf.MachineryError("no traces recorded for " + name)
    ok, matched, total, r = validate_traces(wd, tpath, nodes=nodes, name=name)
    acc.states += r.distinct
    acc.trans += r.generated
    if ok:
        return
    if matched < 0:
        raise vf.MachineryError("trace validation did not report a high-water mark: " + r.stdout_path)
    hdr, evn = first_unmatched(tpath, matched)
    verdict.disagree("trace-rejected:" + (evn or {}).get("ev", "end-of-trace"),
                     {"cfg": (hdr or {}).get("cfg"), "order": (hdr or {}).get("order"), "matched_events": matched,
                      "first_unmatched": evn},
                     "the recorded execution is not a behaviour of IncExec (with its properties) from this event on")


def binding_selftests(wd, tpath, nodes, acc):
    """The binding must reject a corrupted trace: change one logged field; drop one event."""
    lines = open(tpath).read().splitlines()
    # keep the first few traces only
    heads = [i for i, l in enumerate(lines) if '"ev":"case"' in l]
    lines = lines[:heads[min(6, len(heads) - 1)]] if len(heads) > 6 else lines
    closes = [i for i, l in enumerate(lines) if '"ev":"close"' in l and '"f":"none"' in l]
    wins = [i for i, l in enumerate(lines) if '"ev":"cas.win"' in l]
    if not closes or not wins:
        raise vf.MachineryError("self-test: no close / cas.win event to corrupt")
    for nm, mut in (("corrupt-value", "v"), ("drop-event", "d")):
        ls = list(lines)
        if mut == "v":
            e = json.loads(ls[closes[len(closes) // 2]])
            e["v"] = e["v"] + 1
            ls[closes[len(closes) // 2]] = json.dumps(e, separators=(",", ":"))
        else:
            del ls[wins[len(wins) // 2]]
        p = os.path.join(wd, "selftest_%s.ndjson" % nm)
        with open(p, "w") as fh:
            fh.write("\n".join(ls) + "\n")
        ok, matched, total, _r = validate_traces(wd, p, nodes=nodes, name="self_" + nm.replace("-", "_"))
        acc.selftests.append({"test": nm, "rejected": not ok, "matched": matched, "total": total})
        if ok:
            raise vf.MachineryError("binding self-test %s: corrupted trace was accepted" % nm)


WORKERS = int(os.environ.get("VERIF_TLC_WORKERS", "8"))

ASSUMPTIONS = [
    "IncExec.tla models the executor at the granularity of its bracketed critical sections; the cycle search and the "
    "edge stores of one Resolve are atomic steps (under the verif tag they are serialised by the hook lock, so the "
    "traced executions have exactly this granularity; the untagged build can interleave inside them)",
    "queries are deterministic nodes of a static graph that resolve every dependency batch, propagate the first Fatal "
    "of their dependencies, return a Resolve error at once, and panic (if panicking) after their last batch",
    "a panicking query is never on a cycle or below one (the two clauses of C34 conflict there); concurrent Runs are "
    "explored without panicking queries (a leader panic seen from a different Run is outside both quantifiers)",
    "a concurrent Evict is explored only in the linearisation Run-then-Evict, forced on the real executor by a gate",
    "task objects are identified with their keys: goroutines that outlive an eviction are excluded by fix F5",
    "TLC, the CommunityModules Json module, the Go runtime's goroutine dump (watchdog) are trusted",
]


def shapes(names):
    return [SHAPES3[n] for n in names]


def families(pid, tier, rng):
    """-> (model-checked families [(name, nodes, cases, liveness)], replay-only families [(name, nodes, cases)]).
    Sizes are chosen by measured state counts (quick: some 10^4 states, thorough: some 10^6)."""
    dag3 = [g for g in digraphs(NODES3, loops=False) if is_dag(g)]
    all3 = digraphs(NODES3, loops=True)
    canon = list(SHAPES3.values())
    mc, ro = [], []
    if pid == "C33":
        base = c33_plans(NODES3, False)
        if tier == "quick":
            cs = fam_c33_seq(shapes(["diamond"]), NODES3, (1,), ["one"], [base[0], base[2]])
            cs += fam_c33_seq(shapes(["chain"]), NODES3, (2,), ["one"], [base[0], base[3]])
            cs += fam_c33_seq(shapes(["chain"]), NODES3, (1,), ["one"], [base[1], base[2]])
            mc.append(("c33seq", NODES3, cs, True))
            ro.append(("c33all", NODES3, fam_c33_seq(dag3, NODES3, (1, 2, 3), ["one", "single"], c33_plans(NODES3, True))))
        else:
            mc.append(("c33seq", NODES3, fam_c33_seq(dag3, NODES3, (1, 2), ["one"], base), True))
            mc.append(("c33par3", NODES3, fam_c33_seq(shapes(["diamond", "chain", "fanin", "fanout"]), NODES3, (3,), ["one"], base), True))
            mc.append(("c33rich", NODES3, fam_c33_seq(shapes(["diamond", "chain", "fanin", "fanout"]), NODES3, (1, 2), ["one"],
                                                    c33_plans(NODES3, True)[4:]), True))
            ro.append(("c33all", NODES3, fam_c33_seq(dag3, NODES3, (1, 2, 3), ["one", "rev", "single"], c33_plans(NODES3, True))))
            dag4 = [g for g in digraphs(NODES4, loops=False) if is_dag(g)]
            ro.append(("c33n4", NODES4, fam_c33_seq(rng.sample(dag4, min(80, len(dag4))), NODES4, (1, 2, 3), ["one", "single"],
                                                   c33_plans(NODES4, True))))
    else:
        nedges = lambda g: sum(len(v) for v in g.values())
        if tier == "quick":
            small = shapes(["chain", "fanout", "fanin", "selfloop", "selfloop-tail", "2cycle", "3cycle", "cycle-tail"])
            cs = fam_c34(small, NODES3, (1,), ["one"], 0, [NODES3])
            cs += fam_c34(shapes(["2cycle"]), NODES3, (2,), ["one"], 0, [NODES3])
            cs += [c for c in fam_c34(shapes(["chain"]), NODES3, (1,), ["one"], 1, [NODES3]) if c["pan"] == ["b"]]
            mc.append(("c34", NODES3, cs, True))
            extra = rng.sample(all3, 8)
            ro.append(("c34all", NODES3, fam_c34(canon + extra, NODES3, (1, 2, 3), ["one", "single"], 1, all_roots(NODES3)[:2])))
        else:
            sparse = [g for g in all3 if nedges(g) <= 4]
            mc.append(("c34single1", NODES3, fam_c34(sparse + canon, NODES3, (1,), ["one"], 0, [NODES3]), True))
            mc.append(("c34single2", NODES3, fam_c34(canon + [g for g in all3 if nedges(g) <= 2], NODES3, (2,), ["one"], 0, [NODES3]), True))
            mc.append(("c34single3", NODES3, fam_c34(shapes(["chain", "fanin", "2cycle", "3cycle", "selfloop-tail"]), NODES3, (3,), ["one"], 0, [NODES3]), True))
            mc.append(("c34panic1", NODES3, fam_c34([g for g in all3 if nedges(g) <= 3], NODES3, (1,), ["one"], 1, [NODES3]), True))
            mc.append(("c34panic2", NODES3, fam_c34(shapes(["chain", "fanin", "fanout", "selfloop-tail"]), NODES3, (2,), ["one"], 1, [NODES3]), True))
            ro.append(("c34all", NODES3, fam_c34(all3, NODES3, (1, 2, 3), ["one", "rev", "single"], 2, all_roots(NODES3)[:3])))
            g4 = sample_graphs4(rng, 150)
            ro.append(("c34n4", NODES4, fam_c34(g4, NODES4, (1, 2, 3), ["one", "single"], 1, [NODES4, list(reversed(NODES4))])))
    return [(n, nd, dedup(cs), lv) for n, nd, cs, lv in mc], [(n, nd, dedup(cs)) for n, nd, cs in ro]


def sample_graphs4(rng, n):
    """Random digraphs on 4 nodes (self-loops allowed), sparse ones preferred (at most 6 edges)."""
    out = []
    pairs = [(x, y) for x in NODES4 for y in NODES4]
    while len(out) < n:
        k = rng.randint(2, 6)
        es = rng.sample(pairs, k)
        g = {x: sorted(y for a, y in es if a == x) for x in NODES4}
        if g not in out:
            out.append(g)
    return out


def run(pid, tier, replay=None):
    import random
    t0 = time.time()
    wd = vf.workdir(pid)
    rng = random.Random(vf.seed() * 7919 + (33 if pid == "C33" else 34))
    binary = vf.build_driver("incexec")
    verdict = vf.Verdict(pid)
    acc = Acc()
    thorough = tier == "thorough"

    if replay:
        rep = json.load(open(replay))
        cases, bare = [], []
        for e in rep["examples"]:
            c = e["case"]
            if c.get("cfg") and c.get("exp"):
                cases.append({"cfg": c["cfg"], "exp": c["exp"], "order": c["order"],
                              "panic_always": c.get("panic_always", False), "rendezvous": c.get("rendezvous", [])})
            elif c.get("cfg"):
                bare.append(c)                       # a rejected trace: expectations are recomputed by the oracle
        for c in bare:
            nodes = c.get("order") or NODES3
            plan = [dict(o, roots=o.get("roots"), keys=o.get("keys", []), conc=o.get("conc", False)) for o in c["cfg"]["plan"]]
            cases += export_cases(wd, "replay", nodes, [{"bat": c["cfg"]["bat"], "pan": c["cfg"]["pan"], "par": c["cfg"]["par"],
                                                         "plan": plan}])
        if not cases:
            raise vf.MachineryError("replay file has no executable case")
        tp = drive(wd, binary, "replay", cases, 10, verdict, acc)
        check_traces(wd, tp, NODES4, verdict, acc, "replay")
        return verdict.finish()

    mc, ro = families(pid, tier, rng)
    exported = []                                   # (nodes, case) for direction A / B
    # 1. model checking: all interleavings, properties from the statements, liveness under weak fairness
    for name, nodes, cases, live in mc:
        got = []
        model_check(wd, name, nodes, cases, acc, WORKERS, liveness=live, timeout=2400 if thorough else 900,
                    export_sink=got.append)
        if len(got) != len(cases):
            raise vf.MachineryError("family %s: %d cases, %d exported" % (name, len(cases), len(got)))
        exported.append((name, nodes, got))
    for name, nodes, cases in ro:
        exported.append((name, nodes, export_cases(wd, name, nodes, cases)))
    fresh = None
    if pid == "C33":
        fl = fam_c33_fresh_leaf()
        fresh = export_cases(wd, "c33fresh", NODES7, [c for c, _s in fl])
        for c in fresh:
            c["rendezvous"] = fl[c["cfg"]["id"] - 1][1]
    if pid == "C34":
        sib, nested = fam_c34_multipanic((1, 2, 3) if thorough else (1, 2))
        got = export_cases(wd, "c34multi", NODES3, sib + nested)
        for c in got:
            if c["cfg"]["id"] > len(sib):          # TLC exports in its own order: cfg.id is the position in sib + nested
                c["panic_always"] = True
        exported.append(("c34multi", NODES3, got))
    # 2. direction A (+ recording for B): every exported case on the real executor
    reps = 3 if thorough else 2
    trace_budget = 50000 if thorough else 3500     # events validated by TLC (about 1000 / s)
    tfiles = []
    for name, nodes, cases in exported:
        tp = drive(wd, binary, name, cases, reps, verdict, acc)
        tfiles.append((name, nodes, tp))
    if fresh:
        drive(wd, binary, "c33fresh", fresh, 60 if thorough else 30, verdict, acc, trace=False)
    # 3. direction B: validate the recorded executions (a seed-dependent selection of whole traces)
    sel = os.path.join(wd, "traces_selected.ndjson")
    n_sel = select_traces([tp for _n, _nd, tp in tfiles], sel, trace_budget, rng)
    acc.validated_traces, acc.validated_events = n_sel
    if verdict.violations:
        # direction A already disagrees: the traces of a misbehaving executor add nothing to the verdict
        acc.validated_traces = acc.validated_events = 0
    else:
        check_traces(wd, sel, NODES4, verdict, acc, "sel")
        kinds = {}
        for line in open(sel):
            k = json.loads(line)["ev"]
            kinds[k] = kinds.get(k, 0) + 1
        acc.kinds = kinds
        core = (["cas.win", "close", "start.hit", "evict.apply", "wake.done"] if pid == "C33" else
                ["cas.win", "close", "cycle", "panic.cancel", "panic.reset", "wake.ctx", "wake.done", "join.fail"])
        missing = [k for k in core if not kinds.get(k)]
        if missing and not verdict.violations:
            raise vf.MachineryError("vacuous trace validation: no event of kind %s in the validated traces" % missing)
        if thorough and not verdict.violations:
            binding_selftests(wd, sel, NODES4, acc)
            acc.pkg = package_test_traces(wd, acc, verdict)
            acc.sim = simulate_4(wd, pid, rng, acc)
            acc.model_selftest = model_selftest(wd)
    rc = verdict.finish()
    vf.write_evidence(pid, tier, "model_checking", {
        "states": acc.states, "transitions": acc.trans,
        "traces_validated_against_impl": acc.validated_traces,
        "trace_events_validated": acc.validated_events,
        "cases_replayed_on_impl": acc.cases, "executions_on_impl": acc.executions, "reproduced_hangs": acc.hangs,
        "evaluations": acc.executions,
        "distinct_nontrivial": len(acc.features),
        "rule": "a case = query graph x dependency batches x panicking set x parallelism x history of Run/Evict; every case "
                "is executed `reps` times on the real executor under seed-perturbed schedules and compared with the "
                "oracle of IncExec.tla after every operation; distinct_nontrivial = distinct feature vectors (nodes used, "
                "edges, cyclic?, |panicking|, par, |history|, runs, concurrent evict?, max batch)",
        "model_checked_families": acc.mc_runs,
        "samples": acc.samples or [{"note": "see .work"}],
        "exhaustive": True,
        "binding_selftests": acc.selftests,
        "package_tests": getattr(acc, "pkg", None),
        "simulation_4_nodes": getattr(acc, "sim", None),
        "validated_event_kinds": getattr(acc, "kinds", None),
        "model_selftest": getattr(acc, "model_selftest", None),
    }, ASSUMPTIONS, time.time() - t0, violations=len(verdict.violations), known=verdict.known_hits)
    return rc


def simulate_4(wd, pid, rng, acc):
    """4-node graphs: random behaviours of IncExec (tlc -simulate, seeded) with every invariant checked."""
    if pid == "C33":
        dag4 = [g for g in digraphs(NODES4, loops=False) if is_dag(g)]
        cases = fam_c33_seq(rng.sample(dag4, min(12, len(dag4))), NODES4, (1, 2, 3), ["one"], c33_plans(NODES4, True))
    else:
        cases = fam_c34(sample_graphs4(rng, 40), NODES4, (1, 2, 3), ["one"], 1, [NODES4])
    cases = dedup(cases)
    mod, cfg = write_mc(wd, "sim4", NODES4, cases, liveness=False, sim=True)
    num = 1500
    r = vf.tlc(mod, cfg, wd, workers=1, simulate=num, depth=600, tseed=vf.seed(), timeout=900)
    if r.violated:
        raise vf.MachineryError("spec-level (simulation, 4 nodes): %s violated; see %s" % (r.violated, r.stdout_path))
    gen = 0
    for line in open(r.stdout_path):
        if line.startswith("The number of states generated:"):
            gen = int(line.split(":")[1])
    if gen == 0:
        raise vf.MachineryError("simulation generated no states; see " + r.stdout_path)
    acc.trans += gen
    return {"cases": len(cases), "behaviours": num, "states_generated": gen}


def model_selftest(wd):
    """The model is not vacuous: with Fix = {} (the code as found) TLC must find the stuck pending result
    (par=1, Run(a panics, b), Run(b)) and the stale eviction."""
    leaf = {"a": [], "b": [], "c": []}
    out = {}
    for name, case, want in (
            ("stuck", {"bat": leaf, "pan": ["a"], "par": 1, "plan": [runop(["a", "b"]), runop(["b"])]}, "NoStuckPending"),
            ("stale", {"bat": {"a": [["b"]], "b": [], "c": []}, "pan": [], "par": 1,
                       "plan": [runop(["a"]), evict("b", conc=True), runop(["a"])]}, "CacheExact")):
        mod, cfg = write_mc(wd, "selftest_" + name, NODES3, [case], fix="{}")
        r = vf.tlc(mod, cfg, wd, workers=1, timeout=300, case_sink=lambda o: None)
        out[name] = r.violated
        if not r.violated:
            raise vf.MachineryError("model self-test %s: the model of the unrepaired code violates nothing (expected %s)" % (name, want))
    return out


def select_traces(paths, out, budget, rng):
    """Concatenate whole traces from the recorded files, shuffled, until the event budget is reached."""
    traces = []
    for p in paths:
        if not p or not os.path.exists(p):
            continue
        cur = None
        with open(p) as fh:
            for line in fh:
                if '"ev":"case"' in line[:400] and line.startswith('{"cfg"'):
                    cur = [line]
                    traces.append(cur)
                elif cur is not None:
                    cur.append(line)
    rng.shuffle(traces)
    # prefer variety: long traces (histories with panics / evictions) first within the shuffled order
    n = ev = 0
    with open(out, "w") as fh:
        for t in traces:
            if ev + len(t) > budget and n > 0:
                continue
            fh.writelines(t)
            n += 1
            ev += len(t)
    return n, ev


PKG_NODES = ["n%02d" % i for i in range(1, 17)]
PKG_TRACED_TESTS = "TestSum|TestFatal|TestCyclic|TestPanic|TestStarvation|TestTimings"


def convert_pkg_trace(src, dst):
    """Turn the hook trace of the package's own tests into traces IncExecTrace can read (Opaque mode): one trace per
    Executor; the case header (batches each query resolved, panicking queries, history) is read off the events
    themselves; keys are renamed to n01.. .  Executors with overlapping Runs or too many keys are skipped."""
    by_exec = {}
    for line in open(src):
        e = json.loads(line)
        if "e" in e:
            by_exec.setdefault(e["e"], []).append(e)
    written, skipped = 0, []
    with open(dst, "w") as out:
        for ex, evs in sorted(by_exec.items()):
            evs.sort(key=lambda e: e["seq"])
            names = {}

            def nm(k):
                if k == "_root":
                    return k
                if k not in names:
                    names[k] = "n%02d" % (len(names) + 1)
                return names[k]
            active, overlap = 0, False
            bat_by_task, key_of_task, returned, panicked = {}, {}, set(), set()
            plan, res = [], []
            for e in evs:
                ev = e["ev"]
                if ev == "run.enter":
                    overlap = overlap or active > 0
                    active += 1
                    plan.append({"op": "run", "roots": [[]], "t": e["t"]})
                    res.append({"ev": "op.begin", "step": len(plan)})
                elif ev == "run.unlock":
                    active -= 1
                elif ev == "evict.collect":
                    plan.append({"op": "evict", "keys": sorted(set(nm(k) for k in e["keys"])), "conc": False})
                    res.append({"ev": "op.begin", "step": len(plan)})
                    if not e["list"]:          # EvictWithCleanup(keys, nil) returns early when nothing is memoised
                        res.append(dict(e, keys=[nm(k) for k in e["keys"]], list=[]))
                        res.append({"ev": "evict.apply", "e": ex, "keys": [nm(k) for k in e["keys"]], "list": [], "synthetic": True})
                        continue
                elif ev == "stored":
                    if e["ck"] == "_root":
                        for op in plan:
                            if op.get("t") == e["t"]:
                                op["roots"] = [[nm(k) for k in e["keys"]]]
                    else:
                        bat_by_task.setdefault(e["t"], []).append([nm(k) for k in e["keys"]])
                        key_of_task[e["t"]] = nm(e["ck"])
                elif ev == "exec.ret":
                    returned.add(e["t"])
                elif ev == "panic.cancel" and e["t"] not in returned:
                    panicked.add(nm(e["k"]))
                e2 = dict(e)
                for f in ("k", "ck"):
                    if f in e2:
                        e2[f] = nm(e2[f])
                for f in ("keys", "list", "path"):
                    if f in e2 and e2[f] is not None:
                        e2[f] = [nm(k) for k in e2[f]]
                res.append(e2)
            bat, conflict = {}, False
            for t, bs in bat_by_task.items():
                k = key_of_task[t]
                if k in bat and bat[k] != bs:
                    conflict = True
                bat.setdefault(k, bs)
            if overlap or conflict or len(names) > len(PKG_NODES) or not plan:
                skipped.append({"executor": ex, "overlapping_runs": overlap, "batches_differ": conflict, "keys": len(names)})
                continue
            for op in plan:
                op.pop("t", None)
            hdr = {"cfg": {"bat": bat, "pan": sorted(panicked), "par": 16, "plan": plan}, "ev": "case", "id": ex,
                   "order": PKG_NODES, "keys": names}
            out.write(json.dumps(hdr, separators=(",", ":")) + "\n")
            for i, e in enumerate(res, 1):
                e["seq"] = i
                out.write(json.dumps(e, separators=(",", ":")) + "\n")
            written += 1
    return written, skipped


def package_test_traces(wd, acc, verdict=None):
    """The package's own tests with the tag on: all must pass; the hook traces of the tests whose Runs do not
    overlap are validated against IncExecTrace in Opaque mode (values and errors from the trace; properties that
    need no oracle: NoStuckPending, PermitsRestored, NoAbort, CycleError, AtMostOnce, ChangedFlag)."""
    env = vf.go_env()
    p = subprocess.run(["go", "test", "-tags", "verif", "-count=1", "./experimental/incremental/"], cwd=vf.REPO, env=env,
                       capture_output=True, text=True, timeout=900)
    if p.returncode != 0:
        raise vf.MachineryError("package tests fail with -tags verif:\n" + p.stdout[-2000:] + p.stderr[-2000:])
    tf = os.path.join(wd, "pkgtests_raw.ndjson")
    env["VERIF_TRACE_FILE"] = tf
    p = subprocess.run(["go", "test", "-tags", "verif", "-count=1", "-run", PKG_TRACED_TESTS, "./experimental/incremental/"],
                       cwd=vf.REPO, env=env, capture_output=True, text=True, timeout=900)
    if p.returncode != 0 or not os.path.exists(tf):
        raise vf.MachineryError("traced package tests failed:\n" + p.stdout[-2000:] + p.stderr[-2000:])
    conv = os.path.join(wd, "pkgtests.ndjson")
    n, skipped = convert_pkg_trace(tf, conv)
    info = {"passed": True, "traces": n, "skipped": skipped, "tests": PKG_TRACED_TESTS}
    if n:
        ok, matched, total, r = validate_traces(wd, conv, nodes=PKG_NODES, name="pkg", opaque=True)
        acc.states += r.distinct
        acc.trans += r.generated
        info.update({"accepted": ok, "events": total, "matched": matched})
        if not ok:
            hdr, evn = first_unmatched(conv, matched)
            if verdict is not None:
                verdict.disagree("pkgtest-trace-rejected:" + (evn or {}).get("ev", "end"),
                                 {"keys": (hdr or {}).get("keys"), "cfg": (hdr or {}).get("cfg"), "first_unmatched": evn,
                                  "matched_events": matched},
                                 "the package's own test execution is not a behaviour of IncExec")
        else:
            acc.validated_traces += n
            acc.validated_events += total
    return info
