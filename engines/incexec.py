"""C33 / C34: experimental/incremental executor against spec/IncExec.tla.

  1. TLC checks IncExec (all interleavings of the modelled critical sections) for families of cases
     = query graph x dependency batches x panicking set x parallelism x history of Run / Evict, with the
     properties of C33 (FreshValue, AtMostOnce, EvictExact, ChangedFlag) and C34 (termination as deadlock
     freedom + liveness under weak fairness, CycleError, PanicNotCached, PermitsRestored).
  2. direction A: every case is exported with the oracle's expectations and replayed by harness/incexec on
     the real executor under a watchdog (values, errors, Changed flags, execute counts, memoised keys, permits).
  3. direction B: the hook events of those executions (and of the package's own tests) are validated
     against IncExecTrace by TLC.
A TLC counterexample alone is a machinery error; verdicts come from the real executor only."""
import itertools, json, os, subprocess, time
import vf

NODES3 = ["a", "b", "c"]
NODES4 = ["a", "b", "c", "d"]
FIXED = '{"F1", "F2", "F3", "F4", "F5"}'     # the repairs present in the tree (patches/fix-C3[34]-*.diff)

INVARIANTS = ("TypeOK PermitsRestored NoStuckPending NoAbort CycleError RunResultOK CacheExact "
              "PanicNotCached EvictExact AtMostOnce ExecExact ChangedFlag")


# ------------------------------------------------------------------------------------------------
# case generation (python only enumerates the *constants*; expectations come from the spec's oracle)

def tla_str(s):
    return '"%s"' % s


def tla_seq(xs, f=tla_str):
    return "<<" + ", ".join(f(x) for x in xs) + ">>"


def tla_set(xs, f=tla_str):
    return "{" + ", ".join(f(x) for x in sorted(xs)) + "}"


def tla_bat(nodes, bat):
    return "[" + ", ".join("%s |-> %s" % (n, tla_seq(bat.get(n, []), lambda b: tla_seq(b))) for n in nodes) + "]"


def tla_op(op):
    if op["op"] == "run":
        return '[op |-> "run", roots |-> %s]' % tla_seq(op["roots"], lambda r: tla_seq(r))
    return '[op |-> "evict", keys |-> %s, conc |-> %s]' % (tla_set(op["keys"]), "TRUE" if op.get("conc") else "FALSE")


def tla_case(nodes, c):
    return "[bat |-> %s, pan |-> %s, par |-> %d, plan |-> %s]" % (
        tla_bat(nodes, c["bat"]), tla_set(c["pan"]), c["par"], tla_seq(c["plan"], tla_op))


def run(*roots):
    return {"op": "run", "roots": [list(r) for r in roots]}


def evict(*keys, conc=False):
    return {"op": "evict", "keys": list(keys), "conc": conc}


def digraphs(nodes, loops=True):
    """All digraphs on `nodes` up to isomorphism, as adjacency dicts (successor lists sorted)."""
    pairs = [(x, y) for x in nodes for y in nodes if loops or x != y]
    seen, out = set(), []
    for bits in range(1 << len(pairs)):
        edges = frozenset(p for i, p in enumerate(pairs) if bits >> i & 1)
        canon = min(tuple(sorted((perm[x], perm[y]) for x, y in edges))
                    for perm in (dict(zip(nodes, p)) for p in itertools.permutations(nodes)))
        if canon in seen:
            continue
        seen.add(canon)
        g = {n: sorted(y for x, y in canon if x == n) for n in nodes}
        out.append(g)
    return out


def batchings(g, variants):
    """Dependency batches per node: 'one' = one Resolve with all deps, 'rev' = one Resolve, reversed order,
    'single' = one Resolve per dep."""
    outs = []
    for v in variants:
        bat = {}
        for n, succ in g.items():
            if not succ:
                bat[n] = []
            elif v == "one":
                bat[n] = [list(succ)]
            elif v == "rev":
                bat[n] = [list(reversed(succ))]
            else:
                bat[n] = [[d] for d in succ]
        if bat not in outs:
            outs.append(bat)
    return outs


def reach(g, roots):
    seen, todo = set(), list(roots)
    while todo:
        n = todo.pop()
        if n in seen:
            continue
        seen.add(n)
        todo.extend(g[n])
    return seen


def is_dag(g):
    return not any(n in reach(g, g[n]) for n in g)


SHAPES3 = {
    "chain": {"a": ["b"], "b": ["c"], "c": []},
    "diamond": {"a": ["b", "c"], "b": ["c"], "c": []},
    "fanout": {"a": ["b", "c"], "b": [], "c": []},
    "fanin": {"a": ["c"], "b": ["c"], "c": []},
    "selfloop": {"a": ["a"], "b": [], "c": []},
    "selfloop-tail": {"a": ["a", "b"], "b": [], "c": ["a"]},
    "2cycle": {"a": ["b"], "b": ["a"], "c": []},
    "3cycle": {"a": ["b"], "b": ["c"], "c": ["a"]},
    "cycle-tail": {"a": ["b"], "b": ["c"], "c": ["b"]},
    "2cycle-leaf": {"a": ["b", "c"], "b": ["a", "c"], "c": []},
}


def write_mc(wd, name, nodes, cases, fix=FIXED, props=True, liveness=False, only_init=False, stale=False):
    """Generate MCIncExecGen_<name>.tla/.cfg in wd; returns (module, cfg)."""
    mod = "MCIncExecGen_" + name
    with open(os.path.join(wd, mod + ".tla"), "w") as fh:
        fh.write("---- MODULE %s ----\nEXTENDS MCIncExec\n" % mod)
        fh.write("GenOrd == %s\n" % tla_seq(nodes))
        fh.write("GenFix == %s\n" % fix)
        fh.write("GenCases == {\n  " + ",\n  ".join(tla_case(nodes, c) for c in cases) + "\n}\n====\n")
    with open(os.path.join(wd, mod + ".cfg"), "w") as fh:
        fh.write("SPECIFICATION %s\n" % ("FairSpec" if liveness else "Spec"))
        fh.write("CONSTANTS\n  Nodes = %s\n  NodeOrd <- GenOrd\n  Cases <- GenCases\n  Fix <- GenFix\n  Stale = FALSE\n"
                 % tla_set(nodes))
        fh.write("VIEW View\n")
        if only_init:
            fh.write("CONSTRAINT OnlyInit\nINVARIANTS Export\nCHECK_DEADLOCK FALSE\n")
        else:
            fh.write("INVARIANTS Export %s\n" % (INVARIANTS if props else "TypeOK"))
            if liveness:
                fh.write("PROPERTIES Terminates\n")
    return mod, mod + ".cfg"


def on_cycle(g, n):
    return n in reach(g, g[n])


def panic_ok(g, pan):
    """C34's two clauses conflict when a query ON a cycle reaches a panicking query (another member of the
    cycle may legitimately complete with the cycle error before the panic happens): not generated."""
    return not any(on_cycle(g, n) and (reach(g, [n]) & set(pan)) for n in g)


def validate_traces(wd, trace_path, nodes=NODES4, fix=FIXED, name="T", timeout=1500, heap="8g"):
    """TLC-validate an ndjson file of traces against IncExecTrace.  Returns (accepted, matched, total, TLCResult)."""
    mod = "IncExecTraceGen_" + name
    tf = os.path.basename(trace_path)
    if os.path.dirname(os.path.abspath(trace_path)) != os.path.abspath(wd):
        import shutil
        shutil.copy(trace_path, os.path.join(wd, tf))
    with open(os.path.join(wd, mod + ".tla"), "w") as fh:
        fh.write("---- MODULE %s ----\nEXTENDS IncExecTrace\nGenOrd == %s\nGenFix == %s\nGenCases == {}\n====\n"
                 % (mod, tla_seq(nodes), fix))
    with open(os.path.join(wd, mod + ".cfg"), "w") as fh:
        fh.write("SPECIFICATION TSpec\nCONSTANTS\n  Nodes = %s\n  NodeOrd <- GenOrd\n  Cases <- GenCases\n  Fix <- GenFix\n"
                 "  Stale = TRUE\n  TraceFile = \"%s\"\n" % (tla_set(nodes), tf))
        fh.write("CONSTRAINT TraceConstraint\nPOSTCONDITION Accepted\nCHECK_DEADLOCK FALSE\n")
    r = vf.tlc(mod, mod + ".cfg", wd, workers=1, timeout=timeout, heap=heap, extra_args=("-noGenerateSpecTE",))
    matched = total = -1
    with open(r.stdout_path) as fh:
        for line in fh:
            if line.startswith('<<"HWM"'):
                parts = line.strip().strip("<>").split(",")
                matched, total = int(parts[1]), int(parts[2])
    accepted = (not r.postcondition_failed) and r.violated is None and matched == total and total >= 0
    return accepted, matched, total, r
