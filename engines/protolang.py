"""C15 / C18 / C19: checks built on spec/ProtoLang.tla (the language-level specification).

  C15  MCResolve.tla  workspaces x reference sites x every spelling; oracle ProtoLang!Lookup (protoc's
                      LookupSymbolNoPlaceholder); real: the stable compiler's resolved names / error class
  C18  MCVisible.tla  labelled import graphs x every element name / extension number / file path;
                      oracle ProtoLang!Visible; real: linker.ResolverFromFile(f).Find*
  C19  MCUnused.tla   files with 1-3 imports x routes x uses; oracle ProtoLang!ImportVerdict plus the
                      removal criterion executed on the real compiler; real: unused-import warnings

TLC enumerates (exhaustive configs) or samples (`-simulate`, seeded from VERIF_SEED) the abstract cases
and exports each with its expected observable; harness/protolang renders every case with the shared
renderer (harness/_common/ws), runs the real compiler and compares.  TLC output is streamed straight
into the driver, so enumeration and compilation overlap.

Stand-alone use while the registry has no entry:  python3 engines/protolang.py C15 [quick|thorough]
"""
import json, os, subprocess, sys, time, random

if __name__ == "__main__":
    sys.path.insert(0, os.path.join(os.path.dirname(os.path.dirname(os.path.abspath(__file__))), "lib"))
import vf

DRIVER = "protolang"
WORKERS = int(os.environ.get("VERIF_TLC_WORKERS", "8"))
JOBS = int(os.environ.get("VERIF_GO_JOBS", "12"))


def _set(xs):
    return "{" + ", ".join('"%s"' % x for x in xs) + "}"


# ------------------------------------------------------------------------------------------------
# configurations

def c15_cfg(pkgs, sites, kinds, names, child, maxc, f2pkgs=(), f2decls=(), f2rels=(), sib=("FALSE",)):
    return """SPECIFICATION Spec
CONSTANTS
  Pkgs1Ids = %s
  SiteKinds = %s
  SibModes = {%s}
  CandKinds = %s
  CandNames = %s
  AllowChild = %s
  MaxCands = %d
  F2Pkgs = %s
  F2Decls = %s
  F2Rels = %s
INVARIANTS Export
CHECK_DEADLOCK FALSE
""" % (_set(pkgs), _set(sites), ", ".join(sib), _set(kinds), _set(names), "TRUE" if child else "FALSE", maxc,
       _set(f2pkgs), _set(f2decls), _set(f2rels))


ALL_PKGS = ["none", "a", "ab", "b"]
ALL_SITES = ["type", "extendee", "input", "output", "msgopt", "fldopt", "fileopt", "mtdopt"]
BOTH = ("FALSE", "TRUE")
ALL_KINDS = ["message", "enum", "enumv", "field", "oneof", "ext", "service", "method"]
ALL_F2PKGS = ["none", "a", "ab", "b", "ba"]
ALL_F2DECLS = ["msg:a", "msg:b", "enum:a", "msgab", "ext:a", "svc:a", "val:b"]
ALL_RELS = ["plain", "hidden", "public", "chain"]


def c15_runs(tier):
    """(name, cfg text, simulate count or None, depth, keep fraction).
    Measured sizes: one-cand 564 cases; two-cands ~9.5k cases; every case carries 66 spellings."""
    f2kinds = ["message", "enumv", "field", "ext", "service", "method"]
    nofile = [x for x in ALL_SITES if x != "fileopt"]
    if tier == "thorough":
        return [
            ("two-cands", c15_cfg(ALL_PKGS, ALL_SITES, ALL_KINDS, ["a", "b"], True, 2), None, None, 1.0),
            # earlier sibling message / service zq with declarations inside it (scope leakage)
            ("siblings", c15_cfg(ALL_PKGS, nofile, ALL_KINDS, ["a", "b"], False, 2, sib=("TRUE",)), None, None, 0.35),
            ("second-file", c15_cfg(ALL_PKGS, ["type", "extendee", "input", "msgopt", "fileopt"], f2kinds,
                                    ["a", "b"], False, 1, ["none", "a", "ab", "b"],
                                    ["msg:a", "msg:b", "msgab", "ext:a", "val:b"], ALL_RELS), None, None, 0.4),
            ("sim-deep", c15_cfg(ALL_PKGS, ALL_SITES, ALL_KINDS, ["a", "b"], True, 4, ALL_F2PKGS, ALL_F2DECLS, ALL_RELS, sib=BOTH),
             30, 6, 1.0),
        ]
    return [
        ("one-cand", c15_cfg(ALL_PKGS, ALL_SITES, ALL_KINDS, ["a", "b"], False, 1), None, None, 1.0),
        ("siblings", c15_cfg(["none", "a", "ab"], ["type", "fldopt", "input", "output", "mtdopt"],
                             ["message", "field", "ext", "method"], ["a"], False, 2, sib=("TRUE",)), None, None, 1.0),
        ("second-file", c15_cfg(["none", "a", "ab"], ["type", "extendee", "input", "msgopt"],
                                ["message", "field", "service", "ext"], ["a", "b"], False, 1,
                                ["none", "a", "ab"], ["msg:b", "msgab"], ["plain", "hidden", "public"]), None, None, 0.4),
        ("sim-deep", c15_cfg(ALL_PKGS, ALL_SITES, ALL_KINDS, ["a", "b"], True, 3, ALL_F2PKGS, ALL_F2DECLS, ALL_RELS, sib=BOTH),
         4, 5, 1.0),
    ]


def c18_cfg(n, anyorder, pkgmode):
    return """SPECIFICATION Spec
CONSTANTS
  N = %d
  AnyOrder = %s
  PkgMode = "%s"
INVARIANTS Export
CHECK_DEADLOCK FALSE
""" % (n, "TRUE" if anyorder else "FALSE", pkgmode)


def c18_runs(tier):
    if tier == "thorough":
        return [
            ("n4-ordered-same", c18_cfg(4, False, "same"), None, None, 1.0),
            ("n4-ordered-nested", c18_cfg(4, False, "nested"), None, None, 1.0),
            ("n4-ordered-nopkg", c18_cfg(4, False, "none"), None, None, 1.0),
            ("n4-anyorder", c18_cfg(4, True, "distinct"), None, None, 1.0),
        ]
    return [
        ("n4-ordered", c18_cfg(4, False, "distinct"), None, None, 1.0),
        ("n3-anyorder", c18_cfg(3, True, "nested"), None, None, 1.0),
    ]


def c19_cfg(maximp, routes, kinds, uses, descmodes):
    return """SPECIFICATION Spec
CONSTANTS
  MaxImports = %d
  Routes = %s
  Kinds = %s
  Uses = %s
  DescModes = %s
INVARIANTS Export
CHECK_DEADLOCK FALSE
""" % (maximp, _set(routes), _set(kinds), _set(uses), _set(descmodes))


ALL_ROUTES = ["direct", "reexp", "reexp2", "chain"]
ALL_USES = ["none", "type", "extendee", "input", "output", "optname"]


def c19_runs(tier):
    if tier == "thorough":
        return [
            ("two-imports", c19_cfg(2, ALL_ROUTES, ["plain", "public"], ALL_USES, ["absent", "unused", "used"]), None, None, 1.0),
            ("three-imports", c19_cfg(3, ["direct", "reexp", "chain"], ["plain", "public"], ["none", "type", "optname"], ["absent"]),
             None, None, 1.0),
            ("sim-three", c19_cfg(3, ALL_ROUTES, ["plain", "public"], ALL_USES, ["absent", "unused", "used"]), 60, 6, 1.0),
        ]
    return [
        ("two-imports", c19_cfg(2, ALL_ROUTES, ["plain", "public"], ["none", "type", "optname"],
                                ["absent", "unused", "used"]), None, None, 1.0),
        ("sim-three", c19_cfg(3, ALL_ROUTES, ["plain", "public"], ALL_USES, ["absent", "unused", "used"]), 15, 6, 1.0),
    ]


SPECS = {
    "C15": ("MCResolve", "c15", c15_runs),
    "C18": ("MCVisible", "c18", c18_runs),
    "C19": ("MCUnused", "c19", c19_runs),
}

RULES = {
    "C15": "a case = one (workspace, reference site, spelling) compiled by the real compiler; feature vector = the set of "
           "ProtoLang rule ids its Lookup evaluation went through (scope hit kind, aggregate stop, non-aggregate continue, "
           "non-type skip, hidden symbol, visibility route, site kind, spelling shape) plus outcome and resolved kind; "
           "non-trivial = some scope or root lookup hit a symbol (not a plain miss); distinct by feature vector",
    "C18": "a case = one import graph compiled once, every file as resolver root; an evaluation = one Find* query; feature = "
           "(query kind, element kind, relation of defining file to root, expected found) plus the root's visibility shape; "
           "non-trivial = defining file is neither the root nor unrelated / shape has re-exported or hidden files",
    "C19": "a case = one main file (imports x routes x uses) compiled with and without each non-public import; feature = "
           "multiset of (import kind, route, verdict) + uses + descriptor mode; non-trivial = anything but a plainly "
           "unused direct import; distinct by feature vector",
}

ASSUMPTIONS = {
    "C15": [
        "ProtoLang.tla Lookup is the oracle: protoc's LookupSymbolNoPlaceholder/FindSymbol transcribed from the published "
        "algorithm, protoc itself is not installed",
        "failure classes compared: not-found / stuck-in-namespace (with the undefined name) / wrong-kind (with element and kind); "
        "a package reached as final symbol is reported by the Go linker in the 'resolved to <pkg> which is not defined' wording",
        "when protoc would say 'not defined' / 'is not a type' after skipping a non-type for an unqualified name, the Go linker "
        "names the innermost skipped non-type instead: same verdict (rejected), accepted and counted as tolerated",
        "sibling scopes: an earlier sibling message / service with nested declarations is part of the universe (names nested "
        "in a sibling must not be found unqualified)",
        "extension-range option names and names inside option message literals are not probed (protoc's scope for them is "
        "not certain without the binary)",
        "renderer / projection (harness/_common/ws) are trusted base, cross-checked by render -> parse -> read back",
    ],
    "C18": [
        "ProtoLang.tla Visible (self + direct imports + public closure of direct imports) is the oracle",
        "typed lookups (FindMessageByName / FindExtensionByName) must succeed exactly for visible elements of that kind and "
        "answer NotFound for invisible names",
        "all files of a graph are compiled in one Compile call (one symbol pool)",
        "the same queries are also run against files produced by parser.Parse + linker.Link bottom-up with ALL previously "
        "linked files passed as dependencies (a superset of the imports, as direct users of linker.Link do); the superset "
        "must not change any answer (classes visible:superset:...)",
    ],
    "C19": [
        "ProtoLang.tla ImportVerdict is the oracle and the removal criterion is executed on the real compiler for every "
        "non-public import (drop it, recompile, compare descriptors without dependency lists)",
        "when two imports make the same needed file visible either verdict is accepted for each of them (U-either)",
        "descriptor.proto imported by a file that carries any option is never reported (protoc marks it used while "
        "interpreting options; the repository's own reporting_test asserts this), although removing it changes nothing: "
        "the literal 'exactly when removable' reading is not applied to that one import (counted as tolerated)",
        "only the main file is requested; warnings about other files are violations",
    ],
}


# ------------------------------------------------------------------------------------------------

def _cancel_timers():
    """vf.tlc leaves its watchdog Timer running when it raises; a live non-daemon Timer would keep the
    interpreter from exiting until the TLC timeout expires."""
    import threading
    for t in threading.enumerate():
        if isinstance(t, threading.Timer):
            t.cancel()


def _start_driver(binary, mode, wd, name, extra=()):
    outp = os.path.join(wd, "mismatch_%s.jsonl" % name)
    errp = os.path.join(wd, "driver_%s.err" % name)
    fo, fe = open(outp, "wb"), open(errp, "wb")
    p = subprocess.Popen([binary, "-mode", mode, "-j", str(JOBS)] + list(extra), stdin=subprocess.PIPE, stdout=fo, stderr=fe,
                         env=vf.go_env(), cwd=vf.REPO)
    return p, fo, fe, outp, errp


def _finish_driver(p, fo, fe, outp, errp, timeout=3000):
    try:
        p.stdin.close()
    except Exception:
        pass
    try:
        rc = p.wait(timeout=timeout)
    except subprocess.TimeoutExpired:
        p.kill()
        raise vf.MachineryError("driver timed out")
    fo.close()
    fe.close()
    err = open(errp).read()
    stats = None
    for line in err.splitlines():
        if line.startswith("STATS "):
            stats = json.loads(line[6:])
    if stats is None:
        raise vf.MachineryError("driver gave no STATS (rc=%s): %s" % (rc, err[-3000:]))
    if stats.get("harness_errors"):
        raise vf.MachineryError("harness self-check failed (renderer/projection/spec mismatch, not a finding): %s"
                                % stats["harness_errors"][:3])
    if rc != 0:
        raise vf.MachineryError("driver failed rc=%s: %s" % (rc, err[-3000:]))
    return stats, vf.jsonl_read(outp)


def _run_one(pid, module, mode, wd, binary, name, cfgtext, sim, depth, keep, rng, extra=()):
    cfg = "%s_%s_%s.cfg" % (module, pid, name)
    with open(os.path.join(wd, cfg), "w") as fh:
        fh.write(cfgtext)
    p, fo, fe, outp, errp = _start_driver(binary, mode, wd, name, extra)
    cnt = {"seen": 0, "sent": 0, "invalid": 0}
    seen = set()

    def sink(o):
        if sim:
            # random walks revisit cases: replay each distinct case once
            h = hash(json.dumps(o, sort_keys=True))
            if h in seen:
                return
            seen.add(h)
        cnt["seen"] += 1
        if o.get("valid") is False:
            cnt["invalid"] += 1
        if keep < 1.0 and rng.random() >= keep:
            return
        cnt["sent"] += 1
        try:
            p.stdin.write((json.dumps(o, separators=(",", ":")) + "\n").encode())
        except BrokenPipeError:
            raise vf.MachineryError("driver died: " + open(errp).read()[-2000:])

    try:
        r = vf.tlc(module, cfg, wd, workers=1 if sim else WORKERS, simulate=sim, depth=depth,
                   tseed=vf.seed() if sim else None, case_sink=sink, timeout=2400)
    except Exception:
        p.kill()
        _cancel_timers()
        raise
    if r.violated:
        p.kill()
        raise vf.MachineryError("spec-level check failed in %s/%s: %s" % (module, name, r.violated))
    if cnt["invalid"]:
        p.kill()
        raise vf.MachineryError("%s exported %d workspaces that ProtoLang!Valid rejects" % (module, cnt["invalid"]))
    if cnt["seen"] == 0:
        p.kill()
        raise vf.MachineryError("%s/%s exported no case (vacuous run)" % (module, name))
    stats, mism = _finish_driver(p, fo, fe, outp, errp)
    return r, cnt, stats, mism


def _merge(total, stats):
    for k in ("cases", "evaluations", "compiles"):
        total[k] = total.get(k, 0) + stats.get(k, 0)
    for k in ("outcomes", "tolerated", "mismatch_classes"):
        d = total.setdefault(k, {})
        for a, b in (stats.get(k) or {}).items():
            d[a] = d.get(a, 0) + b
    total.setdefault("samples", [])
    for s in stats.get("samples") or []:
        if len(total["samples"]) < 3:
            total["samples"].append(s)


def run(pid, tier, replay=None):
    t0 = time.time()
    module, mode, runs_of = SPECS[pid]
    wd = vf.workdir(pid)
    binary = vf.build_driver(DRIVER)
    verdict = vf.Verdict(pid)
    rng = random.Random(vf.seed())
    total, bounds = {}, []
    states = trans = 0
    nontrivial = distinct = 0

    def absorb(mism):
        for m in mism:
            verdict.disagree(m["class"], m["case"], m["detail"])

    if replay:
        rep = json.load(open(replay))
        cases = [e["case"]["replay"] for e in rep["examples"] if isinstance(e.get("case"), dict) and "replay" in e["case"]]
        if not cases:
            raise vf.MachineryError("replay file holds no replayable case")
        p, fo, fe, outp, errp = _start_driver(binary, mode, wd, "replay")
        for c in cases:
            p.stdin.write((json.dumps(c, separators=(",", ":")) + "\n").encode())
        stats, mism = _finish_driver(p, fo, fe, outp, errp)
        absorb(mism)
        _merge(total, stats)
        nontrivial, distinct = stats.get("distinct_nontrivial", 0), stats.get("distinct_features", 0)
        bounds.append({"run": "replay", "cases": len(cases)})
    else:
        feats_nt = feats_all = 0
        for name, cfgtext, sim, depth, keep in runs_of(tier):
            r, cnt, stats, mism = _run_one(pid, module, mode, wd, binary, name, cfgtext, sim, depth, keep, rng)
            absorb(mism)
            _merge(total, stats)
            states += r.distinct
            trans += r.generated
            # distinct feature vectors are counted per run by the driver; runs explore different
            # configurations, the maximum over runs is a lower bound for the union
            feats_nt = max(feats_nt, stats.get("distinct_nontrivial", 0))
            feats_all = max(feats_all, stats.get("distinct_features", 0))
            bounds.append({"run": name, "simulate": sim, "exhaustive": sim is None and keep >= 1.0, "keep_fraction": keep,
                           "tlc_states": r.distinct, "exported": cnt["seen"],
                           "replayed": cnt["sent"], "evaluations": stats.get("evaluations", 0),
                           "tlc_wall_s": round(r.wall, 1)})
        nontrivial, distinct = feats_nt, feats_all
        if tier == "thorough":
            # the binding, demonstrated: corrupt expectations and expect the driver to object
            name, cfgtext, sim, depth, keep = runs_of("quick")[0]
            _r, _cnt, st2, mism2 = _run_one(pid, module, mode, wd, binary, "selftest", cfgtext, sim, depth, 0.2, rng,
                                            extra=("-corrupt", "7"))
            if not mism2:
                raise vf.MachineryError("binding self-test: corrupted expectations were not detected")
            bounds.append({"run": "selftest-corrupt", "mismatches_reported": len(mism2)})
    rc = verdict.finish()
    vf.write_evidence(pid, tier, "model_checking", {
        "states": states, "transitions": trans,
        "traces_validated_against_impl": total.get("cases", 0),
        "evaluations": total.get("evaluations", 0),
        "real_compiles": total.get("compiles", 0),
        "distinct_nontrivial": nontrivial, "distinct_feature_vectors": distinct,
        "rule": RULES[pid],
        "outcomes": total.get("outcomes", {}), "tolerated": total.get("tolerated", {}),
        "samples": total.get("samples") or [{"note": "no sample recorded"}],
        "exhaustive": any(b.get("exhaustive") for b in bounds), "bounds": bounds,
    }, ASSUMPTIONS[pid], time.time() - t0, violations=len(verdict.violations), known=verdict.known_hits)
    return rc


if __name__ == "__main__":
    _pid = sys.argv[1]
    _tier = sys.argv[2] if len(sys.argv) > 2 else "quick"
    _replay = sys.argv[3] if len(sys.argv) > 3 else None
    os.chdir(vf.ROOT)
    try:
        _rc = run(_pid, _tier, _replay)
    except vf.MachineryError as e:
        print("MACHINERY-ERROR:", e, flush=True)
        sys.exit(2)
    print("exit", _rc)
    sys.exit(_rc)
