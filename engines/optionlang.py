"""C20 (option values are interpreted like protoc), C21 (lenient and unlinked interpretation agree with strict),
C22 (stripping source-retention options is exact).

spec/OptionLang.tla is the oracle: a fixed custom-option schema (every scalar type, enum, nested message, repeated,
map, group, extension of the option message; per-field `targets` and `retention` as schema parameters) and the
operator InterpretOption(options value, statement, element kind, schema) = new value | reject(rule), written from
protoc's option interpreter / text format / retention stripping, plus Local (what is interpretable without linking)
and StripTop.  spec/MCOptionLang.tla grows the statement list of one element statement by statement (TLC, exhaustive
per mode; tlc -simulate for random longer lists, seeded from VERIF_SEED) and exports every state with the strict,
lenient, unlinked and stripped expectations.  harness/optionlang renders the .proto, runs the real code and compares.
Statements that touch a rule that is not certain without protoc are filtered inside the spec's Next."""
import json, os, time, collections, random
import vf

KINDS = ["file", "message", "field", "extension", "oneof", "enum", "enumvalue", "service", "method", "extrange"]

CFG = "SPECIFICATION Spec\nCONSTANTS Runs <- cRuns\nINVARIANTS %s\nCHECK_DEADLOCK FALSE\n"


def tla_run(r):
    return ('[mode |-> "%s", kinds |-> {%s}, vals |-> "%s", n |-> %d, maxret |-> %d, tk |-> "%s"]'
            % (r["mode"], ", ".join('"%s"' % x for x in r["kinds"]), r["vals"], r["n"], r["maxret"], r["tk"]))


def write_mc(wd, name, runs, inv):
    mod = "MCOL_" + name
    with open(os.path.join(wd, mod + ".tla"), "w") as fh:
        fh.write("---- MODULE %s ----\nEXTENDS MCOptionLang\ncRuns == {\n  %s\n}\n====\n"
                 % (mod, ",\n  ".join(tla_run(r) for r in runs)))
    with open(os.path.join(wd, mod + ".cfg"), "w") as fh:
        fh.write(CFG % inv)
    return mod


def R(name, mode, kinds, n=1, vals="small", maxret=0, tk="single", sim=None):
    return dict(name=name, mode=mode, kinds=list(kinds), n=n, vals=vals, maxret=maxret, tk=tk, sim=sim)


def plan(pid, tier):
    s = vf.seed()
    k = KINDS[s % len(KINDS):] + KINDS[:s % len(KINDS)]       # the seed decides which kinds get the deep runs
    if pid == "C20":
        if tier == "quick":
            return [R("scalar_full", "scalar", k[:1], vals="full"),
                    R("scalar_small", "scalar", k[1:5], vals="small"),
                    R("struct2", "struct", k[5:6], n=2),
                    R("target", "target", k[6:7]),
                    R("std1", "std", KINDS, n=1),
                    R("edenum", "edenum", KINDS, n=1),
                    R("sim", "sim", KINDS, n=4, sim=40)]
        return [R("scalar_full", "scalar", KINDS, vals="full"),
                R("edenum", "edenum", KINDS, n=2),
                R("struct2", "struct", KINDS, n=2),
                R("target", "target", KINDS, tk="pairs"),
                R("std2", "std", KINDS, n=2),
                R("sim", "sim", KINDS, n=6, sim=600)]
    if pid == "C21":
        if tier == "quick":
            return [R("std2", "std", k[:3], n=2),
                    R("std1", "std", KINDS, n=1),
                    R("struct2", "struct", k[3:4], n=2),
                    R("scalar_small", "scalar", k[4:5], vals="small"),
                    R("sim", "sim", KINDS, n=4, sim=40)]
        return [R("std2", "std", KINDS, n=2),
                R("std3", "std", k[:1], n=3),
                R("struct2", "struct", KINDS, n=2),
                R("scalar_full", "scalar", k[1:3], vals="full"),
                R("target", "target", k[3:4]),
                R("sim", "sim", KINDS, n=6, sim=600)]
    if pid == "C22":
        if tier == "quick":
            return [R("strip", "strip", k[:1], n=2, maxret=1),
                    R("strip1", "strip", k[1:], n=1, maxret=2)]
        return [R("strip2", "strip", KINDS, n=2, maxret=1),
                R("strip2r", "strip", k[:3], n=2, maxret=2),
                R("strip3", "strip", k[3:4], n=3, maxret=1),
                R("stripr3", "strip", k[4:5], n=1, maxret=3)]
    raise vf.MachineryError("engine optionlang does not serve " + pid)


def case_key(o):
    return json.dumps([o["kind"], o.get("ed", "proto2"), o["tf"], sorted(o["tk"]), sorted(map(tuple, o["ret"])), o["stmts"], o.get("sib", "none")],
                      sort_keys=True, separators=(",", ":"))


def shape(v):
    if v["k"] == "msg":
        return "{" + ",".join(("[x]" if f["nm"]["ext"] else "f") + ("" if f.get("colon") else "!") + shape(f["v"]) for f in v["fs"]) + "}"
    if v["k"] == "lst":
        return "[" + ",".join(shape(f["v"]) for f in v["fs"]) + "]"
    return v["k"] + ("-" if v["neg"] else "")


def feature(o):
    st = tuple(("".join("x" if p["ext"] else "n" for p in s["path"]), shape(s["v"])) for s in o["stmts"])
    return (o["mode"] + ":" + o.get("ed", "proto2"), o["kind"], o["ok"], tuple(sorted(o["rules"])), st, o["tf"] != "none",
            tuple(sorted(r[1] for r in o["ret"])), o.get("sib", "none"), len(o["bad"]), len(o["ubad"]))


def nontrivial(f):
    # more than one statement, a path below the top level, a message literal, a reject, a schema parameter
    return len(f[4]) > 1 or (not f[2]) or f[5] or bool(f[6]) or any(len(p) > 1 or s[0] in "{[" for p, s in f[4])


def render_stmt(s):
    def val(v):
        if v["k"] == "msg":
            return "{" + " ".join((("[p.%s]" % f["nm"]["n"]) if f["nm"]["ext"] else f["nm"]["n"]) + (":" if f.get("colon") else "") +
                                  " " + val(f["v"]) for f in v["fs"]) + "}"
        if v["k"] == "lst":
            return "[" + ", ".join(val(f["v"]) for f in v["fs"]) + "]"
        if v["k"] == "str":
            return json.dumps(v["s"])
        return ("-" if v["neg"] else "") + v["s"]
    return ".".join(("(p.%s)" % p["n"]) if p["ext"] else p["n"] for p in s["path"]) + " = " + val(s["v"])


def brief(o):
    d = {"kind": o["kind"], "options": [render_stmt(s) for s in o["stmts"]], "ok": o["ok"], "rules": o["rules"]}
    if o.get("ed", "proto2") != "proto2":
        d["edition2023_enum_E"] = o["ed"]
    if o["tf"] != "none":
        d["targets"] = {o["tf"]: o["tk"]}
    if o["ret"]:
        d["retention"] = dict(map(tuple, o["ret"]))
    return d


def corrupt(pid, o):
    """a copy of the case with one expectation falsified (binding self-test); None if the case is unsuitable"""
    b = json.loads(json.dumps(o))
    if pid == "C20":
        if not (o["ok"] and o["es"]):
            return None
        e = b["es"][0]["v"]
        while e["k"] in ("msg", "lst", "map"):
            if not e["fs"]:
                return None
            e = e["fs"][0]["v"]
        if e["k"] not in ("int", "str", "bytes"):
            return None
        e["s"] = "3" if e["k"] == "int" else e["s"] + "x"
        return b
    if pid == "C21":
        if o["pre"] or not o["ok"] or len(o["stmts"]) < 1 or not o["ubad"]:
            return None
        b["ubad"] = b["ubad"][:-1]          # claim that a custom option gets interpreted without linking
        return b
    if pid == "C22":
        st = o.get("strip")
        if not (o["ok"] and st and st["changed"] and not st["absent"] and st["es"]):
            return None
        b["strip"]["es"] = b["strip"]["es"][:-1]   # claim that one more option is removed
        return b
    return None


SELFTEST_CLASS = {"C20": "value:", "C21": "unlinked:", "C22": "strip:"}

RULES_REQUIRED = {
    "C20": {"int-type", "int-range", "float-type", "bool-type", "string-type", "bytes-type", "enum-name", "enum-number",
            "enum-number-undeclared", "enum-type", "message-type", "scalar-got-message", "already-set", "ml-duplicate",
            "ml-list-for-singular", "ml-unknown-field", "unknown-field", "path-not-message", "path-repeated", "target",
            "syntax:list-as-option-value", "syntax:ml-missing-colon", "any-host", "any-unknown-type", "any-ref-outside-any"},
    "C21": {"already-set", "bool-type", "enum-name", "unknown-field", "string-type", "int-type"},
    "C22": set(),
}


def run(pid, tier, replay=None):
    t0 = time.time()
    wd = vf.workdir(pid)
    binary = vf.build_driver("optionlang")
    verdict = vf.Verdict(pid)
    workers = int(os.environ.get("VERIF_TLC_WORKERS", "4" if tier == "quick" else "6"))
    jobs = os.environ.get("VERIF_DRIVER_JOBS", "8")
    tmo = 900 if tier == "quick" else 3000
    casefile = os.path.join(wd, "cases.jsonl")
    states = trans = ncases = 0
    seen = set()
    feats = collections.Counter()
    rules_seen = set()
    bounds = []
    samples = []
    selftest = None
    rng = random.Random(vf.seed())

    if replay:
        rep = json.load(open(replay))
        with open(casefile, "w") as cf:
            for e in rep["examples"]:
                c = {k: v for k, v in e["case"].items() if k != "options"}
                cf.write(json.dumps(c, separators=(",", ":")) + "\n")
                ncases += 1
    else:
        with open(casefile, "w") as cf:
            def sink(o):
                nonlocal ncases, selftest
                key = case_key(o)
                if key in seen:
                    return
                seen.add(key)
                cf.write(json.dumps(o, separators=(",", ":")) + "\n")
                ncases += 1
                f = feature(o)
                feats[f] += 1
                rules_seen.update(o["rules"])
                if selftest is None or rng.random() < 0.002:
                    c = corrupt(pid, o)
                    if c is not None:
                        selftest = c
                if len(samples) < 4 and nontrivial(f) and (feats[f] == 1) and rng.random() < 0.05:
                    samples.append(o)

            runs = plan(pid, tier)
            inv = "Export UnlinkedSane" + (" StripSane" if pid == "C22" else "")
            groups = [("exh", [r for r in runs if not r["sim"]], None)] + \
                     [(r["name"], [r], r["sim"]) for r in runs if r["sim"]]
            for gname, grp, sim in groups:
                if not grp:
                    continue
                mod = write_mc(wd, gname, grp, inv)
                permode = collections.Counter()
                before = ncases

                def sink2(o, permode=permode):
                    n0 = ncases
                    sink(o)
                    if ncases > n0:
                        permode[o["mode"]] += 1
                res = vf.tlc(mod, mod + ".cfg", wd, workers=1 if sim else workers, simulate=sim,
                             depth=max(r["n"] for r in grp) + 1 if sim else None, tseed=vf.seed() if sim else None,
                             case_sink=sink2, timeout=tmo, heap="4g")
                if res.violated:
                    raise vf.MachineryError("spec-level check %s failed in MCOptionLang (%s), see %s"
                                            % (res.violated, gname, res.stdout_path))
                states += res.distinct
                trans += res.generated
                bounds.append({"tlc_run": gname, "simulate": sim, "seed": vf.seed() if sim else None, "runs": grp,
                               "states": res.distinct, "cases": ncases - before, "cases_by_mode": dict(permode),
                               "tlc_wall_s": round(res.wall, 1)})
                for r in grp:
                    if not permode[r["mode"]]:
                        raise vf.MachineryError("vacuous: mode %s exported no case" % r["mode"])
        missing = RULES_REQUIRED[pid] - rules_seen
        if missing:
            raise vf.MachineryError("vacuous: reject rules never exercised by an exported case: %s" % sorted(missing))

    mm = os.path.join(wd, "mismatches.jsonl")
    rc, _out, err = vf.run_driver(binary, ["-pid", pid, "-j", jobs], stdin_path=casefile, stdout_path=mm, timeout=tmo)
    if rc != 0:
        raise vf.MachineryError("optionlang driver failed rc=%s: %s" % (rc, err[-2000:]))
    stats = {}
    for line in err.splitlines():
        if line.startswith("STATS "):
            stats = json.loads(line[6:])
    if stats.get("cases") != ncases:
        raise vf.MachineryError("driver replayed %s of %s cases" % (stats.get("cases"), ncases))
    for m in vf.jsonl_read(mm):
        if m["class"] in ("harness", "decode", "parse", "link"):
            raise vf.MachineryError("harness problem (%s): %s\n%s" % (m["class"], m["detail"], m["source"]))
        c = m["case"]
        c["options"] = [render_stmt(s) for s in c["stmts"]]
        verdict.disagree(m["class"], c, m["detail"])

    # binding self-test: a falsified expectation must be reported by the driver
    if not replay:
        if selftest is None:
            raise vf.MachineryError("no case for the binding self-test")
        st = os.path.join(wd, "selftest.jsonl")
        vf.jsonl_write(st, [selftest])
        rc2, out2, err2 = vf.run_driver(binary, ["-pid", pid, "-j", "1"], stdin_path=st, timeout=300)
        if rc2 != 0 or ('"class":"' + SELFTEST_CLASS[pid]) not in (out2 or ""):
            raise vf.MachineryError("binding self-test failed: falsified expectation not reported (%s | %s)"
                                    % ((out2 or "")[:300], err2[-300:]))

    rcode = verdict.finish()
    what = {
        "C20": "render the file, compile it with protocompile.Compiler; accept/reject as InterpretOption says; on success the host's "
               "options message, re-read from its wire form against the compiled descriptors, equals the specification's value tree "
               "and no uninterpreted_option is left anywhere in the file",
        "C21": "parse and link by hand; strict vs lenient (byte-identical descriptors when strict succeeds; otherwise exactly the "
               "failing statements stay uninterpreted and the interpreted part equals the fold of the others) and unlinked "
               "interpretation (Local statements have strict's values, all others stay verbatim in statement order)",
        "C22": "compile in three source-info modes, StripSourceRetentionOptionsFromFile: host and sibling options equal StripTop, "
               "everything else byte-identical, input unchanged, idempotent, surviving locations = those not under a removed path",
    }[pid]
    level = "exploration" if pid == "C21" else "model_checking"
    vf.write_evidence(pid, tier, level, {
        "states": states, "transitions": trans, "traces_validated_against_impl": ncases,
        "evaluations": stats.get("compared", 0) + stats.get("rejected", 0) + stats.get("strips", 0),
        "compiles": stats.get("compiles", 0), "compiler_accepted": stats.get("accepted", 0),
        "compiler_rejected": stats.get("rejected", 0), "skipped": stats.get("skipped", 0),
        "strips": stats.get("strips", 0), "strip_noop": stats.get("strip_noop", 0), "locations_checked": stats.get("locations", 0),
        "distinct_nontrivial": sum(1 for f in feats if nontrivial(f)),
        "rule": "a case = element kind + schema parameters (targets / retention) + list of option statements with the expected "
                "options value from OptionLang.tla; " + what + "; distinct_nontrivial = distinct feature vectors (mode, kind, "
                "accepted, reject rules, per statement: name-path shape and value skeleton, target restriction, retentions, sibling, "
                "#failing, #not-local) that have more than one statement, a nested path, a literal, a reject or a schema parameter",
        "rules_exercised": sorted(rules_seen),
        "samples": [brief(s) for s in samples] or [{"replay": replay}],
        "exhaustive": True,
        "bounds": bounds,
    }, ["OptionLang.tla is the oracle: protoc's rules (descriptor.cc OptionInterpreter, parser.cc ParseOption, text_format.cc, "
        "retention.cc) for the stated fragment; protoc itself is not installed",
        "outside the exported domain (filtered inside Next): '-0', integers 0/1 for bool inside a message literal, enum numbers for "
        "descriptor.proto's own enums inside a literal, empty list literals, two map entries with the same key; not generated: hex / "
        "octal literals (C14), non-ASCII strings, unqualified extension names in literals, lower-case group names in literals, "
        "required fields, oneof members; editions only as one family (edition 2023 file, enum E open / closed by feature, enum values "
        "by number and name)",
        "proto2 file (edition 2023 in the edenum family), package p, one host element per file (plus one sibling of the same kind in C22)",
        "C22: an options message whose set fields all have source retention becomes absent together with every location under it "
        "(documented in options/source_retention_options.go); a nested message that loses all fields stays as an empty message (protoc)",
        "float values are compared with the nearest float32 / float64 of the decimal text"],
        time.time() - t0, violations=len(verdict.violations), known=verdict.known_hits)
    return rcode


if __name__ == "__main__":
    import sys
    sys.exit(run(sys.argv[1], sys.argv[2] if len(sys.argv) > 2 else "quick", sys.argv[3] if len(sys.argv) > 3 else None))
