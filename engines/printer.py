"""C30 (printer round-trip mode reproduces the source) and C31 (formatting preserves meaning and is idempotent).

spec/PrintLayout.tla says what a LAYOUT is: a token skeleton (spec/PrintLayoutSkel.tla: fourteen small valid files (among them the file without any token and the file that is only a syntax statement) that
together contain every element kind) plus one trivia string per gap; placements <<gap, trivia kind>> override the
plain default layout; every gap has a class <scope>:<token before>|<token after> and a zone, every trivia kind a
category, and the FEATURE VECTOR of a layout is the set of "<category>@<zone>(<class>)=<kind>" of its placements.
spec/MCPrintLayout.tla lets TLC enumerate every single placement and every pair of placements close to each other
(BFS) and draw random many-gap layouts (-simulate, VERIF_SEED).  harness/printer concatenates the strings the
specification hands over, runs the real experimental parser + printer (+ stable compiler for C31), compares with what
the property demands, MINIMISES every failing layout (each placement removed in turn) and names the failure
  <check>[:<preset>]:<what changed: tokens | comments | layout | ...>:<features of the minimal set>;<how>
so that a known finding is a family "<check>:<severity>:<category>@<zone>(<scope>" and anything else is a violation."""
import json, os, time, collections, threading
import vf

ALL_KINDS = ["none", "sp", "sp2", "tab", "ff", "lf", "lf3", "blank", "crlf", "lcom", "trail", "ownlcom", "detach", "bcom",
             "spbcom", "mlbcom", "wsbcom", "bom", "eofcom"]
CORE_KINDS = ["none", "sp", "lf", "blank", "trail", "ownlcom", "detach", "bcom", "mlbcom"]
SKELS = ["void", "syn", "hdr", "order", "msg", "body", "enum", "copt", "coptml", "lit", "litsep", "grpsemi", "svc", "ed", "odd", "empty"]
LIGHT_SKELS = ["order"]            # its point is the declaration order of the default layout
LIGHT_KINDS = ["blank", "ownlcom", "trail"]

CFG = """SPECIFICATION Spec
CONSTANTS
  SkelSel = {%(skels)s}
  MaxPlace = %(maxplace)d
  ExportMin = %(exportmin)d
  Dist = %(dist)d
  FirstKinds = {%(first)s}
  MoreKinds = {%(more)s}
  Sim = %(sim)s
  WithItems = %(items)s
  WithSkel = %(skel)s
  LightSkels = {%(lightskels)s}
  LightKinds = {%(lightkinds)s}
INVARIANTS Export ScopeOK
CHECK_DEADLOCK FALSE
"""


def _set(xs):
    return ", ".join('"%s"' % x for x in xs)


def _cfg(wd, name, maxplace, exportmin, dist, first, more, sim, items=False, skel=False):
    # random many-gap layouts need skeletons with enough gaps: the two degenerate ones are covered exhaustively by BFS
    skels = [s for s in SKELS if s not in ("void", "syn")] if sim else SKELS
    with open(os.path.join(wd, name), "w") as fh:
        fh.write(CFG % dict(skels=_set(skels), maxplace=maxplace, exportmin=exportmin, dist=dist, first=_set(first),
                            more=_set(more), sim="TRUE" if sim else "FALSE", items="TRUE" if items else "FALSE",
                            skel="TRUE" if skel else "FALSE", lightskels=_set(LIGHT_SKELS), lightkinds=_set(LIGHT_KINDS)))
    return name


class Run:
    """one TLC run writing its cases to a file (in a thread, so that several JVMs can work side by side)"""

    def __init__(self, wd, name, simulate=None, depth=None, workers=4, **cfg):
        self.name, self.simulate = name, simulate
        self.wd = os.path.join(wd, name)
        os.makedirs(self.wd, exist_ok=True)
        self.cfg = _cfg(self.wd, "MCPL_%s.cfg" % name, sim=simulate is not None, **cfg)
        self.cases = os.path.join(self.wd, "cases.jsonl")
        self.skels = os.path.join(self.wd, "skels.jsonl")
        self.depth, self.workers = depth, workers
        self.n = 0
        self.res = None
        self.err = None
        self.feats = set()
        self.samples = []
        self.thread = threading.Thread(target=self._go, daemon=True)
        self.thread.start()

    def _go(self):
        seen = set()
        try:
            with open(self.cases, "w") as cf, open(self.skels, "w") as sf:
                def sink(o):
                    if o["t"] == "skel":
                        sf.write(json.dumps(o, separators=(",", ":")) + "\n")
                        return
                    key = (o["skel"], tuple(sorted(map(tuple, o["pl"]))))
                    if key in seen:
                        return
                    seen.add(key)
                    cf.write(json.dumps(o, separators=(",", ":")) + "\n")
                    self.n += 1
                    self.feats.add(tuple(sorted(f.split("=")[0] for f in o["feat"])))
                    if len(self.samples) < 2 and len(o["pl"]) >= 1 and (self.n % 97 == 5 or self.simulate):
                        self.samples.append(o)
                self.res = vf.tlc("MCPrintLayout", self.cfg, self.wd, workers=1 if self.simulate else self.workers,
                                  simulate=self.simulate, depth=self.depth,
                                  tseed=vf.seed() * 1000 + len(self.name) if self.simulate else None,
                                  case_sink=sink, timeout=2400, heap="4g")
        except Exception as ex:  # noqa
            self.err = ex

    def join(self):
        self.thread.join()
        if self.err:
            raise vf.MachineryError("TLC run %s failed: %s" % (self.name, self.err))
        if self.res.violated:
            raise vf.MachineryError("spec-level invariant %s violated in run %s" % (self.res.violated, self.name))
        return self


def _drive(binary, skels, cases, props, verdict, stats, classes, jobs=None):
    args = ["-skel", skels, "-props", props]
    if jobs:
        args += ["-j", str(jobs)]
    rc, out, err = vf.run_driver(binary, args, stdin_path=cases, timeout=3000)
    if rc != 0:
        raise vf.MachineryError("printer driver failed rc=%s: %s" % (rc, err[-2000:]))
    want = "C30" if props == "c30" else "C31"
    for line in out.splitlines():
        m = json.loads(line)
        if m["prop"] == "HARNESS":
            raise vf.MachineryError("specification / renderer / case problem: %s %s %s: %s" %
                                    (m["class"], m.get("skel"), m.get("pl"), m.get("detail", "")[:1500]))
        if m["prop"] != want:
            continue
        classes[m["class"].split(";")[0].split("(")[0]] += 1
        verdict.disagree(m["class"], {"skel": m["skel"], "pl": m["pl"], "min": m["min"]}, m["detail"][:1200])
    for l in err.splitlines():
        if l.startswith("STATS"):
            for kv in l.split()[1:]:
                k, v = kv.split("=")
                stats[k] += int(v)


def _selftest(binary, skels, wd, props):
    """binding: the driver must notice when the expectation is not what the specification says (one placement's
    trivia kind swapped in the expectation only)"""
    sk = max(vf.jsonl_read(skels), key=lambda s: len(s["toks"]))
    gap = 4
    case = {"t": "lay", "skel": sk["skel"], "pl": [[gap, "blank"]],
            "feat": ["%s@%s(%s)=blank" % (sk["cats"]["blank"], sk["zones"][gap], sk["classes"][gap])],
            "exp_pl": [[gap, "lf3"]]}
    path = os.path.join(wd, "selftest.jsonl")
    vf.jsonl_write(path, [case])
    rc, out, err = vf.run_driver(binary, ["-skel", skels, "-props", "c30"], stdin_path=path, timeout=300)
    hits = [json.loads(l) for l in out.splitlines() if l.strip()]
    if rc != 0 or not any("selftest" in h["class"] and h["prop"] == "C30" for h in hits):
        raise vf.MachineryError("binding self-test: a corrupted expectation was not rejected (%s %s)" % (out[:500], err[-500:]))
    return 1


def run(pid, tier, replay=None):
    t0 = time.time()
    wd = vf.workdir(pid)
    binary = vf.build_driver("printer")
    props = "c30" if pid == "C30" else "c31"
    verdict = vf.Verdict(pid)
    stats = collections.Counter()
    classes = collections.Counter()

    if replay:
        rep = json.load(open(replay))
        r0 = Run(wd, "skel", maxplace=0, exportmin=1, dist=0, first=ALL_KINDS, more=ALL_KINDS, skel=True).join()
        path = os.path.join(wd, "replay.jsonl")
        sk = {s["skel"]: s for s in vf.jsonl_read(r0.skels)}
        cs = []
        for e in rep["examples"]:
            c = e["case"]
            s = sk[c["skel"]]
            cs.append({"t": "lay", "skel": c["skel"], "pl": c["pl"],
                       "feat": sorted(set("%s@%s(%s)=%s" % (s["cats"][k], s["zones"][g], s["classes"][g], k) for g, k in c["pl"]))})
        vf.jsonl_write(path, cs)
        _drive(binary, r0.skels, path, props, verdict, stats, classes)
        for v in verdict.violations:
            print("REPLAY-MISMATCH", v["class"], json.dumps(v["case"])[:300])
        return 1 if verdict.violations else 0

    quick = tier == "quick"
    runs = [Run(wd, "singles", maxplace=1, exportmin=0, dist=0, first=ALL_KINDS, more=["none"], skel=True, items=False,
                workers=4 if quick else 6)]
    if quick:
        runs.append(Run(wd, "simpairs", simulate=150, depth=3, maxplace=2, exportmin=2, dist=2, first=ALL_KINDS, more=ALL_KINDS, items=True))
        runs.append(Run(wd, "simmany", simulate=100, depth=8, maxplace=7, exportmin=7, dist=0, first=ALL_KINDS, more=ALL_KINDS, items=True))
    else:
        if pid == "C30":
            runs.append(Run(wd, "pairs", maxplace=2, exportmin=2, dist=2, first=ALL_KINDS, more=ALL_KINDS, workers=6))
        else:
            runs.append(Run(wd, "pairs", maxplace=2, exportmin=2, dist=1, first=ALL_KINDS, more=CORE_KINDS, workers=6))
        runs.append(Run(wd, "simfar", simulate=2500, depth=3, maxplace=2, exportmin=2, dist=0, first=ALL_KINDS, more=ALL_KINDS))
        runs.append(Run(wd, "simsix", simulate=1500, depth=7, maxplace=6, exportmin=6, dist=0, first=ALL_KINDS, more=ALL_KINDS, items=True))
        runs.append(Run(wd, "simmany", simulate=700, depth=15, maxplace=14, exportmin=14, dist=0, first=ALL_KINDS, more=ALL_KINDS))
    singles = runs[0].join()
    skels = singles.skels
    if len(vf.jsonl_read(skels)) != len(SKELS):
        raise vf.MachineryError("expected %d skeleton records" % len(SKELS))
    selftests = _selftest(binary, skels, wd, props)
    states = trans = ncases = 0
    feats = set()
    samples = []
    bounds = []
    for r in runs:
        r.join()
        _drive(binary, skels, r.cases, props, verdict, stats, classes)
        states += r.res.distinct or r.n
        trans += r.res.generated or r.n
        ncases += r.n
        feats |= r.feats
        samples += r.samples[:1]
        bounds.append({"run": r.name, "cases": r.n, "simulate": r.simulate, "depth": r.depth, "tlc_wall_s": round(r.res.wall, 1)})
    rc = verdict.finish()
    what = ("round-trip mode: PrintFile(Options{}) = the text, byte for byte; concatenated Print of every top-level declaration = "
            "the text minus (a suffix of) the file's trailing trivia") if pid == "C30" else \
           ("for Default and Legacy: the formatted text parses, compiles with the stable compiler to the skeleton's descriptors "
            "(source info aside; dependency order reported separately), and formatting it again returns it unchanged")
    vf.write_evidence(pid, tier, "model_checking", {
        "states": states, "transitions": trans, "traces_validated_against_impl": stats["cases"],
        "evaluations": stats["evaluations"], "distinct_nontrivial": len(feats),
        "rule": "cases = layouts of PrintLayout.tla: token skeleton x set of placements <<gap, trivia kind>>; distinct by the set of "
                "<category>@<zone>(<gap class>) of the placements. Oracle: " + what + ". evaluations counts texts printed and "
                "compared (cases plus the re-runs that minimise failing cases).",
        "exhaustive": True,
        "exhaustive_scope": "every single admissible placement (%d trivia kinds x every gap of %d skeletons, incl. start / end of file: BOM, "
                      "missing final newline, comment without line end)%s; many-gap layouts are random (tlc -simulate)" %
                      (len(ALL_KINDS), len(SKELS), "" if quick else
                       ("; every pair of placements at most 2 gaps apart" if pid == "C30" else
                        "; every pair of placements in adjacent gaps (second kind from the 9 core kinds)")),
        "samples": samples[:4], "bounds": bounds, "driver_stats": dict(stats), "failure_families": dict(classes),
        "binding_selftests": selftests,
    }, ["what a layout is, which trivia a gap admits, gap classes, zones, categories and the text itself (Items) come from "
        "PrintLayout.tla; the driver concatenates the exported strings (cross-checked against Items on the default layout and on "
        "every simulated case that carries Items) and checks that every skeleton compiles to the element kinds and imports the "
        "specification lists (exit 2 otherwise)",
        "C31: descriptors without source info depend on the token sequence only, so the stable compiler is run once per distinct token "
        "sequence of a formatted text (1 in 64 of the repeats is compiled anyway and compared)",
        "the words tokens / comments / layout in a class come from a small scanner in the driver that only describes a difference "
        "already established byte-wise"],
        time.time() - t0, violations=len(verdict.violations), known=verdict.known_hits)
    return rc
