"""C14 (string and number literals decode like protoc) and C26 (bytes default values survive escaping).

C14: spec/Literals.tla is the oracle (protoc's tokenizer rules that are not in doubt); spec/MCLiterals.tla
enumerates literal texts family by family (TLC, exhaustive) and random long literals (tlc -simulate, seeded
from VERIF_SEED); every exported case carries accept/reject, decoded bytes, integer value and float value
class; harness/literals places the concrete literal as a field default and as a custom option value, compiles
it with the real compiler and compares.  Texts that touch an uncertain rule are filtered inside the spec's Next.

C26: spec/Escape.tla (CEscape contract + C unescape grammar of Literals.tla); TLC checks
Unescape(Escape(b)) = b for every enumerated b and exports (b, Escape(b)); harness/escape compares the real
EscapeBytes, the default_value the compiler writes, linker Default().Bytes(), the Go runtime (protodesc) and the
runtime's re-escaped text; every text the real code produced is validated by TLC against spec/EscapeTrace.tla
(direction code -> model)."""
import json, os, time, collections, shutil
import vf

RAW = 1000000
BS, DQ, SQ, LF, NUL = 92, 34, 39, 10, 0
EACUTE, EURO, GRIN, RAW80, RAWFF = 233, 8364, 128512, RAW + 128, RAW + 255


def S(s):
    """python str -> list of character codes"""
    return [ord(c) for c in s]


def tla_seq(s):
    return "<<" + ", ".join(str(x) for x in s) + ">>"


def fam(fid, mode, q, prefix, chunks, maxlen, exportmin=0, rand=False):
    """chunks: iterable of code lists (or ints for single characters)"""
    cs = []
    for c in chunks:
        cs.append([c] if isinstance(c, int) else list(c))
    return {"id": fid, "mode": mode, "q": q, "prefix": list(prefix), "chunks": cs, "maxlen": maxlen,
            "exportmin": exportmin, "rand": rand}


def tla_fam(f):
    chunks = "{" + ", ".join(sorted(set(tla_seq(c) for c in f["chunks"]))) + "}"
    return ('[id |-> "%s", mode |-> "%s", q |-> %d, prefix |-> %s, chunks |-> %s, maxlen |-> %d, exportmin |-> %d, '
            'rand |-> %s]' % (f["id"], f["mode"], f["q"], tla_seq(f["prefix"]), chunks, f["maxlen"], f["exportmin"],
                              "TRUE" if f["rand"] else "FALSE"))


def write_mc(wd, name, families, invariants="Sane Export"):
    mod = "MCLit_" + name
    with open(os.path.join(wd, mod + ".tla"), "w") as fh:
        fh.write("---- MODULE %s ----\nEXTENDS MCLiterals\ncFamilies == {\n  %s\n}\n====\n"
                 % (mod, ",\n  ".join(tla_fam(f) for f in families)))
    with open(os.path.join(wd, mod + ".cfg"), "w") as fh:
        fh.write("SPECIFICATION Spec\nCONSTANTS Families <- cFamilies\nINVARIANTS %s\nCHECK_DEADLOCK FALSE\n"
                 % invariants)
    return mod


# ----------------------------------------------------------------------------------------------
# C14 families

NUM_BOUNDS = ["9223372036854775807", "9223372036854775808", "18446744073709551615", "18446744073709551616",
              "0x7fffffffffffffff", "0x8000000000000000", "0xffffffffffffffff", "0x10000000000000000",
              "0777777777777777777777", "01000000000000000000000", "01777777777777777777777",
              "02000000000000000000000", "-9223372036854775808", "-9223372036854775809",
              "999999999999999", "1e308", "1e309", "0.000001", "4503599627370496.5"]


def c14_families(tier):
    ex = []   # exhaustive
    if tier == "thorough":
        gen = [BS, DQ, SQ, 48, 55, 56, 97, 120, 117, 43, 103, NUL, EACUTE]
        ex.append(fam("gen", "str", DQ, [], gen, 5))
        ex.append(fam("esc", "str", DQ, [], [BS, DQ, 48, 55, 97, 120, 117, 43], 6))
        ex.append(fam("rawb", "str", DQ, [], [BS, DQ, 97, 120, RAW80, RAWFF], 4))
        ex.append(fam("hex", "str", DQ, S("\\x"), [DQ, BS, 48, 52, 56, 70, 102, 103, 43, 45, EACUTE, 120], 6))
        ex.append(fam("oct", "str", DQ, [BS], [48, 51, 52, 55, 56, 97, DQ, BS], 6))
        ex.append(fam("u", "str", DQ, S("\\u"), [48, 52, 70, 101, 103, 43, 45, DQ, BS], 7))
        ex.append(fam("U", "str", DQ, S("\\U"), [48, 49, 70, 43], 10))
        ex.append(fam("Ug", "str", DQ, S("\\U00"), [48, 49, 70, 103, 45, DQ], 10))
        ex.append(fam("U9", "str", DQ, S("\\U0000"), [48, 70, DQ, BS, 103], 12))
        ex.append(fam("X", "str", DQ, S("\\X"), [DQ, BS, 103, 43, 88, EACUTE], 4))
        ex.append(fam("sq", "str", SQ, [], [BS, DQ, SQ, 97, 48, 120, 43], 5))
        ex.append(fam("ws", "str", DQ, [], [BS, DQ, SQ, 9, 10, 13, 32, 97, 63, 116], 4))
        ex.append(fam("num", "num", 0, [], [48, 49, 50, 53, 57, 101, 120, 46, 43, 45], 5))
        ex.append(fam("numa", "num", 0, [], [48, 49, 57, 97, 102, 69, 88, 120, 46, 45], 4))
        ex.append(fam("numx", "num", 0, S("0"), [48, 55, 57, 102, 70, 120, 88, 46, 101], 6))
    else:
        gen = [BS, DQ, 48, 55, 56, 97, 120, 117, 43, 103, LF, NUL, EACUTE]
        ex.append(fam("gen", "str", DQ, [], gen, 4))
        ex.append(fam("rawb", "str", DQ, [], [BS, DQ, 97, RAW80], 3))
        ex.append(fam("hex", "str", DQ, S("\\x"), [DQ, BS, 48, 70, 102, 103, 43, 45, EACUTE], 5))
        ex.append(fam("oct", "str", DQ, [BS], [48, 51, 52, 55, 56, DQ], 5))
        ex.append(fam("u", "str", DQ, S("\\u"), [48, 70, 103, 43, 45, DQ], 7))
        for i, p in enumerate(["\\U000", "\\U001", "\\U00+", "\\U+00", "\\U0-0", "\\U100", "\\UF00"]):
            ex.append(fam("U%d" % i, "str", DQ, S(p), [48, 70, 43, 103], 10))
        ex.append(fam("X", "str", DQ, S("\\X"), [DQ, BS, 103, 43], 4))
        ex.append(fam("sq", "str", SQ, [], [BS, DQ, SQ, 97, 48, 32, 120], 4))
        ex.append(fam("dsq", "str", DQ, [], [BS, DQ, SQ, 97, 10], 4))
        ex.append(fam("num", "num", 0, [], [48, 49, 50, 53, 55, 57, 97, 101, 120, 46, 43, 45], 4))
        ex.append(fam("num5", "num", 0, [], [48, 49, 53, 101, 46, 45], 5))
    # every class of the alphabet at least once in an exhaustive family, in both tiers
    simple = S("abfnrtv\\'\"?") + S("ezN9") + [EACUTE, 32]
    ex.append(fam("simple", "str", DQ, [BS], simple, 3))
    ex.append(fam("simplesq", "str", SQ, [BS], simple, 2))
    ex.append(fam("numX", "num", 0, S("0X"), [48, 49, 102, 70, 46, 101, 120], 5))
    ex.append(fam("numE", "num", 0, S("1E"), [48, 49, 43, 45, 46, 101], 5))
    ex.append(fam("nume", "num", 0, S("1e"), [48, 49, 43, 45, 46, 69], 5))
    # Go-isms (always on, tiny): '_' separators, 0b / 0o prefixes, hex floats -- all Reject in the oracle
    US = 95
    ex.append(fam("gohex", "num", 0, S("0x"), [48, 49, 70, US], 6))
    ex.append(fam("goHEX", "num", 0, S("0X"), [49, 102, US], 5))
    ex.append(fam("gohexl", "num", 0, S("0xdead_beef"), [48, US], 12))
    ex.append(fam("godec", "num", 0, S("1"), [48, 53, US, 46, 101], 5))
    ex.append(fam("gooct", "num", 0, S("0"), [49, 55, US, 46], 5))
    ex.append(fam("godot", "num", 0, S("."), [53, 49, US, 101], 5))
    ex.append(fam("goneg", "num", 0, S("-"), [48, 49, US, 120], 5))
    ex.append(fam("goexp", "num", 0, S("1e"), [49, 48, US, 43, 45], 5))
    for pfx in ("0b", "0B"):
        ex.append(fam("go" + pfx, "num", 0, S(pfx), [48, 49, 50, US], 5))
    for pfx in ("0o", "0O"):
        ex.append(fam("go" + pfx, "num", 0, S(pfx), [49, 55, 56, US], 5))
    ex.append(fam("gohexf", "num", 0, S("0x1"), [112, 46, 56, 45, 49], 7))
    ex.append(fam("gohexP", "num", 0, S("0X1P"), [45, 43, 49, 50], 7))
    ex.append(fam("gohexd", "num", 0, S("0x."), [56, 112, 49], 6))
    if tier == "thorough":
        ex.append(fam("go5", "num", 0, [], [48, 49, US, 120, 46, 101, 98, 70], 5))
        ex.append(fam("go6", "num", 0, S("0"), [49, US, 120, 111, 112, 46, 102], 6))
    numalpha = [48, 49, 55, 56, 57, 102, 101, 46, 45, 120]
    for i, b in enumerate(NUM_BOUNDS):
        ex.append(fam("nb%d" % i, "num", 0, S(b), numalpha, len(b) + 1))
    # simulation: long literals built from whole escape sequences
    valid = ["\\n", "\\\\", "\\\"", "\\'", "\\?", "\\a", "\\v", "\\0", "\\7", "\\12", "\\377", "\\101", "\\1",
             "\\x4", "\\x41", "\\xfF", "\\x0", "\\u0041", "\\u00e9", "\\u20AC", "\\uFFFF", "\\U0001F600",
             "\\U0010FFFF", "\\U00000000", "a", "7", "8", "F", "f", "g", " ", "'", "x", "u", "+", "0",
             "é", "€", "\U0001F600"]
    invalid = ["\\x+4", "\\u-041", "\\q", "\\x", "\\u12", "\\U+0000041", "\"", "\\"]
    uncertain = ["\\400", "\\X41", "\\uD83D", "\\U00110000"]          # filtered by the spec
    chunks = [S(x) for x in valid + invalid + uncertain] + [[NUL], [RAW80], [RAWFF]]
    sim = [fam("simstr", "str", DQ, [], chunks, 40, 10, True),
           fam("simsq", "str", SQ, [], chunks, 40, 10, True)]
    nchunks = [S(x) for x in ["0", "1", "7", "8", "9", "5", "00", "123", "999999999", "184467440737", "a", "f", "e",
                              "E", "x", "X", ".", "+", "-", "e+", "e-", "0x", "25", "000000", "e3", "e30", ".5",
                              "_", "1_0", "_1", "0b", "0o", "p-2", "p1"]]
    sim.append(fam("simnum", "num", 0, [], nchunks, 30, 6, True))
    sim.append(fam("simnumx", "num", 0, S("0x"), nchunks, 30, 6, True))
    sim.append(fam("simnumo", "num", 0, S("0"), [S(x) for x in ["0", "1", "7", "3", "8", "777777", ".", "e"]], 30, 6, True))
    return ex, sim


C14_RULES_REQUIRED = {"simple", "oct1", "oct2", "oct3", "hex1", "hex2", "u4", "U8", "raw", "utf8char",
                      "concat", "rej:lf", "rej:nul", "rej:escape", "rej:hex", "rej:u", "rej:U", "rej:Urange",
                      "rej:unterminated", "rej:trailing",
                      "hex", "octal", "decimal", "float", "float-exp", "float-dot-first", "neg",
                      "rej:go-underscore", "rej:go-binary", "rej:go-octal-o", "rej:go-hexfloat",
                      "rej:not-a-number", "rej:dot", "rej:hexint", "rej:octalint", "rej:decimal", "rej:empty"}


def c14_feature(o):
    r = o["r"]
    fv = r.get("fv") or {}
    return (o["m"], o["q"], r["st"], tuple(sorted(r.get("rules", []))), r.get("kind"), r.get("neg"),
            r.get("i64"), r.get("u64"), r.get("dbl"), fv.get("k"), r.get("u8"))


def text_of(o):
    return "".join(chr(c) if c < RAW else "<%02x>" % (c - RAW) for c in o["text"])


def run_c14(pid, tier, replay):
    t0 = time.time()
    wd = vf.workdir(pid)
    binary = vf.build_driver("literals")
    verdict = vf.Verdict(pid)
    workers = int(os.environ.get("VERIF_TLC_WORKERS", "8"))
    jobs = os.environ.get("VERIF_DRIVER_JOBS", "8")
    states = trans = 0
    seen = set()
    feats = collections.Counter()
    rules_seen = set()
    samples = []
    bounds = []
    casefile = os.path.join(wd, "cases.jsonl")
    ncases = 0
    selftest_case = None

    if replay:
        rep = json.load(open(replay))
        with open(casefile, "w") as cf:
            for e in rep["examples"]:
                cf.write(json.dumps(e["case"], separators=(",", ":")) + "\n")
                ncases += 1
    else:
        ex, sim = c14_families(tier)
        with open(casefile, "w") as cf:
            def sink(o):
                nonlocal ncases, selftest_case
                key = (o["m"], o["q"], tuple(o["text"]))
                if key in seen:
                    return
                seen.add(key)
                if o["r"]["st"] == "uncertain":
                    raise vf.MachineryError("spec exported an uncertain case: %r" % (o,))
                cf.write(json.dumps(o, separators=(",", ":")) + "\n")
                ncases += 1
                feats[c14_feature(o)] += 1
                rules_seen.update(o["r"].get("rules", []))
                r = o["r"]
                if selftest_case is None and o["m"] == "str" and r["st"] == "ok" and len(r["bytes"]) >= 2:
                    selftest_case = o
                if len(samples) < 4 and len(o["text"]) >= 4 and (
                        (o["m"] == "str" and r["st"] == "ok" and len(set(r["rules"]) - {"raw"}) >= 2 and len(samples) < 2) or
                        (o["m"] == "num" and r["st"] == "ok" and r["kind"] == "float" and r["fv"]["k"] != "any" and len(samples) >= 2)):
                    samples.append(o)

            mod = write_mc(wd, "exh", ex, "Sane SaneDelim Export" if tier == "thorough" else "Sane Export")
            r = vf.tlc(mod, mod + ".cfg", wd, workers=workers, case_sink=sink,
                       timeout=900 if tier == "quick" else 3000)
            if r.violated:
                raise vf.MachineryError("spec-level check failed in MCLiterals (exhaustive): %s, see %s"
                                        % (r.violated, r.stdout_path))
            states += r.distinct
            trans += r.generated
            n_exh = ncases
            bounds.append({"run": "exhaustive", "families": [
                {"id": f["id"], "mode": f["mode"], "q": f["q"], "prefix": "".join(map(chr, f["prefix"])),
                 "alphabet": [text_of({"text": c}) for c in f["chunks"]], "maxlen": f["maxlen"]} for f in ex],
                "cases": n_exh, "tlc_wall_s": round(r.wall, 1)})
            mod = write_mc(wd, "sim", sim)
            nsim = 6000 if tier == "thorough" else 600
            r = vf.tlc(mod, mod + ".cfg", wd, workers=1, simulate=nsim, depth=14, tseed=vf.seed(), case_sink=sink,
                       timeout=900 if tier == "quick" else 3000)
            if r.violated:
                raise vf.MachineryError("spec-level check failed in MCLiterals (simulation): %s, see %s"
                                        % (r.violated, r.stdout_path))
            states += r.distinct
            trans += r.generated
            bounds.append({"run": "simulate", "traces": nsim, "depth": 14, "seed": vf.seed(),
                           "families": [f["id"] for f in sim], "cases": ncases - n_exh,
                           "tlc_wall_s": round(r.wall, 1)})
        missing = C14_RULES_REQUIRED - rules_seen
        if missing:
            raise vf.MachineryError("vacuous: rules never exercised by any exported case: %s" % sorted(missing))

    mm = os.path.join(wd, "mismatches.jsonl")
    rc, _out, err = vf.run_driver(binary, ["-j", jobs] + (["-lean"] if tier == "quick" and not replay else []),
                                  stdin_path=casefile, stdout_path=mm,
                                  timeout=900 if tier == "quick" else 3000)
    if rc != 0:
        raise vf.MachineryError("literals driver failed rc=%s: %s" % (rc, err[-2000:]))
    stats = {}
    for line in err.splitlines():
        if line.startswith("STATS "):
            stats = json.loads(line[6:])
    if stats.get("cases") != ncases:
        raise vf.MachineryError("driver replayed %s of %s cases" % (stats.get("cases"), ncases))
    for m in vf.jsonl_read(mm):
        c = m["case"]
        c["literal"] = text_of(c)
        verdict.disagree(m["class"], c, m["detail"])

    # binding self-test: a corrupted expectation must be reported by the driver
    if not replay:
        if selftest_case is None:
            raise vf.MachineryError("no case for the binding self-test")
        bad = json.loads(json.dumps(selftest_case))
        bad["r"]["bytes"][0] = (bad["r"]["bytes"][0] + 1) % 256
        st = os.path.join(wd, "selftest.jsonl")
        vf.jsonl_write(st, [bad])
        rc2, out2, err2 = vf.run_driver(binary, ["-j", "1"], stdin_path=st, timeout=300)
        if rc2 != 0 or '"class":"string:value:' not in (out2 or ""):
            raise vf.MachineryError("binding self-test failed: corrupted expectation not reported (%s)" % err2[-500:])

    rcode = verdict.finish()
    nontrivial = sum(1 for f in feats if set(f[3]) - {"raw"})
    vf.write_evidence(pid, tier, "model_checking", {
        "states": states, "transitions": trans, "traces_validated_against_impl": ncases,
        "evaluations": stats.get("placements_checked", 0), "compiles": stats.get("compiles", 0),
        "compiler_accepted": stats.get("accepted", 0), "compiler_rejected": stats.get("rejected", 0),
        "distinct_nontrivial": nontrivial,
        "rule": "a case = one literal text (string body with delimiter, or numeric value position) with the expected "
                "accept/reject, decoded bytes / integer value / float class from Literals.tla, placed as field default "
                "and custom option value (bytes, string when valid UTF-8, int64, uint64, double) and compiled with the "
                "real compiler; evaluations = placements compared; distinct_nontrivial = distinct feature vectors "
                "(mode, delimiter, outcome, set of grammar rules touched, per-type expectation, float class) that "
                "touch at least one rule other than 'raw character'",
        "rules_exercised": sorted(rules_seen),
        "samples": [dict(s, literal=text_of(s)) for s in samples] or [{"text": "replay"}],
        "exhaustive": True,
        "bounds": bounds,
    }, ["Literals.tla is the oracle: protoc's tokenizer rules written from tokenizer.cc / the language definition, "
        "protoc itself is not installed",
        "outside the exported domain (filtered inside Next): octal escapes > 0377, \\X escapes, surrogate code points, "
        "\\U00110000..\\U001FFFFF, raw bytes that are not valid UTF-8 (replaced by U+FFFD on purpose, parser.TestUTF8), numeric literals with a leading zero followed by a digit that contain '.' or an "
        "exponent (the project accepts these on purpose; protoc's tokenizer rejects them)",
        "source characters are concretised as their UTF-8 encoding, codes >= 1000000 as one raw byte",
        "float values are compared only for exactly representable values, zero and overflow to infinity",
        "u64 placement skipped for '-0'; double placement skipped for integers above 2^64-1 (version dependent)"],
        time.time() - t0, violations=len(verdict.violations), known=verdict.known_hits)
    return rcode


# ----------------------------------------------------------------------------------------------
# C26

ESC_CFG = """SPECIFICATION Spec
CONSTANTS
  Alphabet = {%s}
  MaxLen = %d
  ExportMin = %d
  Random = %s
INVARIANTS SpecRoundTrip SpecPrintable Export
CHECK_DEADLOCK FALSE
"""
ESC_TRACE_CFG = "SPECIFICATION Spec\nPOSTCONDITION TraceAccepted\nCHECK_DEADLOCK FALSE\n"


def validate_trace(wd, sub, records):
    """TLC validates (bytes, text) records against EscapeTrace.tla.  Returns None if accepted, else the index
    (0-based) of the first record the specification does not accept."""
    twd = os.path.join(wd, sub)
    shutil.rmtree(twd, ignore_errors=True)
    os.makedirs(twd)
    with open(os.path.join(twd, "esc_trace.ndjson"), "w") as fh:
        for b, t in records:
            fh.write(json.dumps({"b": list(b), "t": list(t)}, separators=(",", ":")) + "\n")
    with open(os.path.join(twd, "EscapeTrace.cfg"), "w") as fh:
        fh.write(ESC_TRACE_CFG)
    import re
    out_path = os.path.join(twd, "EscapeTrace.tlc.out")

    def rejected_index():
        m = re.search(r'TRACE-REJECTED-AT-RECORD", (\d+)', open(out_path).read())
        if not m:
            raise vf.MachineryError("trace validation failed without a rejection marker, see " + out_path)
        return int(m.group(1)) - 1      # the behaviour has d states: records 1..d-1 matched, record d did not

    try:
        r = vf.tlc("EscapeTrace", "EscapeTrace.cfg", twd, workers=1, timeout=3000)
    except vf.MachineryError as e:
        if "Postcondition TraceAccepted" in str(e):
            return rejected_index(), None
        raise
    if r.postcondition_failed:
        return rejected_index(), None
    if r.violated:
        raise vf.MachineryError("unexpected TLC outcome validating the escape trace, see " + r.stdout_path)
    if r.distinct != len(records) + 1:
        raise vf.MachineryError("trace validation visited %d states for %d records" % (r.distinct, len(records)))
    return None, r


def run_c26(pid, tier, replay):
    t0 = time.time()
    wd = vf.workdir(pid)
    binary = vf.build_driver("escape")
    verdict = vf.Verdict(pid)
    workers = int(os.environ.get("VERIF_TLC_WORKERS", "8"))
    jobs = os.environ.get("VERIF_DRIVER_JOBS", "8")
    base = [65, 55, 92, 34, 39, 10, 13, 9, 0, 127, 128, 255, 120, 117]
    runs = []
    if tier == "thorough":
        runs.append(("exh", base + [48, 63, 32, 31, 126, 97, 51], 4, None))
        runs.append(("sim", list(range(256)), 24, 4000))
    else:
        runs.append(("exh", base, 4, None))
        runs.append(("sim", list(range(256)), 16, 300))
    states = trans = ncases = 0
    seen = set()
    samples = []
    feats = set()
    casefile = os.path.join(wd, "cases.jsonl")

    def klass(c):
        if c in (10, 13, 9):
            return "ws"
        if c in (34, 39, 92):
            return "quote"
        if 48 <= c <= 57:
            return "digit"
        if 32 <= c < 127:
            return "print"
        return "ctl" if c < 32 or c == 127 else "high"

    with open(casefile, "w") as cf:
        if replay:
            rep = json.load(open(replay))
            for e in rep["examples"]:
                cf.write(json.dumps(e["case"], separators=(",", ":")) + "\n")
                ncases += 1
        else:
            def sink(o):
                nonlocal ncases
                key = tuple(o["b"])
                if key in seen:
                    return
                seen.add(key)
                cf.write(json.dumps(o, separators=(",", ":")) + "\n")
                ncases += 1
                feats.add(tuple(klass(c) for c in o["b"][:6]))
                if len(samples) < 3 and len(o["b"]) >= 3 and len(set(klass(c) for c in o["b"])) >= 3:
                    samples.append(o)
            for name, alpha, maxlen, simn in runs:
                cfg = "MCEscape_%s.cfg" % name
                with open(os.path.join(wd, cfg), "w") as fh:
                    fh.write(ESC_CFG % (", ".join(map(str, alpha)), maxlen, (maxlen // 2) if simn else 0,
                                        "TRUE" if simn else "FALSE"))
                r = vf.tlc("MCEscape", cfg, wd, workers=1 if simn else workers, simulate=simn,
                           depth=maxlen + 1 if simn else None, tseed=vf.seed() if simn else None,
                           case_sink=sink, timeout=3000)
                if r.violated:
                    # a spec-level failure of the round trip is a defect of the specification, not of the code
                    raise vf.MachineryError("spec-level check %s failed in MCEscape, see %s" % (r.violated, r.stdout_path))
                states += r.distinct
                trans += r.generated
    trace_path = os.path.join(wd, "real_texts.ndjson")
    mm = os.path.join(wd, "mismatches.jsonl")
    rc, _o, err = vf.run_driver(binary, ["-j", jobs, "-trace", trace_path], stdin_path=casefile, stdout_path=mm,
                                timeout=3000)
    if rc != 0:
        raise vf.MachineryError("escape driver failed rc=%s: %s" % (rc, err[-2000:]))
    stats = {}
    for line in err.splitlines():
        if line.startswith("STATS "):
            stats = json.loads(line[6:])
    if stats.get("cases") != ncases:
        raise vf.MachineryError("driver replayed %s of %s cases" % (stats.get("cases"), ncases))
    for m in vf.jsonl_read(mm):
        verdict.disagree(m["class"], m["case"], m["detail"])

    # direction code -> model: the texts the real code produced, validated by TLC
    recs = []
    rseen = set()
    srcs = collections.Counter()
    nrec = 0
    with open(trace_path) as fh:
        for line in fh:
            o = json.loads(line)
            nrec += 1
            srcs[o["src"]] += 1
            key = (tuple(o["b"]), tuple(o["t"]))
            if key in rseen:
                continue
            rseen.add(key)
            recs.append((key[0], key[1], o["src"]))
    if nrec == 0 or not recs:
        raise vf.MachineryError("no texts recorded from the real code")
    for need in ("EscapeBytes", "descriptor", "runtime-reescape"):
        if not srcs[need] and not replay:
            raise vf.MachineryError("no %s texts recorded" % need)
    todo = recs
    rejected = 0
    rej_by_src = collections.Counter()
    tstates = 0
    while todo:
        idx, r = validate_trace(wd, "trace", [(b, t) for b, t, _s in todo])
        if idx is None:
            tstates += r.distinct
            break
        b, t, src = todo[idx]
        rejected += 1
        rej_by_src[src] += 1
        esc = None                      # the specification's text for b, so that the case can be replayed
        with open(casefile) as fh:
            for line in fh:
                o = json.loads(line)
                if tuple(o["b"]) == tuple(b):
                    esc = o["esc"]
                    break
        verdict.disagree("trace:" + src, {"b": list(b), "esc": esc, "real_text": list(t)},
                         "text produced by the real code (%s) does not read back to the bytes under Escape.tla: %r"
                         % (src, bytes(t)))
        tstates += idx
        # go on behind the rejected record; a source that was rejected three times is not examined further
        todo = [x for x in todo[idx + 1:] if rej_by_src[x[2]] < 3]
    # binding self-test: TLC must reject a corrupted record (and exactly that one).  The records are the
    # specification's own (b, Escape(b)) pairs, so the test does not depend on the code under test.
    if not replay:
        good = []
        with open(casefile) as fh:
            for line in fh:
                o = json.loads(line)
                if len(o["b"]) >= 2:
                    good.append((o["b"], o["esc"]))
                if len(good) >= 40:
                    break
        cb, ct = good[-1]
        bad = good[:-1] + [(cb, list(ct) + [65])] + good[:3]
        idx, _r = validate_trace(wd, "trace_selftest", bad)
        if idx != len(good) - 1:
            raise vf.MachineryError("binding self-test failed: corrupted trace record not rejected at %d (got %r)"
                                    % (len(good) - 1, idx))

    rcode = verdict.finish()
    vf.write_evidence(pid, tier, "model_checking", {
        "states": states + tstates, "transitions": trans + tstates,
        "traces_validated_against_impl": len(recs) - rejected,
        "trace_records_recorded": nrec, "trace_records_by_source": dict(srcs),
        "evaluations": stats.get("checks", 0), "compiles": stats.get("compiles", 0), "cases": ncases,
        "distinct_nontrivial": len([f for f in feats if set(f) - {"print"}]),
        "rule": "a case = one byte string b with the text Escape(b) from Escape.tla; evaluations = single comparisons "
                "(EscapeBytes text, compiler default_value text, linker Default().Bytes(), protodesc Default().Bytes(), "
                "runtime re-escaped text read back, each from source and from a descriptor proto); "
                "traces_validated = distinct (bytes, real text) records accepted by TLC against EscapeTrace.tla; "
                "distinct_nontrivial = distinct sequences of byte classes (ws, quote, digit, print, ctl, high) of the "
                "first six bytes that contain a non-printable class",
        "samples": samples or [{"b": "replay"}],
        "exhaustive": True,
        "bounds": [{"run": n, "alphabet": a if len(a) < 40 else "0..255", "maxlen": m, "simulate": s} for n, a, m, s in runs],
    }, ["Escape.tla: Escape = absl::CEscape contract (documented format of default_value for bytes), Unescape = the C "
        "escape grammar of Literals.tla; TLC checks Unescape(Escape(b)) = b and printability of the text for every enumerated b",
        "bytes are placed in a .proto source as the literal \"Escape(b)\" (simple escapes, 3-digit octal, printable ASCII)",
        "protodesc / protoregistry of google.golang.org/protobuf are the 'Go protobuf runtime'"],
        time.time() - t0, violations=len(verdict.violations), known=verdict.known_hits)
    return rcode


def run(pid, tier, replay=None):
    if pid == "C14":
        return run_c14(pid, tier, replay)
    if pid == "C26":
        return run_c26(pid, tier, replay)
    raise vf.MachineryError("engine literals does not serve " + pid)
