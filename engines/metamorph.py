"""C09 C10 C24: metamorphic relations of the stable compiler on FileFeatures.tla workspaces.
TLC enumerates (syntax, feature set [, input-form assignment, source-info mode]); harness/_common/featgen
renders them; harness/metamorph first confirms that the compiled file contains exactly the element kinds and
imports the specification predicts (generator sanity, exit 2 otherwise) and then checks the relation the
property states."""
import json, os, time, collections
import vf

CFG = """SPECIFICATION Spec
CONSTANTS
  MaxFeatures = %d
  ExportMin = %d
  FormChoices = {%s}
  FormSample = %s
  SampleAbove = %d
  ModeChoices = {%s}
INVARIANTS Export
CHECK_DEADLOCK FALSE
"""

PROPS = {
    "C24": dict(mode="clone", forms='"source"', modes='"none"', race=False,
                rule="relation: parser.Clone(result) has an equal descriptor proto, shares no message / byte-slice with the original, "
                     "every node lookup (message, field, oneof, extension range, reserved range, enum, value, service, method, option, "
                     "option name part, Node()) returns the original's node, and scribbling over either copy leaves the other unchanged"),
    "C10": dict(mode="relink", forms='"source"', modes='"none"', race=False,
                rule="relation: output FileDescriptorProtos fed back as SearchResult{Proto} (and dependencies as SearchResult{Desc}) "
                     "compile successfully to byte-identical deterministic encodings, with and without source info"),
    "C09": dict(mode="forms", forms='"source", "ast", "parse", "proto", "protosi"', modes='"none", "standard", "extra"', race=True,
                rule="relation: every assignment of input form (source / AST / ParseResult / Proto) to the files of the workspace x "
                     "source-info mode gives descriptors byte-identical (source info aside) to the all-source compilation; supplied "
                     "protos and parse results are snapshotted and unchanged after one and after two concurrent compilations (-race build)"),
}



def _line(path, n):
    """the n-th (0-based) JSON line of a case file"""
    with open(path) as fh:
        for i, l in enumerate(fh):
            if i == n:
                return json.loads(l)
    return None

def run(pid, tier, replay=None):
    t0 = time.time()
    P = PROPS[pid]
    wd = vf.workdir(pid)
    binary = vf.build_driver("metamorph")
    race_binary = vf.build_driver("metamorph", race=True) if P["race"] else None
    verdict = vf.Verdict(pid)
    if replay:
        rep = json.load(open(replay))
        casefile = os.path.join(wd, "replay_cases.jsonl")
        vf.jsonl_write(casefile, [e["case"]["abstract"] for e in rep["examples"] if "abstract" in e.get("case", {})])
        rc, out, err = vf.run_driver(binary, [P["mode"]], stdin_path=casefile, timeout=600)
        bad = [l for l in out.splitlines() if l.strip() and not json.loads(l)["class"].startswith("HARNESS:parser-rejects")]
        for l in bad:
            print("REPLAY-MISMATCH", l[:400])
        return 1 if bad else 0
    if pid == "C09":
        runs = [("exh", 1, 0, None), ("sim", 12, 4, 15 if tier == "quick" else 400)]
    else:
        runs = [("exh", 2 if tier == "quick" or pid == "C10" else 3, 0, None), ("sim", 14, 5, 40 if tier == "quick" else 1500)]
    states = trans = ncases = 0
    feats = set()
    samples = []
    stats = collections.Counter()
    for name, maxf, exportmin, sim in runs:
        cfg = "MCFF_%s.cfg" % name
        with open(os.path.join(wd, cfg), "w") as fh:
            modes = P["modes"]
            if pid == "C09" and tier == "quick" and not sim:
                modes = '"standard"'     # quick: all form assignments in one mode; the simulated cases draw random modes
            fh.write(CFG % (maxf, exportmin, P["forms"], "TRUE" if sim else "FALSE", 30 if tier == "quick" else 700, modes))
        casefile = os.path.join(wd, "cases_%s.jsonl" % name)
        n = 0
        seen = set()
        with open(casefile, "w") as cf:
            def sink(o):
                nonlocal n
                key = json.dumps(o, sort_keys=True)
                if key in seen:
                    return
                seen.add(key)
                cf.write(json.dumps(o, separators=(",", ":")) + "\n")
                n += 1
                feats.add((o["syntax"], tuple(sorted(o["features"]))))
                if len(samples) < 2 and len(o["features"]) >= 2:
                    samples.append(o)
            r = vf.tlc("MCFileFeatures", cfg, wd, workers=1 if sim else 4, simulate=sim, depth=maxf + 1 if sim else None,
                       tseed=vf.seed() if sim else None, case_sink=sink, timeout=3000)
        states += r.distinct or len(seen)
        trans += r.generated or len(seen)
        ncases += n
        use_race = P["race"] and sim is not None      # exhaustive families run natively, the simulated ones under -race
        env = {"GORACE": "halt_on_error=0 log_path=" + os.path.join(wd, "race_" + name)} if use_race else None
        rc, out, err = vf.run_driver(race_binary if use_race else binary, [P["mode"]], stdin_path=casefile, timeout=3000, env=env)
        if rc != 0 and not (use_race and rc == 66):
            raise vf.MachineryError("metamorph driver failed rc=%s: %s" % (rc, err[-2000:]))
        for line in out.splitlines():
            m = json.loads(line)
            if m["class"].startswith("HARNESS:"):
                raise vf.MachineryError("generator bug: %s %s: %s" % (m["class"], m["key"], m["detail"][:1500]))
            verdict.disagree(m["class"], {"case": m["key"], "abstract": _line(casefile, m["n"])}, m["detail"])
        for l in err.splitlines():
            if l.startswith("STATS"):
                for kv in l.split()[1:]:
                    k, v = kv.split("=")
                    stats[k] += int(v)
        if use_race:
            for fn in os.listdir(wd):
                if fn.startswith("race_" + name):
                    txt = open(os.path.join(wd, fn)).read()
                    if "DATA RACE" in txt:
                        verdict.disagree("forms:data-race", {"log": fn}, txt[:3000])
    rc = verdict.finish()
    vf.write_evidence(pid, tier, "exploration", {
        "evaluations": ncases, "distinct_nontrivial": len(feats),
        "rule": "cases = (syntax, set of language features) valid per FileFeatures.tla, all sets up to the size bound plus the maximal "
                "set per syntax (TLC BFS) plus larger random sets (TLC -simulate); distinct by (syntax, feature set). " + P["rule"],
        "samples": samples, "states": states, "transitions": trans, "driver_stats": dict(stats),
        "bounds": [{"run": n, "max_features": m, "simulate": s} for n, m, _e, s in runs],
    }, ["the oracle is the metamorphic relation stated by the property; FileFeatures.tla supplies the inputs, their validity and the "
        "element kinds each compiled file must contain (checked on every case: a mismatch is a generator bug, exit 2)",
        "concrete text per feature is the Go renderer's"],
        time.time() - t0, violations=len(verdict.violations), known=verdict.known_hits)
    return rc
