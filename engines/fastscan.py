"""C25: HeaderLang.tla says what package / imports a header denotes independent of spelling and layout;
TLC enumerates item sequences x layouts, harness/fastscan renders them, checks the full parser accepts and
agrees with the spec (harness sanity), then compares fastscan.Scan with the spec's expectation."""
import json, os, time, collections
import vf

CFG = """SPECIFICATION Spec
CONSTANTS
  MaxItems = %d
  ExportMin = %d
INVARIANTS Export
CHECK_DEADLOCK FALSE
"""



def _line(path, n):
    """the n-th (0-based) JSON line of a case file"""
    with open(path) as fh:
        for i, l in enumerate(fh):
            if i == n:
                return json.loads(l)
    return None

def run(pid, tier, replay=None):
    t0 = time.time()
    wd = vf.workdir(pid)
    binary = vf.build_driver("fastscan")
    verdict = vf.Verdict(pid)
    if replay:
        rep = json.load(open(replay))
        casefile = os.path.join(wd, "replay_cases.jsonl")
        vf.jsonl_write(casefile, [e["case"]["abstract"] for e in rep["examples"] if "abstract" in e.get("case", {})])
        rc, out, err = vf.run_driver(binary, [], stdin_path=casefile, timeout=600)
        bad = [l for l in out.splitlines() if l.strip() and not json.loads(l)["class"].startswith("HARNESS:parser-rejects")]
        for l in bad:
            print("REPLAY-MISMATCH", l[:400])
        return 1 if bad else 0
    runs = [("exh", 2, 0, None)] if tier == "quick" else [("exh", 3, 0, None)]
    runs.append(("sim", 6, 6, 150 if tier == "quick" else 3000))
    states = trans = ncases = 0
    feats = set()
    samples = []
    skipped = 0
    for name, maxitems, exportmin, sim in runs:
        cfg = "MCHL_%s.cfg" % name
        with open(os.path.join(wd, cfg), "w") as fh:
            fh.write(CFG % (maxitems, exportmin))
        casefile = os.path.join(wd, "cases_%s.jsonl" % name)
        n = 0
        with open(casefile, "w") as cf:
            def sink(o):
                nonlocal n
                cf.write(json.dumps(o, separators=(",", ":")) + "\n")
                n += 1
                feats.add((o["layout"],) + tuple(sorted(set((it["k"], it.get("form") or it.get("path") or it.get("fill"), it.get("kind")) for it in o["items"]))))
                if len(samples) < 3 and len(o["items"]) >= 2 and o["imports"]:
                    samples.append(o)
            r = vf.tlc("MCHeaderLang", cfg, wd, workers=1 if sim else 8, simulate=sim, depth=maxitems + 1 if sim else None,
                       tseed=vf.seed() if sim else None, case_sink=sink, timeout=3000)
        states += r.distinct or n
        trans += r.generated or n
        ncases += n
        rc, out, err = vf.run_driver(binary, stdin_path=casefile, timeout=3000)
        if rc != 0:
            raise vf.MachineryError("fastscan driver failed: " + err[-2000:])
        for line in out.splitlines():
            m = json.loads(line)
            if m["class"] == "HARNESS:parser-rejects":
                skipped += 1          # outside the property's domain (files the full parser accepts)
                continue
            if m["class"].startswith("HARNESS:"):
                raise vf.MachineryError("renderer/spec disagree with the full parser: %s %r" % (m["detail"], m["text"][:300]))
            verdict.disagree(m["class"], {"text": m["text"], "abstract": _line(casefile, m["n"])}, m["detail"])
    if skipped > ncases // 10:
        raise vf.MachineryError("too many generated files rejected by the full parser: %d of %d" % (skipped, ncases))
    rc = verdict.finish()
    vf.write_evidence(pid, tier, "model_checking", {
        "states": states, "transitions": trans, "traces_validated_against_impl": ncases - skipped,
        "evaluations": ncases, "distinct_nontrivial": len(feats),
        "rule": "every sequence of <= MaxItems top-level items (package forms, import kinds x path spellings, filler constructs "
                "containing the words import/package, brackets, strings, comments) x 5 layouts, enumerated by TLC; longer ones by "
                "-simulate; distinct by (layout, set of item forms); files the full parser rejects are outside the domain and skipped",
        "samples": samples, "skipped_parser_rejects": skipped, "exhaustive": True,
        "bounds": [{"run": n, "max_items": m, "simulate": s} for n, m, _e, s in runs],
    }, ["HeaderLang.tla is the oracle for package/imports; the full parser must agree with it on every case (else exit 2)",
        "concrete spelling of each form is the Go renderer's (trusted, cross-checked by the full parser)"],
        time.time() - t0, violations=len(verdict.violations), known=verdict.known_hits)
    return rc
