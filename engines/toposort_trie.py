"""C41: toposort.Sort and trie.Trie against their specifications Toposort.tla / Trie.tla.

toposort, direction A: TLC (MCToposort) enumerates every digraph on 1..N (with / without self loops) x every
root sequence up to MaxRoots; each state is a case carrying the reachable set, whether a cycle is reachable
and the child-before-parent pairs.  harness/toposort runs the real Sort (fresh, re-used Sorter, after an
abandoned iteration, pointer nodes; four child orders incl. repeated children) and compares.
toposort, direction B: the yielded order is relational, so the real outputs are also recorded and validated
by TLC against Toposort!ValidOrder (ToposortTrace.tla).
trie, direction A: TLC (MCTrie) enumerates every insertion history of keys over {a,b} up to MaxKeyLen (BFS)
and random longer ones (-simulate); each history carries Prefixes(q) and Get(q) for every query after EVERY
insert.  harness/trie replays with several byte codings of the letters (nybble-sharing bytes, UTF-8, 85..300
byte letters that cross the 255-node uint8 index limit; 23000-byte letters that cross 65535)."""
import json, os, re, time
import vf

WORKERS = int(os.environ.get("VERIF_TLC_WORKERS", "8"))

TS_CFG = """SPECIFICATION Spec
CONSTANTS
  N = %d
  MaxRoots = %d
  SelfLoops = %s
  MinEdges = %d
  Only %s
INVARIANTS OracleSane Export
CHECK_DEADLOCK FALSE
"""
TRIE_CFG = """SPECIFICATION Spec
CONSTANTS
  KeyLetters = {"a", "b"}
  MaxKeyLen = %d
  MaxLen = %d
  ExportLen = %d
  Only %s
INVARIANTS OracleSane Export
VIEW View
CHECK_DEADLOCK FALSE
"""
TRACE_CFG = """SPECIFICATION Spec
CONSTANTS
  TraceFile = "%s"
POSTCONDITION Consumed
CHECK_DEADLOCK FALSE
"""


def _tla(v):
    if isinstance(v, (list, tuple)):
        return "<<" + ", ".join(_tla(x) for x in v) + ">>"
    if isinstance(v, str):
        return '"%s"' % v
    return str(v)


def _tla_set(items):
    return "{" + ", ".join(sorted(set(items))) + "}"


def _read_driver_output(path, ncases, what):
    stats, lines = None, []
    for line in open(path):
        m = json.loads(line)
        if "stats" in m:
            stats = m["stats"]
        else:
            lines.append(m)
    if not stats:
        raise vf.MachineryError("%s driver wrote no stats" % what)
    if stats.get("aborted"):
        return stats, lines          # a hang was reported as a disagreement
    if stats["cases"] != ncases:
        raise vf.MachineryError("%s driver processed %s of %d cases" % (what, stats["cases"], ncases))
    return stats, lines


# ------------------------------------------------------------------------------------------ toposort

def _toposort(wd, tier, seed, verdict, replay_cases, ev):
    binary = vf.build_driver("toposort")
    # (name, N, MaxRoots, SelfLoops, MinEdges, validate traces with TLC)
    if replay_cases is not None:
        if not replay_cases:
            return
        n = max(c["n"] for c in replay_cases)
        only = _tla_set("<<{%s}, %s>>" % (", ".join("<<%d, %d>>" % (p + 1, k) for p, ks in enumerate(c["kids"]) for k in ks),
                                         _tla(c["roots"])) for c in replay_cases)
        with open(os.path.join(wd, "MCToposortReplay.tla"), "w") as fh:
            fh.write("---- MODULE MCToposortReplay ----\nEXTENDS MCToposort\nOnlyDef == %s\n====\n" % only)
        runs = [("replay", n, max(len(c["roots"]) for c in replay_cases), "TRUE", 0, True)]
    elif tier == "thorough":
        runs = [("n4_loops_r2", 4, 2, "TRUE", 0, False), ("n4_r3", 4, 3, "FALSE", 0, True), ("n3_loops_r3", 3, 3, "TRUE", 0, True)]
    else:
        runs = [("n4_r1", 4, 1, "FALSE", 0, True), ("n3_loops_r2", 3, 2, "TRUE", 0, True)]
    for name, n, maxroots, loops, minedges, do_trace in runs:
        cfg = "MCToposort_%s.cfg" % name
        module = "MCToposort"
        with open(os.path.join(wd, cfg), "w") as fh:
            if replay_cases is not None:
                fh.write(TS_CFG % (n, maxroots, loops, minedges, "<- OnlyDef"))
                module = "MCToposortReplay"
            else:
                fh.write(TS_CFG % (n, maxroots, loops, minedges, "= {}"))
        casefile = os.path.join(wd, "ts_cases_%s.jsonl" % name)
        cnt = [0, 0, 0]
        with open(casefile, "w") as cf:
            def sink(o):
                cf.write(json.dumps(o, separators=(",", ":")) + "\n")
                cnt[0] += 1
                if o["cyclic"]:
                    cnt[2] += 1
                elif len(o["before"]) >= 2:
                    cnt[1] += 1
                    if len(ev["samples"]) < 2 and len(o["before"]) >= 4 and cnt[0] % 499 == seed % 499:
                        ev["samples"].append({"toposort": o})
            r = vf.tlc(module, cfg, wd, workers=WORKERS, case_sink=sink, timeout=3000)
        if r.violated:
            raise vf.MachineryError("spec-level check %s failed in MCToposort (%s)" % (r.violated, name))
        if replay_cases is None:
            npairs = n * n if loops == "TRUE" else n * (n - 1)
            expect = (2 ** npairs) * sum(n ** k for k in range(maxroots + 1))
            if cnt[0] != expect:
                raise vf.MachineryError("MCToposort %s exported %d cases, expected %d" % (name, cnt[0], expect))
        if cnt[0] == 0:
            raise vf.MachineryError("MCToposort %s exported nothing" % name)
        ev["states"] += r.distinct
        ev["transitions"] += r.generated
        ev["cases"] += cnt[0]
        ev["nontrivial"] += cnt[1]
        ev["toposort_cyclic_cases"] += cnt[2]
        ev["bounds"].append({"component": "toposort", "run": name, "nodes": n, "max_roots": maxroots, "self_loops": loops,
                             "cases": cnt[0], "tlc_states": r.distinct})
        trace_path = os.path.join(wd, "ts_trace_%s.ndjson" % name)
        outp = os.path.join(wd, "ts_mismatch_%s.jsonl" % name)
        args = ["-seed", str(seed)] + (["-trace", trace_path] if do_trace else [])
        rc, _o, err = vf.run_driver(binary, args, stdin_path=casefile, stdout_path=outp, timeout=3000)
        if rc != 0:
            raise vf.MachineryError("toposort driver failed: " + err)
        stats, lines = _read_driver_output(outp, cnt[0], "toposort")
        for m in lines:
            verdict.disagree(m["class"], dict(m["case"], variant=m["variant"]), m["detail"])
        if stats.get("aborted"):
            return
        ev["evaluations"] += stats.get("checks", 0)
        for k, v in stats.get("class_counts", {}).items():
            ev["class_counts"][k] = ev["class_counts"].get(k, 0) + v

        if do_trace and stats.get("trace_records"):
            tcfg = "ToposortTrace_%s.cfg" % name
            with open(os.path.join(wd, tcfg), "w") as fh:
                fh.write(TRACE_CFG % os.path.basename(trace_path))
            tr = vf.tlc("ToposortTrace", tcfg, wd, workers=1, timeout=1500)
            if tr.violated or tr.postcondition_failed or tr.distinct != stats["trace_records"] + 1:
                raise vf.MachineryError("ToposortTrace did not consume the whole trace file (%s)" % name)
            rejected = [int(x.group(1)) for x in re.finditer(r"REJECT (\d+)", open(tr.stdout_path).read())]
            ev["toposort_traces_validated_by_tlc"] += stats["trace_records"]
            ev["toposort_traces_rejected"] += len(rejected)
            if rejected:
                tl = open(trace_path).read().splitlines()
                shown = {}
                for i in rejected:
                    rec = json.loads(tl[i - 1])
                    # a rejected call is classified by what the real code did
                    cls = "toposort:cycle-panic" if "cycle detected" in rec["panic"] else \
                          ("toposort:trace-rejected-panic" if rec["panic"] else "toposort:trace-rejected")
                    shown[cls] = shown.get(cls, 0) + 1
                    if shown[cls] <= 50:
                        verdict.disagree(cls, {"n": rec["n"], "edges": rec["edges"], "roots": rec["roots"]},
                                         "recorded call rejected by Toposort!ValidOrder: out=%s panic=%r" % (rec["out"], rec["panic"]))

        if do_trace and tier == "thorough" and replay_cases is None and ev["binding"].get("toposort_trace") is None:
            # direction B self-test: drop one node from a recorded acyclic output -> TLC must reject exactly it
            tl = open(trace_path).read().splitlines()[:3000]
            k = next((i for i in range((seed * 53) % 1000, len(tl))
                      if '"panic":""' in tl[i] and len(json.loads(tl[i])["out"]) >= 2), None)
            if k is not None:
                rec = json.loads(tl[k])
                rec["out"] = rec["out"][1:]
                keep = [l for l in tl if '"panic":""' in l]
                pos = keep.index(tl[k])
                keep[pos] = json.dumps(rec)
                with open(os.path.join(wd, "ts_trace_selftest.ndjson"), "w") as fh:
                    fh.write("\n".join(keep) + "\n")
                with open(os.path.join(wd, "ToposortTrace_selftest.cfg"), "w") as fh:
                    fh.write(TRACE_CFG % "ts_trace_selftest.ndjson")
                tr = vf.tlc("ToposortTrace", "ToposortTrace_selftest.cfg", wd, workers=1, timeout=600)
                rej = [int(x.group(1)) for x in re.finditer(r"REJECT (\d+)", open(tr.stdout_path).read())]
                if rej != [pos + 1]:
                    raise vf.MachineryError("trace self-test: dropped node in record %d not rejected (rejected: %s)" % (pos + 1, rej))
                ev["binding"]["toposort_trace"] = True

        if ev["binding"].get("toposort") is None and replay_cases is None:
            # binding self-test: damage the expectation of an acyclic case; it must be reported
            head = os.path.join(wd, "ts_selftest.jsonl")
            with open(head, "w") as hf:
                for idx, line in enumerate(open(casefile)):
                    if idx >= 2000:
                        break
                    hf.write(line)
            k = (seed * 131) % 1000
            counts = []
            for extra_args in ([], ["-corrupt", str(k)], ["-corrupt", "0"]):
                rc, o, err = vf.run_driver(binary, ["-seed", str(seed)] + extra_args, stdin_path=head, timeout=3000)
                st = [json.loads(l) for l in o.splitlines() if '"stats"' in l][-1]["stats"]
                counts.append(st["class_counts"])
                if extra_args and st.get("corrupted_case", -1) >= 0:
                    break          # the driver damaged the first agreeing (acyclic) case from k on
            extra = {c: v for c, v in counts[-1].items() if v != counts[0].get(c, 0)} if len(counts) > 1 else {}
            ev["binding"]["toposort"] = bool(extra)
            # if the real code already disagrees beyond the known finding, an unreported corruption is not a harness fault
            if not extra and not verdict.violations:
                raise vf.MachineryError("binding self-test failed: corrupted toposort expectation (case %d) not reported" % k)


# ------------------------------------------------------------------------------------------ trie

def _trie(wd, tier, seed, verdict, replay_hists, ev):
    binary = vf.build_driver("trie")
    # (name, MaxKeyLen, MaxLen, simulate, huge-every)
    if replay_hists is not None:
        if not replay_hists:
            return
        only = _tla_set(_tla(h) for h in replay_hists)
        with open(os.path.join(wd, "MCTrieReplay.tla"), "w") as fh:
            fh.write("---- MODULE MCTrieReplay ----\nEXTENDS MCTrie\nOnlyDef == %s\n====\n" % only)
        runs = [("replay", max([1] + [len(k) for h in replay_hists for k in h]), max(len(h) for h in replay_hists), None, 1)]
    elif tier == "thorough":
        runs = [("k3_l4", 3, 4, None, 500), ("k2_l5", 2, 5, None, 300), ("sim_k4_l9", 4, 9, 100, 50)]
    else:
        runs = [("k3_l3", 3, 3, None, 400), ("k2_l4", 2, 4, None, 0), ("sim_k3_l7", 3, 7, 25, 0)]
    for name, klen, maxlen, sim, huge in runs:
        cfg = "MCTrie_%s.cfg" % name
        module = "MCTrie"
        with open(os.path.join(wd, cfg), "w") as fh:
            if replay_hists is not None:
                fh.write(TRIE_CFG % (klen, maxlen, 0, "<- OnlyDef"))
                module = "MCTrieReplay"
            else:
                fh.write(TRIE_CFG % (klen, maxlen, maxlen, "= {}"))
        casefile = os.path.join(wd, "trie_cases_%s.jsonl" % name)
        cnt = [0, 0]
        seen = set()
        with open(casefile, "w") as cf:
            def sink(o):
                if sim:
                    key = json.dumps(o["hist"])
                    if key in seen:
                        return
                    seen.add(key)
                cf.write(json.dumps(o, separators=(",", ":")) + "\n")
                cnt[0] += 1
                # non-trivial: some query has two or more inserted prefixes at the end
                if any(len(a["p"]) >= 2 for a in o["steps"][-1]):
                    cnt[1] += 1
                    if sum(1 for s in ev["samples"] if "trie" in s) < 1 and cnt[0] % 211 == seed % 211:
                        ev["samples"].append({"trie": {"hist": o["hist"], "queries": o["queries"][:8],
                                                       "last_step_answers": o["steps"][-1][:8]}})
            r = vf.tlc(module, cfg, wd, workers=1 if sim else WORKERS, simulate=sim, depth=maxlen + 2 if sim else None,
                       tseed=seed if sim else None, case_sink=sink, timeout=3000)
        if r.violated:
            raise vf.MachineryError("spec-level check %s failed in MCTrie (%s)" % (r.violated, name))
        if not sim and replay_hists is None:
            expect = (2 ** (klen + 1) - 1) ** maxlen
            if cnt[0] != expect:
                raise vf.MachineryError("MCTrie %s exported %d histories, expected %d" % (name, cnt[0], expect))
        if cnt[0] == 0:
            raise vf.MachineryError("MCTrie %s exported nothing" % name)
        ev["states"] += r.distinct
        ev["transitions"] += r.generated
        ev["cases"] += cnt[0]
        ev["nontrivial"] += cnt[1]
        ev["bounds"].append({"component": "trie", "run": name, "max_key_letters": klen, "max_inserts": maxlen,
                             "simulate": sim, "histories": cnt[0], "tlc_states": r.distinct})
        outp = os.path.join(wd, "trie_mismatch_%s.jsonl" % name)
        rc, _o, err = vf.run_driver(binary, ["-seed", str(seed), "-huge", str(huge)], stdin_path=casefile,
                                    stdout_path=outp, timeout=3000)
        if rc != 0:
            raise vf.MachineryError("trie driver failed: " + err)
        stats, lines = _read_driver_output(outp, cnt[0], "trie")
        for m in lines:
            verdict.disagree(m["class"], {"hist": m["hist"], "query": m.get("query"), "coding": m.get("coding"), "step": m.get("step")},
                             m["detail"])
        if stats.get("aborted"):
            return
        ev["evaluations"] += stats["checks"]
        ev["trie_mismatches"] += stats["mismatches"]
        for k, v in stats["final_impl"].items():
            ev["trie_final_index_width"][k] = ev["trie_final_index_width"].get(k, 0) + v
        for k, v in stats["codings"].items():
            ev["trie_codings"][k] = ev["trie_codings"].get(k, 0) + v

        if ev["binding"].get("trie") is None and replay_hists is None:
            head = os.path.join(wd, "trie_selftest.jsonl")
            with open(head, "w") as hf:
                for idx, line in enumerate(open(casefile)):
                    if idx >= 200:
                        break
                    hf.write(line)
            k0 = (seed * 7919) % min(200, cnt[0])

            def _st(extra_args):
                rc, o, err = vf.run_driver(binary, ["-seed", str(seed)] + extra_args, stdin_path=head, timeout=3000)
                return [json.loads(l) for l in o.splitlines() if '"stats"' in l][-1]["stats"]
            base_m = _st([])["mismatches"]
            ok = False
            for k in (k0, 0):      # the driver damages the first case from k on that agrees with the model
                st = _st(["-corrupt", str(k)])
                if st.get("corrupted_case", -1) >= 0:
                    ok = st["mismatches"] > base_m
                    break
            ev["binding"]["trie"] = ok
            if not ok and not verdict.violations:
                raise vf.MachineryError("binding self-test failed: corrupted trie expectation (from case %d) not reported" % k0)
    # vacuity guard, only meaningful when the trie agreed everywhere: a replay stops at a case's first disagreement
    # (e.g. a panic in Insert), so a broken trie may never get far enough to grow -- that is a verdict, not exit 2
    if replay_hists is None and not ev["trie_mismatches"] and not ev["trie_final_index_width"].get("uint16"):
        raise vf.MachineryError("no trie case crossed the 255-node threshold (vacuous growth coverage)")


def run(pid, tier, replay=None):
    t0 = time.time()
    wd = vf.workdir(pid)
    seed = vf.seed()
    verdict = vf.Verdict(pid)
    ev = {"states": 0, "transitions": 0, "cases": 0, "nontrivial": 0, "evaluations": 0, "samples": [], "bounds": [],
          "toposort_cyclic_cases": 0, "toposort_traces_validated_by_tlc": 0, "toposort_traces_rejected": 0,
          "class_counts": {}, "trie_mismatches": 0, "trie_final_index_width": {}, "trie_codings": {}, "binding": {}}
    ts_replay = trie_replay = None
    if replay:
        rep = json.load(open(replay))
        cases = [e["case"] for e in rep["examples"]]
        ts_replay = [c for c in cases if "kids" in c or "edges" in c]
        for c in ts_replay:
            if "kids" not in c:          # from a rejected trace record
                kids = [[] for _ in range(c["n"])]
                for p, k in c["edges"]:
                    kids[p - 1].append(k)
                c["kids"] = kids
        trie_replay = [c["hist"] for c in cases if "hist" in c]
    _toposort(wd, tier, seed, verdict, ts_replay, ev)
    _trie(wd, tier, seed, verdict, trie_replay, ev)
    rc = verdict.finish()
    vf.write_evidence(pid, tier, "model_checking", {
        "states": ev["states"], "transitions": ev["transitions"],
        "traces_validated_against_impl": ev["cases"],
        "toposort_output_traces_validated_by_tlc": ev["toposort_traces_validated_by_tlc"],
        "toposort_output_traces_rejected": ev["toposort_traces_rejected"],
        "toposort_cases_with_reachable_cycle": ev["toposort_cyclic_cases"],
        "evaluations": ev["evaluations"], "distinct_nontrivial": ev["nontrivial"],
        "rule": "a case = one (digraph, root sequence) replayed on toposort.Sort in 5 variants plus Sorter re-use, or one "
                "trie insertion history replayed under 2-3 byte codings with Prefixes/Get of every query compared after "
                "every insert; evaluations = individual comparisons made by the drivers; non-trivial = an acyclic "
                "reachable part with >= 2 ordering constraints, or a trie history in which some query has >= 2 inserted "
                "prefixes; distinct by case (TLC states are distinct by construction, simulated histories de-duplicated)",
        "samples": ev["samples"] or [{"see": ".work"}],
        "exhaustive": not replay,
        "bounds": ev["bounds"],
        "disagreement_counts_by_class": ev["class_counts"],
        "trie_final_index_width": ev["trie_final_index_width"],
        "trie_codings": ev["trie_codings"],
        "binding_selftest_corrupted_expectation_reported": ev["binding"],
    }, ["Toposort.tla / Trie.tla are the oracles (written from the property statement and the doc comments)",
        "the child order handed to Sort is concretised four ways (ascending, descending, rotated by seed, every child "
        "twice); any children-first order is accepted",
        "on input with a reachable cycle the statement requires termination with every reachable node once; the real "
        "code panics by design (class toposort:cycle-panic)",
        "trie letters are concretised as equal-length distinct byte strings (plus a query-only letter that may be a "
        "proper prefix of another), which preserves the prefix relation",
        "exhaustive only within the stated bounds; longer trie histories are sampled by tlc -simulate (seeded)"],
        time.time() - t0, violations=len(verdict.violations), known=verdict.known_hits)
    return rc
