"""C40: interval.Intersect / interval.Nesting against the naive model Interval.tla.

Direction A: TLC (MCInterval) enumerates every insertion history over the points 0..MaxP up to MaxLen
inserts (exhaustive BFS) and random longer ones (-simulate); each exported history carries the model's
answer after EVERY insert (Insert's result, Entries(), Get(p) for every point and one beyond each side,
and the pairwise may-share-a-nesting-set matrix).  harness/interval replays each history on the real
structures under two concretisations of the point domain (identity + one seeded: other K types, offsets
at the ends of the integer range, strides) and compares after every step.
Direction B: the Nesting observable is relational, so the real Nesting.Sets() observed after every
insert is also recorded and validated by TLC against Interval!NestingOK (IntervalTrace.tla)."""
import json, os, re, time
import vf

CFG = """SPECIFICATION Spec
CONSTANTS
  MaxP = %d
  MaxLen = %d
  ExportLen = %d
  StackMax = %d
  MaxFree = %d
  StackMod = %d
  StackRem = %d
  RepeatWeight = %d
  Only %s
INVARIANTS OracleSane Export
VIEW View
CHECK_DEADLOCK FALSE
"""
TRACE_CFG = """SPECIFICATION Spec
CONSTANTS
  TraceFile = "%s"
POSTCONDITION Consumed
CHECK_DEADLOCK FALSE
"""

WORKERS = int(os.environ.get("VERIF_TLC_WORKERS", "8"))
SIM_REPEAT_WEIGHT = 3


def _tla(v):
    if isinstance(v, (list, tuple)):
        return "<<" + ", ".join(_tla(x) for x in v) + ">>"
    if isinstance(v, str):
        return '"%s"' % v
    return str(v)


def _nontrivial(case):
    # some insert met an earlier interval: split/merge or nesting logic is actually exercised
    return any(not s["ret"] for s in case["steps"][1:])


def _validate_traces(wd, name, trace_path, nrecords, verdict, histories):
    """direction B: TLC checks every recorded Sets() observation against NestingOK."""
    if nrecords == 0:
        return 0
    cfg = "IntervalTrace_%s.cfg" % name
    with open(os.path.join(wd, cfg), "w") as fh:
        fh.write(TRACE_CFG % os.path.basename(trace_path))
    r = vf.tlc("IntervalTrace", cfg, wd, workers=1, timeout=1500)
    if r.violated or r.postcondition_failed:
        raise vf.MachineryError("IntervalTrace did not consume the trace file (%s)" % name)
    if r.distinct != nrecords + 1:
        raise vf.MachineryError("IntervalTrace consumed %d of %d records" % (r.distinct - 1, nrecords))
    rejected = [int(m.group(1)) for m in re.finditer(r'REJECT (\d+)', open(r.stdout_path).read())]
    if rejected:
        lines = open(trace_path).read().splitlines()
        for i in rejected[:200]:
            rec = json.loads(lines[i - 1])
            verdict.disagree("nesting:trace-rejected", {"hist": rec["h"]},
                             "observed Sets() after each insert is not allowed by Interval!NestingOK: %s"
                             % json.dumps(rec["obs"])[:400])
    return len(rejected)


def _trace_selftest(wd, trace_path, seed):
    """direction B self-test: drop one member from one recorded observation -> TLC must reject exactly it."""
    lines = open(trace_path).read().splitlines()[:300]
    k = (seed * 37) % len(lines)
    rec = json.loads(lines[k])
    rec["obs"][-1][0] = rec["obs"][-1][0][1:]          # the first set loses a member (an interval disappears)
    if not rec["obs"][-1][0]:
        rec["obs"][-1] = rec["obs"][-1][1:]
    lines[k] = json.dumps(rec)
    with open(os.path.join(wd, "nesting_selftest.ndjson"), "w") as fh:
        fh.write("\n".join(lines) + "\n")
    with open(os.path.join(wd, "IntervalTrace_selftest.cfg"), "w") as fh:
        fh.write(TRACE_CFG % "nesting_selftest.ndjson")
    r = vf.tlc("IntervalTrace", "IntervalTrace_selftest.cfg", wd, workers=1, timeout=600)
    rejected = [int(m.group(1)) for m in re.finditer(r'REJECT (\d+)', open(r.stdout_path).read())]
    if rejected != [k + 1]:
        raise vf.MachineryError("trace self-test: dropped interval in record %d not rejected (rejected: %s)" % (k + 1, rejected))
    return True


def run(pid, tier, replay=None):
    t0 = time.time()
    wd = vf.workdir(pid)
    binary = vf.build_driver("interval")
    seed = vf.seed()
    verdict = vf.Verdict(pid)

    # (name, MaxP, MaxLen, simulate-num or None, record every k-th history's Nesting trace for TLC (0 = none))
    # NB tlc -simulate evaluates the Export invariant on every successor of the last step, so one
    # simulated behaviour yields |Ivs| histories that share all but the last insert.
    if replay:
        rep = json.load(open(replay))
        hists = [e["case"]["hist"] for e in rep["examples"]]
        maxp = max([4] + [p for h in hists for iv in h for p in iv])
        maxlen = max(len(h) for h in hists)
        only = "{" + ", ".join(sorted(set(_tla(h) for h in hists))) + "}"
        with open(os.path.join(wd, "MCIntervalReplay.tla"), "w") as fh:
            fh.write("---- MODULE MCIntervalReplay ----\nEXTENDS MCInterval\nOnlyDef == %s\n====\n" % only)
        runs = [("replay", maxp, maxlen, None, 1, None)]
    elif tier == "thorough":
        runs = [("exh_p4_l5", 4, 5, None, 0, None), ("exh_p5_l4", 5, 4, None, 1, None), ("exh_p2_l7", 2, 7, None, 4, None),
                ("exh_p1_l10", 1, 10, None, 4, None),
                ("stack_p4_k3_f3", 4, 6, None, 8, (3, 3, 1)), ("stack_p2_k7_f4", 2, 11, None, 8, (7, 4, 1)),
                ("sim_p9_l12", 9, 12, 400, 1, None)]
    else:
        runs = [("exh_p4_l4", 4, 4, None, 5, None), ("exh_p1_l7", 1, 7, None, 2, None),
                ("stack_p3_k3_f3_half", 3, 6, None, 0, (3, 3, 2)),
                ("sim_p7_l9", 7, 9, 25, 0, None)]
    # the last element (k, f, m): "stacked" family = 1..k copies of one base interval, then every sequence of exactly
    # f further inserts (see MCInterval); m > 1: only the base intervals with (7*lo+hi) % m == VERIF_SEED % m (quick
    # samples half of them; thorough takes all).  Simulate runs re-offer earlier intervals with weight SIM_REPEAT_WEIGHT

    states = trans = ncases = nontrivial = checks = traced = rejected_total = 0
    samples, bounds, variants = [], [], {}
    corrupt_ok = None
    trace_selftest = None
    for name, maxp, maxlen, sim, do_trace, stack in runs:
        cfg = "MCInterval_%s.cfg" % name
        module = "MCInterval"
        with open(os.path.join(wd, cfg), "w") as fh:
            if replay:
                fh.write(CFG % (maxp, maxlen, 0, 0, 0, 1, 0, 0, "<- OnlyDef"))
                module = "MCIntervalReplay"
            else:
                smod = stack[2] if stack else 1
                fh.write(CFG % (maxp, maxlen, maxlen, stack[0] if stack else 0, stack[1] if stack else 0,
                                smod, seed % smod, SIM_REPEAT_WEIGHT if sim else 0, "= {}"))
        casefile = os.path.join(wd, "cases_%s.jsonl" % name)
        seen = set()
        cnt = [0, 0]
        with open(casefile, "w") as cf:
            def sink(o):
                if sim:
                    key = json.dumps(o["hist"])
                    if key in seen:
                        return
                    seen.add(key)
                cf.write(json.dumps(o, separators=(",", ":")) + "\n")
                cnt[0] += 1
                if _nontrivial(o):
                    cnt[1] += 1
                    if len(samples) < 3 and cnt[0] % 977 == seed % 977:
                        samples.append(o)
            r = vf.tlc(module, cfg, wd, workers=1 if sim else WORKERS, simulate=sim, depth=maxlen + 2 if sim else None,
                       tseed=seed if sim else None, case_sink=sink, timeout=3000)
        if r.violated:
            raise vf.MachineryError("spec-level check %s failed in MCInterval (%s)" % (r.violated, name))
        if not sim and not replay:
            nivs = (maxp + 1) * (maxp + 2) // 2
            if stack:
                nbase = sum(1 for a in range(maxp + 1) for b in range(a, maxp + 1) if (7 * a + b) % stack[2] == seed % stack[2])
                expect = stack[0] * nbase * nivs ** stack[1]
            else:
                expect = nivs ** maxlen
            if cnt[0] != expect:
                raise vf.MachineryError("MCInterval %s exported %d histories, expected %d" % (name, cnt[0], expect))
        if cnt[0] == 0:
            raise vf.MachineryError("MCInterval %s exported nothing" % name)
        states += r.distinct
        trans += r.generated
        ncases += cnt[0]
        nontrivial += cnt[1]
        bounds.append({"run": name, "points": "0..%d" % maxp, "max_inserts": maxlen, "simulate": sim,
                       "stacked_copies_free_inserts_basemod": list(stack) if stack else None,
                       "histories": cnt[0], "tlc_states": r.distinct})

        trace_path = os.path.join(wd, "nesting_%s.ndjson" % name)
        args = ["-seed", str(seed)]
        if do_trace:
            args += ["-trace", trace_path, "-tracemod", str(do_trace), "-tracerem", str(seed)]
        outp = os.path.join(wd, "mismatch_%s.jsonl" % name)
        rc, _o, err = vf.run_driver(binary, args, stdin_path=casefile, stdout_path=outp, timeout=3000)
        if rc != 0:
            raise vf.MachineryError("interval driver failed: " + err)
        stats = None
        for line in open(outp):
            m = json.loads(line)
            if "stats" in m:
                stats = m["stats"]
                continue
            verdict.disagree(m["class"], {"hist": m["hist"], "variant": m["variant"], "step": m["step"]}, m["detail"])
        if stats and stats.get("aborted"):       # a hang of the real code was reported as a disagreement
            break
        if not stats or stats["cases"] != cnt[0]:
            raise vf.MachineryError("interval driver did not process every case (%s)" % name)
        checks += stats["checks"]
        for k, v in stats["variants"].items():
            variants[k] = variants.get(k, 0) + v
        if do_trace:
            traced += stats["trace_records"]
            rej = _validate_traces(wd, name, trace_path, stats["trace_records"], verdict, None)
            rejected_total += rej
            if trace_selftest is None and tier == "thorough" and not replay and rej == 0:
                trace_selftest = _trace_selftest(wd, trace_path, seed)

        # binding self-test (once per run of the check): a damaged expectation must be reported
        if corrupt_ok is None and not replay:
            head = os.path.join(wd, "selftest.jsonl")
            with open(head, "w") as hf:
                for idx, line in enumerate(open(casefile)):
                    if idx >= 2000:
                        break
                    hf.write(line)
            k0 = (seed * 7919) % min(2000, cnt[0])

            def _st(extra_args):
                rc, o, err = vf.run_driver(binary, ["-seed", str(seed)] + extra_args, stdin_path=head, timeout=3000)
                return [json.loads(l) for l in o.splitlines() if '"stats"' in l][-1]["stats"]
            base_m = _st([])["mismatches"]
            # the driver damages the first case from k0 on that agrees with the model (cases hit by a known finding
            # cannot show one more disagreement); wrap around once if none is left after k0
            corrupt_ok = False
            for k in (k0, 0):
                st = _st(["-corrupt", str(k)])
                if st.get("corrupted_case", -1) >= 0:
                    corrupt_ok = st["mismatches"] > base_m
                    break
            if not corrupt_ok and not verdict.violations:
                raise vf.MachineryError("binding self-test failed: corrupted expectation (from case %d) not reported" % k0)

    rc = verdict.finish()
    vf.write_evidence(pid, tier, "model_checking", {
        "states": states, "transitions": trans,
        "traces_validated_against_impl": ncases,
        "nesting_observation_traces_validated_by_tlc": traced,
        "nesting_traces_rejected": rejected_total,
        "evaluations": checks, "distinct_nontrivial": nontrivial,
        "rule": "a case = one insertion history replayed on Intersect and Nesting with comparison after every "
                "insert (Insert result, Entries(), Get at every point of the domain and one beyond each side, "
                "Nesting.Sets()); evaluations = individual comparisons made by the driver; non-trivial = a history "
                "in which some insert meets an earlier interval; distinct by history",
        "samples": samples or [{"hist": "see .work"}],
        "exhaustive": not replay,
        "bounds": bounds,
        "concretisations": variants,
        "binding_selftest_corrupted_expectation_reported": corrupt_ok,
        "binding_selftest_dropped_trace_member_rejected": trace_selftest,
    }, ["Interval.tla is the oracle (written from the property statement and the doc comments of Intersect/Nesting)",
        "the value of the i-th insert is i, so all values are distinct; with equal values the maximal-run form of "
        "Entries() would not be canonical",
        "'strictly nested' is read as: no shared end point (a pair sharing an end point in one set is reported under "
        "its own class nesting:shared-endpoint)",
        "the point domain is mapped to K by p -> [base+p*stride, base+p*stride+stride-1], which preserves order and "
        "adjacency; K in {int, int8, uint8, int64, uint64} including both ends of the range",
        "exhaustive only within the stated bounds; longer histories are sampled by tlc -simulate (seeded)"],
        time.time() - t0, violations=len(verdict.violations), known=verdict.known_hits)
    return rc
