"""C08: error reporter contract.
  ReporterContract.tla  the observable contract (callbacks + result), from the statement
  Reporter.tla          reporter.Handler tree as the compiler uses it (root mutex, latch, sub-handlers);
                        TLC checks it IMPLEMENTS the contract (refinement) + mutual exclusion + termination
  ReporterTrace.tla     callback traces of real compilations validated against the contract
Cases (per-file error/warning items x abort policy) are exported by TLC from MCReporter and rendered
into real multi-file workspaces by harness/reporterdrv."""
import json, os, time
import vf

MC = """SPECIFICATION Spec
CONSTANTS
  Tasks = {%s}
  ItemSeqs <- MCItemSeqs
  AbortAtMax = %d
INVARIANTS MutualExclusion SuccessOnlyIfNothingReported AbortIdentity InvalidWhenAccepted Export
PROPERTIES ImplementsContract Terminates
"""


def run(pid, tier, replay=None):
    t0 = time.time()
    wd = vf.workdir(pid)
    rng = vf.rng()
    verdict = vf.Verdict(pid)
    binary = vf.build_driver("reporterdrv")
    tasks = ["t1", "t2"] if tier == "quick" else ["t1", "t2", "t3"]
    amax = 3 if tier == "quick" else 4
    with open(os.path.join(wd, "MCRep.cfg"), "w") as fh:
        fh.write(MC % (", ".join('"%s"' % t for t in tasks), amax))
    r = vf.tlc("MCReporter", "MCRep.cfg", wd, workers=4 if tier == "quick" else 8, timeout=3000)
    if r.violated:
        raise vf.MachineryError("TLC: %s violated in Reporter model; see %s" % (r.violated, r.stdout_path))
    cases = r.cases
    if not cases:
        raise vf.MachineryError("no cases exported")
    def contended(c):
        """>= 2 files that each make the reporter run (these are the cases where callbacks can overlap)"""
        return sum(1 for its in c["items"].values() if any(i in ("E", "S", "W") for i in its)) >= 2
    if tier == "quick":
        hot = [i for i, c in enumerate(cases) if contended(c)]
        warm = [i for i, c in enumerate(cases) if sum(1 for its in c["items"].values() if "W" in its) >= 2]
        pick = sorted(set(rng.sample(range(len(cases)), min(len(cases), 100)) + rng.sample(hot, min(len(hot), 80))
                          + rng.sample(warm, min(len(warm), 40))))
        pars = (1, 4, 16)
        nseeds = 2
    else:
        pick = range(len(cases)) if len(cases) <= 3000 else rng.sample(range(len(cases)), 3000)
        pars = (1, 2, 4, 16)
        nseeds = 3
    runs = []
    rid = 1
    for ci in pick:
        c = cases[ci]
        for par in pars:
            for s in range(nseeds):
                runs.append({"id": rid, "case": ci, "items": c["items"], "abortAt": c["abortAt"], "mustFail": c["mustFail"],
                             "par": par, "seed": 0 if s == 0 else vf.seed() * 1000 + s, "chain": (rid % 2 == 0)})
                rid += 1
                # flavour: the last task's file is an overriding descriptor.proto that nobody imports explicitly;
                # an error reported while compiling it must still fail the compilation
                last = sorted(c["items"])[-1]
                if s == 1 and len(c["items"]) >= 2 and all(i in ("E", "S") for i in c["items"][last]):
                    runs.append({"id": rid, "case": ci, "items": c["items"], "abortAt": c["abortAt"], "mustFail": c["mustFail"],
                                 "par": par, "seed": vf.seed() * 1000 + 17, "chain": False, "dp": last})
                    rid += 1
    runfile = os.path.join(wd, "runs.jsonl")
    tracefile = os.path.join(wd, "trace_all.ndjson")
    vf.jsonl_write(runfile, runs)
    rc, out, err = vf.run_driver(binary, [tracefile], stdin_path=runfile, timeout=3000)
    if rc != 0:
        raise vf.MachineryError("reporterdrv failed: " + err[-2000:])
    by_id = {x["id"]: x for x in runs}
    results = [json.loads(l) for l in out.splitlines()]
    feats = set()
    for o in results:
        sp = by_id[o["id"]]
        small = {k: sp[k] for k in ("items", "abortAt", "par", "seed", "chain", "dp") if k in sp}
        feats.add((tuple(sorted(tuple(v) for v in sp["items"].values())), sp["abortAt"], sp["par"]))
        if o.get("hung"):
            verdict.disagree("hang", small, "Compile did not return")
        if o["max_inflight"] > 1:
            verdict.disagree("reporter-entered-concurrently", small, "max in flight %d" % o["max_inflight"])
        if o["err_calls_after_abort"] > 0:
            verdict.disagree("error-after-abort", small, "%d Error() calls after the reporter aborted" % o["err_calls_after_abort"])
    # direction B: validate every callback trace against the contract
    traces = []
    cur = None
    for line in open(tracefile):
        if line.startswith('{"abortAt"'):
            cur = [json.loads(line)["id"], [line]]
            traces.append(cur)
        elif cur:
            cur[1].append(line)
    traces = [t for t in traces if '"ev":"Return"' in t[1][-1]]
    ok_traces = 0
    events = 0
    pending = traces
    while pending:
        with open(os.path.join(wd, "trace.ndjson"), "w") as fh:
            for _i, lines in pending:
                fh.writelines(lines)
        tr = vf.tlc("ReporterTrace", "ReporterTrace.cfg", wd, workers=1, timeout=1800)
        if tr.violated is None and not tr.postcondition_failed:
            ok_traces += len(pending)
            events += sum(len(l) for _i, l in pending)
            break
        if tr.postcondition_failed:
            pos = tr.rejected_at or 0
            what = "contract-rejected"
        else:
            import re
            m = re.findall(r"/\\ l = (\d+)", open(tr.stdout_path).read())
            pos = int(m[-1]) - 1 if m else 0
            what = "contract-invariant:" + str(tr.violated)
        acc = 0
        k = 0
        for k, (_i, lines) in enumerate(pending):
            if acc + len(lines) > pos:
                break
            acc += len(lines)
        rid_, lines = pending[k]
        ok_traces += k
        off = pos - acc
        nxt = lines[off].strip() if off < len(lines) else "?"
        ev = json.loads(nxt).get("ev", "?") if nxt.startswith("{") else "?"
        sp = by_id[rid_]
        verdict.disagree(what + ":" + ev, {k2: sp[k2] for k2 in ("items", "abortAt", "par", "seed", "chain", "dp") if k2 in sp},
                         "matched %s then %s" % ([x.strip() for x in lines[:off]][-8:], nxt))
        pending = pending[k + 1:]
        if len(verdict.violations) > 20:
            break
    rc = verdict.finish()
    vf.write_evidence(pid, tier, "model_checking", {
        "states": r.distinct, "transitions": r.generated, "traces_validated_against_impl": ok_traces,
        "trace_events_validated": events, "evaluations": len(results), "distinct_nontrivial": len(feats),
        "rule": "cases = per-file item sequences over {E link error, S syntax error, W warning, N resolver failure} x abort-at-k "
                "policy, exported by TLC from MCReporter; each is rendered to real files and compiled at several parallelism "
                "settings and perturbation seeds; distinct by (multiset of item sequences, abortAt, par)",
        "samples": [cases[pick[0] if not isinstance(pick, range) else 0], cases[len(cases) // 2]],
        "tasks": len(tasks), "cases_exported": len(cases), "exhaustive": tier != "quick" and len(cases) <= 3000,
        "refinement_checked": "Reporter!Spec => ReporterContract!CSpec",
    }, ["ReporterContract.tla states the contract; Reporter.tla models reporter.Handler as used by Compile "
        "(non-positional failures fail the task's result directly and are not routed through the handler)",
        "callbacks sleep ~30us so that a concurrent entry would overlap and be observed"],
        time.time() - t0, violations=len(verdict.violations), known=verdict.known_hits)
    return rc
