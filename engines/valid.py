"""C01 / C02 / C27: checks built on spec/ProtoValid.tla (validity rules + expected descriptor) and the
workspace state machine spec/MCValid.tla.

  C01  accept/reject:   ProtoValid!Broken(ws) = {}  <=>  protocompile.Compiler.Compile succeeds; for a
                        rejected one-rule mutant some reported error must be about the broken rule
  C02  descriptors:     for valid workspaces ProtoValid!Descriptor(ws, f) = projection of
                        linker.Result.FileDescriptorProto(), member by member
  C27  two compilers:   stable Compile vs experimental pipeline (queries.IR + fdp.DescriptorProtoBytes, as
                        internal/testing/dualcompiler/new_adapter.go): same accept/reject, equal descriptors modulo
                        source info; the specification arbitrates and classifies every disagreement

MCValid starts from small valid workspaces and applies additive EDITS (valid results only, up to MaxSize)
and deliberate one-attribute MUTATIONS (accepted only when exactly one named rule breaks; the state is
tagged with that rule).  TLC BFS enumerates every workspace within the bound (exhaustive runs) or samples
longer edit histories (`-simulate`, seeded from VERIF_SEED); every state is exported with valid / broken
rule ids / references with lookup rule ids / expected descriptors and streamed into harness/valid, which
renders (harness/_common/ws, explicit conventions), compiles with the real compiler(s) and compares.

Stand-alone use:  python3 engines/valid.py C01|C02|C27 [quick|thorough] [replay.json]
"""
import json, os, subprocess, sys, time, random

if __name__ == "__main__":
    sys.path.insert(0, os.path.join(os.path.dirname(os.path.dirname(os.path.abspath(__file__))), "lib"))
import vf

DRIVER = "valid"
WORKERS = int(os.environ.get("VERIF_TLC_WORKERS", "6"))
JOBS = int(os.environ.get("VERIF_GO_JOBS", "12"))
MODE = {"C01": "c01", "C02": "c02", "C27": "c27"}

ALL_EDITS = ["AddMsg", "AddEnum", "AddVal", "AddFld", "AddMap", "AddOneof", "AddExt", "AddSvc", "AddMtd",
             "AddImport", "AddRange", "AddRName", "AddDflt", "AddJson", "AddAliasVal", "AddDep", "AddGroup",
             "AddOptUse", "AddOptExt"]
SMALL_EDITS = ["AddVal", "AddImport", "AddRange", "AddRName", "AddDflt", "AddJson", "AddGroup", "AddOptUse"]
ALL_MUTS = ["SetNum", "SetLabel", "Retarget", "SetSyntax", "SetName", "SetPkg", "SetValNum", "DropLeaf",
            "SetMapKey", "SetDflt", "DropAlias", "SetImpKind", "AddEnumRange"]


ALL_KINDS = ["message", "enum", "value", "oneof", "field", "ext", "service", "method"]


def _set(xs):
    return "{" + ", ".join('"%s"' % x for x in xs) + "}"


def cfg(bases, pkgs, maxadds, grow=None, mutbases=None, mutmaxn=9, types=("a", "b", "m"), flds=("zf", "z_f", "zF", "a"),
        vals=("za", "zb"), exts=("zx", "a"), scalars=("int32", "string"), edits=ALL_EDITS, mutadds=SMALL_EDITS,
        muts=ALL_MUTS, wide=ALL_KINDS):
    grow = bases if grow is None else grow
    mutbases = bases if mutbases is None else mutbases
    return """SPECIFICATION Spec
CONSTANTS
  Bases = %s
  Pkg1Ids = %s
  MaxAdds = %d
  GrowBases = %s
  MutBases = %s
  MutMaxN = %d
  WideKinds = %s
  TypeNames = %s
  FldNames = %s
  ValNames = %s
  ExtNames = %s
  ScalarPool = %s
  Edits = %s
  MutAdds = %s
  Muts = %s
INVARIANTS BasesValid Export
CHECK_DEADLOCK FALSE
""" % (_set(bases), _set(pkgs), maxadds, _set(grow), _set(mutbases), mutmaxn, _set(wide), _set(types), _set(flds), _set(vals), _set(exts), _set(scalars),
       _set(edits), _set(mutadds), _set(muts))


# every named rule of ProtoValid!Broken; a tier that exports no mutant for one of them is vacuous for it
ALL_RULES = ["V-import-exists", "V-import-dup", "V-import-cycle", "V-dup-symbol", "V-pkg-symbol",
             "V-p2-label-missing", "V-p3-required", "V-ed-optional", "V-ed-required", "V-oneof-label", "V-map-label",
             "V-map-in-oneof", "V-ext-required", "V-p3-group", "V-ed-group", "V-num-positive", "V-num-max", "V-num-impl-reserved", "V-num-dup",
             "V-num-reserved", "V-name-reserved", "V-num-in-extrange", "V-range-overlap", "V-p3-extrange", "V-rname-dup",
             "V-enum-empty", "V-enum-first-zero", "V-enum-dup-num",
             "V-enum-num-reserved", "V-enum-name-reserved", "V-enum-range-overlap", "V-oneof-empty", "V-map-key", "V-p3-default",
             "V-default-repeated", "V-default-type", "V-default-message", "V-default-enum-value", "V-default-enum-ident",
             "V-json-conflict",
             "V-ref-resolve", "V-ref-kind", "V-ext-range", "V-ext-dup", "V-p3-ext", "V-closed-enum-implicit",
             "V-opt-extendee", "V-opt-dup"]
QUICK_UNCOVERED = ["V-p3-ext"]     # needs an AddExt mutant (thorough only)

SMALL_BASES = ["p2", "p3", "ed", "p2p2", "p3p2", "p2p3", "edp2", "p3p3", "p2pub", "p3pub"]
RICH_BASES = ["R2", "R3", "RE"]
OPT_BASES = ["O2", "O3", "OE"]
SYN_BASES = ["U3", "U3x", "PX"]      # synthetic oneof naming (U3x is outside protoc-certain: C27 only, flagged per case); PX: package q.zab refers to package za


def runs(tier, pid):
    """(name, cfg text, simulate count or None, depth, keep fraction of valid cases, keep fraction of mutants).
    Measured with 4-5 TLC workers on a loaded machine (load 50): rich-mut 2.2k states / 75 s; small-1edit 7.9k / 110 s;
    rich-1edit 2.5k valid / 3.5 min; single-2edits 14.8k / 2.5 min; sim-deep ~1.6k distinct cases / 1 min.
    C02 only looks at valid workspaces: its configurations switch the mutations off (far fewer states)."""
    slow = pid == "C27"          # two compilers per case, ~10 ms
    nomut = dict(muts=[], mutadds=[]) if pid == "C02" else {}

    def c(*a, **kw):
        kw.update(nomut)
        return cfg(*a, **kw)

    if tier == "thorough":
        out = [
            ("rich-mut", c(RICH_BASES + OPT_BASES + SYN_BASES, ["a"], 0, mutadds=SMALL_EDITS + ["AddExt", "AddOptExt"]), None, None, 1.0, 1.0),
            ("small-1edit", c(SMALL_BASES, ["none", "a", "ab"], 1, mutmaxn=0), None, None, 1.0, 1.0),
            ("rich-1edit", c(RICH_BASES + OPT_BASES + SYN_BASES, ["a"], 1, mutmaxn=0, muts=[], mutadds=[]), None, None,
             0.5 if slow else 1.0, 1.0),
            ("single-2edits", c(["p2", "p3", "ed"], ["a"], 2, mutmaxn=1, types=("a", "m"), flds=("zf", "z_f"),
                                vals=("za",), exts=("zx",)), None, None, 0.3 if slow else 1.0, 0.3 if slow else 1.0),
            ("sim-deep", c(SMALL_BASES + RICH_BASES + OPT_BASES + SYN_BASES, ["none", "a", "ab"], 5), 30, 7, 1.0, 1.0),
        ]
        return out[1:] if pid == "C02" else out     # rich-mut without mutations is just the bases themselves
    k = vf.seed() % len(SMALL_BASES)
    sb = SMALL_BASES[k]
    if pid == "C02":
        # valid workspaces only: two small bases (rotating with the seed) grown by one edit, plus the rich / option bases
        two = [SMALL_BASES[(k + i * 5) % len(SMALL_BASES)] for i in range(2)]
        return [("rich+2small-1edit", c(RICH_BASES + OPT_BASES + SYN_BASES + two, ["a"], 1, grow=two), None, None, 1.0, 1.0)]
    return [
        ("rich-mut+small", c(RICH_BASES + OPT_BASES + SYN_BASES + [sb], ["a"], 1, grow=[sb], mutbases=RICH_BASES + ["O2"],
                             wide=["message", "enum", "service"]),
         None, None, 1.0, 0.6 if slow else 1.0),
    ]


RULE = ("a case = one workspace (1-3 files) exported by TLC, compiled by the real compiler(s); feature vector = the set of "
        "rule ids it exercises: syntax per file, declaration kinds and attributes present (labels, map, oneof member, "
        "proto3 optional, default, json_name, extension / reserved ranges, reserved names, streaming, nesting, imports, groups, "
        "allow_alias, deprecated, custom options per element kind), "
        "the broken V-rule of a mutant, and the ProtoLang lookup rule ids (L-/S-/K-/I-, outcome) of every reference; "
        "non-trivial = a mutant, or a workspace with at least one reference or more than four features; distinct by vector")

ASSUMPTIONS = {
    "C01": [
        "protoc is not installed: the oracle is spec/ProtoValid.tla Broken(ws), each rule written from the language definition "
        "and protoc's descriptor.cc / parser.cc and quoted with protoc's error text; the verdict is relative to that specification",
        "decided only inside the modelled fragment (ProtoValid!Covered): 1-3 files, proto2 / proto3 / edition 2023, messages (two "
        "levels), enums (allow_alias), fields with labels and scalar or named types, maps, oneofs, groups, extensions and extension "
        "ranges, reserved ranges / names, defaults (int, bool, string, enum), json_name, deprecated, services with streaming, "
        "plain / public imports, custom options `(name) = 1` on files, messages, fields, enums, values, services, methods; no "
        "features, weak imports, option values other than 1, options on oneofs / extension ranges",
        "excluded as not certain without protoc: a closed (proto2) enum used from a proto3 file by a repeated / optional / oneof / "
        "map field; JSON-name conflicts that involve a custom json_name; float / double defaults; allow_alias without an alias",
        "a rejected mutant must carry an error about its broken rule (table reasonPatterns in harness/valid/cases.go, the "
        "stable compiler's wording); for unresolved references any reference error is accepted (precise classes are C15's)",
        "renderer / parse-back (harness/_common/ws, explicit conventions) are trusted base, cross-checked on every case that parses",
    ],
    "C02": [
        "protoc is not installed: the oracle is spec/ProtoValid.tla Descriptor(ws, f), calibrated by reading the protoc-produced "
        "internal/testdata/*.protoset files (json_name on extensions, proto3_optional, map entries, syntax / edition members)",
        "projection compared: file name, package, syntax, edition, dependency, public_dependency; messages (fields, nested types incl. "
        "map entries in source order, enums, extensions, oneof_decl incl. synthetic, extension / reserved ranges, reserved names, "
        "map_entry); fields (name, number, label, type, type_name, extendee, json_name, oneof_index, proto3_optional, default_value); "
        "enums and values; services and methods (types, streaming); any other member that is set in the real descriptor (options, "
        "unknown fields, weak dependencies) is reported as unexpected",
        "option values: allow_alias, deprecated, map_entry and custom integer options set to 1 (compared by extension number on the "
        "wire form, so known / unknown storage does not matter); other option values are C20's; valid cases the compiler rejects "
        "are C01's business and are skipped here (counted; the run fails as vacuous when more than half are skipped)",
    ],
    "C27": [
        "the experimental compiler is driven exactly like internal/testing/dualcompiler/new_adapter.go: one queries.IR per file, "
        "accepted iff no fatal result and no Error / ICE diagnostic, descriptor through fdp.DescriptorProtoBytes without source info",
        "descriptors are compared member by member over the whole FileDescriptorProto (options messages by deterministic encoding, so "
        "known / unknown storage of extension values does not matter)",
        "spec/ProtoValid.tla arbitrates: a disagreement is classified by the broken rule (mutants), the lookup rule ids of the "
        "unresolved reference (reference mutants), the experimental compiler's normalised first error (valid workspaces it rejects) "
        "or the differing descriptor member plus which side deviates from Descriptor(ws, f)",
        "same case set and fragment as C01, plus (C27 only, spec/MCFeat27.tla) edition-2023 files with features.json_format / "
        "enum_type / field_presence set at file, enclosing message and element level in every combination, with and without the "
        "construct the feature decides (colliding enum value names, first value 1, a default); purely differential, no protoc rule",
    ],
}


def _cancel_timers():
    import threading
    for t in threading.enumerate():
        if isinstance(t, threading.Timer):
            t.cancel()


def _start_driver(binary, mode, wd, name, extra=()):
    outp = os.path.join(wd, "mismatch_%s.jsonl" % name)
    errp = os.path.join(wd, "driver_%s.err" % name)
    fo, fe = open(outp, "wb"), open(errp, "wb")
    p = subprocess.Popen([binary, "-mode", mode, "-j", str(JOBS)] + list(extra), stdin=subprocess.PIPE, stdout=fo,
                         stderr=fe, env=vf.go_env(), cwd=vf.REPO)
    return p, fo, fe, outp, errp


def _finish_driver(p, fo, fe, outp, errp, timeout=3000):
    try:
        p.stdin.close()
    except Exception:
        pass
    try:
        rc = p.wait(timeout=timeout)
    except subprocess.TimeoutExpired:
        p.kill()
        raise vf.MachineryError("driver timed out")
    fo.close()
    fe.close()
    err = open(errp).read()
    stats = None
    for line in err.splitlines():
        if line.startswith("STATS "):
            stats = json.loads(line[6:])
    if stats is None:
        raise vf.MachineryError("driver gave no STATS (rc=%s): %s" % (rc, err[-3000:]))
    if stats.get("harness_errors"):
        raise vf.MachineryError("harness self-check failed (renderer / parse-back / spec mismatch, not a finding): %s"
                                % stats["harness_errors"][:3])
    if rc != 0:
        raise vf.MachineryError("driver failed rc=%s: %s" % (rc, err[-3000:]))
    return stats, vf.jsonl_read(outp)


def _run_one(pid, wd, binary, name, cfgtext, sim, depth, keep_valid, keep_mut, rng, extra=(), cov=False):
    cfgname = "MCValid_%s_%s.cfg" % (pid, name)
    with open(os.path.join(wd, cfgname), "w") as fh:
        fh.write(cfgtext)
    p, fo, fe, outp, errp = _start_driver(binary, MODE[pid], wd, name, extra)
    cnt = {"seen": 0, "sent": 0, "valid": 0, "mutants": 0, "rules": {}}
    seen = set()

    def sink(o):
        if sim:
            h = hash(json.dumps(o["ws"], sort_keys=True))
            if h in seen:
                return
            seen.add(h)
        cnt["seen"] += 1
        if o.get("valid"):
            cnt["valid"] += 1
            keep = keep_valid
        else:
            cnt["mutants"] += 1
            keep = keep_mut
            rule = "+".join(sorted(o.get("broken") or []))
            cnt["rules"][rule] = cnt["rules"].get(rule, 0) + 1
            if pid == "C02":
                return          # C02 is about accepted workspaces only
            if cnt["rules"][rule] <= 2:
                keep = 1.0      # sampling never drops a rule entirely
        if keep < 1.0 and rng.random() >= keep:
            return
        cnt["sent"] += 1
        try:
            p.stdin.write((json.dumps(o, separators=(",", ":")) + "\n").encode())
        except BrokenPipeError:
            raise vf.MachineryError("driver died: " + open(errp).read()[-2000:])

    try:
        r = vf.tlc("MCValid", cfgname, wd, workers=1 if sim else WORKERS, simulate=sim, depth=depth,
                   tseed=vf.seed() if sim else None, case_sink=sink, timeout=2400, coverage=cov)
    except Exception:
        p.kill()
        _cancel_timers()
        raise
    if r.violated:
        p.kill()
        raise vf.MachineryError("spec-level check failed in MCValid/%s: %s (a base workspace is not valid?)" % (name, r.violated))
    if cnt["seen"] == 0:
        p.kill()
        raise vf.MachineryError("MCValid/%s exported no case (vacuous run)" % name)
    if cov and r.coverage_zero:
        # an enabled edit / mutation that never fired would make the bound vacuous for it
        enabled = [a for a in r.coverage_zero if a not in ("Init",)]
        cnt["coverage_zero"] = enabled
    stats, mism = _finish_driver(p, fo, fe, outp, errp)
    return r, cnt, stats, mism


def _run_feat(pid, wd, binary):
    """C27 only: spec/MCFeat27.tla enumerates edition-2023 feature placements (feature x level x value x trigger);
    the driver compiles each with both compilers (differential, no protoc rule involved)."""
    p, fo, fe, outp, errp = _start_driver(binary, MODE[pid], wd, "feat")
    cnt = {"seen": 0}

    def sink(o):
        cnt["seen"] += 1
        try:
            p.stdin.write((json.dumps(o, separators=(",", ":")) + "\n").encode())
        except BrokenPipeError:
            raise vf.MachineryError("driver died: " + open(errp).read()[-2000:])

    try:
        r = vf.tlc("MCFeat27", "MCFeat27.cfg", wd, workers=1, case_sink=sink, timeout=600)
    except Exception:
        p.kill()
        _cancel_timers()
        raise
    if r.violated or cnt["seen"] == 0:
        p.kill()
        raise vf.MachineryError("MCFeat27 failed or exported nothing (%s)" % r.violated)
    stats, mism = _finish_driver(p, fo, fe, outp, errp)
    return r, cnt, stats, mism


def _merge(total, stats):
    for k in ("cases", "evaluations", "compiles", "valid_cases", "invalid_cases", "crosscheck_skipped_syntax_error"):
        total[k] = total.get(k, 0) + stats.get(k, 0)
    for k in ("outcomes", "skipped", "rules", "mismatch_classes"):
        d = total.setdefault(k, {})
        for a, b in (stats.get(k) or {}).items():
            d[a] = d.get(a, 0) + b
    total.setdefault("samples", [])
    for s in stats.get("samples") or []:
        if len(total["samples"]) < 3:
            total["samples"].append(s)


def run(pid, tier, replay=None):
    t0 = time.time()
    wd = vf.workdir(pid)
    binary = vf.build_driver(DRIVER)
    verdict = vf.Verdict(pid)
    rng = random.Random(vf.seed())
    total, bounds = {}, []
    exported_rules = {}
    states = trans = 0
    nontrivial = distinct = 0

    def absorb(mism):
        for m in mism:
            verdict.disagree(m["class"], m["case"], m["detail"])

    if replay:
        rep = json.load(open(replay))
        cases = [e["case"]["replay"] for e in rep["examples"] if isinstance(e.get("case"), dict) and "replay" in e["case"]]
        if not cases:
            raise vf.MachineryError("replay file holds no replayable case")
        p, fo, fe, outp, errp = _start_driver(binary, MODE[pid], wd, "replay")
        for c in cases:
            p.stdin.write((json.dumps(c, separators=(",", ":")) + "\n").encode())
        stats, mism = _finish_driver(p, fo, fe, outp, errp)
        absorb(mism)
        _merge(total, stats)
        nontrivial, distinct = stats.get("distinct_nontrivial", 0), stats.get("distinct_features", 0)
        bounds.append({"run": "replay", "cases": len(cases)})
    else:
        for name, cfgtext, sim, depth, kv, km in runs(tier, pid):
            r, cnt, stats, mism = _run_one(pid, wd, binary, name, cfgtext, sim, depth, kv, km, rng)
            absorb(mism)
            _merge(total, stats)
            for k, v in cnt["rules"].items():
                exported_rules[k] = exported_rules.get(k, 0) + v
            states += r.distinct
            trans += r.generated
            nontrivial = max(nontrivial, stats.get("distinct_nontrivial", 0))
            distinct = max(distinct, stats.get("distinct_features", 0))
            b = {"run": name, "simulate": sim, "exhaustive": sim is None, "keep_valid": kv, "keep_mutants": km,
                 "tlc_states": r.distinct, "exported": cnt["seen"], "valid": cnt["valid"], "mutants": cnt["mutants"],
                 "replayed": cnt["sent"], "tlc_wall_s": round(r.wall, 1)}
            if cnt.get("coverage_zero"):
                b["actions_never_enabled"] = cnt["coverage_zero"]
            bounds.append(b)
        if pid == "C27":
            r, cnt, stats, mism = _run_feat(pid, wd, binary)
            absorb(mism)
            _merge(total, stats)
            states += r.distinct
            trans += r.generated
            bounds.append({"run": "feature-placement", "exhaustive": True, "tlc_states": r.distinct, "exported": cnt["seen"],
                           "replayed": stats.get("cases", 0), "tlc_wall_s": round(r.wall, 1)})
        if tier == "thorough":
            name, cfgtext, sim, depth, kv, km = runs("quick", pid)[0]
            _r, _cnt, st2, mism2 = _run_one(pid, wd, binary, "selftest", cfgtext, sim, depth, 0.3, 0.05, rng,
                                            extra=("-corrupt", "5"))
            if not mism2:
                raise vf.MachineryError("binding self-test: corrupted expectations were not detected")
            bounds.append({"run": "selftest-corrupt", "mismatches_reported": len(mism2)})
        if pid != "C02":
            want = [r for r in ALL_RULES if tier == "thorough" or r not in QUICK_UNCOVERED]
            missing = [r for r in want if not exported_rules.get(r)]
            if missing:
                raise vf.MachineryError("vacuous for rule(s) %s: no mutant breaking exactly that rule was exported" % missing)
        if pid == "C02":
            sk = (total.get("skipped") or {}).get("valid-case-rejected", 0)
            if sk * 2 > max(1, total.get("valid_cases", 0)):
                raise vf.MachineryError("C02 vacuous: %d of %d valid cases were rejected by the compiler" %
                                        (sk, total.get("valid_cases", 0)))
    rc = verdict.finish()
    vf.write_evidence(pid, tier, "model_checking" if pid != "C27" else "exploration", {
        "states": states, "transitions": trans,
        "traces_validated_against_impl": total.get("cases", 0),
        "evaluations": total.get("evaluations", 0),
        "real_compiles": total.get("compiles", 0),
        "valid_cases": total.get("valid_cases", 0), "mutant_cases": total.get("invalid_cases", 0),
        "mutants_by_broken_rule": total.get("rules", {}), "mutants_exported_by_rule": exported_rules,
        "distinct_nontrivial": nontrivial, "distinct_feature_vectors": distinct,
        "rule": RULE,
        "outcomes": total.get("outcomes", {}), "skipped": total.get("skipped", {}),
        "crosscheck_skipped_syntax_error": total.get("crosscheck_skipped_syntax_error", 0),
        "samples": total.get("samples") or [{"note": "no sample recorded"}],
        "exhaustive": any(b.get("exhaustive") and b.get("keep_valid", 0) >= 1.0 and b.get("keep_mutants", 0) >= 1.0
                          for b in bounds),
        "bounds": bounds,
    }, ASSUMPTIONS[pid], time.time() - t0, violations=len(verdict.violations), known=verdict.known_hits)
    return rc


if __name__ == "__main__":
    _pid = sys.argv[1]
    _tier = sys.argv[2] if len(sys.argv) > 2 else "quick"
    _replay = sys.argv[3] if len(sys.argv) > 3 else None
    os.chdir(vf.ROOT)
    try:
        _rc = run(_pid, _tier, _replay)
    except vf.MachineryError as e:
        print("MACHINERY-ERROR:", e, flush=True)
        sys.exit(2)
    print("exit", _rc)
    sys.exit(_rc)
