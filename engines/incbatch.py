"""C35: incremental recompilation equals batch compilation.

Specification (spec/):
  EditHistory.tla     a WORKSPACE STATE MACHINE: small multi-file Protobuf workspaces (per file: existence,
                      package, ordered plain/public imports, pool declarations, absolute references in field /
                      extendee slots, a local defect, a leading comment) and EDIT actions (ChangeFieldType,
                      AddImport, DropImport, AddDecl, RemoveDecl, MoveDecl, BreakFile, RepairFile, AddFile,
                      RemoveFile, RenamePackage, Comment, TouchNoChange; imports may close / open cycles).  Every
                      step records the CHANGED paths (what the caller has to evict), their new content and what the
                      language rules decide with certainty: which files exist, what the request reaches, whether
                      that part has an import cycle and which files depend on it, whether the compile must
                      succeed ("yes"/"no"/"unknown"), which files carry an error of their own.
  MCEditHistory.tla   named initial workspaces, BFS over all histories up to MaxLen (history variable hidden by VIEW:
                      "full" = every history, "trans" = every transition at every depth) and -simulate for long ones.
Driver: harness/incbatch.  A long-lived incremental.Executor + ir.Session replays each history: update the opener,
evict the File keys (both ReportError variants) of the changed paths, run queries.Link and queries.FDS; after EVERY
step the result must equal that of a brand-new executor + session on the current files: same success, identical
deterministic descriptor encodings (with source info), identical rendered canonical report.  Parallelism 1 and 4.
The oracle is this differential relation (stated by the property); the spec supplies histories, changed-path sets
and the cycle classification, and its validity verdict is checked against the fresh compile of every step."""
import json, os, time, collections, concurrent.futures
import vf

WORKERS = int(os.environ.get("VERIF_TLC_WORKERS", "4"))
DRV_WORKERS = int(os.environ.get("VERIF_DRV_WORKERS", "8"))

ALL_EDITS = ["ChangeFieldType", "AddImport", "DropImport", "AddDecl", "RemoveDecl", "MoveDecl", "BreakFile",
             "RepairFile", "AddFile", "RemoveFile", "RenamePackage", "Comment", "TouchNoChange"]

CFG = """SPECIFICATION Spec
CONSTANTS
  Files = {%(files)s}
  Pkgs = {%(pkgs)s}
  DeclPool = {%(decls)s}
  RefNames = {%(refnames)s}
  Slots = {%(slots)s}
  MaxImports = %(maximports)d
  AllowSelf = %(allowself)s
  Defects = {%(defects)s}
  MaxLen = %(maxlen)d
  RunChoices = {%(runs)s}
  EditKinds = {%(edits)s}
  Closing = %(closing)s
  InitNames = {%(inits)s}
  ReqModes = {%(reqs)s}
  ViewMode = "%(view)s"
  ExportAt = "%(exportat)s"
VIEW View
INVARIANTS %(invs)s
CHECK_DEADLOCK FALSE
"""


def _q(xs):
    return ", ".join('"%s"' % x for x in xs)


def _cfg(files="abc", pkgs="pq", decls="ABES", refnames=("A", "E", "S", "Hb"), slots=("f1", "x"), maximports=2,
         allowself=True, defects=("syntax", "unknown", "dup"), maxlen=2, runs=("TRUE",), edits=ALL_EDITS,
         inits=("chain",), reqs=("present",), view="trans", exportat="all"):
    return CFG % dict(files=_q(files), pkgs=_q(pkgs), decls=_q(decls), refnames=_q(refnames), slots=_q(slots),
                      maximports=maximports, allowself="TRUE" if allowself else "FALSE", defects=_q(defects),
                      maxlen=maxlen, runs=", ".join(runs), edits=_q(edits), inits=_q(inits), reqs=_q(reqs),
                      view=view, exportat=exportat, closing="TRUE" if exportat == "end" else "FALSE",
                      invs="Export" if exportat == "end" else "TypeOK LastStepOK Export")


# ------------------------------------------------------------------------------------------------
# helpers

def _features(c):
    """abstract feature vectors of a history: one per step = (edit, validity before -> after, cycle before -> after,
    number of changed paths, existence change)"""
    out = set()
    prev = c["origin"]
    for st in c["steps"]:
        out.add((st["edit"]["op"], prev["valid"], st["valid"], bool(prev["cyclic"]), bool(st["cyclic"]),
                 len(st["changed"]), len(st["exists"]) - len(prev["exists"]), bool(st["run"])))
        prev = st
    return out


def _tlc_cases(module, cfg_name, cfg_text, wd, casefile, simulate=None, depth=None, workers=None, timeout=1500,
               dedupe_prefix=False, limit=None):
    """Run TLC, stream exported histories into casefile.  dedupe_prefix: -simulate evaluates the export invariant
    on every successor of the last step, keep one history per distinct prefix."""
    with open(os.path.join(wd, cfg_name), "w") as fh:
        fh.write(cfg_text)
    seen = set()
    n = [0, 0]
    with open(casefile, "w") as cf:
        def sink(o):
            n[1] += 1
            if limit is not None and n[0] >= limit:
                return
            if dedupe_prefix:
                k = json.dumps([o["origin"]["name"], o["origin"]["req"], [s["edit"] for s in o["steps"][:-1]]], sort_keys=True)
                if k in seen:
                    return
                seen.add(k)
            cf.write(json.dumps(o, separators=(",", ":")) + "\n")
            n[0] += 1
        r = vf.tlc(module, cfg_name, wd, workers=1 if simulate else (workers or WORKERS), simulate=simulate, depth=depth,
                   tseed=vf.seed() if simulate else None, case_sink=sink, timeout=timeout, heap="4g")
    if r.violated:
        raise vf.MachineryError("spec-level invariant %s violated in %s/%s (see %s)" % (r.violated, module, cfg_name, r.stdout_path))
    return r, n[0], n[1]


def _drive(binary, casefile, args=(), timeout=3000):
    rc, out, err = vf.run_driver(binary, list(args), stdin_path=casefile, timeout=timeout)
    if rc != 0:
        raise vf.MachineryError("incbatch driver failed (rc=%s): %s" % (rc, err[-2000:]))
    stats = None
    for line in err.splitlines():
        if line.startswith("STATS "):
            stats = json.loads(line[6:])
    if stats is None:
        raise vf.MachineryError("incbatch printed no STATS: %s" % err[-1000:])
    mism = [json.loads(l) for l in out.splitlines() if l.strip()]
    return mism, stats


def _minimal(ms):
    """shortest failing history per class first (BFS cases are minimal by construction)"""
    return sorted(ms, key=lambda m: (len(m["case"]["steps"]), m.get("step", 0)))


def _feed(verdict, mism, notes):
    """expectation:* = the spec's verdict and the renderer/compiler disagree on the FRESH compile, i.e. the machinery
    is wrong about what it generated; fresh-nondeterministic = the assumption the memoisation rests on (C36) broke.
    Neither is a verdict about C35."""
    for m in _minimal(mism):
        cls = m["class"]
        if cls.startswith("expectation:") or cls.startswith("fresh-nondeterministic"):
            raise vf.MachineryError("spec / harness disagreement %s: %s\ncase=%s" %
                                    (cls, m.get("detail", "")[:1500], json.dumps(m.get("case"))[:1500]))
        if cls.startswith("fresh:"):
            notes[cls] += 1      # the batch compile itself panicked / hung: not a statement about C35
            continue
        c = m["case"]
        slim = {"kind": "hist", "origin": c["origin"], "steps": c["steps"], "final": c["final"],
                "history": [s["edit"] for s in c["steps"]], "failing_step": m.get("step"), "par": m.get("par")}
        verdict.disagree(cls, slim, m.get("detail", ""))


def _merge(total, st):
    for k, v in st.items():
        if isinstance(v, (int, float)) and not isinstance(v, bool):
            total[k] += v


def _selftests(binary, wd, casefile):
    """Binding demonstration: (1) without eviction the differential check must fire on the same cases that pass with
    eviction; (2) a multi-path edit whose changed set is truncated must fire; (3) a flipped validity verdict must be
    rejected as an expectation mismatch."""
    cases = vf.jsonl_read(casefile)
    pick = [c for c in cases if all(not s["cyclic"] for s in c["steps"]) and not c["origin"]["cyclic"]
            and any(s["edit"]["op"] in ("ChangeFieldType", "RemoveDecl", "RenamePackage", "BreakFile") for s in c["steps"])][:24]
    if not pick:
        raise vf.MachineryError("binding self-test: no suitable case")
    f = os.path.join(wd, "selftest.jsonl")
    vf.jsonl_write(f, pick)
    good, _ = _drive(binary, f, ["-workers", "4", "-pars", "1"])
    if good:
        return {"skipped": "the untouched cases already disagree"}
    bad, _ = _drive(binary, f, ["-workers", "4", "-pars", "1", "-no-evict"])
    if not any(m["class"].startswith("stale:") for m in bad):
        raise vf.MachineryError("binding self-test failed: replay without eviction was not rejected")
    res = {"no_evict_rejected": len(bad), "of_cases": len(pick)}
    multi = [c for c in cases if any(len(s["changed"]) > 1 for s in c["steps"]) and all(not s["cyclic"] for s in c["steps"])][:24]
    if multi:
        vf.jsonl_write(f, multi)
        bad, _ = _drive(binary, f, ["-workers", "4", "-pars", "1", "-drop-changed"])
        if not any(m["class"].startswith("stale:") for m in bad):
            raise vf.MachineryError("binding self-test failed: truncated changed-path sets were not rejected")
        res["truncated_changed_rejected"] = len(bad)
    c2 = json.loads(json.dumps(pick[0]))
    st = c2["steps"][-1]
    if st["valid"] in ("yes", "no"):
        st["valid"] = "no" if st["valid"] == "yes" else "yes"
        vf.jsonl_write(f, [c2])
        bad, _ = _drive(binary, f, ["-workers", "1", "-pars", "1"])
        if not any(m["class"].startswith("expectation:") for m in bad):
            raise vf.MachineryError("binding self-test failed: a corrupted validity verdict was not rejected")
        res["flipped_verdict_rejected"] = True
    return res


def _replay(pid, replay, binary, wd):
    rep = json.load(open(replay))
    verdict = vf.Verdict(pid)
    cases = [e["case"] for e in rep.get("examples", []) if e.get("case")]
    f = os.path.join(wd, "replay.jsonl")
    vf.jsonl_write(f, [{"kind": "hist", "origin": c["origin"], "steps": c["steps"], "final": c["final"]} for c in cases])
    mism, _ = _drive(binary, f, ["-workers", "2", "-memo=false"])
    _feed(verdict, mism, collections.Counter())
    print("replayed %d case(s) from %s" % (len(cases), replay))
    return verdict.finish()


# ------------------------------------------------------------------------------------------------

NAME_EDITS = ("AddDecl", "AddFile", "RemoveFile")
DECL_EDITS = ["AddDecl", "RemoveDecl", "MoveDecl", "AddFile", "RemoveFile", "RenamePackage"]


def _plan(tier):
    """(name, cfg, simulate, depth, replay-sample or None = all exported histories)"""
    small = dict(decls="AES", refnames=("A", "Hb"), slots=("f1",), defects=("unknown",))
    rich = dict(refnames=("A", "B", "E", "S", "Ha", "Hb", "Hc"), slots=("f1", "f2", "x"))
    if tier == "thorough":
        return [
            ("bfs2_chain", _cfg(maxlen=2, inits=("chain",), reqs=("present",), view="trans"), None, None, 3000),
            ("bfs2_public", _cfg(maxlen=2, inits=("public",), reqs=("present", "a"), view="trans", **small), None, None, 1500),
            ("bfs2_hole_cycle", _cfg(maxlen=2, inits=("hole", "cycle"), reqs=("present",), view="trans", **small), None, None, 1500),
            ("bfs3_decls", _cfg(maxlen=3, inits=("late", "twins"), reqs=("present",), view="full", decls="ABES", refnames=("A",),
                                slots=("f1",), defects=("unknown",), edits=DECL_EDITS), None, None, 3000),
            ("sim_long", _cfg(files="abcd", maxlen=24, inits=("chain", "public", "flat", "hole", "cycle", "twins", "late"),
                              reqs=("present", "a", "all"), runs=("TRUE", "FALSE"), view="full", exportat="end", **rich), 200, 26, None),
        ]
    return [
        ("bfs2", _cfg(maxlen=2, inits=("hole", "twins"), reqs=("present",), view="trans", allowself=False, decls="AB",
                      refnames=("A",), slots=("f1",), defects=("unknown",)), None, None, 300),
        ("sim", _cfg(files="abcd", maxlen=12, inits=("chain", "public", "cycle", "late"), reqs=("present", "a"),
                     runs=("TRUE", "FALSE"), view="full", exportat="end", **rich), 14, 14, None),
    ]


def run(pid, tier, replay=None):
    if pid != "C35":
        raise vf.MachineryError("engine incbatch does not serve " + pid)
    t0 = time.time()
    wd = vf.workdir(pid)
    binary = vf.build_driver("incbatch")
    if replay:
        return _replay(pid, replay, binary, wd)
    rng = vf.rng()
    runs = _plan(tier)
    verdict = vf.Verdict(pid)
    notes = collections.Counter()
    total = collections.Counter()
    classes = collections.Counter()
    feats = set()
    states = trans = exported = replayed = 0
    bounds = []
    samples = []
    selftest = None

    # all TLC runs are started up front (<= 3 JVMs, <= 6 TLC workers), each in its own directory;
    # the driver replays a run's histories as soon as that run is complete
    def gen(name, cfg, sim, depth):
        sub = os.path.join(wd, name)
        os.makedirs(sub, exist_ok=True)
        return _tlc_cases("MCEditHistory", "MCEditHistory_%s.cfg" % name, cfg, sub, os.path.join(wd, "cases_%s_all.jsonl" % name),
                          simulate=sim, depth=depth, dedupe_prefix=bool(sim), workers=2,
                          timeout=600 if tier == "quick" else 2400)
    pool = concurrent.futures.ThreadPoolExecutor(max_workers=3)
    futs = {name: pool.submit(gen, name, cfg, sim, depth) for name, cfg, sim, depth, _ in runs}
    try:
        byfut = {f: name for name, f in futs.items()}
        plan = {name: (cfg, sim, depth, nsample) for name, cfg, sim, depth, nsample in runs}
        for fut in concurrent.futures.as_completed(list(byfut)):
            name = byfut[fut]
            cfg, sim, depth, nsample = plan[name]
            allfile = os.path.join(wd, "cases_%s_all.jsonl" % name)
            r, n, nexp = fut.result()
            t_drive = time.time()
            if not sim:
                states += r.distinct
            trans += r.generated
            exported += n
            casefile = allfile
            if nsample is not None and n > nsample:
                cases = vf.jsonl_read(allfile)
                # always replayed: every single-edit history, and every history made only of declaration / file
                # additions and removals (the edits that give names new intern ids in a long-lived session)
                def always(c):
                    return len(c["steps"]) == 1 or all(st["edit"]["op"] in NAME_EDITS for st in c["steps"])
                short = [c for c in cases if always(c)]
                rest = [c for c in cases if not always(c)]
                sel = short + vf.sample(rng, rest, max(0, nsample - len(short)))
                casefile = os.path.join(wd, "cases_%s.jsonl" % name)
                vf.jsonl_write(casefile, sel)
            with open(casefile) as fh:
                for line in fh:
                    c = json.loads(line)
                    feats |= _features(c)
                    if len(samples) < 3 and len(c["steps"]) >= 2 and not any(x["run"] == name for x in samples) \
                            and any(s["valid"] == "no" for s in c["steps"]) and any(s["valid"] == "yes" for s in c["steps"]):
                        samples.append({"run": name, "origin": c["origin"]["name"], "request_mode": c["origin"]["req"],
                                        "history": [dict(s["edit"], changed=s["changed"], valid=s["valid"], cyclic=s["cyclic"],
                                                         run=s["run"]) for s in c["steps"][:8]]})
            mism, st = _drive(binary, casefile, ["-workers", str(DRV_WORKERS), "-pars", "1,4"])
            _merge(total, st)
            for k, v in st.get("classes", {}).items():
                classes[k] += v
            replayed += st["cases"]
            _feed(verdict, mism, notes)
            bounds.append({"run": name, "simulate": sim, "depth": depth, "tlc_states": r.distinct, "tlc_generated": r.generated,
                           "histories_exported": n, "histories_replayed": st["cases"], "steps": st["steps"],
                           "compares": st["compares"], "cyclic_steps": st["cyclic_steps"],
                           "tlc_wall_s": round(r.wall, 1), "replay_wall_s": round(time.time() - t_drive, 1)})
            if selftest is None and not sim:
                t_self = time.time()
                selftest = _selftests(binary, wd, casefile)
                selftest["wall_s"] = round(time.time() - t_self, 1)
    finally:
        pool.shutdown(wait=True, cancel_futures=True)
    bounds.sort(key=lambda b: [x[0] for x in runs].index(b["run"]))
    if total["compares"] == 0 or total["valid_yes"] == 0 or total["valid_no"] == 0 or total["cyclic_steps"] == 0:
        raise vf.MachineryError("vacuous run: %s" % dict(total))
    rc = verdict.finish()
    vf.write_evidence(pid, tier, "model_checking", {
        "states": states, "transitions": trans,
        "traces_validated_against_impl": replayed,
        "evaluations": total["compares"], "distinct_nontrivial": len(feats),
        "rule": "a case = one edit history of EditHistory.tla from a named initial workspace (BFS: every history / every "
                "transition up to the length bound; -simulate: long random ones), replayed on a long-lived executor + session "
                "at parallelism 1 and 4.  evaluations = step-wise comparisons incremental vs brand-new executor (success, "
                "per-file deterministic descriptor bytes incl. source info, rendered canonical report, FDS query bytes); "
                "distinct_nontrivial = distinct step feature vectors (edit kind, validity before/after, cycle before/after, "
                "#changed paths, existence change, compiled or eviction-only).  states/transitions are TLC's for the BFS runs "
                "(simulation runs add generated states only)",
        "samples": samples, "exhaustive": True, "bounds": bounds,
        "driver": {k: total[k] for k in sorted(total)},
        "binding_selftest": selftest, "mismatch_classes": dict(classes), "notes": dict(notes),
    }, ["the oracle is the differential relation the property states (incremental result == result of a brand-new executor "
        "+ session on the same files); EditHistory.tla supplies the histories, the changed-path set of every step and the "
        "cycle classification; its validity verdict ('yes'/'no' when the language rules decide it) and the set of files "
        "that must carry an error are checked against the fresh compile of every step (a mismatch is a machinery error)",
        "evicted keys per step: queries.File{Opener, Path, ReportError: false} and {..., true} of exactly the changed paths; "
        "the opener object is the same (pointer) for the life of the executor, only its content changes, and never during a Run",
        "steps whose reachable import graph has a cycle (spec: HasCycle) compare only success/failure and the descriptors of "
        "files that do not depend on the cycle: which cycle member reports the cycle is schedule-dependent even for a batch "
        "compile (known finding of C36, class schedule:cyclic-import-graph)",
        "fresh compiles are memoised per exact input (file texts, request, parallelism) and every 8th memo hit of an acyclic "
        "input is recompiled and must give the same observation (0 differences in this run), i.e. batch determinism (C36) "
        "is assumed for acyclic inputs and spot-checked",
        "concrete .proto text per abstract file is the Go renderer's (proto2; absolute type names; one host message per file)",
        "the executor model itself (IncExec.tla: FreshValue, EvictExact) belongs to C33/C34; this check binds the query layer "
        "(keys of File/AST/IR/Link/FDS, their dependency edges, the session) by differential replay only"],
        time.time() - t0, violations=len(verdict.violations), known=verdict.known_hits)
    return rc
